(* C20_schema_walk, the stronger question: was the unchecked assertion
     subchartValues := values[subchart.Name()].(map[string]interface{})
   of ValidateAgainstSchema (before a1cf667) safe on the values ToRenderValues passes to it,
   i.e. behind CoalesceValues?  Over the shared model Values/Coalesce.v:
     - YES when sibling subcharts have distinct names at every level ([uniq]): after
       coalesce every subchart has a table under its name, recursively ([slots]);
     - NO in general: with two sibling subcharts of one name and a subchart that is itself
       called "global", the second sibling's coalesceGlobals pass overwrites a table made
       for a grandchild of the first with a scalar ([cex]); the real pre-a1cf667 code
       panics on it (replayed), the repaired walk reports an error. *)
From Coq Require Import List String Bool.
From Helm Require Import Values.Tree Values.Coalesce Misc.Panics Misc.PanicsSchema.
Import ListNotations.
Local Open Scope string_scope.

Lemma mget_mset_same k v m : mget k (mset k v m) = Some v.
Proof.
  induction m as [|[k' v'] t IH]; simpl.
  - now rewrite String.eqb_refl.
  - destruct (String.eqb k k') eqn:E; simpl; rewrite ?String.eqb_refl, ?E; auto.
Qed.

Lemma mget_mset_diff k k' v m : k <> k' -> mget k' (mset k v m) = mget k' m.
Proof.
  intros Hn. induction m as [|[k2 v2] t IH]; simpl.
  - destruct (String.eqb k' k) eqn:E; auto. apply String.eqb_eq in E. congruence.
  - destruct (String.eqb k k2) eqn:E; simpl.
    + apply String.eqb_eq in E. subst k2.
      destruct (String.eqb k' k) eqn:E2; auto. apply String.eqb_eq in E2. congruence.
    + destruct (String.eqb k' k2); auto.
Qed.

Section CInd.
  Variable P : chart -> Prop.
  Hypothesis H : forall n vals deps, Forall P deps -> P (mkChart n vals deps).
  Fixpoint cchart_ind (c : chart) : P c :=
    match c with
    | mkChart n vals deps =>
        H n vals deps ((fix go (l : list chart) : Forall P l :=
                          match l with
                          | [] => Forall_nil _
                          | x :: t => Forall_cons _ (cchart_ind x) (go t)
                          end) deps)
    end.
End CInd.

Lemma coalesce_as_loop merge n vals deps dest :
  coalesce merge (mkChart n vals deps) dest = coalesce_deps_loop merge deps (cv_loop merge deps vals dest).
Proof.
  simpl. generalize (cv_loop merge deps vals dest) as d.
  induction deps as [|s t IH]; intros d; [reflexivity|].
  simpl. destruct (mget (cname s) d) as [[]|]; try reflexivity.
  - destruct (coalesce merge s (coalesce_globals m d)); [apply IH|reflexivity].
  - destruct (coalesce merge s (coalesce_globals [] (mset (cname s) (VMap []) d))); [apply IH|reflexivity].
Qed.

Lemma loop_other merge : forall ds dest r k,
  coalesce_deps_loop merge ds dest = Some r ->
  (forall d, In d ds -> cname d <> k) ->
  mget k r = mget k dest.
Proof.
  induction ds as [|s t IH]; intros dest r k H Hn; simpl in H.
  - inversion H; subst. reflexivity.
  - assert (Hs : cname s <> k) by (apply Hn; now left).
    assert (Ht : forall d, In d t -> cname d <> k) by (intros d Hd; apply Hn; now right).
    destruct (mget (cname s) dest) as [[]|] eqn:G; try discriminate.
    + destruct (coalesce merge s (coalesce_globals m dest)) as [rs|]; [|discriminate].
      rewrite (IH _ _ _ H Ht). now apply mget_mset_diff.
    + destruct (coalesce merge s (coalesce_globals [] (mset (cname s) (VMap []) dest))) as [rs|]; [|discriminate].
      rewrite (IH _ _ _ H Ht). rewrite mget_mset_diff by assumption. now apply mget_mset_diff.
Qed.

(* with distinct sibling names, what the loop leaves under a subchart's name is the result
   of coalescing that subchart *)
Lemma loop_at merge : forall ds dest r sub,
  NoDup (map cname ds) -> In sub ds ->
  coalesce_deps_loop merge ds dest = Some r ->
  exists dv rs, coalesce merge sub dv = Some rs /\ mget (cname sub) r = Some (VMap rs).
Proof.
  induction ds as [|s t IH]; intros dest r sub Hnd Hin H; [inversion Hin|].
  simpl in Hnd. inversion Hnd as [|? ? Hnotin Hnd']; subst.
  simpl in H. destruct Hin as [->|Hin].
  - assert (Hrest : forall d, In d t -> cname d <> cname sub).
    { intros d Hd E. apply Hnotin. rewrite <- E. now apply in_map. }
    destruct (mget (cname sub) dest) as [[]|] eqn:G; try discriminate.
    + destruct (coalesce merge sub (coalesce_globals m dest)) as [rs|] eqn:C; [|discriminate].
      exists (coalesce_globals m dest), rs. split; [assumption|].
      rewrite (loop_other _ _ _ _ _ H Hrest). apply mget_mset_same.
    + destruct (coalesce merge sub (coalesce_globals [] (mset (cname sub) (VMap []) dest))) as [rs|] eqn:C; [|discriminate].
      exists (coalesce_globals [] (mset (cname sub) (VMap []) dest)), rs. split; [assumption|].
      rewrite (loop_other _ _ _ _ _ H Hrest). apply mget_mset_same.
  - destruct (mget (cname s) dest) as [[]|] eqn:G; try discriminate.
    + destruct (coalesce merge s (coalesce_globals m dest)) as [rs0|]; [|discriminate].
      exact (IH _ _ _ Hnd' Hin H).
    + destruct (coalesce merge s (coalesce_globals [] (mset (cname s) (VMap []) dest))) as [rs0|]; [|discriminate].
      exact (IH _ _ _ Hnd' Hin H).
Qed.

(* sibling subcharts have distinct names, at every level *)
Inductive uniq : chart -> Prop :=
| uniq_intro n vals deps : NoDup (map cname deps) -> Forall uniq deps -> uniq (mkChart n vals deps).

(* every subchart has a table under its name, recursively *)
Inductive slots : list chart -> vmap -> Prop :=
| slots_nil v : slots [] v
| slots_cons sub t v m : mget (cname sub) v = Some (VMap m) -> slots (cdeps sub) m -> slots t v ->
                         slots (sub :: t) v.

Lemma slots_of_forall ds v :
  (forall sub, In sub ds -> exists m, mget (cname sub) v = Some (VMap m) /\ slots (cdeps sub) m) ->
  slots ds v.
Proof.
  induction ds as [|s t IH]; intros H; [constructor|].
  destruct (H s (or_introl eq_refl)) as [m [Hm Hs]].
  econstructor; eauto. apply IH. intros sub Hin. apply H. now right.
Qed.

Theorem coalesce_makes_slots merge : forall c,
  uniq c -> forall dest r, coalesce merge c dest = Some r -> slots (cdeps c) r.
Proof.
  induction c as [n vals deps IH] using cchart_ind. intros Hu dest r H.
  inversion Hu as [? ? ? Hnd Hud]; subst. simpl.
  rewrite coalesce_as_loop in H.
  apply slots_of_forall. intros sub Hin.
  destruct (loop_at merge _ _ _ sub Hnd Hin H) as [dv [rs [Hc Hr]]].
  exists rs. split; [exact Hr|].
  rewrite Forall_forall in IH, Hud. exact (IH sub Hin (Hud sub Hin) dv rs Hc).
Qed.

(* the chart as the schema walk sees it *)
Section Walk.
  Variable S : Type.
  Variable schema_of : chart -> option S.
  Variable lib_validate : S -> vmap -> res bool.

  Fixpoint to_schart (c : chart) : schart S :=
    match c with
    | mkChart n vals deps =>
        SChart S n (schema_of c)
               ((fix go (l : list chart) : list (schart S) :=
                   match l with [] => [] | x :: t => to_schart x :: go t end) deps)
    end.

  Lemma to_schart_deps n vals deps :
    to_schart (mkChart n vals deps) = SChart S n (schema_of (mkChart n vals deps)) (map to_schart deps).
  Proof.
    simpl.
    assert (E : forall l, (fix go (l : list chart) : list (schart S) :=
                             match l with [] => [] | x :: t => to_schart x :: go t end) l = map to_schart l).
    { induction l as [|x t IH]; [reflexivity|]. simpl. now rewrite IH. }
    now rewrite E.
  Qed.

  (* the walk with the UNCHECKED assertion does not panic on values that have the slots *)
  Theorem unchecked_walk_safe_on_slots : forall c v,
    slots (cdeps c) v -> no_panic (validate_schema S lib_validate false (to_schart c) v).
  Proof.
    induction c as [n vals deps IH] using cchart_ind. intros v Hs.
    rewrite to_schart_deps. simpl in Hs. simpl.
    match goal with |- no_panic (bind ?r _) => assert (Hown : no_panic r) end.
    { destruct (schema_of (mkChart n vals deps)); simpl; auto.
      unfold validate_single. destruct (lib_validate s v); simpl; auto. }
    match goal with |- no_panic (bind ?r _) => destruct r as [own| |] end; simpl in *; auto.
    match goal with |- no_panic (bind ?r _) => assert (Hr : no_panic r) end.
    { clear Hown own. induction deps as [|sub t IHt]; simpl; auto.
      inversion IH as [|? ? Hsub Ht]; subst. inversion Hs as [|? ? ? m Hm Hsm Hst]; subst.
      destruct sub as [sn sv sd]. rewrite to_schart_deps. simpl in Hm. rewrite Hm. simpl.
      specialize (Hsub m Hsm). rewrite to_schart_deps in Hsub.
      match goal with |- no_panic (bind ?r _) => assert (Hx : no_panic r) by exact Hsub; destruct r end;
        simpl in *; auto.
      specialize (IHt Ht Hst).
      match goal with |- no_panic (bind ?r _) => assert (Hy : no_panic r) by exact IHt; destruct r end;
        simpl in *; auto. }
    match goal with |- no_panic (bind ?r _) => destruct r end; simpl in *; auto.
  Qed.

  (* ToRenderValues before a1cf667, for charts whose sibling subcharts have distinct names *)
  Theorem to_render_values_unchecked_safe : forall c vals v,
    uniq c -> coalesce_values_root c vals = Some v ->
    no_panic (validate_schema S lib_validate false (to_schart c) v).
  Proof.
    intros c vals v Hu H. apply unchecked_walk_safe_on_slots.
    exact (coalesce_makes_slots false c Hu vals v H).
  Qed.
End Walk.

(* the counter-example without [uniq] *)
Definition cex : chart :=
  mkChart "top" []
    [ mkChart "a" [] [ mkChart "global" [] [ mkChart "h" [] [ mkChart "i" [] [] ] ] ];
      mkChart "global" [("h", VMap [("i", VStr "five")])] [];
      mkChart "a" [] [] ].

Lemma cex_coalesces : exists v, coalesce_values_root cex [] = Some v.
Proof. eexists. vm_compute. reflexivity. Qed.

Lemma cex_unchecked_walk_panics :
  match coalesce_values_root cex [] with
  | Some v => is_panic (validate_schema unit (fun _ _ => Ok true) false (to_schart unit (fun _ => None) cex) v)
  | None => false
  end = true.
Proof. vm_compute. reflexivity. Qed.

Lemma cex_checked_walk_errors :
  match coalesce_values_root cex [] with
  | Some v => validate_schema unit (fun _ _ => Ok true) true (to_schart unit (fun _ => None) cex) v
  | None => Panic "no values"
  end = Ok false.
Proof. vm_compute. reflexivity. Qed.

Definition uniq_example : chart :=
  mkChart "top" [("a", VMap [("k", VStr "v")])]
    [ mkChart "a" [] [ mkChart "x" [] []; mkChart "y" [] [] ]; mkChart "b" [] [ mkChart "x" [] [] ] ].

Lemma uniq_example_ok : uniq uniq_example /\ exists v, coalesce_values_root uniq_example [] = Some v.
Proof.
  split.
  - repeat (constructor; simpl; try (intros [H|H]; try discriminate H; try (destruct H as [H|H]; try discriminate H; try contradiction); try contradiction); try tauto).
  - eexists. vm_compute. reflexivity.
Qed.

Lemma cex_refutes :
  exists c : chart,
    (exists v, coalesce_values_root c [] = Some v) /\
    match coalesce_values_root c [] with
    | Some v => is_panic (validate_schema unit (fun _ _ => Ok true) false (to_schart unit (fun _ => None) c) v)
    | None => false
    end = true /\
    match coalesce_values_root c [] with
    | Some v => validate_schema unit (fun _ _ => Ok true) true (to_schart unit (fun _ => None) c) v
    | None => Panic "no values"
    end = Ok false.
Proof. exists cex. exact (conj cex_coalesces (conj cex_unchecked_walk_panics cex_checked_walk_errors)). Qed.

(* Facts about the constraint language of Misc/Constraint.v:
   - the transcribed regular expressions / operator table are those of the pinned library
     (translator table Gen/C18Semver.v);
   - [sat "*" v = is_stable v], the hypothesis of the abstract query theorems, holds of the
     concrete checker, and the query theorems of IndexProofs.v are instantiated with it;
   - characterising lemmas a reader can compare with the library's documentation. *)
From Coq Require Import List String Ascii Bool NArith Lia ZifyBool ZifyN Sorting.Permutation Sorting.Sorted.
From Helm Require Import Misc.Semver Misc.SemverProofs Misc.Constraint Misc.Index Misc.IndexProofs.
From Helm Require Gen.C18Semver.
Import ListNotations.
Local Open Scope string_scope.

(* ---------- the transcription is of the pinned source ---------- *)

Definition cfunc_name (f : cfunc) : string :=
  match f with
  | FTildeOrEqual => "constraintTildeOrEqual"
  | FNotEqual => "constraintNotEqual"
  | FGreaterThan => "constraintGreaterThan"
  | FLessThan => "constraintLessThan"
  | FGreaterThanEqual => "constraintGreaterThanEqual"
  | FLessThanEqual => "constraintLessThanEqual"
  | FTilde => "constraintTilde"
  | FCaret => "constraintCaret"
  end.

(* the release and the file Constraint.v was transcribed from *)
Definition transcribed_version : string := "v3.3.0".
Definition transcribed_sha256 : string :=
  "ff4f338bd640d8fe0d3d1a12f5805b62bfedf7fd3824f8c88c160133f512db8a".

Lemma transcription_source :
  C18Semver.semver_version = transcribed_version /\
  C18Semver.semver_constraints_sha256 = transcribed_sha256.
Proof. split; reflexivity. Qed.

Lemma regexes_transcribed :
  [ ("constraintRegex", show_re constraint_re); ("constraintRangeRegex", show_re range_re);
    ("findConstraintRegex", show_re find_re); ("validConstraintRegex", show_re valid_re) ]
  = C18Semver.semver_regexes /\
  (* capturing groups carry the numbers Go gives them (order of the opening parentheses) *)
  numbered constraint_re 1 = Some 12 /\ numbered range_re 1 = Some 21 /\
  numbered find_re 1 = Some 12 /\ numbered valid_re 1 = Some 25.
Proof. vm_compute. repeat split; reflexivity. Qed.

Lemma ops_transcribed :
  map (fun p => (fst p, cfunc_name (snd p))) constraint_ops = C18Semver.semver_constraint_ops.
Proof. reflexivity. Qed.

(* ---------- small facts ---------- *)

Definition plain (f : cfunc) (con : version) : constr := mkConstr f con false false false.
Definition release (M m p : N) : version := mkVersion M m p [] "" "".

(* comparisons of a release with a release are comparisons of number triples; everything
   numeric below is reduced to Boolean formulas over <? and =? on N and left to lia *)
Definition tlt (a b c A B C : N) : bool :=
  ((a <? A) || ((a =? A) && ((b <? B) || ((b =? B) && (c <? C)))))%N.
Definition teq (a b c A B C : N) : bool := ((a =? A) && (b =? B) && (c =? C))%N.

Lemma lex3 (a b c A B C : N) :
  let r := lex (a ?= A)%N (lex (b ?= B)%N (lex (c ?= C)%N Eq)) in
  match r with Lt => true | _ => false end = tlt a b c A B C /\
  match r with Gt => true | _ => false end = tlt A B C a b c /\
  match r with Eq => true | _ => false end = teq a b c A B C.
Proof.
  unfold tlt, teq, lex.
  destruct (N.compare_spec a A); destruct (N.compare_spec b B); destruct (N.compare_spec c C);
    simpl; repeat split; lia.
Qed.

Lemma vless_rel a b c me o A B C me' o' :
  vless (mkVersion a b c [] me o) (mkVersion A B C [] me' o') = tlt a b c A B C.
Proof. unfold vless, vcompare, key_compare, vkey. simpl. apply (lex3 a b c A B C). Qed.

Lemma vgt_rel a b c me o A B C me' o' :
  vgt (mkVersion a b c [] me o) (mkVersion A B C [] me' o') = tlt A B C a b c.
Proof. unfold vgt, vcompare, key_compare, vkey. simpl. apply (lex3 a b c A B C). Qed.

Lemma veqb_rel a b c me o A B C me' o' :
  veqb (mkVersion a b c [] me o) (mkVersion A B C [] me' o') = teq a b c A B C.
Proof. unfold veqb, vcompare, key_compare, vkey. simpl. apply (lex3 a b c A B C). Qed.

Lemma if_bool (b x y : bool) : (if b then x else y) = (b && x) || (negb b && y).
Proof. destruct b, x, y; reflexivity. Qed.

(* unfold one check of a version given by its fields against constraints on releases *)
Ltac unfold_checks :=
  unfold ccheck, plain, release, c_tilde_or_equal, c_tilde, c_not_equal, c_greater_than, c_less_than,
    c_greater_than_equal, c_less_than_equal, c_caret, pre_excluded, has_pre, is_stable, vgeb, vle;
  cbn [k_fn k_con k_minor_dirty k_dirty k_patch_dirty vmajor vminor vpatch vpre negb andb orb].

Ltac numeric :=
  rewrite ?vless_rel, ?vgt_rel, ?veqb_rel; unfold tlt, teq; rewrite ?if_bool; lia.

(* the checker looks at the constraint's version only through its precedence key: build
   metadata and spelling of the version written in a constraint are ignored *)
Lemma ccheck_key v c c' :
  k_fn c = k_fn c' -> vkey (k_con c) = vkey (k_con c') ->
  k_minor_dirty c = k_minor_dirty c' -> k_dirty c = k_dirty c' -> k_patch_dirty c = k_patch_dirty c' ->
  ccheck v c = ccheck v c'.
Proof.
  destruct c as [f [a1 a2 a3 ap am ao] md d pd], c' as [f' [b1 b2 b3 bp bm bo] md' d' pd'].
  unfold vkey. simpl. intros -> E -> -> ->. inversion E; subst. destruct f'; reflexivity.
Qed.

(* ---------- "*" ---------- *)

Lemma nc_star :
  new_constraint "*" = Some [[mkConstr FTildeOrEqual (mkVersion 0 0 0 [] "" "0.0.0") false true false]].
Proof. vm_compute. reflexivity. Qed.

Lemma star_check v :
  ccheck v (mkConstr FTildeOrEqual (mkVersion 0 0 0 [] "" "0.0.0") false true false) = is_stable v.
Proof.
  destruct v as [a b c p m o]. unfold_checks. destruct p; [numeric|reflexivity].
Qed.

Lemma sat_star : forall v, sat "*" v = is_stable v.
Proof.
  intros v. unfold sat. rewrite nc_star. unfold constraints_check. simpl.
  rewrite star_check. destruct (is_stable v); reflexivity.
Qed.

Lemma cvalid_star : cvalid "*" = true.
Proof. unfold cvalid. now rewrite nc_star. Qed.

(* ---------- AND / OR ---------- *)

Lemma and_group_app v g1 g2 :
  forallb (ccheck v) (g1 ++ g2) = forallb (ccheck v) g1 && forallb (ccheck v) g2.
Proof. apply forallb_app. Qed.

Lemma or_groups_app cs1 cs2 v :
  constraints_check (cs1 ++ cs2) v = constraints_check cs1 v || constraints_check cs2 v.
Proof. unfold constraints_check. apply existsb_app. Qed.

(* Check = some OR-group all of whose members accept the version *)
Lemma constraints_check_spec cs v :
  constraints_check cs v = true <-> exists g, In g cs /\ forall c, In c g -> ccheck v c = true.
Proof.
  unfold constraints_check. rewrite existsb_exists. split.
  - intros (g & Hi & Hg). exists g. split; auto. now apply forallb_forall.
  - intros (g & Hi & Hg). exists g. split; auto. now apply forallb_forall.
Qed.

Lemma sat_spec c v :
  sat c v = true <->
  exists cs g, new_constraint c = Some cs /\ In g cs /\ forall k, In k g -> ccheck v k = true.
Proof.
  unfold sat. destruct (new_constraint c) as [cs|].
  - rewrite constraints_check_spec. split.
    + intros (g & H1 & H2). exists cs, g. auto.
    + intros (cs' & g & E & H1 & H2). inversion E; subst. exists g. auto.
  - split; [discriminate|]. intros (cs & g & E & _). discriminate.
Qed.

Lemma sat_parsed c cs : new_constraint c = Some cs -> forall v, sat c v = constraints_check cs v.
Proof. intros E v. unfold sat. now rewrite E. Qed.

Lemma cvalid_parsed c : cvalid c = true <-> exists cs, new_constraint c = Some cs.
Proof.
  unfold cvalid. destruct (new_constraint c) as [cs|]; split; try discriminate; eauto.
  intros (cs & E). discriminate.
Qed.

(* ---------- the pre-release rule ---------- *)

(* every constraint function except "!=" on a full version refuses a pre-release version when
   the version written in the constraint is a release *)
Lemma pre_release_rule v c :
  is_stable v = false -> is_stable (k_con c) = true ->
  (k_fn c = FNotEqual -> k_dirty c = true) ->
  ccheck v c = false.
Proof.
  intros Hv Hc Hne. destruct c as [f con md d pd]. simpl in *.
  unfold ccheck, c_tilde_or_equal, c_tilde, c_not_equal, c_greater_than, c_less_than,
    c_greater_than_equal, c_less_than_equal, c_caret, pre_excluded, has_pre. simpl.
  rewrite Hv, Hc. simpl.
  destruct f; try reflexivity. rewrite (Hne eq_refl). reflexivity.
Qed.

(* ... and "!=" with a full version does accept it (the library's README says otherwise) *)
Lemma not_equal_plain v con : ccheck v (plain FNotEqual con) = negb (veqb v con).
Proof. reflexivity. Qed.

Lemma not_equal_admits_prerelease v con :
  is_stable v = false -> is_stable con = true -> ccheck v (plain FNotEqual con) = true.
Proof.
  intros Hv Hc. rewrite not_equal_plain. unfold veqb.
  destruct (vcompare v con) eqn:E; try reflexivity.
  apply vcompare_eq_key in E. unfold vkey in E. inversion E as [[E1 E2 E3 E4]].
  unfold is_stable in *. rewrite E4 in Hv. congruence.
Qed.

(* when the constraint's version has a pre-release part nothing is excluded for that reason:
   the comparison operators are plain precedence comparisons *)
Lemma compare_ops_with_prerelease v con :
  is_stable con = false ->
  ccheck v (plain FGreaterThan con) = vgt v con /\
  ccheck v (plain FGreaterThanEqual con) = vgeb v con /\
  ccheck v (plain FLessThan con) = vless v con /\
  ccheck v (plain FLessThanEqual con) = vle v con /\
  ccheck v (plain FTildeOrEqual con) = veqb v con.
Proof.
  intros Hc. unfold ccheck, plain, c_greater_than, c_greater_than_equal, c_less_than,
    c_less_than_equal, c_tilde_or_equal, pre_excluded. simpl. rewrite Hc.
  rewrite !andb_false_r. simpl. repeat split; reflexivity.
Qed.

(* comparison operators against a release: the version must be a release too *)
Lemma compare_ops_release v con :
  is_stable con = true ->
  ccheck v (plain FGreaterThan con) = is_stable v && vgt v con /\
  ccheck v (plain FGreaterThanEqual con) = is_stable v && vgeb v con /\
  ccheck v (plain FLessThan con) = is_stable v && vless v con /\
  ccheck v (plain FLessThanEqual con) = is_stable v && vle v con /\
  ccheck v (plain FTildeOrEqual con) = is_stable v && veqb v con.
Proof.
  intros Hc. unfold ccheck, plain, c_greater_than, c_greater_than_equal, c_less_than,
    c_less_than_equal, c_tilde_or_equal, pre_excluded, has_pre. simpl. rewrite Hc.
  destruct (is_stable v); simpl; repeat split; reflexivity.
Qed.

(* ---------- caret ---------- *)

(* ^M.m.p with M > 0   =   >=M.m.p <(M+1).0.0 *)
Lemma caret_major M m p v :
  (0 < M)%N ->
  ccheck v (plain FCaret (release M m p)) =
  ccheck v (plain FGreaterThanEqual (release M m p)) && ccheck v (plain FLessThan (release (M + 1) 0 0)).
Proof.
  intros HM. destruct v as [a b c pr me o]. unfold_checks.
  destruct pr; [numeric|reflexivity].
Qed.

(* ^0.m.p with m > 0   =   >=0.m.p <0.(m+1).0 *)
Lemma caret_minor m p v :
  (0 < m)%N ->
  ccheck v (plain FCaret (release 0 m p)) =
  ccheck v (plain FGreaterThanEqual (release 0 m p)) && ccheck v (plain FLessThan (release 0 (m + 1) 0)).
Proof.
  intros Hm. destruct v as [a b c pr me o]. unfold_checks.
  destruct pr; [numeric|reflexivity].
Qed.

(* ^0.0.p   =   >=0.0.p <0.0.(p+1) *)
Lemma caret_patch p v :
  ccheck v (plain FCaret (release 0 0 p)) =
  ccheck v (plain FGreaterThanEqual (release 0 0 p)) && ccheck v (plain FLessThan (release 0 0 (p + 1))).
Proof.
  destruct v as [a b c pr me o]. unfold_checks.
  destruct pr; [numeric|reflexivity].
Qed.

(* ^M, ^M.x (also ^0)   =   >=M.0.0 <(M+1).0.0 *)
Lemma caret_wild_minor M v :
  ccheck v (mkConstr FCaret (release M 0 0) true true false) =
  ccheck v (plain FGreaterThanEqual (release M 0 0)) && ccheck v (plain FLessThan (release (M + 1) 0 0)).
Proof.
  destruct v as [a b c pr me o]. unfold_checks.
  destruct pr; [numeric|reflexivity].
Qed.

(* ^0.m, ^0.m.x (also ^0.0)   =   >=0.m.0 <0.(m+1).0 *)
Lemma caret_wild_patch_zero m v :
  ccheck v (mkConstr FCaret (release 0 m 0) false true true) =
  ccheck v (plain FGreaterThanEqual (release 0 m 0)) && ccheck v (plain FLessThan (release 0 (m + 1) 0)).
Proof.
  destruct v as [a b c pr me o]. unfold_checks.
  destruct pr; [numeric|reflexivity].
Qed.

(* ---------- tilde ---------- *)

(* ~M.m.p   =   >=M.m.p <M.(m+1).0   unless M.m.p is 0.0.0 *)
Lemma tilde_full M m p v :
  (M, m, p) <> (0, 0, 0)%N ->
  ccheck v (plain FTilde (release M m p)) =
  ccheck v (plain FGreaterThanEqual (release M m p)) && ccheck v (plain FLessThan (release M (m + 1) 0)).
Proof.
  intros Hz. destruct v as [a b c pr me o]. unfold_checks.
  destruct pr; [|reflexivity].
  assert (Hz' : (M =? 0)%N && (m =? 0)%N && (p =? 0)%N = false).
  { destruct (N.eqb_spec M 0); destruct (N.eqb_spec m 0); destruct (N.eqb_spec p 0); simpl; auto.
    subst. exfalso. apply Hz. reflexivity. }
  rewrite ?andb_true_r. rewrite Hz'. numeric.
Qed.

(* ~0.0.0 accepts every release (constraints.go:463-468) *)
Lemma tilde_zero v : ccheck v (plain FTilde (release 0 0 0)) = is_stable v.
Proof.
  destruct v as [a b c pr me o]. unfold_checks. destruct pr; [numeric|reflexivity].
Qed.

(* ---------- wildcards and partial versions (no operator, "=", "~") ---------- *)

(* M, M.x, M.x.x, =M, ~M   =   >=M.0.0 <(M+1).0.0 *)
Lemma wild_minor M v :
  ccheck v (mkConstr FTildeOrEqual (release M 0 0) true true false) =
  ccheck v (plain FGreaterThanEqual (release M 0 0)) && ccheck v (plain FLessThan (release (M + 1) 0 0)) /\
  ccheck v (mkConstr FTilde (release M 0 0) true true false) =
  ccheck v (mkConstr FTildeOrEqual (release M 0 0) true true false).
Proof.
  destruct v as [a b c pr me o]. unfold_checks.
  destruct pr; [split; numeric|split; reflexivity].
Qed.

(* M.m, M.m.x, =M.m, ~M.m   =   >=M.m.0 <M.(m+1).0 *)
Lemma wild_patch M m v :
  ccheck v (mkConstr FTildeOrEqual (release M m 0) false true true) =
  ccheck v (plain FGreaterThanEqual (release M m 0)) && ccheck v (plain FLessThan (release M (m + 1) 0)) /\
  ccheck v (mkConstr FTilde (release M m 0) false true true) =
  ccheck v (mkConstr FTildeOrEqual (release M m 0) false true true).
Proof.
  destruct v as [a b c pr me o]. unfold_checks.
  destruct pr; [split; numeric|split; reflexivity].
Qed.

(* ---------- comparison operators on partial versions ---------- *)

(* >M = >=(M+1).0.0     >M.m = >=M.(m+1).0     <=M = <(M+1).0.0     <=M.m = <M.(m+1).0
   (>=M, <M, >=M.m, <M.m compare with M.0.0 / M.m.0 as they stand) *)
Lemma partial_comparisons M m v :
  ccheck v (mkConstr FGreaterThan (release M 0 0) true true false) =
  ccheck v (plain FGreaterThanEqual (release (M + 1) 0 0)) /\
  ccheck v (mkConstr FGreaterThan (release M m 0) false true true) =
  ccheck v (plain FGreaterThanEqual (release M (m + 1) 0)) /\
  ccheck v (mkConstr FLessThanEqual (release M 0 0) true true false) =
  ccheck v (plain FLessThan (release (M + 1) 0 0)) /\
  ccheck v (mkConstr FLessThanEqual (release M m 0) false true true) =
  ccheck v (plain FLessThan (release M (m + 1) 0)) /\
  ccheck v (mkConstr FGreaterThanEqual (release M m 0) false true true) =
  ccheck v (plain FGreaterThanEqual (release M m 0)) /\
  ccheck v (mkConstr FLessThan (release M m 0) false true true) =
  ccheck v (plain FLessThan (release M m 0)).
Proof.
  destruct v as [a b c pr me o]. unfold_checks.
  destruct pr; [repeat split; numeric|repeat split; reflexivity].
Qed.

(* a wildcard in the major position ("*", "x", "x.1.2") becomes 0.0.0 with [dirty] only:
   "<=*" accepts 0.0.z only and "!=*" everything but 0.0.0 — not "any version" *)
Definition star_con (f : cfunc) : constr := mkConstr f (release 0 0 0) false true false.

Lemma star_quirks v :
  is_stable v = true ->
  ccheck v (star_con FLessThanEqual) = ((vmajor v =? 0) && (vminor v =? 0))%N /\
  ccheck v (star_con FNotEqual) = negb ((vmajor v =? 0) && (vminor v =? 0) && (vpatch v =? 0))%N /\
  ccheck v (star_con FGreaterThan) = negb ((vmajor v =? 0) && (vminor v =? 0) && (vpatch v =? 0))%N /\
  ccheck v (star_con FGreaterThanEqual) = true /\
  ccheck v (star_con FLessThan) = false /\
  ccheck v (star_con FTilde) = true /\
  ccheck v (star_con FCaret) = ((vmajor v =? 0) && (vminor v =? 0) && (vpatch v =? 0))%N.
Proof.
  destruct v as [a b c pr me o]. unfold is_stable. simpl. intros Hs.
  destruct pr; [|discriminate]. unfold star_con. unfold_checks. repeat split; numeric.
Qed.

(* ---------- the documented equivalences on concrete strings, for ALL versions ---------- *)

Lemma nc_examples :
  new_constraint "^1.2.3" = Some [[plain FCaret (mkVersion 1 2 3 [] "" "1.2.3")]] /\
  new_constraint ">=1.2.3 <2.0.0" =
    Some [[plain FGreaterThanEqual (mkVersion 1 2 3 [] "" "1.2.3"); plain FLessThan (mkVersion 2 0 0 [] "" "2.0.0")]] /\
  new_constraint "~1.2.3" = Some [[plain FTilde (mkVersion 1 2 3 [] "" "1.2.3")]] /\
  new_constraint ">=1.2.3, <1.3.0" =
    Some [[plain FGreaterThanEqual (mkVersion 1 2 3 [] "" "1.2.3"); plain FLessThan (mkVersion 1 3 0 [] "" "1.3.0")]] /\
  new_constraint "1.x" = Some [[mkConstr FTildeOrEqual (mkVersion 1 0 0 [] "" "1.0.0") true true false]] /\
  new_constraint ">=1.0.0 <2.0.0" =
    Some [[plain FGreaterThanEqual (mkVersion 1 0 0 [] "" "1.0.0"); plain FLessThan (mkVersion 2 0 0 [] "" "2.0.0")]] /\
  new_constraint "^0.2.3" = Some [[plain FCaret (mkVersion 0 2 3 [] "" "0.2.3")]] /\
  new_constraint ">=0.2.3 <0.3.0" =
    Some [[plain FGreaterThanEqual (mkVersion 0 2 3 [] "" "0.2.3"); plain FLessThan (mkVersion 0 3 0 [] "" "0.3.0")]] /\
  new_constraint "^0.0.3" = Some [[plain FCaret (mkVersion 0 0 3 [] "" "0.0.3")]] /\
  new_constraint ">=0.0.3 <0.0.4" =
    Some [[plain FGreaterThanEqual (mkVersion 0 0 3 [] "" "0.0.3"); plain FLessThan (mkVersion 0 0 4 [] "" "0.0.4")]] /\
  new_constraint "1.2 - 1.4.5" =
    Some [[mkConstr FGreaterThanEqual (mkVersion 1 2 0 [] "" "1.2.0") false true true;
           plain FLessThanEqual (mkVersion 1 4 5 [] "" "1.4.5")]] /\
  new_constraint ">=1.2.3, <2 || 3.x" =
    Some [[plain FGreaterThanEqual (mkVersion 1 2 3 [] "" "1.2.3");
           mkConstr FLessThan (mkVersion 2 0 0 [] "" "2.0.0") true true false];
          [mkConstr FTildeOrEqual (mkVersion 3 0 0 [] "" "3.0.0") true true false]] /\
  new_constraint ">=1.2.3" = Some [[plain FGreaterThanEqual (mkVersion 1 2 3 [] "" "1.2.3")]] /\
  new_constraint "<2" = Some [[mkConstr FLessThan (mkVersion 2 0 0 [] "" "2.0.0") true true false]] /\
  new_constraint "3.x" = Some [[mkConstr FTildeOrEqual (mkVersion 3 0 0 [] "" "3.0.0") true true false]].
Proof. vm_compute. repeat split; reflexivity. Qed.

Ltac by_key := apply ccheck_key; reflexivity.

Lemma documented_equivalences v :
  sat "^1.2.3" v = sat ">=1.2.3 <2.0.0" v /\
  sat "~1.2.3" v = sat ">=1.2.3, <1.3.0" v /\
  sat "1.x" v = sat ">=1.0.0 <2.0.0" v /\
  sat "^0.2.3" v = sat ">=0.2.3 <0.3.0" v /\
  sat "^0.0.3" v = sat ">=0.0.3 <0.0.4" v /\
  sat ">=1.2.3, <2 || 3.x" v = (sat ">=1.2.3" v && sat "<2" v) || sat "3.x" v.
Proof.
  destruct nc_examples as (E1 & E2 & E3 & E4 & E5 & E6 & E7 & E8 & E9 & E10 & _ & E12 & E13 & E14 & E15).
  unfold sat. rewrite E1, E2, E3, E4, E5, E6, E7, E8, E9, E10, E12, E13, E14, E15.
  unfold constraints_check. cbn [existsb forallb]. rewrite !andb_true_r, !orb_false_r.
  repeat split.
  - rewrite (ccheck_key v _ (plain FCaret (release 1 2 3))) by reflexivity.
    rewrite caret_major by lia. f_equal; by_key.
  - rewrite (ccheck_key v _ (plain FTilde (release 1 2 3))) by reflexivity.
    rewrite tilde_full by discriminate. f_equal; by_key.
  - rewrite (ccheck_key v _ (mkConstr FTildeOrEqual (release 1 0 0) true true false)) by reflexivity.
    rewrite (proj1 (wild_minor 1 v)). f_equal; by_key.
  - rewrite (ccheck_key v _ (plain FCaret (release 0 2 3))) by reflexivity.
    rewrite caret_minor by lia. f_equal; by_key.
  - rewrite (ccheck_key v _ (plain FCaret (release 0 0 3))) by reflexivity.
    rewrite caret_patch. f_equal; by_key.
Qed.

(* hyphen range: rewritten to >= lower, <= upper before anything else *)
Lemma hyphen_range_example v :
  rewrite_range "1.2 - 1.4.5" = ">= 1.2, <= 1.4.5 " /\
  sat "1.2 - 1.4.5" v = (ccheck v (plain FGreaterThanEqual (release 1 2 0)) &&
                         ccheck v (plain FLessThanEqual (release 1 4 5))).
Proof.
  split; [vm_compute; reflexivity|].
  destruct nc_examples as (_ & _ & _ & _ & _ & _ & _ & _ & _ & _ & E11 & _).
  unfold sat. rewrite E11. unfold constraints_check. cbn [existsb forallb].
  rewrite andb_true_r, orb_false_r.
  rewrite (ccheck_key v (mkConstr FGreaterThanEqual (mkVersion 1 2 0 [] "" "1.2.0") false true true)
                      (mkConstr FGreaterThanEqual (release 1 2 0) false true true)) by reflexivity.
  rewrite (ccheck_key v (plain FLessThanEqual (mkVersion 1 4 5 [] "" "1.4.5"))
                      (plain FLessThanEqual (release 1 4 5))) by reflexivity.
  rewrite (proj1 (proj2 (proj2 (proj2 (proj2 (partial_comparisons 1 2 v)))))). reflexivity.
Qed.

(* the rewriting is textual and comes before the split at "||" — and "|" is a character of
   the segment class: the left operand of the range in "1||2 - 3" is the text "1||2", so the
   string means  >=1 || 2 <=3  and not  1 || >=2 <=3  (what "1 || 2 - 3" means); 5.0.0 tells
   them apart.  Further: "|" inside a segment, "==", the empty string and "1x" are refused. *)
Lemma hyphen_range_quirk :
  rewrite_range "1||2 - 3" = ">= 1||2, <= 3 " /\
  new_constraint "1||2 - 3" = new_constraint ">=1 || 2 <=3" /\
  new_constraint "1 || 2 - 3" = new_constraint "1 || >=2 <=3" /\
  (exists v, parse_version "5.0.0" = Some v /\ sat "1||2 - 3" v = true /\ sat "1 || 2 - 3" v = false) /\
  cvalid "1|2" = false /\ cvalid "==1.2.3" = false /\ cvalid "" = false /\ cvalid "1x" = false.
Proof. vm_compute. repeat split; try reflexivity. eexists. repeat split; reflexivity. Qed.

(* ---------- the query theorems with the concrete constraint semantics ---------- *)

Lemma get_constraint_concrete_thm :
  forall sort : list entry -> list entry,
    (forall l, Permutation l (sort l)) ->
    (forall l, Forall (fun e => parse_version (eversion e) <> None) l ->
               StronglySorted (fun a b => go_less a b = false) (sort l)) ->
    forall api es idx, load_index sort (IFParsed api es) = LOk idx ->
    forall name ver,
      match assoc name idx with
      | None => get cvalid sat idx name ver = GErrNoName
      | Some vs =>
          (vs = [] -> get cvalid sat idx name ver = GErrNoVersion) /\
          (vs <> [] ->
             (ver = "" ->
                (exists e, get cvalid sat idx name ver = GOk e /\ best_entry is_stable vs e) \/
                (get cvalid sat idx name ver = GErrNotFound /\ none_entry is_stable vs)) /\
             (ver <> "" ->
                match new_constraint ver with
                | None => get cvalid sat idx name ver = GErrConstraint
                | Some cs =>
                    (forall e0, In e0 vs -> eversion e0 = ver ->
                       exists e, get cvalid sat idx name ver = GOk e /\ In e vs /\ eversion e = ver) /\
                    ((forall e0, In e0 vs -> eversion e0 <> ver) ->
                       (exists e, get cvalid sat idx name ver = GOk e /\
                                  best_entry (constraints_check cs) vs e) \/
                       (get cvalid sat idx name ver = GErrNotFound /\
                        none_entry (constraints_check cs) vs))
                end))
      end.
Proof.
  intros sort Hp Hs api es idx HL name ver.
  pose proof (get_best_thm sort Hp Hs cvalid sat sat_star api es idx HL name ver) as H.
  destruct (assoc name idx) as [vs|]; auto.
  destruct H as (H1 & H2). split; auto. intros Hne. destruct (H2 Hne) as (H3 & H4 & H5).
  split; auto. intros Hv.
  destruct (new_constraint ver) as [cs|] eqn:E.
  - assert (Hc : cvalid ver = true) by (unfold cvalid; now rewrite E).
    destruct (H5 Hv Hc) as (H6 & H7). split; auto. intros Hno.
    destruct (H7 Hno) as [(e & Ge & Be)|(Ge & Ne)].
    + left. exists e. split; auto. eapply best_entry_ext; [|exact Be]. apply sat_parsed; auto.
    + right. split; auto. eapply none_entry_ext; [|exact Ne]. apply sat_parsed; auto.
  - apply H4; auto. unfold cvalid. now rewrite E.
Qed.

Lemma tag_match_concrete_thm :
  forall tags ver,
    StronglySorted tge (filter is_valid_version tags) ->
    (ver = "" ->
       (exists t, tag_match cvalid sat tags ver = TOk t /\ best_tag is_stable tags t) \/
       (tag_match cvalid sat tags ver = TErrNotFound /\ none_tag is_stable tags)) /\
    (ver <> "" -> In ver tags -> tag_match cvalid sat tags ver = TOk ver) /\
    (ver <> "" -> ~ In ver tags ->
       match new_constraint ver with
       | None => tag_match cvalid sat tags ver = TErrConstraint
       | Some cs =>
           (exists t, tag_match cvalid sat tags ver = TOk t /\ best_tag (constraints_check cs) tags t) \/
           (tag_match cvalid sat tags ver = TErrNotFound /\ none_tag (constraints_check cs) tags)
       end).
Proof.
  intros tags ver HS.
  destruct (tag_match_thm cvalid sat sat_star tags ver HS) as (T1 & T2 & T3 & T4).
  repeat split; auto. intros Hv Hn.
  destruct (new_constraint ver) as [cs|] eqn:E.
  - assert (Hc : cvalid ver = true) by (unfold cvalid; now rewrite E).
    destruct (T4 Hv Hn Hc) as [(t & Gt & Bt)|(Gt & Nt)].
    + left. exists t. split; auto. eapply best_tag_ext; [|exact Bt]. apply sat_parsed; auto.
    + right. split; auto. eapply none_tag_ext; [|exact Nt]. apply sat_parsed; auto.
  - apply T3; auto. unfold cvalid. now rewrite E.
Qed.

Lemma Forall2_weaken {A B : Type} (P Q : A -> B -> Prop) l1 l2 :
  (forall a b, P a b -> Q a b) -> Forall2 P l1 l2 -> Forall2 Q l1 l2.
Proof. intros H F. induction F; constructor; auto. Qed.

Lemma resolve_concrete_thm :
  forall sort : list entry -> list entry,
    (forall l, Permutation l (sort l)) ->
    (forall l, Forall (fun e => parse_version (eversion e) <> None) l ->
               StronglySorted (fun a b => go_less a b = false) (sort l)) ->
    forall api es idx, load_index sort (IFParsed api es) = LOk idx ->
    forall ds,
      match resolve cvalid sat (LOk idx) ds with
      | Some locks =>
          Forall2 (fun d v =>
                     exists cs vs e, new_constraint (dconstraint d) = Some cs /\
                                     assoc (dname d) idx = Some vs /\ eversion e = v /\
                                     best_entry (constraints_check cs) (filter has_urls vs) e)
                  ds locks
      | None =>
          exists d, In d ds /\
                    (new_constraint (dconstraint d) = None \/ assoc (dname d) idx = None \/
                     exists cs vs, new_constraint (dconstraint d) = Some cs /\
                                   assoc (dname d) idx = Some vs /\
                                   none_entry (constraints_check cs) (filter has_urls vs))
      end.
Proof.
  intros sort Hp Hs api es idx HL ds.
  pose proof (resolve_thm sort Hp Hs cvalid sat api es idx HL ds) as H.
  destruct (resolve cvalid sat (LOk idx) ds) as [locks|].
  - eapply Forall2_weaken; [|exact H]. intros d v (Hc & vs & e & A & Ev & Be).
    apply cvalid_parsed in Hc. destruct Hc as (cs & E).
    exists cs, vs, e. split; [auto|]. split; [auto|]. split; [auto|].
    eapply best_entry_ext; [|exact Be]. apply sat_parsed; auto.
  - destruct H as (d & Hin & [Hc|[Ha|(vs & A & Ne)]]).
    + exists d. split; auto. left. unfold cvalid in Hc. destruct (new_constraint (dconstraint d)); congruence.
    + exists d. split; auto.
    + exists d. split; auto. destruct (new_constraint (dconstraint d)) as [cs|] eqn:E; auto.
      right. right. exists cs, vs. split; [auto|]. split; [auto|].
      eapply none_entry_ext; [|exact Ne]. apply sat_parsed; auto.
Qed.

(* non-vacuity of the concrete statements: real strings through the whole chain *)
Lemma example_concrete_queries :
  get cvalid sat ex_idx "app" "" = GOk (ex_entry "v1.2" "d5" []) /\
  get cvalid sat ex_idx "app" "^1" = GOk (ex_entry "v1.2" "d5" []) /\
  get cvalid sat ex_idx "app" "~1.1" = GOk (ex_entry "1.1.0+b1" "d6" ["u6"]) /\
  get cvalid sat ex_idx "app" ">=1.0.0 <1.1.0 || 3.x" = GOk (ex_entry "1.0.0" "d1" ["u1"]) /\
  get cvalid sat ex_idx "app" "latest" = GErrConstraint /\
  get cvalid sat ex_idx "pre" "" = GErrNotFound /\
  get cvalid sat ex_idx "pre" ">0.0.0-0" <> GErrNotFound /\
  tag_match cvalid sat ex_tags "" = TOk "v1.2" /\
  tag_match cvalid sat ex_tags "1.0 - 1.1" = TOk "1.1.0+b1" /\
  tag_match cvalid sat ex_tags "weekly" = TErrConstraint /\
  resolve cvalid sat (LOk ex_idx) [mkDep "app" "^1"] = Some ["1.1.0+b1"] /\
  resolve cvalid sat (LOk ex_idx) [mkDep "app" "^1"; mkDep "pre" "*"] = None.
Proof. vm_compute. repeat split; try reflexivity. discriminate. Qed.

(* ---------- shape of a parsed constraint; the pre-release rule on strings ---------- *)

Lemma map_opt_length {A B : Type} (f : A -> option B) l r :
  map_opt f l = Some r -> List.length r = List.length l.
Proof.
  revert r. induction l as [|a t IH]; simpl; intros r H.
  - inversion H. reflexivity.
  - destruct (f a); [|discriminate]. destruct (map_opt f t) eqn:E; [|discriminate].
    inversion H. simpl. f_equal. apply IH. reflexivity.
Qed.

Lemma map_opt_in {A B : Type} (f : A -> option B) l r b :
  map_opt f l = Some r -> In b r -> exists a, In a l /\ f a = Some b.
Proof.
  revert r. induction l as [|a t IH]; simpl; intros r H Hin.
  - inversion H; subst. destruct Hin.
  - destruct (f a) eqn:Fa; [|discriminate]. destruct (map_opt f t) eqn:E; [|discriminate].
    inversion H; subst. destruct Hin as [->|Hin].
    + exists a. auto.
    + destruct (IH l eq_refl Hin) as (a' & Ha & Hf). exists a'. auto.
Qed.

Lemma split_oror_nonempty s : split_oror s <> [].
Proof.
  destruct s as [|c t]; [discriminate|].
  destruct c as [[] [] [] [] [] [] [] []];
    try (simpl; destruct (split_oror t); discriminate).
  (* c is the bar *)
  destruct t as [|c' t']; [discriminate|].
  destruct c' as [[] [] [] [] [] [] [] []]; simpl; try discriminate;
    destruct (split_oror t'); discriminate.
Qed.

(* a string that parses has at least one OR-group and no empty AND-group: Check is never
   true for lack of constraints *)
Lemma new_constraint_nonempty c cs :
  new_constraint c = Some cs -> cs <> [] /\ Forall (fun g => g <> []) cs.
Proof.
  unfold new_constraint. intros H. split.
  - intros ->. apply map_opt_length in H. simpl in H.
    destruct (split_oror (rewrite_range c)) eqn:E; [now apply split_oror_nonempty in E|discriminate].
  - apply Forall_forall. intros g Hg.
    destruct (map_opt_in _ _ _ _ H Hg) as (v & _ & Hv).
    unfold parse_and_group in Hv. destruct (negb (re_matches valid_re v)); [discriminate|].
    intros ->. apply map_opt_length in Hv. simpl in Hv.
    destruct (map fst (find_all find_re v)); simpl in Hv; discriminate.
Qed.

(* the pre-release rule on constraint STRINGS, per AND-group as the library applies it: a
   pre-release version satisfies a string only through an OR-group every member of which
   either names a pre-release version itself or is "!=" with a full version *)
Definition admits_prerelease (k : constr) : bool :=
  negb (is_stable (k_con k)) ||
  (match k_fn k with FNotEqual => true | _ => false end && negb (k_dirty k)).

Lemma prerelease_needs_prerelease_group c v :
  sat c v = true -> is_stable v = false ->
  exists cs g, new_constraint c = Some cs /\ In g cs /\ g <> [] /\
               (forall k, In k g -> ccheck v k = true /\ admits_prerelease k = true).
Proof.
  intros Hs Hv. apply sat_spec in Hs. destruct Hs as (cs & g & E & Hin & Hall).
  exists cs, g. split; auto. split; auto. split.
  - destruct (new_constraint_nonempty c cs E) as (_ & F).
    rewrite Forall_forall in F. now apply F.
  - intros k Hk. split; [now apply Hall|].
    unfold admits_prerelease. destruct (is_stable (k_con k)) eqn:Sk; simpl; auto.
    destruct (k_fn k) eqn:Fk; simpl;
      try (rewrite (pre_release_rule v k Hv Sk) in Hall; [specialize (Hall k Hk); discriminate|congruence]);
      try (pose proof (Hall k Hk) as Hc; rewrite (pre_release_rule v k Hv Sk) in Hc; [discriminate|congruence]).
    destruct (k_dirty k) eqn:Dk; simpl; auto.
    pose proof (Hall k Hk) as Hc. rewrite (pre_release_rule v k Hv Sk) in Hc; [discriminate|auto].
Qed.

(* ---------- the statements quoted by Props/C18.v ---------- *)

Lemma caret_ranges :
  forall v,
    (forall M m p, (0 < M)%N ->
       ccheck v (plain FCaret (release M m p)) =
       ccheck v (plain FGreaterThanEqual (release M m p)) && ccheck v (plain FLessThan (release (M + 1) 0 0))) /\
    (forall m p, (0 < m)%N ->
       ccheck v (plain FCaret (release 0 m p)) =
       ccheck v (plain FGreaterThanEqual (release 0 m p)) && ccheck v (plain FLessThan (release 0 (m + 1) 0))) /\
    (forall p,
       ccheck v (plain FCaret (release 0 0 p)) =
       ccheck v (plain FGreaterThanEqual (release 0 0 p)) && ccheck v (plain FLessThan (release 0 0 (p + 1)))) /\
    (forall M,
       ccheck v (mkConstr FCaret (release M 0 0) true true false) =
       ccheck v (plain FGreaterThanEqual (release M 0 0)) && ccheck v (plain FLessThan (release (M + 1) 0 0))) /\
    (forall m,
       ccheck v (mkConstr FCaret (release 0 m 0) false true true) =
       ccheck v (plain FGreaterThanEqual (release 0 m 0)) && ccheck v (plain FLessThan (release 0 (m + 1) 0))).
Proof.
  intros v. repeat split; intros.
  - now apply caret_major.
  - now apply caret_minor.
  - apply caret_patch.
  - apply caret_wild_minor.
  - apply caret_wild_patch_zero.
Qed.

Lemma tilde_ranges :
  forall v,
    (forall M m p, (M, m, p) <> (0, 0, 0)%N ->
       ccheck v (plain FTilde (release M m p)) =
       ccheck v (plain FGreaterThanEqual (release M m p)) && ccheck v (plain FLessThan (release M (m + 1) 0))) /\
    ccheck v (plain FTilde (release 0 0 0)) = is_stable v.
Proof. intros v. split; [intros; now apply tilde_full|apply tilde_zero]. Qed.

Lemma wildcard_ranges :
  forall v,
    (forall M,
       ccheck v (mkConstr FTildeOrEqual (release M 0 0) true true false) =
       ccheck v (plain FGreaterThanEqual (release M 0 0)) && ccheck v (plain FLessThan (release (M + 1) 0 0)) /\
       ccheck v (mkConstr FTilde (release M 0 0) true true false) =
       ccheck v (mkConstr FTildeOrEqual (release M 0 0) true true false)) /\
    (forall M m,
       ccheck v (mkConstr FTildeOrEqual (release M m 0) false true true) =
       ccheck v (plain FGreaterThanEqual (release M m 0)) && ccheck v (plain FLessThan (release M (m + 1) 0)) /\
       ccheck v (mkConstr FTilde (release M m 0) false true true) =
       ccheck v (mkConstr FTildeOrEqual (release M m 0) false true true)) /\
    ccheck v (mkConstr FTildeOrEqual (release 0 0 0) false true false) = is_stable v.
Proof.
  intros v. repeat split; intros; try apply wild_minor; try apply wild_patch.
  rewrite <- (star_check v). apply ccheck_key; reflexivity.
Qed.

(* C19 — what happens to the Authorization header on redirects.

   Helm's HTTP getter installs no CheckRedirect (pkg/getter/httpgetter.go: httpClient), so the
   policy is net/http's (go1.24 src/net/http/client.go, Client.do):

     for every redirect hop, in order:
       if !stripSensitiveHeaders && reqs[0].URL.Host != req.URL.Host {
           if !shouldCopyHeaderOnRedirect(reqs[0].URL, req.URL) { stripSensitiveHeaders = true }
       }
       copyHeaders(req, stripSensitiveHeaders)     // from the INITIAL request's headers

     shouldCopyHeaderOnRedirect(initial, dest) = isDomainOrSubdomain(idna(dest.Hostname()), idna(initial.Hostname()))
     isDomainOrSubdomain(sub, parent) = sub == parent
                                        || (no ':' or '%' in sub && HasSuffix(sub, parent) && sub[len(sub)-len(parent)-1] == '.')

   Scheme and port play no part; host names are compared byte for byte (ASCII names: idnaASCII
   is the identity; non-ASCII names are outside this model).  Once stripped, the header stays
   stripped for the rest of the chain.  The header copied is the one Helm set on the first
   request (or none): basic auth that net/http derives from a URL's userinfo is put on a copy
   of each request and is not carried along. *)
From Coq Require Import List String Ascii Bool Arith.
From Helm Require Import Misc.Creds Misc.CredsUrl.
Import ListNotations.
Local Open Scope string_scope.

Fixpoint str_rev_aux (s acc : string) : string :=
  match s with EmptyString => acc | String c t => str_rev_aux t (String c acc) end.
Definition str_rev (s : string) : string := str_rev_aux s EmptyString.

(* strings.HasSuffix(sub, parent) && the byte in front of the suffix is '.' — on the reversed
   strings: rev parent ++ "." is a prefix of rev sub *)
Definition dot_suffix (sub parent : string) : bool :=
  String.prefix (str_rev parent ++ ".") (str_rev sub).

Definition is_domain_or_subdomain (sub parent : string) : bool :=
  String.eqb sub parent
  || (negb (mem_byte ":" sub || mem_byte "%" sub) && dot_suffix sub parent).

(* the Host of the initial request's URL: http.NewRequest removes an empty port ("host:") *)
Definition req_host (h : string) : string :=
  match cut_last ":" h with
  | Some (x, EmptyString) => x
  | _ => h
  end.

(* shouldCopyHeaderOnRedirect; [ih] = reqs[0].URL.Host *)
Definition should_copy (ih : string) (dest : url) : bool :=
  is_domain_or_subdomain (hostname (u_host dest)) (hostname ih).

(* one chain of redirects: for each hop, whether the sensitive headers of the initial request
   are copied to it *)
Fixpoint follow (ih : string) (stripped : bool) (hops : list url) : list bool :=
  match hops with
  | [] => []
  | d :: t =>
      let stripped' := stripped || (negb (String.eqb ih (u_host d)) && negb (should_copy ih d)) in
      negb stripped' :: follow ih stripped' t
  end.

(* the requests of one Get: the first hop with what Helm attached, then the follow-ups *)
Definition hop_auths (initial : url) (auth : option cred) (hops : list url) : list (option cred) :=
  map (fun keep : bool => if keep then auth else None) (follow (req_host (u_host initial)) false hops).

(* C19 — the translator's reading of the source (Gen/C19Origin.v, regenerated from /repo on
   every run) against the model's decisions (Misc/CredsSrc.v), for every assignment of the
   atoms (finite domain, by computation), and the model's decisions against the model's
   definitions (Misc/Creds.v). *)
From Coq Require Import List String Ascii Bool.
From Helm Require Import Misc.Creds Misc.CredsProofs Misc.CredsSrc Gen.C19Origin.
Import ListNotations.
Local Open Scope string_scope.

Lemma bools_complete b : In b bools.
Proof. destruct b; simpl; auto. Qed.

Lemma all_assignments_complete r : In r all_assignments.
Proof.
  destruct r as [a b c d e f g h i]. unfold all_assignments.
  repeat (apply in_flat_map; eexists; split; [apply bools_complete|]).
  apply in_map. apply bools_complete.
Qed.

Lemma for_all_assignments (P : assignment -> bool) :
  forallb P all_assignments = true -> forall r, P r = true.
Proof. intros H r. rewrite forallb_forall in H. apply H. apply all_assignments_complete. Qed.

Lemma tok_eqb_eq a b : tok_eqb a b = true -> a = b.
Proof. destruct a, b; simpl; try discriminate; try reflexivity. intro H. apply String.eqb_eq in H. subst. reflexivity. Qed.

Lemma sopts_eqb_eq a b : sopts_eqb a b = true -> a = b.
Proof.
  destruct a as [u1 a1 p1], b as [u2 a2 p2]. unfold sopts_eqb. simpl.
  intro H. apply andb_true_iff in H as [H Hp]. apply andb_true_iff in H as [Hu Ha].
  f_equal.
  - destruct u1, u2; simpl in Hu; try discriminate; [apply tok_eqb_eq in Hu; subst|]; reflexivity.
  - destruct a1 as [[x1 y1]|], a2 as [[x2 y2]|]; simpl in Ha; try discriminate; [|reflexivity].
    apply andb_true_iff in Ha as [H1 H2]. apply tok_eqb_eq in H1, H2. subst. reflexivity.
  - destruct p1, p2; simpl in Hp; try discriminate; [apply eqb_prop in Hp; subst|]; reflexivity.
Qed.

(* ------------------------------------------------------------------ source = decision, all assignments *)
(* HTTPGetter.get *)
Lemma getter_attach_source : forall r, eval_c r getter_attach_src = getter_attach r.
Proof.
  intro r. apply eqb_prop.
  apply (for_all_assignments (fun r => Bool.eqb (eval_c r getter_attach_src) (getter_attach r))).
  vm_compute. reflexivity.
Qed.

(* ... and every SetBasicAuth call is given the configured user name and password *)
Lemma getter_attach_args_source :
  forall r args, In args getter_attach_args_src -> map (eval_s r) args = [TUser; TPass].
Proof.
  intros r args Hin.
  assert (H : forallb (fun r => forallb (fun a => match map (eval_s r) a with [TUser; TPass] => true | _ => false end) getter_attach_args_src) all_assignments = true)
    by (vm_compute; reflexivity).
  pose proof (for_all_assignments _ H r) as Hr. rewrite forallb_forall in Hr. specialize (Hr args Hin).
  destruct (map (eval_s r) args) as [|[] [|[] [|]]]; try discriminate. reflexivity.
Qed.

Definition caller_sopts (keep : bool) (r : assignment) : sopts := mkSO None (kept_auth keep) (Some (v_pass_all r)).

(* ChartPathOptions.LocateChart: dl.Options at dl.DownloadTo *)
Lemma locate_chart_source :
  forall r, apply_slist (eval_l r locate_chart_options_src) = caller_sopts (locate_keep r) r.
Proof.
  intro r. apply sopts_eqb_eq.
  apply (for_all_assignments (fun r => sopts_eqb (apply_slist (eval_l r locate_chart_options_src)) (caller_sopts (locate_keep r) r))).
  vm_compute. reflexivity.
Qed.

(* Pull.Run: c.Options at c.DownloadTo *)
Lemma pull_run_source :
  forall r, apply_slist (eval_l r pull_run_options_src) = caller_sopts (pull_keep r) r.
Proof.
  intro r. apply sopts_eqb_eq.
  apply (for_all_assignments (fun r => sopts_eqb (apply_slist (eval_l r pull_run_options_src)) (caller_sopts (pull_keep r) r))).
  vm_compute. reflexivity.
Qed.

(* Manager.downloadAll: dl.Options at dl.DownloadTo *)
Lemma manager_download_all_source :
  forall r, apply_slist (eval_l r manager_download_all_options_src) = caller_sopts (manager_keep r) r.
Proof.
  intro r. apply sopts_eqb_eq.
  apply (for_all_assignments (fun r => sopts_eqb (apply_slist (eval_l r manager_download_all_options_src)) (caller_sopts (manager_keep r) r))).
  vm_compute. reflexivity.
Qed.

(* ChartDownloader.ResolveChartVersion: the four successful returns *)
Definition resolve_expected (r : assignment) : list sopts :=
  [ sopts0;                              (* OCI reference: nothing appended *)
    mkSO (Some TRef) None None;           (* absolute URL, no owner repository: WithURL(ref) *)
    entry_sopts r;                        (* absolute URL owned by rc *)
    entry_sopts r ].                      (* repo/chart *)

Fixpoint sopts_list_eqb (a b : list sopts) : bool :=
  match a, b with
  | [], [] => true
  | x :: s, y :: t => sopts_eqb x y && sopts_list_eqb s t
  | _, _ => false
  end.

Lemma sopts_list_eqb_eq a b : sopts_list_eqb a b = true -> a = b.
Proof.
  revert b. induction a as [|x s IH]; destruct b as [|y t]; simpl; try discriminate; [reflexivity|].
  intro H. apply andb_true_iff in H as [H1 H2]. apply sopts_eqb_eq in H1. apply IH in H2. subst. reflexivity.
Qed.

Lemma resolve_returns_source :
  forall r, map (fun l => apply_slist (eval_l r l)) resolve_returns_src = resolve_expected r.
Proof.
  intro r. apply sopts_list_eqb_eq.
  apply (for_all_assignments (fun r => sopts_list_eqb (map (fun l => apply_slist (eval_l r l)) resolve_returns_src) (resolve_expected r))).
  vm_compute. reflexivity.
Qed.

(* ChartDownloader.DownloadTo: the archive is fetched with c.Options..., the provenance file
   at the same URL + ".prov" with NO options (it relies on those that persist in the getter) *)
Lemma download_to_gets_source :
  download_to_gets_src = [("u.String()", 0, "c.Options"); ("u.String() + lit:.prov", 0, "")].
Proof. reflexivity. Qed.

(* ChartRepository.DownloadIndexFile *)
Lemma download_index_source :
  forall r, apply_slist (eval_l r download_index_options_src) = mkSO (Some TRepoUrl) (Some (TUser, TPass)) (Some (v_pass_all r)).
Proof.
  intro r. apply sopts_eqb_eq.
  apply (for_all_assignments (fun r => sopts_eqb (apply_slist (eval_l r download_index_options_src)) (mkSO (Some TRepoUrl) (Some (TUser, TPass)) (Some (v_pass_all r))))).
  vm_compute. reflexivity.
Qed.

(* ------------------------------------------------------------------ decision = model *)
Definition url_eq_atoms (u1 u2 : url) : bool * bool :=
  (String.eqb (u_scheme u1) (u_scheme u2), String.eqb (u_host u1) (u_host u2)).

(* HTTPGetter.get *)
Definition getter_assignment (o : gopts) (u1 u2 : url) : assignment :=
  mkA (g_pass_all o) (fst (url_eq_atoms u1 u2)) (snd (url_eq_atoms u1 u2)) (nonempty (g_user o)) (nonempty (g_pass o))
      false false false false.

Lemma getter_get_decision parse o href u1 u2 :
  parse (g_url o) = Some u1 -> parse href = Some u2 ->
  getter_get parse o href =
  if getter_attach (getter_assignment o u1 u2) then GReq (Some (Cred (g_user o) (g_pass o) (g_src o))) else GReq None.
Proof. intros E1 E2. unfold getter_get. rewrite E1, E2. reflexivity. Qed.

(* the source-derived condition decides the model *)
Lemma getter_get_source parse o href u1 u2 :
  parse (g_url o) = Some u1 -> parse href = Some u2 ->
  getter_get parse o href =
  if eval_c (getter_assignment o u1 u2) getter_attach_src then GReq (Some (Cred (g_user o) (g_pass o) (g_src o))) else GReq None.
Proof. intros E1 E2. rewrite getter_attach_source. apply getter_get_decision; assumption. Qed.

(* the command line (LocateChart, Pull.Run) *)
Definition cli_assignment (c : cpo) (u1 u2 : url) : assignment :=
  mkA (c_pass_all c) (fst (url_eq_atoms u1 u2)) (snd (url_eq_atoms u1 u2)) false false (nonempty (c_repo_url c)) false false false.

Definition cli_pair (c : cpo) (src : string) (keep : bool) : opt :=
  if keep then OBasicAuth (c_user c) (c_pass c) src else OBasicAuth "" "" "".

(* LocateChart after a --repo lookup: the last option is the pair, kept by locate_keep *)
Lemma locate_chart_decision parse url_equal lookup index_url find_in c name repos ok chart_url u1 u2 :
  nonempty (c_repo_url c) = true ->
  find_in (c_repo_url c) name (c_version c) = Some chart_url ->
  parse (c_repo_url c) = Some u1 -> parse chart_url = Some u2 ->
  locate_chart parse url_equal lookup index_url find_in c name repos ok =
  (download_index parse index_url (adhoc_entry (c_repo_url c) (c_user c) (c_pass c) (c_pass_all c)) ++
   download_to parse url_equal lookup
     ([OPassAll (c_pass_all c); OOther; OOther; OOther; OBasicAuth (c_user c) (c_pass c) (cmdline_src parse c name repos)]
      ++ [cli_pair c (cmdline_src parse c name repos) (locate_keep (cli_assignment c u1 u2))])
     chart_url (c_version c) repos (c_verify c) ok)%list.
Proof.
  intros Hr Hf E1 E2. unfold locate_chart. rewrite Hr, Hf, E1, E2.
  unfold locate_keep, cli_assignment, cli_pair, url_eq_atoms, same_origin. cbn [v_repo_set v_pass_all v_scheme_eq v_host_eq fst snd].
  rewrite Hr. destruct (c_pass_all c || _); reflexivity.
Qed.

Lemma locate_chart_decision_no_repo parse url_equal lookup index_url find_in c name repos ok u1 u2 :
  nonempty (c_repo_url c) = false ->
  locate_chart parse url_equal lookup index_url find_in c name repos ok =
  download_to parse url_equal lookup
     ([OPassAll (c_pass_all c); OOther; OOther; OOther; OBasicAuth (c_user c) (c_pass c) (cmdline_src parse c name repos)]
      ++ [cli_pair c (cmdline_src parse c name repos) (locate_keep (cli_assignment c u1 u2))])
     name (c_version c) repos (c_verify c) ok.
Proof.
  intros Hr. unfold locate_chart. rewrite Hr. unfold locate_keep, cli_assignment, cli_pair. cbn [v_repo_set]. rewrite Hr. reflexivity.
Qed.

(* Pull.Run after a --repo lookup: a blanking option is appended unless pull_keep *)
Lemma pull_decision parse url_equal lookup index_url find_in c name repos wp ok chart_url u1 u2 :
  nonempty (c_repo_url c) = true ->
  find_in (c_repo_url c) name (c_version c) = Some chart_url ->
  parse (c_repo_url c) = Some u1 -> parse chart_url = Some u2 ->
  pull parse url_equal lookup index_url find_in c name repos wp ok =
  (download_index parse index_url (adhoc_entry (c_repo_url c) (c_user c) (c_pass c) (c_pass_all c)) ++
   download_to parse url_equal lookup
     ([OBasicAuth (c_user c) (c_pass c) (cmdline_src parse c name repos); OPassAll (c_pass_all c); OOther; OOther; OOther]
      ++ (if pull_keep (cli_assignment c u1 u2) then [] else [OBasicAuth "" "" ""]))
     chart_url (c_version c) repos wp ok)%list.
Proof.
  intros Hr Hf E1 E2. unfold pull. rewrite Hr, Hf, E1, E2.
  unfold pull_keep, cli_assignment, url_eq_atoms, same_origin. cbn [v_repo_set v_pass_all v_scheme_eq v_host_eq fst snd].
  rewrite Hr. cbn [andb]. destruct (negb (c_pass_all c) && _); reflexivity.
Qed.

(* Manager.downloadAll *)
Definition manager_assignment (user pass : string) (pa : bool) (p1 p2 : option url) : assignment :=
  let '(se, he) := match p1, p2 with Some u1, Some u2 => url_eq_atoms u1 u2 | _, _ => (false, false) end in
  mkA pa se he (nonempty user) (nonempty pass) false
      (match p1 with None => true | Some _ => false end) (match p2 with None => true | Some _ => false end) false.

Lemma scoped_creds_decision parse dep_repo churl user pass pa :
  scoped_creds parse dep_repo churl user pass pa =
  if manager_keep (manager_assignment user pass pa (parse dep_repo) (parse churl)) then (user, pass) else ("", "").
Proof.
  unfold scoped_creds, manager_keep, manager_assignment.
  destruct (parse dep_repo) as [u1|]; destruct (parse churl) as [u2|]; cbn;
    destruct (negb pa && (nonempty user || nonempty pass)); try reflexivity.
  all: unfold same_origin; cbn; destruct (_ && _); reflexivity.
Qed.

(* ResolveChartVersion for a repository entry: what the appended options amount to *)
Definition entry_assignment (rc : entry) : assignment :=
  mkA (e_pass_all rc) false false (nonempty (e_user rc)) (nonempty (e_pass rc)) false false false false.

(* the symbolic options, read with the entry's fields for the tokens, laid over the
   options in force before *)
Definition overlay_entry (o : gopts) (rc : entry) (s : sopts) : gopts :=
  mkOpts (match so_url s with Some TRepoUrl => e_url rc | _ => g_url o end)
         (match so_auth s with Some (TUser, TPass) => e_user rc | _ => g_user o end)
         (match so_auth s with Some (TUser, TPass) => e_pass rc | _ => g_pass o end)
         (match so_auth s with Some (TUser, TPass) => e_url rc | _ => g_src o end)
         (match so_pass_all s with Some b => b | None => g_pass_all o end).

Lemma resolve_entry_decision o rc :
  apply_opts o ((OUrl (e_url rc) :: OOther :: entry_cred_opts rc) ++ [OOther]) =
  overlay_entry o rc (entry_sopts (entry_assignment rc)).
Proof.
  rewrite apply_entry_tail. unfold entry_sopts, entry_assignment, overlay_entry, has_creds. cbn [v_has_user v_has_pass v_pass_all].
  destruct (nonempty (e_user rc) && nonempty (e_pass rc)); reflexivity.
Qed.

(* Manager.downloadAll (and the two command-line callers) construct the option list they hand
   to DownloadTo on the way to the call - in downloadAll: inside the loop iteration - and do
   not append to a slice that outlives it *)
Lemma options_fresh_source :
  fresh_list manager_download_all_options_src = true /\
  fresh_list locate_chart_options_src = true /\ fresh_list pull_run_options_src = true.
Proof. vm_compute. repeat split. Qed.

(* Stable sorting by a total preorder is uniquely determined.

   Used by C08 (sort.SliceStable by kind rank, sort.Strings on file paths) and C05.

   Setting: [leb : A -> A -> bool] is a total preorder on the ELEMENTS (typically
   [fun a b => key_leb (key a) (key b)] for a rank/key function).  Two elements are
   "tied" when [leb a b && leb b a].

     ssort leb l            the model: insertion sort, stable (ties keep input order)
     SortedBy leb l         := StronglySorted (fun a b => leb a b = true) l
     StableWrt leb l l'     := forall x, filter (tied leb x) l' = filter (tied leb x) l
                               (within every tie class, l' lists the elements of l in
                                l's order — the usual definition of stability, valid
                                also when l has repeated elements)

   Main statements (all closed, no hypotheses beyond totality + transitivity of leb):

     ssort_perm      : Permutation (ssort leb l) l
     ssort_sorted    : total leb -> trans leb -> SortedBy leb (ssort leb l)
     ssort_stable    : total leb -> trans leb -> StableWrt leb l (ssort leb l)
     sorted_stable_unique :
        total leb -> trans leb ->
        SortedBy leb l1 -> SortedBy leb l2 -> Permutation l1 l2 ->
        (forall x, filter (tied leb x) l1 = filter (tied leb x) l2) -> l1 = l2
     stable_sort_unique :
        total leb -> trans leb ->
        Permutation l' l -> SortedBy leb l' -> StableWrt leb l l' -> l' = ssort leb l
        (ANY algorithm whose output is a sorted, stable permutation of the input —
         Go's sort.SliceStable, sort.Stable — computes exactly [ssort])
     sorted_antisym_unique :
        (antisymmetric case, e.g. distinct string keys: stability is not needed)
        total leb -> trans leb -> (forall a b, In a l1 -> In b l1 -> leb a b = true -> leb b a = true -> a = b) ->
        SortedBy leb l1 -> SortedBy leb l2 -> Permutation l1 l2 -> l1 = l2
     ssort_sorted_id : SortedBy leb l -> ssort leb l = l

   Key-based corollaries: [by_key kleb key] lifts a preorder on keys to elements; the
   string order lemmas [string_leb_trans], [string_leb_total'] make [String.leb]
   (bytewise lexicographic = Go's < on strings) usable directly. *)
From Coq Require Import List Bool Arith Lia Permutation Sorted String Ascii NArith.
Import ListNotations.

Section StableSort.
  Context {A : Type}.
  Variable leb : A -> A -> bool.

  Definition total := forall a b, leb a b = true \/ leb b a = true.
  Definition trans := forall a b c, leb a b = true -> leb b c = true -> leb a c = true.

  Definition tied (x y : A) : bool := leb x y && leb y x.

  Definition SortedBy (l : list A) : Prop := StronglySorted (fun a b => leb a b = true) l.
  Definition StableWrt (l l' : list A) : Prop := forall x, filter (tied x) l' = filter (tied x) l.

  (* insert x before the first element that is strictly greater: x goes AFTER its ties
     when inserting from the left (fold_left), so we insert from the right (fold_right)
     and place x BEFORE its ties: skip y only while y is strictly smaller than x, i.e.
     while [leb x y = false]. *)
  Fixpoint sinsert (x : A) (l : list A) : list A :=
    match l with
    | [] => [x]
    | y :: t => if leb x y then x :: y :: t else y :: sinsert x t
    end.

  Fixpoint ssort (l : list A) : list A :=
    match l with
    | [] => []
    | x :: t => sinsert x (ssort t)
    end.

  Lemma sinsert_perm x l : Permutation (sinsert x l) (x :: l).
  Proof.
    induction l as [|y t IH]; simpl; auto.
    destruct (leb x y); auto.
    rewrite IH. apply perm_swap.
  Qed.

  Lemma ssort_perm l : Permutation (ssort l) l.
  Proof.
    induction l as [|x t IH]; simpl; auto.
    rewrite sinsert_perm. now constructor.
  Qed.

  Lemma ssort_length l : List.length (ssort l) = List.length l.
  Proof. apply Permutation_length, ssort_perm. Qed.

  Lemma ssort_In x l : In x (ssort l) <-> In x l.
  Proof. split; apply Permutation_in; [|symmetry]; apply ssort_perm. Qed.

  Hypothesis Htot : total.
  Hypothesis Htr : trans.

  Lemma leb_refl a : leb a a = true.
  Proof. destruct (Htot a a); auto. Qed.

  Lemma tied_refl a : tied a a = true.
  Proof. unfold tied. now rewrite leb_refl. Qed.

  Lemma tied_sym a b : tied a b = tied b a.
  Proof. unfold tied. apply andb_comm. Qed.

  Lemma sinsert_sorted x l : SortedBy l -> SortedBy (sinsert x l).
  Proof.
    unfold SortedBy. induction l as [|y t IH]; simpl; intros Hs.
    - constructor; constructor.
    - inversion Hs as [|? ? Hst Hall]; subst.
      destruct (leb x y) eqn:E.
      + constructor; auto. constructor; auto.
        eapply Forall_impl; [|exact Hall]. intros z Hz. eapply Htr; eauto.
      + constructor; auto.
        assert (Hyx : leb y x = true) by (destruct (Htot x y); congruence).
        rewrite Forall_forall. intros z Hz.
        apply (Permutation_in _ (sinsert_perm x t)) in Hz. destruct Hz as [<-|Hz]; auto.
        rewrite Forall_forall in Hall. auto.
  Qed.

  Lemma ssort_sorted l : SortedBy (ssort l).
  Proof.
    induction l as [|x t IH]; simpl.
    - constructor.
    - now apply sinsert_sorted.
  Qed.

  (* inserting x leaves every tie class as "x in front of the class" or untouched *)
  Lemma sinsert_filter x l z :
    SortedBy l ->
    filter (tied z) (sinsert x l) = filter (tied z) (x :: l).
  Proof.
    unfold SortedBy. induction l as [|y t IH]; intros Hs; [reflexivity|].
    inversion Hs as [|? ? Hst Hall]; subst.
    simpl sinsert. destruct (leb x y) eqn:E; [reflexivity|].
    assert (Hyx : leb y x = true) by (destruct (Htot x y); congruence).
    change (filter (tied z) (y :: sinsert x t)) with
      (if tied z y then y :: filter (tied z) (sinsert x t) else filter (tied z) (sinsert x t)).
    rewrite (IH Hst). simpl.
    destruct (tied z y) eqn:Ty; destruct (tied z x) eqn:Tx; try reflexivity.
    (* both tied with z: then leb x y via z, contradiction with E *)
    unfold tied in Ty, Tx. apply andb_true_iff in Ty, Tx. destruct Ty as [Zy Yz], Tx as [Zx Xz].
    rewrite (Htr x z y Xz Zy) in E. discriminate.
  Qed.

  Lemma ssort_stable l : StableWrt l (ssort l).
  Proof.
    intros z. induction l as [|x t IH]; [reflexivity|].
    simpl ssort. rewrite sinsert_filter by apply ssort_sorted.
    simpl. now rewrite IH.
  Qed.

  Lemma sorted_stable_unique l1 : forall l2,
    SortedBy l1 -> SortedBy l2 -> Permutation l1 l2 ->
    (forall x, filter (tied x) l1 = filter (tied x) l2) -> l1 = l2.
  Proof.
    unfold SortedBy. induction l1 as [|a t1 IH]; intros l2 S1 S2 P F.
    - apply Permutation_nil in P. now subst.
    - destruct l2 as [|b t2]; [symmetry in P; apply Permutation_nil in P; discriminate|].
      inversion S1 as [|? ? S1t A1]; inversion S2 as [|? ? S2t A2]; subst.
      rewrite Forall_forall in A1, A2.
      assert (Hab : leb a b = true).
      { assert (In b (a :: t1)) as [->|Hb] by (eapply Permutation_in; [symmetry; exact P|now left]);
          [apply leb_refl|auto]. }
      assert (Hba : leb b a = true).
      { assert (In a (b :: t2)) as [->|Ha] by (eapply Permutation_in; [exact P|now left]);
          [apply leb_refl|auto]. }
      assert (a = b).
      { specialize (F a). simpl in F. rewrite tied_refl in F.
        unfold tied at 2 in F. rewrite Hab, Hba in F. simpl in F. now inversion F. }
      subst b. f_equal. apply IH; auto.
      + eapply Permutation_cons_inv; eauto.
      + intros x. specialize (F x). simpl in F. destruct (tied x a); [now inversion F|auto].
  Qed.

  Theorem stable_sort_unique l l' :
    Permutation l' l -> SortedBy l' -> StableWrt l l' -> l' = ssort l.
  Proof.
    intros P S St. apply sorted_stable_unique; auto.
    - apply ssort_sorted.
    - rewrite P. symmetry. apply ssort_perm.
    - intros x. rewrite (St x). symmetry. apply ssort_stable.
  Qed.

  Lemma ssort_sorted_id l : SortedBy l -> ssort l = l.
  Proof.
    intros S. symmetry. apply stable_sort_unique; auto. intros x. reflexivity.
  Qed.

  Lemma ssort_idem l : ssort (ssort l) = ssort l.
  Proof. apply ssort_sorted_id, ssort_sorted. Qed.

  (* antisymmetric on the elements at hand (e.g. distinct keys): sortedness alone fixes
     the list *)
  Lemma sorted_antisym_unique l1 : forall l2,
    (forall a b, In a l1 -> In b l1 -> leb a b = true -> leb b a = true -> a = b) ->
    SortedBy l1 -> SortedBy l2 -> Permutation l1 l2 -> l1 = l2.
  Proof.
    unfold SortedBy. induction l1 as [|a t1 IH]; intros l2 Anti S1 S2 P.
    - apply Permutation_nil in P. now subst.
    - destruct l2 as [|b t2]; [symmetry in P; apply Permutation_nil in P; discriminate|].
      inversion S1 as [|? ? S1t A1]; inversion S2 as [|? ? S2t A2]; subst.
      rewrite Forall_forall in A1, A2.
      assert (Inb : In b (a :: t1)) by (eapply Permutation_in; [symmetry; exact P|now left]).
      assert (Hab : leb a b = true) by (destruct Inb as [->|Hb]; [apply leb_refl|auto]).
      assert (Hba : leb b a = true).
      { assert (In a (b :: t2)) as [->|Ha] by (eapply Permutation_in; [exact P|now left]);
          [apply leb_refl|auto]. }
      assert (a = b) by (apply Anti; auto; now left).
      subst b. f_equal. apply IH; auto.
      + intros x y Hx Hy. apply Anti; now right.
      + eapply Permutation_cons_inv; eauto.
  Qed.

  (* every element before a strictly greater one: the "sorted" reading used by clients *)
  Lemma SortedBy_app_inv l1 l2 :
    SortedBy (l1 ++ l2) -> forall a b, In a l1 -> In b l2 -> leb a b = true.
  Proof.
    unfold SortedBy. induction l1 as [|x t IH]; simpl; intros S a b Ha Hb; [tauto|].
    inversion S as [|? ? St Hall]; subst. destruct Ha as [<-|Ha].
    - rewrite Forall_forall in Hall. apply Hall, in_or_app. now right.
    - eapply IH; eauto.
  Qed.
End StableSort.

(* ---- sorting by a key --------------------------------------------------------- *)
Section ByKey.
  Context {A K : Type}.
  Variable kleb : K -> K -> bool.
  Variable key : A -> K.

  Definition by_key (a b : A) : bool := kleb (key a) (key b).

  Lemma by_key_total : total kleb -> total by_key.
  Proof. intros H a b. apply H. Qed.

  Lemma by_key_trans : trans kleb -> trans by_key.
  Proof. intros H a b c. apply H. Qed.
End ByKey.

(* rank into nat *)
Lemma nat_leb_total : total Nat.leb.
Proof. intros a b. rewrite !Nat.leb_le. lia. Qed.
Lemma nat_leb_trans : trans Nat.leb.
Proof. intros a b c. rewrite !Nat.leb_le. lia. Qed.

(* ---- String.leb (bytewise lexicographic, = Go's string <=) is a total order ---- *)
Lemma ascii_compare_lt_trans a b c :
  Ascii.compare a b = Lt -> Ascii.compare b c = Lt -> Ascii.compare a c = Lt.
Proof. unfold Ascii.compare. rewrite !N.compare_lt_iff. lia. Qed.

Lemma string_compare_refl s : String.compare s s = Eq.
Proof.
  induction s as [|c s IH]; simpl; auto.
  unfold Ascii.compare. now rewrite N.compare_refl.
Qed.

Lemma string_compare_eq s t : String.compare s t = Eq <-> s = t.
Proof. split; [apply String.compare_eq_iff|intros ->; apply string_compare_refl]. Qed.

Lemma string_compare_lt_trans s : forall t u,
  String.compare s t = Lt -> String.compare t u = Lt -> String.compare s u = Lt.
Proof.
  induction s as [|a s IH]; intros [|b t] [|c u]; simpl; try congruence.
  destruct (Ascii.compare a b) eqn:E1; try discriminate;
    destruct (Ascii.compare b c) eqn:E2; try discriminate; intros H1 H2.
  - apply Ascii.compare_eq_iff in E1, E2. subst.
    unfold Ascii.compare. rewrite N.compare_refl. eauto.
  - apply Ascii.compare_eq_iff in E1. subst. now rewrite E2.
  - apply Ascii.compare_eq_iff in E2. subst. now rewrite E1.
  - now rewrite (ascii_compare_lt_trans _ _ _ E1 E2).
Qed.

Lemma string_leb_total' : total String.leb.
Proof. intros a b. apply String.leb_total. Qed.

Lemma string_leb_trans : trans String.leb.
Proof.
  intros a b c. unfold String.leb.
  destruct (String.compare a b) eqn:E1; try discriminate;
    destruct (String.compare b c) eqn:E2; try discriminate; intros _ _.
  - apply String.compare_eq_iff in E1, E2. subst. now rewrite string_compare_refl.
  - apply String.compare_eq_iff in E1. subst. now rewrite E2.
  - apply String.compare_eq_iff in E2. subst. now rewrite E1.
  - now rewrite (string_compare_lt_trans _ _ _ E1 E2).
Qed.

Lemma string_leb_antisym a b : String.leb a b = true -> String.leb b a = true -> a = b.
Proof. apply String.leb_antisym. Qed.

Lemma string_ltb_leb a b : String.ltb a b = negb (String.leb b a).
Proof.
  unfold String.ltb, String.leb. rewrite (String.compare_antisym a b).
  destruct (String.compare b a); reflexivity.
Qed.

(* sorting distinct strings: the result is THE sorted permutation (sort.Strings on the keys
   of a Go map) *)
Lemma sort_strings_unique (l l' : list string) :
  Permutation l' l -> SortedBy String.leb l' -> l' = ssort String.leb l.
Proof.
  intros P S. apply sorted_antisym_unique with (leb := String.leb); auto.
  - apply string_leb_total'.
  - intros a b _ _. apply string_leb_antisym.
  - apply ssort_sorted; [apply string_leb_total'|apply string_leb_trans].
  - rewrite P. symmetry. apply ssort_perm.
Qed.

(* Association lists keyed by strings: the value-semantic stand-in for Go maps. *)
From Coq Require Import List String Bool.
Import ListNotations.


Section Assoc.
  Context {V : Type}.

  Fixpoint aget (k : string) (l : list (string * V)) : option V :=
    match l with
    | [] => None
    | (k', v) :: t => if String.eqb k k' then Some v else aget k t
    end.

  (* replace in place when present, append when absent *)
  Fixpoint aset (k : string) (v : V) (l : list (string * V)) : list (string * V) :=
    match l with
    | [] => [(k, v)]
    | (k', v') :: t => if String.eqb k k' then (k, v) :: t else (k', v') :: aset k v t
    end.

  Fixpoint adel (k : string) (l : list (string * V)) : list (string * V) :=
    match l with
    | [] => []
    | (k', v') :: t => if String.eqb k k' then adel k t else (k', v') :: adel k t
    end.

  Definition amem (k : string) (l : list (string * V)) : bool :=
    match aget k l with Some _ => true | None => false end.

  Definition akeys (l : list (string * V)) : list string := map fst l.

  Lemma aget_aset_eq k v l : aget k (aset k v l) = Some v.
  Proof.
    induction l as [|[k' v'] t IH]; simpl.
    - now rewrite String.eqb_refl.
    - destruct (String.eqb k k') eqn:E; simpl; rewrite ?String.eqb_refl, ?E; auto.
  Qed.

  Lemma aget_aset_neq k k' v l : k <> k' -> aget k' (aset k v l) = aget k' l.
  Proof.
    intros Hne. induction l as [|[k2 v2] t IH]; simpl.
    - destruct (String.eqb k' k) eqn:E; auto. apply String.eqb_eq in E. congruence.
    - destruct (String.eqb k k2) eqn:E; simpl.
      + apply String.eqb_eq in E. subst k2.
        destruct (String.eqb k' k) eqn:E2; auto. apply String.eqb_eq in E2. congruence.
      + destruct (String.eqb k' k2); auto.
  Qed.

  Lemma aget_adel_eq k l : aget k (adel k l) = None.
  Proof.
    induction l as [|[k' v'] t IH]; simpl; auto.
    destruct (String.eqb k k') eqn:E; simpl; rewrite ?E; auto.
  Qed.

  Lemma aget_adel_neq k k' l : k <> k' -> aget k' (adel k l) = aget k' l.
  Proof.
    intros Hne. induction l as [|[k2 v2] t IH]; simpl; auto.
    destruct (String.eqb k k2) eqn:E; simpl.
    - apply String.eqb_eq in E. subst k2.
      destruct (String.eqb k' k) eqn:E2; auto. apply String.eqb_eq in E2. congruence.
    - destruct (String.eqb k' k2); auto.
  Qed.

  Lemma aget_In k v l : aget k l = Some v -> In (k, v) l.
  Proof.
    induction l as [|[k' v'] t IH]; simpl; [discriminate|].
    destruct (String.eqb k k') eqn:E; intros H.
    - apply String.eqb_eq in E. inversion H. subst. now left.
    - right. auto.
  Qed.

  Lemma In_aget k v l : NoDup (akeys l) -> In (k, v) l -> aget k l = Some v.
  Proof.
    unfold akeys. induction l as [|[k' v'] t IH]; simpl; [tauto|].
    intros Hnd [H|H].
    - inversion H. subst. now rewrite String.eqb_refl.
    - inversion Hnd as [|? ? Hni Hnd']; subst.
      destruct (String.eqb k k') eqn:E.
      + apply String.eqb_eq in E. subst k'. exfalso. apply Hni.
        change k with (fst (k, v)). now apply in_map.
      + auto.
  Qed.

  Lemma aget_None_notin k l : aget k l = None -> ~ In k (akeys l).
  Proof.
    unfold akeys. induction l as [|[k' v'] t IH]; simpl; [tauto|].
    destruct (String.eqb k k') eqn:E; [discriminate|].
    intros H [H1|H1].
    - subst. now rewrite String.eqb_refl in E.
    - now apply IH.
  Qed.

  Lemma akeys_aset_present k v l : aget k l <> None -> akeys (aset k v l) = akeys l.
  Proof.
    unfold akeys. induction l as [|[k' v'] t IH]; simpl; [congruence|].
    destruct (String.eqb k k') eqn:E; simpl; intros H.
    - apply String.eqb_eq in E. now subst.
    - f_equal. auto.
  Qed.

  Lemma akeys_aset_absent k v l : aget k l = None -> akeys (aset k v l) = akeys l ++ [k].
  Proof.
    unfold akeys. induction l as [|[k' v'] t IH]; simpl; auto.
    destruct (String.eqb k k') eqn:E; [discriminate|]. simpl. intros H. f_equal. auto.
  Qed.

  Lemma NoDup_akeys_aset k v l : NoDup (akeys l) -> NoDup (akeys (aset k v l)).
  Proof.
    intros Hnd. destruct (aget k l) eqn:E.
    - rewrite akeys_aset_present; congruence.
    - rewrite akeys_aset_absent by assumption.
      apply aget_None_notin in E.
      clear v. induction (akeys l) as [|x xs IH]; simpl.
      + constructor; [tauto|constructor].
      + inversion Hnd; subst. constructor.
        * rewrite in_app_iff. simpl. intros [H|[H|[]]]; [tauto|]. subst. apply E. now left.
        * apply IH; auto. intros H. apply E. now right.
  Qed.

  Lemma In_adel k k' v l : In (k', v) (adel k l) -> In (k', v) l /\ k' <> k.
  Proof.
    induction l as [|[k2 v2] t IH]; simpl; [tauto|].
    destruct (String.eqb k k2) eqn:E.
    - intros H. destruct (IH H). split; auto.
    - intros [H|H].
      + inversion H; subst. split; [now left|]. intros ->. now rewrite String.eqb_refl in E.
      + destruct (IH H). split; auto.
  Qed.

  Lemma NoDup_akeys_adel k l : NoDup (akeys l) -> NoDup (akeys (adel k l)).
  Proof.
    unfold akeys. induction l as [|[k2 v2] t IH]; simpl; auto.
    intros Hnd. inversion Hnd; subst.
    destruct (String.eqb k k2); simpl; auto.
    constructor; auto. intros Hin. apply in_map_iff in Hin. destruct Hin as [[a b] [Hab Hin]].
    simpl in Hab. subst a. apply In_adel in Hin. destruct Hin as [Hin _].
    match goal with H : ~ In k2 _ |- _ => apply H end.
    change k2 with (fst (k2, b)). now apply in_map.
  Qed.
End Assoc.

(* String helpers mirroring the Go string functions used by Helm's storage keys. *)
From Coq Require Import List String Ascii Bool Arith Lia DecimalString DecimalNat Decimal.
Import ListNotations.

(* byte-list strings, for the harness printers: (bs [104;105]) *)
Definition bs (l : list nat) : string :=
  fold_right (fun n s => String (ascii_of_nat n) s) EmptyString l.

Definition show_nat (n : nat) : string := NilEmpty.string_of_uint (Nat.to_uint n).

(* strconv.Atoi restricted to what makeKey can produce: a non-empty digit string. *)
Definition atoi (s : string) : option nat :=
  match s with
  | EmptyString => None
  | _ => option_map Nat.of_uint (NilEmpty.uint_of_string s)
  end.

Fixpoint no_dot (s : string) : bool :=
  match s with
  | EmptyString => true
  | String c t => negb (Ascii.eqb c ".") && no_dot t
  end.

(* strings.TrimPrefix *)
Definition trim_prefix (p s : string) : string :=
  if String.prefix p s then substring (String.length p) (String.length s - String.length p) s else s.

(* splitKey of memory.go (after the fix: split at the LAST ".v");
   None = no ".v" at all, i.e. len(elems) = 1 *)
Fixpoint split_last_dotv (s : string) : option (string * string) :=
  match s with
  | EmptyString => None
  | String c s' =>
      match split_last_dotv s' with
      | Some (a, b) => Some (String c a, b)
      | None =>
          match s' with
          | String c2 rest => if Ascii.eqb c "." && Ascii.eqb c2 "v" then Some (EmptyString, rest) else None
          | EmptyString => None
          end
      end
  end.

(* the pre-fix behaviour, strings.Split(s, ".v") having exactly two elements:
   kept for the refutation lemma C10_mem_dotv_refuted *)
Fixpoint count_dotv (s : string) : nat :=
  match s with
  | EmptyString => 0
  | String c s' =>
      match s' with
      | String c2 rest => if Ascii.eqb c "." && Ascii.eqb c2 "v" then S (count_dotv rest) else count_dotv s'
      | EmptyString => 0
      end
  end.

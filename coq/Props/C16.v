(* C16 — property theorems only: each closed by [exact] of a lemma proved elsewhere. *)
From Coq Require Import List String ZArith.
From Helm Require Import Chart.Paths Chart.Archive Chart.Lock Gen.Limits.
Local Open Scope Z_scope.

Theorem C16_limits_table :
  0 < max_decompressed_file_size /\ max_decompressed_file_size <= max_decompressed_chart_size.
Proof. vm_compute. split; [reflexivity | discriminate]. Qed.
Print Assumptions C16_limits_table.

(* C16 — File-writing operations never escape their directory or exceed size limits.
   Property theorems only: each closed by [exact] of a lemma proved under Chart/. *)
From Coq Require Import List String Ascii Bool ZArith.
From Helm Require Import Chart.Paths Chart.PathsProofs Chart.Archive Chart.ArchiveProofs
  Chart.Lock Chart.LockProofs Chart.PathFns Chart.PathFnsProofs Chart.FsTree Chart.FsTreeProofs
  Chart.FsLockProofs Chart.FsExplicit Chart.CleanBytesProofs Gen.Limits Gen.SecureJoinLib.
Import ListNotations.
Local Open Scope string_scope.
Local Open Scope Z_scope.

(* ---------- the limits, read from archive.go by the translator ---------- *)
Theorem C16_limits_table :
  0 < max_decompressed_file_size /\ max_decompressed_file_size <= max_decompressed_chart_size.
Proof. vm_compute. split; [reflexivity | discriminate]. Qed.
Print Assumptions C16_limits_table.

(* the comparison operators of the four size checks of LoadArchiveFiles, read from the source by
   the translator (go/ast), are the predicates the model's loop uses: a flipped operator in
   archive.go breaks this obligation *)
Theorem C16_limit_operators :
  forall a b : Z,
  cmp_of op_entry_vs_remaining a b = entry_over_remaining a b /\
  cmp_of op_entry_vs_file_limit a b = entry_over_file_limit a b /\
  cmp_of op_short_read a b = short_read a b /\
  cmp_of op_budget_exhausted a 0 = budget_exhausted a.
Proof. exact limit_operators. Qed.
Print Assumptions C16_limit_operators.

(* ---------- size budget ---------- *)
(* For every entry sequence the tar reader can yield (it never yields more data than the
   header declares, nor a negative size) and every pair of limits: an accepted archive has
   every loaded file within the per-file limit, the loaded bytes and the declared sizes of
   all counted entries strictly below the total limit.  Partial: entries that
   FileInfo().IsDir() reports as directories are not counted (C16_dirmode_refuted). *)
Theorem C16_size_budget_partial :
  forall (maxt maxf : Z) (s : tstream) (fs : list file),
  Forall (fun e => 0 <= te_size e /\ slen (te_data e) <= te_size e) (ts_entries s) ->
  load_archive_files maxt maxf s = inr fs ->
  Forall (fun f => slen (f_data f) <= maxf) fs /\
  fold_right Z.add 0 (map (fun f => slen (f_data f)) fs) < maxt /\
  Forall (fun e => te_size e <= maxf) (filter counted (ts_entries s)) /\
  fold_right Z.add 0 (map te_size (filter counted (ts_entries s))) < maxt.
Proof. exact size_budget. Qed.
Print Assumptions C16_size_budget_partial.

(* the same with the limits of the source tree *)
Theorem C16_size_budget_default :
  forall (s : tstream) (fs : list file),
  Forall (fun e => 0 <= te_size e /\ slen (te_data e) <= te_size e) (ts_entries s) ->
  load_archive_files max_decompressed_chart_size max_decompressed_file_size s = inr fs ->
  Forall (fun f => slen (f_data f) <= max_decompressed_file_size) fs /\
  fold_right Z.add 0 (map (fun f => slen (f_data f)) fs) < max_decompressed_chart_size.
Proof. exact size_budget_default. Qed.
Print Assumptions C16_size_budget_default.

(* whether or not the archive is accepted: no single read exceeds min(declared, remaining)
   and all reads together stay within the total limit *)
Theorem C16_reads_bounded :
  forall (maxt maxf : Z) (s : tstream),
  Forall (fun e => 0 <= te_size e /\ slen (te_data e) <= te_size e) (ts_entries s) ->
  let rs := snd (load_archive_trace maxt maxf s) in
  Forall (fun r => 0 <= rd_n r <= Z.min (rd_size r) (rd_rem r)) rs /\
  fold_right Z.add 0 (map rd_n rs) <= Z.max 0 maxt.
Proof. exact reads_bounded. Qed.
Print Assumptions C16_reads_bounded.

Example C16_size_budget_ex :
  Forall (fun e => 0 <= te_size e /\ slen (te_data e) <= te_size e) (ts_entries ok_stream) /\
  load_archive_files 10 5 ok_stream = inr [mkFile "Chart.yaml" "name"; mkFile "templates/a.yaml" "a:1"].
Proof. exact size_budget_example. Qed.
Print Assumptions C16_size_budget_ex.

(* C16_size_budget_partial quantifies over every entry name; in particular names that look like
   packaged dependencies (charts/…​.tgz, nested or not) get no exemption *)
Example C16_size_budget_any_name_ex :
  load_archive_files 1000 5 (mkTS false [mkTE "c/Chart.yaml" 48 420 4 "name" false;
                                         mkTE "c/charts/sub/files/blob.tgz" 48 420 6 "123456" false] false) = inl EFile /\
  load_archive_files 1000 5 (mkTS false [mkTE "c/Chart.yaml" 48 420 4 "name" false;
                                         mkTE "c/charts/sub-0.1.0.tgz" 48 420 6 "123456" false] false) = inl EFile.
Proof. exact file_limit_any_name. Qed.
Print Assumptions C16_size_budget_any_name_ex.

(* K5 (known finding): a regular-typed entry with directory mode bits is skipped uncounted,
   so the declared content of regular entries can exceed the total limit of an accepted archive *)
Theorem C16_dirmode_refuted :
  exists s fs,
    Forall (fun e => 0 <= te_size e /\ slen (te_data e) <= te_size e) (ts_entries s) /\
    load_archive_files 10 5 s = inr fs /\
    fold_right Z.add 0 (map te_size (filter (fun e => te_type e =? 48) (ts_entries s))) > 10.
Proof. exact dirmode_refuted. Qed.
Print Assumptions C16_dirmode_refuted.

(* ---------- names ---------- *)
(* every name LoadArchiveFiles accepts is a clean relative path: every component non-empty
   and different from "." and "..", no backslash, no drive prefix (hence no leading "/") *)
Theorem C16_names_clean :
  forall (hdname n : string), arch_name hdname = inr n ->
  Forall (fun c => c <> "" /\ c <> "." /\ c <> "..") (split_on slash n) /\
  contains_char bslash n = false /\ drive_prefix n = false.
Proof. exact arch_name_clean. Qed.
Print Assumptions C16_names_clean.

Theorem C16_names_clean_files :
  forall (maxt maxf : Z) (s : tstream) (fs : list file),
  load_archive_files maxt maxf s = inr fs -> Forall (fun f => clean_rel (f_name f)) fs.
Proof. exact loaded_names_clean. Qed.
Print Assumptions C16_names_clean_files.

Example C16_names_clean_ex :
  arch_name "chart\sub/..\templates/./a.yaml" = inr "templates/a.yaml" /\
  arch_name "chart/../../etc/passwd" = inl EParent /\ arch_name "chart/c:/x" = inl EDrive.
Proof. exact names_example. Qed.
Print Assumptions C16_names_clean_ex.

(* ---------- joins ---------- *)
(* the lexical join of any non-empty destination with an accepted name: the cleaned
   destination components are a proper prefix of the cleaned joined path's components,
   and what follows them are the name's own (good) components *)
Theorem C16_join_confined :
  forall (hdname n d : string), arch_name hdname = inr n -> d <> "" ->
  path_join d n = path_clean (d ++ "/" ++ n) /\
  clean_comps (d ++ "/" ++ n) = (clean_comps d ++ split_on slash n)%list /\
  split_on slash n <> [] /\
  Forall (fun c => c <> "" /\ c <> "." /\ c <> "..") (split_on slash n).
Proof. exact arch_join_confined. Qed.
Print Assumptions C16_join_confined.

(* cleanJoin of the plugin installer: an accepted name adds only good components below the
   cleaned root, and the returned path is the root followed by exactly those *)
Theorem C16_cleanjoin_confined :
  forall (root dest p : string), clean_join root dest = inr p ->
  let dest' := replace_char bslash slash dest in
  let rest := filter (fun c => negb (trivial_comp c)) (split_on slash dest') in
  Forall (fun c => c <> "" /\ c <> "." /\ c <> "..") rest /\
  clean_comps (path_clean root ++ "/" ++ dest') = (clean_comps (path_clean root) ++ rest)%list /\
  p = match rest with [] => path_clean root | _ => path_clean root ++ "/" ++ join "/" rest end.
Proof. exact clean_join_confined. Qed.
Print Assumptions C16_cleanjoin_confined.

Example C16_cleanjoin_ex :
  clean_join "/plugins/./cache/" "bin\.\x//y" = inr "/plugins/cache/bin/x/y" /\
  clean_join "/plugins" "a/../b" = inl CJDotDot /\ clean_join "/plugins" "c:x" = inl CJColon.
Proof. exact cleanjoin_example. Qed.
Print Assumptions C16_cleanjoin_ex.

(* the file name ChartDownloader.DownloadTo derives from the URL path (after fix cd986f1):
   a single path element, never "." or "..", so the join with the destination stays below it *)
Theorem C16_download_confined :
  forall (upath name d : string), download_name upath = Some name -> d <> "" ->
  name <> "." /\ name <> ".." /\ contains_char slash name = false /\
  clean_comps (d ++ "/" ++ name) = (clean_comps d ++ (if String.eqb name "" then [] else [name]))%list.
Proof. exact download_confined. Qed.
Print Assumptions C16_download_confined.

Example C16_download_ex :
  download_name "/charts/x-1.0.0.tgz" = Some "x-1.0.0.tgz" /\ download_name "/charts/../../x.tgz" = Some "x.tgz" /\
  download_name "/charts/.." = None /\ download_name "/" = None /\ download_name "/charts/." = None.
Proof. exact download_examples. Qed.
Print Assumptions C16_download_ex.

(* ---------- lock file ---------- *)
(* writeLock (after fix 2970e48) on any file system: it fails, or it changes nothing but
   the lock path, which ends up a regular file with the new content and was absent or a
   regular file before — never a symlink or a directory *)
Theorem C16_lock_confined :
  forall (fs : fsys) (dir : string) (legacy : bool) (data : string) (fs' : fsys),
  write_lock fs dir legacy data = Some fs' ->
  (forall p, p <> lock_path dir legacy -> fs_get p fs' = fs_get p fs) /\
  fs_get (lock_path dir legacy) fs' = Some (NFile data) /\
  (fs_get (lock_path dir legacy) fs = None \/ exists d, fs_get (lock_path dir legacy) fs = Some (NFile d)).
Proof. exact lock_confined. Qed.
Print Assumptions C16_lock_confined.

Example C16_lock_confined_ex :
  exists fs', write_lock [("/work/chart", NDir); ("/work/chart/Chart.lock", NFile "old")] "/work/chart" false "new" = Some fs'
              /\ fs_get "/work/chart/Chart.lock" fs' = Some (NFile "new").
Proof. exact lock_example. Qed.
Print Assumptions C16_lock_confined_ex.

(* F9 (fixed by 2970e48): the behaviour before the fix wrote through a planted symlink *)
Theorem C16_lock_symlink_refuted :
  exists fs dir data fs' p,
    write_lock_prefix fs dir false data = Some fs' /\ p <> lock_path dir false /\
    fs_get p fs' <> fs_get p fs.
Proof. exact lock_symlink_refuted. Qed.
Print Assumptions C16_lock_symlink_refuted.

Example C16_lock_symlink_now_refused : write_lock planted_fs "/work/chart" false "lock" = None.
Proof. exact lock_symlink_refused. Qed.
Print Assumptions C16_lock_symlink_now_refused.

(* ====================================================================================== *)
(* Round 4: path cleaning and joining inside the model, a nested file-system model         *)
(* ====================================================================================== *)

(* ---------- path.Clean / filepath.Clean, for every byte string ---------- *)
Theorem C16_clean_idempotent : forall s : string, path_clean (path_clean s) = path_clean s.
Proof. exact path_clean_idem. Qed.
Print Assumptions C16_clean_idempotent.

(* the result has no empty and no "." component; ".." occurs only as a leading run of a
   relative result; an absolute result is "/" followed by such components *)
Theorem C16_clean_components :
  forall s : string,
  (is_abs s = true ->
     exists g, path_clean s = "/" ++ join "/" g /\
               Forall (fun c => c <> "" /\ c <> "." /\ c <> "..") g /\
               Forall (fun c => contains_char slash c = false) g) /\
  (is_abs s = false ->
     exists k g, path_clean s = (match (repeat ".." k ++ g)%list with [] => "." | l => join "/" l end) /\
                 Forall (fun c => c <> "" /\ c <> "." /\ c <> "..") g /\
                 Forall (fun c => contains_char slash c = false) g).
Proof. exact path_clean_components. Qed.
Print Assumptions C16_clean_components.

(* an independently written test of cleanliness accepts every result, and everything it
   accepts is a fixed point of path.Clean *)
Theorem C16_clean_is_clean : forall s : string, is_clean_path (path_clean s) = true.
Proof. exact path_clean_is_clean. Qed.
Print Assumptions C16_clean_is_clean.

Theorem C16_clean_fixed : forall p : string, is_clean_path p = true -> path_clean p = p.
Proof. exact is_clean_fixed. Qed.
Print Assumptions C16_clean_fixed.

(* the byte-by-byte transcription of Go's path.Clean (clean_bytes: the lazybuf loop with r, w and
   dotdot, backing up over the last element byte by byte) computes, for EVERY byte string, what
   the component-level model the theorems are about computes *)
Theorem C16_clean_bytes_agree : forall s : string, clean_bytes s = path_clean s.
Proof. exact clean_bytes_path_clean. Qed.
Print Assumptions C16_clean_bytes_agree.

(* every name LoadArchiveFiles exposes, over the concrete clean: a fixed point of path.Clean,
   relative, not ".", not starting with ".." *)
Theorem C16_names_concrete :
  forall (hdname n : string), arch_name hdname = inr n ->
  path_clean n = n /\ is_clean_path n = true /\ is_abs n = false /\ n <> "." /\ has_prefix n ".." = false.
Proof. exact arch_name_concrete. Qed.
Print Assumptions C16_names_concrete.

Theorem C16_names_concrete_files :
  forall (maxt maxf : Z) (s : tstream) (fs : list file),
  load_archive_files maxt maxf s = inr fs ->
  Forall (fun f => path_clean (f_name f) = f_name f /\ is_clean_path (f_name f) = true /\
                   is_abs (f_name f) = false /\ f_name f <> "." /\ has_prefix (f_name f) ".." = false) fs.
Proof. exact loaded_names_concrete. Qed.
Print Assumptions C16_names_concrete_files.

(* cleanJoin with the final filepath.Join as the library does it (any root, "/" and "."
   included): an accepted name keeps the cleaned root's components as a prefix, adds only good
   components (backslashes are separators, a colon anywhere is refused), the result contains no
   ".." component and is itself clean *)
Theorem C16_cleanjoin2_confined :
  forall (root dest p : string), clean_join2 root dest = inr p ->
  let dest' := replace_char bslash slash dest in
  let rest := filter (fun c => negb (trivial_comp c)) (split_on slash dest') in
  Forall (fun c => c <> "" /\ c <> "." /\ c <> "..") rest /\
  is_abs p = is_abs (path_clean root) /\
  clean_comps p = (clean_comps (path_clean root) ++ rest)%list /\
  existsb (fun c => String.eqb c "..") (clean_comps p) = false /\
  path_clean p = p.
Proof. exact clean_join2_confined. Qed.
Print Assumptions C16_cleanjoin2_confined.

Theorem C16_cleanjoin2_agrees :
  forall (root dest : string),
  has_dotdot (path_clean root) = false -> clean_comps (path_clean root) <> [] ->
  has_nul (replace_char bslash slash dest) = false ->
  match clean_join root dest, clean_join2 root dest with
  | inl CJColon, inl CJ2Colon | inl CJDotDot, inl CJ2DotDot | inl CJAbs, inl CJ2Abs => True
  | inr a, inr b => a = b
  | _, _ => False
  end.
Proof. exact clean_join2_agrees. Qed.
Print Assumptions C16_cleanjoin2_agrees.

Example C16_cleanjoin2_ex :
  clean_join2 "/" "a\b" = inr "/a/b" /\ clean_join2 "." "a" = inr "a" /\
  clean_join2 "/r/" "c:\x" = inl CJ2Colon /\ clean_join2 "../r" "a" = inl CJ2Root.
Proof. exact cleanjoin2_example. Qed.
Print Assumptions C16_cleanjoin2_ex.

(* DownloadTo's file name, completed: one non-empty path element, never "." or "..", no
   separator; joined to any destination it appends exactly that one component *)
Theorem C16_download_name_element :
  forall (upath name d : string), download_name upath = Some name -> d <> "" ->
  name <> "" /\ name <> "." /\ name <> ".." /\ contains_char slash name = false /\
  clean_comps (path_join d name) = (clean_comps d ++ [name])%list.
Proof. exact download_name_element. Qed.
Print Assumptions C16_download_name_element.

(* ---------- the nested file-system model ---------- *)
(* SecureJoin's contract, for every tree with symlinks anywhere (relative, absolute, chains,
   loops, dangling): if the root R is a link-free canonical location, the result is R followed
   by good components and NO location on the way to it, the result included, is a symlink *)
Theorem C16_securejoin_confined :
  forall (t : tnode) (root : list string) (unsafe : string) (out : list string),
  Forall (fun c => c <> "" /\ c <> "." /\ c <> "..") root ->
  (forall q, (exists r, root = (q ++ r)%list) -> forall tg, tget t q <> Some (TLink tg)) ->
  secure_join t root unsafe = inr out ->
  exists cur, out = (root ++ cur)%list /\
              Forall (fun c => c <> "" /\ c <> "." /\ c <> "..") cur /\
              (forall q, (exists r, out = (q ++ r)%list) -> forall tg, tget t q <> Some (TLink tg)).
Proof. exact secure_join_confined_x. Qed.
Print Assumptions C16_securejoin_confined.

(* the SecureJoinVFS the model transcribes is the one of the library version /repo/go.mod
   requires: same link limit, same declaration text (fingerprint computed by the translator
   from the module source on every run) *)
Theorem C16_securejoin_source :
  sj_lib_max_symlinks = Z.of_nat sj_max_links /\ sj_lib_join_sha256 = sj_transcribed_sha256.
Proof. exact securejoin_source. Qed.
Print Assumptions C16_securejoin_source.

(* ... so the kernel resolves the result to itself, following the last component or not *)
Theorem C16_securejoin_resolves :
  forall (t : tnode) (root : list string) (unsafe : string) (out : list string) (follow : bool),
  Forall (fun c => c <> "" /\ c <> "." /\ c <> "..") root ->
  (forall q, (exists r, root = (q ++ r)%list) -> forall tg, tget t q <> Some (TLink tg)) ->
  secure_join t root unsafe = inr out ->
  c_walk t out follow = WErr EINVAL \/
  match c_walk t out follow with
  | WAt loc n => loc = out /\ tget t out = Some n
  | WNew p c => (p ++ [c])%list = out /\ tget t out = None
  | WErr _ => tget t out = None
  | WLink _ _ _ => False
  end.
Proof. exact secure_join_resolves_x. Qed.
Print Assumptions C16_securejoin_resolves.

(* Expand, for every tree, every chart name and every list of loaded files: if the destination
   R is a link-free canonical location holding a directory, then whatever the destination
   already contains (symlinks pointing anywhere included), every location that is not R or
   below R shows the same node afterwards, and no symlink is created anywhere *)
Theorem C16_expand_confined :
  forall (t : tnode) (R : list string) (name : string) (fs : list file) (t' : tnode) (e : option xerr),
  Forall (fun c => c <> "" /\ c <> "." /\ c <> "..") R ->
  (forall q, (exists r, R = (q ++ r)%list) -> forall tg, tget t q <> Some (TLink tg)) ->
  (exists es, tget t R = Some (TDir es)) ->
  expand_model t R name fs = (t', e) ->
  (forall q, (forall r, q <> (R ++ r)%list) -> shallow_of (tget t' q) = shallow_of (tget t q)) /\
  (exists es', tget t' R = Some (TDir es')) /\
  (forall q tg, tget t' q = Some (TLink tg) -> tget t q = Some (TLink tg)).
Proof. exact expand_confined_x. Qed.
Print Assumptions C16_expand_confined.

(* end to end from the tar entries: whatever archive LoadArchiveFiles accepts *)
Theorem C16_expand_archive_confined :
  forall (t : tnode) (R : list string) (name : string) (maxt maxf : Z) (s : tstream) (fs : list file)
         (t' : tnode) (e : option xerr),
  Forall (fun c => c <> "" /\ c <> "." /\ c <> "..") R ->
  (forall q, (exists r, R = (q ++ r)%list) -> forall tg, tget t q <> Some (TLink tg)) ->
  (exists es, tget t R = Some (TDir es)) ->
  load_archive_files maxt maxf s = inr fs ->
  expand_model t R name fs = (t', e) ->
  (forall q, (forall r, q <> (R ++ r)%list) -> shallow_of (tget t' q) = shallow_of (tget t q)) /\
  (exists es', tget t' R = Some (TDir es')) /\
  (forall q tg, tget t' q = Some (TLink tg) -> tget t q = Some (TLink tg)).
Proof. exact expand_archive_confined_x. Qed.
Print Assumptions C16_expand_archive_confined.

(* the same for the plugin installer's TarGzExtractor.Extract, for every tar entry sequence
   (symlink and hard-link entries are refused as unknown types; regular files and directories
   go through cleanJoin) *)
Theorem C16_extract_confined :
  forall (t : tnode) (R : list string) (s : tstream) (t' : tnode) (e : option xerr),
  Forall (fun c => c <> "" /\ c <> "." /\ c <> "..") R ->
  (forall q, (exists r, R = (q ++ r)%list) -> forall tg, tget t q <> Some (TLink tg)) ->
  (exists es, tget t R = Some (TDir es)) ->
  extract_model t R s = (t', e) ->
  (forall q, (forall r, q <> (R ++ r)%list) -> shallow_of (tget t' q) = shallow_of (tget t q)) /\
  (exists es', tget t' R = Some (TDir es')) /\
  (forall q tg, tget t' q = Some (TLink tg) -> tget t q = Some (TLink tg)).
Proof. exact extract_confined_x. Qed.
Print Assumptions C16_extract_confined.

(* neither operation ever creates a link: symlink and hard-link entries make Extract fail
   ("unknown type") and are loaded by Expand as empty regular files, so any link that exists
   afterwards existed before *)
Theorem C16_extract_creates_no_link :
  forall (t : tnode) (R : list string) (s : tstream) (t' : tnode) (e : option xerr),
  Forall (fun c => c <> "" /\ c <> "." /\ c <> "..") R ->
  (forall q, (exists r, R = (q ++ r)%list) -> forall tg, tget t q <> Some (TLink tg)) ->
  (exists es, tget t R = Some (TDir es)) ->
  extract_model t R s = (t', e) ->
  forall q tg, tget t' q = Some (TLink tg) -> tget t q = Some (TLink tg).
Proof. exact extract_creates_no_link_x. Qed.
Print Assumptions C16_extract_creates_no_link.

Theorem C16_expand_creates_no_link :
  forall (t : tnode) (R : list string) (name : string) (fs : list file) (t' : tnode) (e : option xerr),
  Forall (fun c => c <> "" /\ c <> "." /\ c <> "..") R ->
  (forall q, (exists r, R = (q ++ r)%list) -> forall tg, tget t q <> Some (TLink tg)) ->
  (exists es, tget t R = Some (TDir es)) ->
  expand_model t R name fs = (t', e) ->
  forall q tg, tget t' q = Some (TLink tg) -> tget t q = Some (TLink tg).
Proof. exact expand_creates_no_link_x. Qed.
Print Assumptions C16_expand_creates_no_link.

(* why rejecting link entries is the safe behaviour.  A symlink case for Extract that checks the
   target LEXICALLY (absolute targets refused, Join(Dir(path), linkname) must stay below the
   target directory — lexical_link_entry, not Helm's code) accepts the two cooperating entries
   "here -> ." and "up -> here/..": textually "here/.." is the directory itself, but "here" is a
   link, and the kernel resolves dest/up to the PARENT of the destination, so dest/up/secret reads
   a file outside.  The single-entry attacks ("..", absolute, "a/../../x") are refused by it. *)
Theorem C16_lexical_link_guard_refuted :
  let r1 := lexical_link_entry guard_tree guard_dest "here" "." in
  let r2 := lexical_link_entry (fst r1) guard_dest "up" "here/.." in
  snd r1 = None /\ snd r2 = None /\
  tget (fst r2) (guard_dest ++ ["up"]) = Some (TLink "here/..") /\
  c_walk (fst r2) (guard_dest ++ ["up"]) true = WAt ["sb"; "work"] (TDir [("dest", TDir [("here", TLink "."); ("up", TLink "here/..")]); ("secret", TFile "outside")]) /\
  c_walk (fst r2) (guard_dest ++ ["up"; "secret"]) true = WAt ["sb"; "work"; "secret"] (TFile "outside") /\
  link_resolves_inside (fst r2) guard_dest (guard_dest ++ ["up"]) = false /\
  snd (lexical_link_entry guard_tree guard_dest "up" "..") = Some XName /\
  snd (lexical_link_entry guard_tree guard_dest "up" "/sb/work") = Some XName /\
  snd (lexical_link_entry guard_tree guard_dest "up" "a/../../x") = Some XName.
Proof. exact lexical_link_guard_refuted. Qed.
Print Assumptions C16_lexical_link_guard_refuted.

(* the hypotheses are met by a destination full of hostile links ... *)
Example C16_tree_hyp_ex :
  Forall (fun c => c <> "" /\ c <> "." /\ c <> "..") ex_dest /\
  (forall q, (exists r, ex_dest = (q ++ r)%list) -> forall tg, tget ex_tree q <> Some (TLink tg)) /\
  (exists es, tget ex_tree ex_dest = Some (TDir es)).
Proof. exact tree_hyp_ex. Qed.
Print Assumptions C16_tree_hyp_ex.

(* ... through which the kernel model does walk out of the destination ... *)
Example C16_kernel_follows_ex :
  c_walk ex_tree (ex_dest ++ ["mychart"; "keep"]) true = WAt ["sb"; "outside"; "dir"; "keep"] (TFile "keep") /\
  c_walk ex_tree (ex_dest ++ ["a"; "chain"; "keep"]) true = WAt ["sb"; "outside"; "dir"; "keep"] (TFile "keep") /\
  c_walk ex_tree (ex_dest ++ ["loop"; "x"]) true = WErr ELOOP /\
  c_walk ex_tree (ex_dest ++ ["dang"]) true = WNew ["sb"; "outside"] "new".
Proof. exact ex_kernel_follows. Qed.
Print Assumptions C16_kernel_follows_ex.

(* ... while SecureJoin keeps each of them inside *)
Example C16_securejoin_ex :
  secure_join ex_tree ex_dest "mychart/keep" = inr (ex_dest ++ ["outside"; "dir"; "keep"])%list /\
  secure_join ex_tree ex_dest "a/chain/x" = inr (ex_dest ++ ["sb"; "outside"; "dir"; "x"])%list /\
  secure_join ex_tree ex_dest "abs/../../x" = inr (ex_dest ++ ["x"])%list /\
  secure_join ex_tree ex_dest "loop/x" = inl ELOOP /\
  secure_join ex_tree ex_dest "../../outside/target" = inr (ex_dest ++ ["outside"; "target"])%list.
Proof. exact ex_secure_join. Qed.
Print Assumptions C16_securejoin_ex.

(* what the theorem excludes: Expand's write with a lexical filepath.Join in place of
   SecureJoin goes through the planted chart-directory link and overwrites a file outside *)
Theorem C16_lexical_join_refuted :
  let t' := fst (expand_file_lexical ex_tree (ex_dest ++ ["mychart"]) (mkFile "keep" "overwritten")) in
  tget t' ["sb"; "outside"; "dir"; "keep"] = Some (TFile "overwritten") /\
  tget ex_tree ["sb"; "outside"; "dir"; "keep"] = Some (TFile "keep").
Proof. exact ex_lexical_join_escapes. Qed.
Print Assumptions C16_lexical_join_refuted.

Example C16_expand_inside_ex :
  let r := expand_model ex_tree ex_dest "mychart" [mkFile "Chart.yaml" "name: mychart"; mkFile "keep" "new"] in
  snd r = None /\
  tget (fst r) (ex_dest ++ ["outside"; "dir"; "keep"]) = Some (TFile "new") /\
  tget (fst r) ["sb"; "outside"; "dir"; "keep"] = Some (TFile "keep").
Proof. exact ex_expand_inside. Qed.
Print Assumptions C16_expand_inside_ex.

(* writeLock on the nested model, for every tree, working directory and chart path: success
   means ONE location D/<lock name> now holds a regular file; it is the location lstat resolves
   the destination path to (the last component NOT followed) and held nothing or a regular
   file.  Symlinks among the components of the chart path are the user's choice and are
   followed by the kernel; a symlink at the lock file's own name is never written through. *)
Theorem C16_lock_tree_confined :
  forall (t : tnode) (cwd : list string) (chartpath : string) (legacy : bool) (data : string) (t' : tnode),
  write_lock_t t cwd chartpath legacy data = (t', None) ->
  exists D,
    let loc := (D ++ [lock_name legacy])%list in
    (tget t loc = None \/ exists old, tget t loc = Some (TFile old)) /\
    tset t loc (TFile data) = Some t' /\
    (k_walk t cwd (path_join chartpath (lock_name legacy)) false = WNew D (lock_name legacy) \/
     exists old, k_walk t cwd (path_join chartpath (lock_name legacy)) false = WAt loc (TFile old)).
Proof. exact write_lock_t_confined. Qed.
Print Assumptions C16_lock_tree_confined.

Theorem C16_lock_tree_failed :
  forall (t : tnode) (cwd : list string) (chartpath : string) (legacy : bool) (data : string) (t' : tnode) (e : lerr),
  write_lock_t t cwd chartpath legacy data = (t', Some e) -> t' = t.
Proof. exact write_lock_t_failed. Qed.
Print Assumptions C16_lock_tree_failed.

Example C16_lock_tree_ex :
  snd (write_lock_t ex_tree [] "/sb/work/dest/chart" false "lock") = Some LSymlink /\
  snd (write_lock_t ex_tree [] "/sb/work/dest/linked" false "lock") = Some LSymlink /\
  (let r := write_lock_t_prefix ex_tree [] "/sb/work/dest/linked" false "lock" in
   snd r = None /\ tget (fst r) ["sb"; "outside"; "target"] = Some (TFile "lock")) /\
  (let r := write_lock_t ex_tree [] "/sb/work/dest/mychart" false "lock" in
   snd r = None /\ tget (fst r) ["sb"; "outside"; "dir"; "Chart.lock"] = Some (TFile "lock")).
Proof. exact ex_lock. Qed.
Print Assumptions C16_lock_tree_ex.

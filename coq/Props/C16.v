(* C16 — File-writing operations never escape their directory or exceed size limits.
   Property theorems only: each closed by [exact] of a lemma proved under Chart/. *)
From Coq Require Import List String Ascii Bool ZArith.
From Helm Require Import Chart.Paths Chart.PathsProofs Chart.Archive Chart.ArchiveProofs
  Chart.Lock Chart.LockProofs Gen.Limits.
Import ListNotations.
Local Open Scope string_scope.
Local Open Scope Z_scope.

(* ---------- the limits, read from archive.go by the translator ---------- *)
Theorem C16_limits_table :
  0 < max_decompressed_file_size /\ max_decompressed_file_size <= max_decompressed_chart_size.
Proof. vm_compute. split; [reflexivity | discriminate]. Qed.
Print Assumptions C16_limits_table.

(* the comparison operators of the four size checks of LoadArchiveFiles, read from the source by
   the translator (go/ast), are the predicates the model's loop uses: a flipped operator in
   archive.go breaks this obligation *)
Theorem C16_limit_operators :
  forall a b : Z,
  cmp_of op_entry_vs_remaining a b = entry_over_remaining a b /\
  cmp_of op_entry_vs_file_limit a b = entry_over_file_limit a b /\
  cmp_of op_short_read a b = short_read a b /\
  cmp_of op_budget_exhausted a 0 = budget_exhausted a.
Proof. exact limit_operators. Qed.
Print Assumptions C16_limit_operators.

(* ---------- size budget ---------- *)
(* For every entry sequence the tar reader can yield (it never yields more data than the
   header declares, nor a negative size) and every pair of limits: an accepted archive has
   every loaded file within the per-file limit, the loaded bytes and the declared sizes of
   all counted entries strictly below the total limit.  Partial: entries that
   FileInfo().IsDir() reports as directories are not counted (C16_dirmode_refuted). *)
Theorem C16_size_budget_partial :
  forall (maxt maxf : Z) (s : tstream) (fs : list file),
  Forall (fun e => 0 <= te_size e /\ slen (te_data e) <= te_size e) (ts_entries s) ->
  load_archive_files maxt maxf s = inr fs ->
  Forall (fun f => slen (f_data f) <= maxf) fs /\
  fold_right Z.add 0 (map (fun f => slen (f_data f)) fs) < maxt /\
  Forall (fun e => te_size e <= maxf) (filter counted (ts_entries s)) /\
  fold_right Z.add 0 (map te_size (filter counted (ts_entries s))) < maxt.
Proof. exact size_budget. Qed.
Print Assumptions C16_size_budget_partial.

(* the same with the limits of the source tree *)
Theorem C16_size_budget_default :
  forall (s : tstream) (fs : list file),
  Forall (fun e => 0 <= te_size e /\ slen (te_data e) <= te_size e) (ts_entries s) ->
  load_archive_files max_decompressed_chart_size max_decompressed_file_size s = inr fs ->
  Forall (fun f => slen (f_data f) <= max_decompressed_file_size) fs /\
  fold_right Z.add 0 (map (fun f => slen (f_data f)) fs) < max_decompressed_chart_size.
Proof. exact size_budget_default. Qed.
Print Assumptions C16_size_budget_default.

(* whether or not the archive is accepted: no single read exceeds min(declared, remaining)
   and all reads together stay within the total limit *)
Theorem C16_reads_bounded :
  forall (maxt maxf : Z) (s : tstream),
  Forall (fun e => 0 <= te_size e /\ slen (te_data e) <= te_size e) (ts_entries s) ->
  let rs := snd (load_archive_trace maxt maxf s) in
  Forall (fun r => 0 <= rd_n r <= Z.min (rd_size r) (rd_rem r)) rs /\
  fold_right Z.add 0 (map rd_n rs) <= Z.max 0 maxt.
Proof. exact reads_bounded. Qed.
Print Assumptions C16_reads_bounded.

Example C16_size_budget_ex :
  Forall (fun e => 0 <= te_size e /\ slen (te_data e) <= te_size e) (ts_entries ok_stream) /\
  load_archive_files 10 5 ok_stream = inr [mkFile "Chart.yaml" "name"; mkFile "templates/a.yaml" "a:1"].
Proof. exact size_budget_example. Qed.
Print Assumptions C16_size_budget_ex.

(* C16_size_budget_partial quantifies over every entry name; in particular names that look like
   packaged dependencies (charts/…​.tgz, nested or not) get no exemption *)
Example C16_size_budget_any_name_ex :
  load_archive_files 1000 5 (mkTS false [mkTE "c/Chart.yaml" 48 420 4 "name" false;
                                         mkTE "c/charts/sub/files/blob.tgz" 48 420 6 "123456" false] false) = inl EFile /\
  load_archive_files 1000 5 (mkTS false [mkTE "c/Chart.yaml" 48 420 4 "name" false;
                                         mkTE "c/charts/sub-0.1.0.tgz" 48 420 6 "123456" false] false) = inl EFile.
Proof. exact file_limit_any_name. Qed.
Print Assumptions C16_size_budget_any_name_ex.

(* K5 (known finding): a regular-typed entry with directory mode bits is skipped uncounted,
   so the declared content of regular entries can exceed the total limit of an accepted archive *)
Theorem C16_dirmode_refuted :
  exists s fs,
    Forall (fun e => 0 <= te_size e /\ slen (te_data e) <= te_size e) (ts_entries s) /\
    load_archive_files 10 5 s = inr fs /\
    fold_right Z.add 0 (map te_size (filter (fun e => te_type e =? 48) (ts_entries s))) > 10.
Proof. exact dirmode_refuted. Qed.
Print Assumptions C16_dirmode_refuted.

(* ---------- names ---------- *)
(* every name LoadArchiveFiles accepts is a clean relative path: every component non-empty
   and different from "." and "..", no backslash, no drive prefix (hence no leading "/") *)
Theorem C16_names_clean :
  forall (hdname n : string), arch_name hdname = inr n ->
  Forall (fun c => c <> "" /\ c <> "." /\ c <> "..") (split_on slash n) /\
  contains_char bslash n = false /\ drive_prefix n = false.
Proof. exact arch_name_clean. Qed.
Print Assumptions C16_names_clean.

Theorem C16_names_clean_files :
  forall (maxt maxf : Z) (s : tstream) (fs : list file),
  load_archive_files maxt maxf s = inr fs -> Forall (fun f => clean_rel (f_name f)) fs.
Proof. exact loaded_names_clean. Qed.
Print Assumptions C16_names_clean_files.

Example C16_names_clean_ex :
  arch_name "chart\sub/..\templates/./a.yaml" = inr "templates/a.yaml" /\
  arch_name "chart/../../etc/passwd" = inl EParent /\ arch_name "chart/c:/x" = inl EDrive.
Proof. exact names_example. Qed.
Print Assumptions C16_names_clean_ex.

(* ---------- joins ---------- *)
(* the lexical join of any non-empty destination with an accepted name: the cleaned
   destination components are a proper prefix of the cleaned joined path's components,
   and what follows them are the name's own (good) components *)
Theorem C16_join_confined :
  forall (hdname n d : string), arch_name hdname = inr n -> d <> "" ->
  path_join d n = path_clean (d ++ "/" ++ n) /\
  clean_comps (d ++ "/" ++ n) = (clean_comps d ++ split_on slash n)%list /\
  split_on slash n <> [] /\
  Forall (fun c => c <> "" /\ c <> "." /\ c <> "..") (split_on slash n).
Proof. exact arch_join_confined. Qed.
Print Assumptions C16_join_confined.

(* cleanJoin of the plugin installer: an accepted name adds only good components below the
   cleaned root, and the returned path is the root followed by exactly those *)
Theorem C16_cleanjoin_confined :
  forall (root dest p : string), clean_join root dest = inr p ->
  let dest' := replace_char bslash slash dest in
  let rest := filter (fun c => negb (trivial_comp c)) (split_on slash dest') in
  Forall (fun c => c <> "" /\ c <> "." /\ c <> "..") rest /\
  clean_comps (path_clean root ++ "/" ++ dest') = (clean_comps (path_clean root) ++ rest)%list /\
  p = match rest with [] => path_clean root | _ => path_clean root ++ "/" ++ join "/" rest end.
Proof. exact clean_join_confined. Qed.
Print Assumptions C16_cleanjoin_confined.

Example C16_cleanjoin_ex :
  clean_join "/plugins/./cache/" "bin\.\x//y" = inr "/plugins/cache/bin/x/y" /\
  clean_join "/plugins" "a/../b" = inl CJDotDot /\ clean_join "/plugins" "c:x" = inl CJColon.
Proof. exact cleanjoin_example. Qed.
Print Assumptions C16_cleanjoin_ex.

(* the file name ChartDownloader.DownloadTo derives from the URL path (after fix cd986f1):
   a single path element, never "." or "..", so the join with the destination stays below it *)
Theorem C16_download_confined :
  forall (upath name d : string), download_name upath = Some name -> d <> "" ->
  name <> "." /\ name <> ".." /\ contains_char slash name = false /\
  clean_comps (d ++ "/" ++ name) = (clean_comps d ++ (if String.eqb name "" then [] else [name]))%list.
Proof. exact download_confined. Qed.
Print Assumptions C16_download_confined.

Example C16_download_ex :
  download_name "/charts/x-1.0.0.tgz" = Some "x-1.0.0.tgz" /\ download_name "/charts/../../x.tgz" = Some "x.tgz" /\
  download_name "/charts/.." = None /\ download_name "/" = None /\ download_name "/charts/." = None.
Proof. exact download_examples. Qed.
Print Assumptions C16_download_ex.

(* ---------- lock file ---------- *)
(* writeLock (after fix 2970e48) on any file system: it fails, or it changes nothing but
   the lock path, which ends up a regular file with the new content and was absent or a
   regular file before — never a symlink or a directory *)
Theorem C16_lock_confined :
  forall (fs : fsys) (dir : string) (legacy : bool) (data : string) (fs' : fsys),
  write_lock fs dir legacy data = Some fs' ->
  (forall p, p <> lock_path dir legacy -> fs_get p fs' = fs_get p fs) /\
  fs_get (lock_path dir legacy) fs' = Some (NFile data) /\
  (fs_get (lock_path dir legacy) fs = None \/ exists d, fs_get (lock_path dir legacy) fs = Some (NFile d)).
Proof. exact lock_confined. Qed.
Print Assumptions C16_lock_confined.

Example C16_lock_confined_ex :
  exists fs', write_lock [("/work/chart", NDir); ("/work/chart/Chart.lock", NFile "old")] "/work/chart" false "new" = Some fs'
              /\ fs_get "/work/chart/Chart.lock" fs' = Some (NFile "new").
Proof. exact lock_example. Qed.
Print Assumptions C16_lock_confined_ex.

(* F9 (fixed by 2970e48): the behaviour before the fix wrote through a planted symlink *)
Theorem C16_lock_symlink_refuted :
  exists fs dir data fs' p,
    write_lock_prefix fs dir false data = Some fs' /\ p <> lock_path dir false /\
    fs_get p fs' <> fs_get p fs.
Proof. exact lock_symlink_refuted. Qed.
Print Assumptions C16_lock_symlink_refuted.

Example C16_lock_symlink_now_refused : write_lock planted_fs "/work/chart" false "lock" = None.
Proof. exact lock_symlink_refused. Qed.
Print Assumptions C16_lock_symlink_now_refused.

(* C12 — property theorems only: each closed by [exact] of a lemma proved elsewhere.

   Vocabulary (Engine/HooksProofsTrace.v, HooksProofsGate.v):
   [exec p tr a]   program p runs to result a performing exactly the (effect, answer) pairs
                   of tr, in order — for ANY answers, i.e. for every cluster behaviour,
                   storage fault and crash; the trace of every run of the interpreter
                   Seq.run is one (C12_every_run_is_an_execution).
   [cview tr]      the creations (CCreate payload ok), hook watches (CWatch event hook ok),
                   deletions (CDelete payload ok) and updates of tr, in order;
   [cwview tr]     only its creations and hook watches.
   [pol_del h p]   = [CDelete [h_res h] true] if h is not of kind CustomResourceDefinition and
                   has p among its effective policies (before-hook-creation when none is
                   given), [] otherwise.
   [run_ok ev h]   = pol_del h BeforeHookCreation ++ [CCreate [h_res h] true; CWatch ev h true].
   [succ_dels hs]  = the pol_del h HookSucceeded of the hooks of hs, in that order.
   [quiet tr]      no cluster mutation and no hook watch in tr; [storage_only tr]: no cluster
                   call at all; [nowatch tr]: no hook watch. *)
From Helm Require Props.Skeleton. (* effect skeleton tied to /repo by the translator: notes/SKEL.md *)
From Coq Require Import List String Ascii Bool ZArith Permutation Sorted.
From Helm Require Import Engine.Types Engine.Eff Engine.Ops Engine.Cluster Engine.Seq
  Engine.HooksProofsSort Engine.HooksProofsTrace Engine.HooksProofsOrder Engine.HooksProofsGate
  Engine.HooksProofsExamples Engine.HookMeta Engine.HookMetaProofs Engine.HookTest Engine.HookTestProofs Gen.Events.
From Helm Require Text.Classify.
Import ListNotations.
Local Open Scope string_scope.

(* ------------------------------------------------------------------ *)
(* the order: sort.Stable(hookByWeight)                                 *)

Theorem C12_sort_permutation :
  forall l : list hook, Permutation (sort_hooks l) l.
Proof. exact sort_hooks_perm. Qed.
Print Assumptions C12_sort_permutation.

(* no hook comes after a hook that is strictly greater in (weight, name) *)
Theorem C12_sort_ascending :
  forall l : list hook, StronglySorted (fun a b => hook_less b a = false) (sort_hooks l).
Proof. exact sort_hooks_sorted. Qed.
Print Assumptions C12_sort_ascending.

(* stable: the hooks of one (weight, name) class keep their (kind-sorted) input order *)
Theorem C12_sort_stable :
  forall (k : hook) (l : list hook),
    filter (fun x => negb (hook_less k x) && negb (hook_less x k)) (sort_hooks l)
    = filter (fun x => negb (hook_less k x) && negb (hook_less x k)) l.
Proof. exact sort_hooks_stable. Qed.
Print Assumptions C12_sort_stable.

Theorem C12_equiv_is_same_weight_and_name :
  forall a b : hook,
    negb (hook_less a b) && negb (hook_less b a) = true <-> h_weight a = h_weight b /\ h_name a = h_name b.
Proof. exact hook_equiv_same_key. Qed.
Print Assumptions C12_equiv_is_same_weight_and_name.

(* a hook is selected for an event iff it is a hook of the release that lists the event *)
Theorem C12_selection :
  forall ev h rl,
    In h (sort_hooks (hooks_for ev (hooks rl))) <-> In h (hooks rl) /\ In ev (h_events h).
Proof. exact in_sorted_hooks. Qed.
Print Assumptions C12_selection.

(* ------------------------------------------------------------------ *)
(* executions                                                          *)

(* [run_tr] is Seq.run returning also its trace of (effect, answer) pairs; that trace is an
   execution, so every theorem below about "every execution" speaks about every run of the
   interpreter under every handler, storage fault and crash point *)
Theorem C12_run_tr_is_run :
  forall (K : Type) (kh : forall e : eff, K -> K * resp e * list kev) (dresp : forall e, resp e)
         (A : Type) (f : sfaults) (p : prog A) (s : rstate K),
    fst (run_tr K kh dresp f p s) = run K kh dresp f p s.
Proof. exact run_tr_run. Qed.
Print Assumptions C12_run_tr_is_run.

Theorem C12_every_run_is_an_execution :
  forall (K : Type) (kh : forall e : eff, K -> K * resp e * list kev) (dresp : forall e, resp e)
         (A : Type) (f : sfaults) (p : prog A) (s : rstate K),
    exec p (snd (run_tr K kh dresp f p s)) (snd (fst (run_tr K kh dresp f p s))).
Proof. exact run_tr_exec. Qed.
Print Assumptions C12_every_run_is_an_execution.

(* C12_order — in EVERY execution of execHook the hooks of the event are created one at a
   time in the sorted order: the creations and watches of the trace are exactly
   create h1, watch h1 = ok, create h2, watch h2 = ok, ... for a prefix [pre] of the sorted
   list, each creation issued only after the previous watch returned true, followed by
   nothing (all ran, or a policy deletion failed), or by the refused creation of the next
   hook, or by its creation and failed watch; nothing is created after a failure. *)
Theorem C12_order :
  forall rl ev tr b,
    exec (exec_hook rl ev) tr b ->
    exists pre rest, sort_hooks (hooks_for ev (hooks rl)) = (pre ++ rest)%list /\
      ((cwview tr = flat_map (fun h => [CCreate [h_res h] true; CWatch ev h true]) pre
        /\ (rest = [] \/ b = false))
       \/
       (exists h rest', rest = h :: rest' /\ b = false /\
          (cwview tr = (flat_map (fun h => [CCreate [h_res h] true; CWatch ev h true]) pre
                        ++ [CCreate [h_res h] false])%list
           \/ cwview tr = (flat_map (fun h => [CCreate [h_res h] true; CWatch ev h true]) pre
                           ++ [CCreate [h_res h] true; CWatch ev h false])%list))).
Proof. exact exec_hook_order. Qed.
Print Assumptions C12_order.

(* C12_policies — the complete cluster-visible trace of execHook when no creation is refused
   (that case is the known finding K8, below) and no deletion fails:
   success: every hook, in order, is deleted first iff before-hook-creation, created,
   watched; then the hook-succeeded hooks are deleted (in reverse order);
   failure of the watch of h: the earlier hooks ran completely; h is deleted first iff
   before-hook-creation, created, watched = failed, deleted iff hook-failed; then the
   earlier (successful) hooks are deleted iff hook-succeeded.  Nothing else happens. *)
Theorem C12_policies :
  forall rl ev tr b,
    exec (exec_hook rl ev) tr b -> Forall del_ok tr -> Forall create_ok tr ->
    let hs := sort_hooks (hooks_for ev (hooks rl)) in
    (b = true /\ cview tr = (flat_map (run_ok ev) hs ++ succ_dels (List.rev hs))%list)
    \/
    (b = false /\ exists pre h post, hs = (pre ++ h :: post)%list /\
        cview tr = (flat_map (run_ok ev) pre ++ pol_del h BeforeHookCreation
                    ++ [CCreate [h_res h] true; CWatch ev h false]
                    ++ pol_del h HookFailed ++ succ_dels pre)%list).
Proof. exact exec_hook_policies. Qed.
Print Assumptions C12_policies.

(* ... and with refused creations included (third shape: the refused creation ends the
   execution at once, without any policy deletion) *)
Theorem C12_hook_trace :
  forall rl ev tr b,
    exec (exec_hook rl ev) tr b -> Forall del_ok tr ->
    let hs := sort_hooks (hooks_for ev (hooks rl)) in
    (b = true /\ cview tr = (flat_map (run_ok ev) hs ++ succ_dels (List.rev hs))%list)
    \/
    (b = false /\ exists pre h post, hs = (pre ++ h :: post)%list /\
       (cview tr = (flat_map (run_ok ev) pre ++ pol_del h BeforeHookCreation ++ [CCreate [h_res h] false])%list
        \/
        cview tr = (flat_map (run_ok ev) pre ++ pol_del h BeforeHookCreation
                    ++ [CCreate [h_res h] true; CWatch ev h false]
                    ++ pol_del h HookFailed ++ succ_dels pre)%list)).
Proof. exact exec_hook_trace. Qed.
Print Assumptions C12_hook_trace.

(* known finding K8: h1 (hook-succeeded) completed, the creation of h2 is refused: h1 is
   not deleted *)
Theorem C12_create_refused_refuted :
  exec (exec_hook k8_rel PreInstall) k8_trace false /\
  has_policy k8_h1 HookSucceeded = true /\
  In (CWatch PreInstall k8_h1 true) (cview k8_trace) /\
  ~ In (CDelete [h_res k8_h1] true) (cview k8_trace).
Proof. exact create_refused_refuted. Qed.
Print Assumptions C12_create_refused_refuted.

(* in EVERY execution (also when deletions fail): whatever execHook deletes is the resource
   of a selected hook that is not a CustomResourceDefinition and carries a delete policy *)
Theorem C12_deletions_follow_policy :
  forall rl ev tr b,
    exec (exec_hook rl ev) tr b ->
    forall rs ok, In (ER (KDelete rs) ok) tr ->
      exists h, In h (hooks rl) /\ In ev (h_events h) /\ rs = [h_res h]
                /\ h_kind h <> "CustomResourceDefinition" /\ exists p, has_policy h p = true.
Proof. exact exec_hook_deletes. Qed.
Print Assumptions C12_deletions_follow_policy.

(* ------------------------------------------------------------------ *)
(* the gate, for install / upgrade / rollback / uninstall              *)

(* C12_pre_gate — every execution of a non-atomic operation splits into a part tr0 without
   any cluster mutation or hook watch, the execution trh of the pre-event hooks of the
   release record rel, and the rest tr2; if the pre-hooks fail (result false: by C12_order /
   C12_hook_trace trh then holds only hook creations, watches and policy deletions) the
   outcome is an error and tr2 contains no cluster call at all — no resource of the release
   is created, changed or deleted and no later hook runs. *)
Theorem C12_pre_gate :
  forall rn ns o tr out,
    f_atomic (op_flags o) = false -> f_dry_run (op_flags o) = false ->
    exec (op_prog rn ns o) tr out ->
    exists tr0 rest, tr = (tr0 ++ rest)%list /\ quiet tr0 /\
      (rest = [] \/
       exists rel trh b tr2,
         rest = (trh ++ tr2)%list /\ hook_release o tr0 rel /\
         exec (run_hooks (op_flags o) rel (pre_event o)) trh b /\
         (b = false -> out = OErr EOtherErr /\ storage_only tr2)).
Proof. exact pre_gate. Qed.
Print Assumptions C12_pre_gate.

(* during execHook itself only the hooks selected for the event are touched *)
Theorem C12_hook_phase_events :
  forall rl ev tr b,
    exec (exec_hook rl ev) tr b ->
    Forall (fun x =>
      match eff_of x with
      | KDelete rs | KWaitDelete rs | KCreate rs =>
          exists h, In h (sort_hooks (hooks_for ev (hooks rl))) /\ rs = [h_res h]
      | KHookWatch ev' h => ev' = ev /\ In h (sort_hooks (hooks_for ev (hooks rl)))
      | SUpdate r => r = rl
      | _ => False
      end) tr.
Proof. exact hook_phase_events. Qed.
Print Assumptions C12_hook_phase_events.

(* a failing post-hook fails the operation: success requires that the pre-event hooks and,
   after the resources, the post-event hooks ran to completion (result true); the only
   success without hooks is the uninstall of an already uninstalled release, which touches
   nothing in the cluster *)
Theorem C12_success_needs_hooks :
  forall rn ns o tr,
    f_atomic (op_flags o) = false -> f_dry_run (op_flags o) = false ->
    exec (op_prog rn ns o) tr OOk ->
    (may_succeed_quietly o = true /\ quiet tr)
    \/
    exists tr0 rel trh trm trp tr3,
      tr = (tr0 ++ trh ++ trm ++ trp ++ tr3)%list /\ quiet tr0 /\ hook_release o tr0 rel /\
      exec (run_hooks (op_flags o) rel (pre_event o)) trh true /\ nowatch trm /\
      exec (run_hooks (op_flags o) rel (post_event o)) trp true /\ nowatch tr3.
Proof. exact success_needs_hooks. Qed.
Print Assumptions C12_success_needs_hooks.

(* C12_no_hooks — with hooks disabled run_hooks does nothing, and in every execution of
   every operation (atomic recovery included) there is no hook watch and no creation other
   than that of the stamped manifest by install *)
Theorem C12_no_hooks_phase :
  forall fl rl ev tr b, f_no_hooks fl = true -> exec (run_hooks fl rl ev) tr b -> tr = [] /\ b = true.
Proof. exact run_hooks_disabled. Qed.
Print Assumptions C12_no_hooks_phase.

Theorem C12_no_hooks :
  forall rn ns o tr out,
    f_no_hooks (op_flags o) = true ->
    exec (op_prog rn ns o) tr out ->
    Forall (fun x =>
      match eff_of x with
      | KHookWatch _ _ => False
      | KCreate rs => match o with OpInstall _ _ _ mani _ => rs = stamp_all rn ns mani | _ => False end
      | _ => True
      end) tr.
Proof. exact no_hooks_stmt. Qed.
Print Assumptions C12_no_hooks.

(* C12_hooks_not_in_manifest is C08's partition (hook documents never enter the manifest);
   here: the harness oracle checks it on every rendered chart. *)

(* ------------------------------------------------------------------ *)
(* examples                                                            *)

(* the probe of DESIGN.md *)
Example C12_probe_order :
  map h_name (sort_hooks (hooks_for PreInstall probe)) = ["hb"; "hd"; "ha"; "hz"].
Proof. exact probe_order. Qed.
Print Assumptions C12_probe_order.

(* observation, not a finding: an event named twice in one annotation selects the hook twice *)
Example C12_duplicated_event_runs_twice :
  let h := hk_ "hd" 0 [PreInstall; PreInstall] [] in
  sort_hooks (hooks_for PreInstall [h]) = [h; h].
Proof. exact duplicated_event_runs_twice. Qed.
Print Assumptions C12_duplicated_event_runs_twice.

(* the hypotheses of C12_policies are met by the fault-free run of the probe under the
   object-store cluster, whose cluster-visible trace is the predicted one *)
Example C12_probe_run :
  exec (exec_hook probe_rel PreInstall) (snd probe_run) true /\
  Forall del_ok (snd probe_run) /\ Forall create_ok (snd probe_run) /\
  cview (snd probe_run) =
  (let r n := [mkRes "ConfigMap" n [("d:h", n)]] in
   [ CDelete (r "hb") true; CCreate (r "hb") true;
     CWatch PreInstall (hk_ "hb" (-1) [PreInstall] [HookSucceeded; BeforeHookCreation]) true;
     CDelete (r "hd") true; CCreate (r "hd") true; CWatch PreInstall (hk_ "hd" 0 [PreInstall] []) true;
     CCreate (r "ha") true; CWatch PreInstall (hk_ "ha" 5 [PreInstall] [HookSucceeded]) true;
     CCreate (r "hz") true; CWatch PreInstall (hk_ "hz" 5 [PreInstall] [HookFailed]) true;
     CDelete (r "ha") true; CDelete (r "hb") true ]).
Proof. exact probe_run_all. Qed.
Print Assumptions C12_probe_run.

(* the hypotheses of C12_pre_gate are met by a real execution: non-atomic install whose
   pre-install hook hd fails; it ends in an error and the manifest is never created *)
Example C12_pre_gate_example :
  f_atomic (op_flags gate_op) = false /\ f_dry_run (op_flags gate_op) = false /\
  exec (op_prog "rel" "default" gate_op) (snd gate_run) (OErr EOtherErr) /\
  (exists h, In (ER (KHookWatch PreInstall h) false) (snd gate_run)) /\
  ~ In (CCreate [stamp "rel" "default" (mkRes "ConfigMap" "a" [("d:k", "v1")])] true) (cview (snd gate_run)).
Proof. exact gate_example_all. Qed.
Print Assumptions C12_pre_gate_example.

(* ------------------------------------------------------------------ *)
(* from the annotation STRINGS to the hooks that run (Engine/HookMeta.v) *)

(* Vocabulary (Engine/HookMeta.v, HookMetaProofs.v; parsing = C08's transcription of
   manifestFile.sort, Text/Classify.v):
   [weight_of s]        calculateHookWeight on the annotation string s: strconv.Atoi, any error = 0;
   [wf_int s]           s is an optional single '+' / '-' followed by one or more decimal digits
                        (nothing else: no space, no underscore, no 0x / 0o / 0b prefix);
   [int_val s]          its decimal value ([dec_val]: positional, most significant digit first);
   [in_int z]           -2^63 <= z <= 2^63-1;
   [doc_hook r]         the release.Hook manifestFile.sort makes of the document r (a resource whose
                        fields carry its annotations as "a:<key>"), None when it is not a hook or an
                        event name is unknown; [engine_hook r h] its record for [exec_hook];
   [hooks_of_docs]      the hooks of a rendered chart; [weight_annotation r] the helm.sh/hook-weight
                        annotation of r, "" when there is none;
   [created tr]         the resources of the creation requests of a trace, in order;
   [doc_le a b]         weight_of (weight_annotation a) < weight_of (weight_annotation b), or equal
                        and not (name b < name a). *)

(* for EVERY string: the decimal value when the string is an optionally signed run of digits
   within the range of int, 0 otherwise *)
Theorem C12_weight_of_annotation :
  forall s : string,
    weight_of s = if (wf_int s && in_int (int_val s))%bool then int_val s else 0%Z.
Proof. exact weight_of_spec. Qed.
Print Assumptions C12_weight_of_annotation.

Theorem C12_atoi :
  forall s : string,
    Classify.atoi_z s = if (wf_int s && in_int (int_val s))%bool then Some (int_val s) else None.
Proof. exact atoi_spec. Qed.
Print Assumptions C12_atoi.

(* decimal means decimal: a digit appended multiplies by ten, a leading zero changes nothing *)
Theorem C12_decimal_value :
  forall s c, dec_val (s ++ String c EmptyString) = (10 * dec_val s + digit_z c)%Z.
Proof. exact dec_val_snoc. Qed.
Print Assumptions C12_decimal_value.

Theorem C12_weight_leading_zero :
  forall s, all_digits s = true -> s <> EmptyString -> weight_of (String "0"%char s) = weight_of s.
Proof. exact weight_of_leading_zero. Qed.
Print Assumptions C12_weight_leading_zero.

Example C12_weight_examples :
  map weight_of ["5"; "+5"; "-5"; "-0"; "007"; "010"; "08"; "09"; "-08"; " 5"; "5 "; "0x10"; "0o7"; "0b1"; "1_0";
                 "1e3"; "1.5"; ""; "-"; "+"; "+-5"; "--5"; "abc";
                 "9223372036854775807"; "9223372036854775808"; "-9223372036854775808"; "-9223372036854775809";
                 "000000000000000000000000000007"]
  = [5; 5; -5; 0; 7; 10; 8; 9; -8; 0; 0; 0; 0; 0; 0;
     0; 0; 0; 0; 0; 0; 0; 0;
     9223372036854775807; 0; -9223372036854775808; 0;
     7]%Z.
Proof. exact weight_examples. Qed.
Print Assumptions C12_weight_examples.

(* what manifestFile.sort makes of a hook document *)
Theorem C12_doc_hook :
  forall r : res,
    doc_hook r =
    match ann_of r with
    | [] => None
    | ann =>
        match Common.Assoc.aget hook_annotation ann with
        | None => None
        | Some types =>
            match Classify.parse_events (Classify.split_comma types) with
            | None => None
            | Some evs =>
                Some (Classify.mkHook (r_name r) (r_kind r) "" "" evs (Classify.hook_weight ann)
                        (Classify.annotation_values ann hook_delete_annotation)
                        (Classify.annotation_values ann hook_output_log_annotation))
            end
        end
    end.
Proof. exact doc_hook_spec. Qed.
Print Assumptions C12_doc_hook.

(* every hook the engine runs is made of a document of the chart, with the weight its
   helm.sh/hook-weight annotation spells (a missing annotation counts as "") *)
Theorem C12_hook_weight_from_annotation :
  forall h docs,
    In h (hooks_of_docs docs) ->
    In (h_res h) docs /\ h_weight h = weight_of (weight_annotation (h_res h)).
Proof. exact hooks_of_docs_weight. Qed.
Print Assumptions C12_hook_weight_from_annotation.

(* no event is lost or invented between the parsed hook and the engine's record; obligation on
   the table regenerated from manifest_sorter.go: every value of [events] is one of the nine *)
Theorem C12_events_table :
  forallb (fun kv => match event_of_string (snd kv) with Some _ => true | None => false end) hook_events = true.
Proof. exact events_table_known. Qed.
Print Assumptions C12_events_table.

Theorem C12_hook_events_from_annotation :
  forall r h, doc_hook r = Some h -> map event_str (h_events (engine_hook r h)) = Classify.hk_events h.
Proof. exact engine_hook_events. Qed.
Print Assumptions C12_hook_events_from_annotation.

(* hooks.go decides over the parsed policy STRINGS (default before-hook-creation only when the
   list is empty); the engine's record decides the same whenever the annotation is absent or
   names a known policy ... *)
Theorem C12_delete_policy_from_annotation :
  forall r h p,
    policy_expressible (Classify.hk_delete h) = true ->
    has_policy (engine_hook r h) p = real_has_policy (Classify.hk_delete h) p.
Proof. exact engine_hook_has_policy. Qed.
Print Assumptions C12_delete_policy_from_annotation.

(* ... the hypothesis is needed: an annotation of unknown tokens only switches the default off in
   hooks.go (observation, confirmed on the real code by the parse-level correspondence; such hooks
   are kept out of the executed histories) *)
Example C12_unknown_policy_only_refuted :
  let r := mkRes "ConfigMap" "hx" [("a:helm.sh/hook", "pre-install"); ("a:helm.sh/hook-delete-policy", "foo")] in
  exists h, doc_hook r = Some h /\ Classify.hk_delete h = ["foo"] /\ policy_expressible (Classify.hk_delete h) = false /\
    real_has_policy (Classify.hk_delete h) BeforeHookCreation = false /\
    has_policy (engine_hook r h) BeforeHookCreation = true.
Proof. exact unknown_only_not_expressible. Qed.
Print Assumptions C12_unknown_policy_only_refuted.

Example C12_policy_expressible_example :
  let r := mkRes "ConfigMap" "hx" [("a:helm.sh/hook", " Pre-Install ,POST-INSTALL"); ("a:helm.sh/hook-delete-policy", "foo, Hook-Succeeded ");
                                   ("a:helm.sh/hook-weight", "010")] in
  exists h, doc_hook r = Some h /\ policy_expressible (Classify.hk_delete h) = true /\
    hook_of_doc r = [mkHook r [PreInstall; PostInstall] 10 [HookSucceeded]].
Proof. exact policy_expressible_example. Qed.
Print Assumptions C12_policy_expressible_example.

(* outputLogsByPolicy: logs are fetched exactly for Job / Pod hooks that list the policy *)
Theorem C12_output_logs :
  forall kind name log p sel,
    output_logs_by_policy kind name log p = Some sel <->
    In p log /\ ((kind = "Job" /\ sel = LogByLabel ("job-name=" ++ name))
                 \/ (kind = "Pod" /\ sel = LogByField ("metadata.name=" ++ name))).
Proof. exact output_logs_spec. Qed.
Print Assumptions C12_output_logs.

(* C12_order restated from the strings: for every chart (hook documents), every event and EVERY
   execution of execHook, the hook resources are created in ascending order of the decimal
   weight their annotation spells (0 when it is not a decimal integer within int), ties by
   name; each is a hook document of the chart naming the event; and when the event completes
   every such document was created once per mention of the event *)
Theorem C12_order_from_annotations :
  forall docs rl ev tr b,
    hooks rl = hooks_of_docs docs ->
    exec (exec_hook rl ev) tr b ->
    StronglySorted doc_le (created (cwview tr))
    /\ Forall (fun r => In r docs /\ exists h, doc_hook r = Some h /\ In (event_str ev) (Classify.hk_events h))
              (created (cwview tr))
    /\ (b = true ->
        Permutation (created (cwview tr))
          (flat_map (fun r => match doc_hook r with
                              | Some h => repeat r (count_occ string_dec (Classify.hk_events h) (event_str ev))
                              | None => []
                              end) docs)).
Proof. exact order_from_annotations. Qed.
Print Assumptions C12_order_from_annotations.

(* zero-padded and prefixed weights, mixed-case events, a document dropped for an unknown event *)
Example C12_padded_order :
  map h_name (sort_hooks (hooks_for PreInstall (hooks_of_docs pad_docs))) = ["hd"; "hc"; "hb"; "ha"]
  /\ map h_weight (sort_hooks (hooks_for PreInstall (hooks_of_docs pad_docs))) = [0; 8; 9; 10]%Z.
Proof. exact pad_order. Qed.
Print Assumptions C12_padded_order.

(* the watch / log-fetch sequence of an operation ([op_levs]: execHook's two call sites of
   outputLogsByPolicy) on two Job / Pod hooks and a ConfigMap hook *)
Example C12_log_fetch_examples :
  op_levs (hooks_of_docs log_docs) PreInstall PostInstall [("Job/hj", true); ("Pod/hp", true); ("ConfigMap/hc", true)]
  = [LWatch "Job/hj" true; LWatch "Pod/hp" true; LWatch "ConfigMap/hc" true;
     LFetch (LogByField "metadata.name=hp"); LOut; LFetch (LogByLabel "job-name=hj"); LOut]
  /\ op_levs (hooks_of_docs log_docs) PreInstall PostInstall [("Job/hj", true); ("Pod/hp", false)]
     = [LWatch "Job/hj" true; LWatch "Pod/hp" false]
  /\ op_levs (hooks_of_docs log_docs) PreInstall PostInstall [("Job/hj", false)]
     = [LWatch "Job/hj" false; LFetch (LogByLabel "job-name=hj"); LOut].
Proof. exact log_fetch_examples. Qed.
Print Assumptions C12_log_fetch_examples.

(* ------------------------------------------------------------------ *)
(* helm test (Engine/HookTest.v: action.ReleaseTesting.Run)             *)

(* [release_testing incl excl]  the effect program of `helm test` with the name / !name filters;
   [test_split incl excl hs]    (hooks set aside, hooks handed to execHook);
   [run K kh dresp f p s]       the interpreter of Engine/Seq.v under cluster handler kh. *)

(* the filters only rearrange the hook list: what is set aside plus what is executed is the list *)
Theorem C12_test_filters_rearrange :
  forall incl excl hs,
    Permutation (fst (test_split incl excl hs) ++ snd (test_split incl excl hs))%list hs.
Proof. exact test_split_perm. Qed.
Print Assumptions C12_test_filters_rearrange.

(* C12_test_preserves_hooks — for every filter and EVERY behaviour of the cluster (every outcome of
   the test hooks, refused creations and deletions included), when no storage write fails and the
   process does not die, the stored history after `helm test` has the same revisions with the
   same status, chart, values and manifest, and every revision has the same hooks (as a multiset of
   hook records: resource, events, weight, policies) — so the hooks the next operation selects
   are those the release had before the test *)
Theorem C12_test_preserves_hooks :
  forall (K : Type) (kh : forall e : eff, K -> K * resp e * list kev) (dresp : forall e : eff, resp e)
         (incl excl : list string) (l : list release) (k : K),
    NoDup (map rev l) ->
    Forall2 (fun a b => rev b = rev a /\ st b = st a /\ chart_id b = chart_id a /\ config_id b = config_id a
                        /\ manifest b = manifest a /\ Permutation (hooks b) (hooks a))
            l (led (fst (run K kh dresp (mkSF None None) (release_testing incl excl) (mkR l k 0 0 false [])))).
Proof. exact test_preserves_hooks. Qed.
Print Assumptions C12_test_preserves_hooks.

(* the hypothesis "no storage write fails" is needed (known finding K13, replayed on the real
   code on every run): execHook records the release with the REDUCED hook list before creating
   the test hook; when the final Update fails the reduced list stays in storage *)
Example C12_test_final_write_fails_refuted :
  map (fun r => map h_name (hooks r)) (w_led (fst (fst tf_world_after))) = [["ht"]]
  /\ snd (fst tf_world_after) = OErr EOtherErr.
Proof. exact test_final_write_fails_refuted. Qed.
Print Assumptions C12_test_final_write_fails_refuted.

(* the same run without the fault: both hooks kept (the skipped one first) *)
Example C12_test_keeps_hooks_example :
  map (fun r => map h_name (hooks r))
      (w_led (fst (fst (run_test_op "rel" "default" ["ht"] [] (mkSF None None) (mkCF None None false) (mkW [tf_rel] [])))))
  = [["hpre"; "ht"]].
Proof. exact test_keeps_hooks_example. Qed.
Print Assumptions C12_test_keeps_hooks_example.

(* C12 — property theorems only: each closed by [exact] of a lemma proved elsewhere. *)
From Coq Require Import List String Bool ZArith Permutation Sorted.
From Helm Require Import Engine.Types Engine.Eff Engine.Ops Engine.HooksProofsSort.
Import ListNotations.

(* The order in which execHook runs the hooks of an event ([sort_hooks], the model of
   sort.Stable(hookByWeight)) is a rearrangement of the selected hooks ... *)
Theorem C12_sort_permutation :
  forall l : list hook, Permutation (sort_hooks l) l.
Proof. exact sort_hooks_perm. Qed.
Print Assumptions C12_sort_permutation.

(* ... in which no hook comes after a hook that is strictly greater in (weight, name) ... *)
Theorem C12_sort_ascending :
  forall l : list hook, StronglySorted (fun a b => hook_less b a = false) (sort_hooks l).
Proof. exact sort_hooks_sorted. Qed.
Print Assumptions C12_sort_ascending.

(* ... and which is stable: for every (weight, name) class — [hook_equiv k x] holds exactly
   when x has the weight and name of k — the hooks of the class keep their input order. *)
Theorem C12_sort_stable :
  forall (k : hook) (l : list hook),
    filter (fun x => negb (hook_less k x) && negb (hook_less x k)) (sort_hooks l)
    = filter (fun x => negb (hook_less k x) && negb (hook_less x k)) l.
Proof. exact sort_hooks_stable. Qed.
Print Assumptions C12_sort_stable.

Theorem C12_equiv_is_same_weight_and_name :
  forall a b : hook,
    negb (hook_less a b) && negb (hook_less b a) = true <-> h_weight a = h_weight b /\ h_name a = h_name b.
Proof. exact hook_equiv_same_key. Qed.
Print Assumptions C12_equiv_is_same_weight_and_name.

(* C08 — every rendered document is applied exactly once, in dependency order.
   Property theorems only: each closed by [exact] of a lemma proved elsewhere, except the
   obligations over the tables regenerated from /repo (Gen/KindOrder.v, Gen/Events.v),
   which are finite and proved here by computation on every run. *)
From Coq Require Import List String Ascii Bool Arith ZArith Permutation Sorted.
From Helm Require Import Common.Assoc Common.SortUniq Text.Split Text.KindSort Text.KindSortProofs
  Text.SplitProofs Text.Classify Text.ClassifyProofs Text.Uninstall Text.UninstallProofs Text.Batch Text.BatchProofs Gen.KindOrder Gen.Events.
Import ListNotations.
Local Open Scope string_scope.

(* ------------------------------------------------------------------------------------
   C08_partition: the documents of the non-partial, non-blank files are, as a multiset,
   exactly  manifest ⊎ hooks ⊎ dropped;  (path, text) pairs are carried over unchanged.
   [head_of] is the YAML library (any function); [place_of] is the specification:
     no helm.sh/hook annotation -> PGeneric, annotation with known events only -> PHook,
     annotation with some unknown event -> PDropped, parse error -> PError.
   ------------------------------------------------------------------------------------ *)
Theorem C08_partition :
  forall (head_of : string -> option head) (order : list string) (files : list (string * string)) hs gs,
    sort_manifests head_of order files = SortOk hs gs ->
    let docs := flat_map file_docs (filter (fun f => negb (is_partial (fst f) || is_blank (snd f))) files) in
    Permutation docs (map gdoc gs ++ map hdoc hs ++ filter (is_dropped head_of) docs) /\
    Permutation (map gdoc gs) (filter (is_generic head_of) docs) /\
    Permutation (map hdoc hs) (filter (is_hook head_of) docs) /\
    (forall pd, In pd docs -> place_of head_of (snd pd) <> PError).
Proof. exact sort_manifests_partition_files. Qed.
Print Assumptions C08_partition.

(* hook iff annotation with only known events; manifest iff no annotation; neither iff an
   unknown event is named *)
Theorem C08_placed_iff :
  forall (head_of : string -> option head) (order : list string) (files : list (string * string)) hs gs,
    sort_manifests head_of order files = SortOk hs gs ->
    forall p d, In (p, d) (flat_map file_docs (filter (fun f => negb (is_partial (fst f) || is_blank (snd f))) files)) ->
      (In (p, d) (map hdoc hs) <->
         exists h types, head_of d = Some h /\ hook_ann h = Some types /\ all_known types = true) /\
      (In (p, d) (map gdoc gs) <-> exists h, head_of d = Some h /\ hook_ann h = None) /\
      (~ In (p, d) (map hdoc hs ++ map gdoc gs) <->
         exists h types, head_of d = Some h /\ hook_ann h = Some types /\ all_known types = false).
Proof. exact placed_iff. Qed.
Print Assumptions C08_placed_iff.

(* SortManifests fails iff some document of a processed file does not parse *)
Theorem C08_sort_ok_iff :
  forall (head_of : string -> option head) (order : list string) (files : list (string * string)),
    (exists hs gs, sort_manifests head_of order files = SortOk hs gs) <->
    (forall pd, In pd (all_docs files) -> place_of head_of (snd pd) <> PError).
Proof. exact sort_manifests_ok_iff. Qed.
Print Assumptions C08_sort_ok_iff.

(* placed documents keep text and head; a hook records what its annotations say *)
Theorem C08_contents_unchanged :
  forall (head_of : string -> option head) (order : list string) (files : list (string * string)) hs gs,
    sort_manifests head_of order files = SortOk hs gs ->
    (forall m, In m gs -> In (gdoc m) (all_docs files) /\ head_of (m_content m) = Some (m_head m) /\
                          hook_ann (m_head m) = None) /\
    (forall h, In h hs -> In (hdoc h) (all_docs files) /\
       exists hd name ann types, head_of (hk_manifest h) = Some hd /\ h_meta hd = Some (name, ann) /\
         aget hook_annotation ann = Some types /\ all_known types = true /\
         hk_name h = name /\ hk_kind h = h_kind hd /\
         parse_events (split_comma types) = Some (hk_events h) /\
         hk_weight h = hook_weight ann /\
         hk_delete h = annotation_values ann hook_delete_annotation /\
         hk_outlog h = annotation_values ann hook_output_log_annotation).
Proof. exact sort_manifests_contents. Qed.
Print Assumptions C08_contents_unchanged.

(* NOTES.txt and partials are never applied; the manifest text is the concatenation of
   "---\n# Source: <path>\n<document>\n" over the sorted manifest list *)
Theorem C08_notes_partials_never_applied :
  forall (head_of : string -> option head) (order : list string) (files : list (string * string)) hs txt,
    render_resources head_of order files = RenderOk hs txt ->
    exists gs, sort_manifests head_of order (filter (fun f => negb (is_notes (fst f))) files) = SortOk hs gs /\
               txt = manifest_text gs /\
               forall p d, In (p, d) (map gdoc gs ++ map hdoc hs) -> is_notes p = false /\ is_partial p = false.
Proof. exact render_resources_spec. Qed.
Print Assumptions C08_notes_partials_never_applied.

(* ------------------------------------------------------------------------------------
   C08_kind_order: the result lists are the kind sort of the documents in processing
   order (files by path, documents by position), and that sort is a permutation, sorted
   by rank (known kinds by table position, then unknown kinds by name), keeps the input
   order within every kind, and is the ONLY list with these three properties.
   ------------------------------------------------------------------------------------ *)
Theorem C08_result_is_kind_sort :
  forall (head_of : string -> option head) (order : list string) (files : list (string * string)) hs gs,
    sort_manifests head_of order files = SortOk hs gs ->
    exists hs0 gs0,
      map gdoc gs0 = filter (is_generic head_of) (all_docs files) /\
      map hdoc hs0 = filter (is_hook head_of) (all_docs files) /\
      gs = sort_by_kind (fun m => h_kind (m_head m)) order gs0 /\
      hs = sort_by_kind hk_kind order hs0.
Proof. exact sort_manifests_order. Qed.
Print Assumptions C08_result_is_kind_sort.

Theorem C08_kind_order :
  forall (A : Type) (kind_of : A -> string) (order : list string) (l : list A),
    let out := sort_by_kind kind_of order l in
    Permutation out l /\
    StronglySorted (fun a b => rank_leb (kind_rank order (kind_of a)) (kind_rank order (kind_of b)) = true) out /\
    (forall k, filter (fun x => String.eqb (kind_of x) k) out = filter (fun x => String.eqb (kind_of x) k) l) /\
    (forall l', Permutation l' l ->
                StronglySorted (fun a b => rank_leb (kind_rank order (kind_of a)) (kind_rank order (kind_of b)) = true) l' ->
                (forall k, filter (fun x => String.eqb (kind_of x) k) l' = filter (fun x => String.eqb (kind_of x) k) l) ->
                l' = out).
Proof.
  exact (fun A kind_of order l =>
           conj (sort_by_kind_perm kind_of order l)
             (conj (sort_by_kind_sorted kind_of order l)
                (conj (sort_by_kind_stable kind_of order l)
                   (sort_by_kind_unique kind_of order l)))).
Qed.
Print Assumptions C08_kind_order.

(* reading of the rank: unknown kinds come after all known ones ... *)
Theorem C08_unknown_kinds_last :
  forall (order : list string) (a b : string),
    rank_leb (kind_rank order a) (kind_rank order b) = true -> ~ In a order -> ~ In b order.
Proof. exact rank_unknown_last. Qed.
Print Assumptions C08_unknown_kinds_last.

(* ... and for a duplicate-free table known kinds are ordered by their position *)
Theorem C08_known_kinds_by_position :
  forall (order : list string) (a b : string) (i j : nat),
    nth_error order i = Some a -> nth_error order j = Some b -> NoDup order ->
    rank_leb (kind_rank order a) (kind_rank order b) = Nat.leb i j.
Proof. exact rank_known_order. Qed.
Print Assumptions C08_known_kinds_by_position.

(* the model's comparison is lessByKind: leb a b = not (less b a) *)
Theorem C08_less_is_rank :
  forall (order : list string) (a b : string),
    negb (less_by_kind order b a) = rank_leb (kind_rank order a) (kind_rank order b).
Proof. exact kind_leb_rank. Qed.
Print Assumptions C08_less_is_rank.

(* uninstall: the stored manifest is split again, sorted with the kind table passed by
   deleteRelease (UninstallOrder), resource-policy: keep documents are set aside, and the
   rest is deleted in that order: sorted by rank, nothing lost or added *)
Theorem C08_uninstall_order :
  forall (head_of : string -> option head) (order : list string) (manifest : string) del keep,
    delete_order head_of order manifest = DeleteOrder del keep ->
    exists gs0,
      map gdoc gs0 = filter (is_generic head_of) (all_docs (split_map manifest)) /\
      Permutation (del ++ keep) gs0 /\
      (forall m, In m del -> kept m = false) /\ (forall m, In m keep -> kept m = true) /\
      StronglySorted (fun a b => rank_leb (kind_rank order (h_kind (m_head a))) (kind_rank order (h_kind (m_head b))) = true) del /\
      del = filter (fun m => negb (kept m)) (sort_by_kind (fun m => h_kind (m_head m)) order gs0) /\
      keep = filter kept (sort_by_kind (fun m => h_kind (m_head m)) order gs0).
Proof. exact delete_order_spec. Qed.
Print Assumptions C08_uninstall_order.

(* ---- obligations over the regenerated tables ---------------------------------------- *)
Theorem C08_tables_nodup : NoDup install_order /\ NoDup uninstall_order /\ NoDup (map fst hook_events).
Proof. repeat split; apply nodupb_NoDup; vm_compute; reflexivity. Qed.
Print Assumptions C08_tables_nodup.

Theorem C08_tables_same_kinds : forall k, In k install_order <-> In k uninstall_order.
Proof. apply same_members_spec. vm_compute. reflexivity. Qed.
Print Assumptions C08_tables_same_kinds.

(* dependency sanity: what must exist first is created first (and deleted last) *)
Definition dependency_sanity : list (string * string) :=
  [ ("Namespace", "ServiceAccount"); ("Namespace", "Secret"); ("Namespace", "ConfigMap");
    ("Namespace", "Service"); ("Namespace", "Deployment"); ("Namespace", "Role"); ("Namespace", "ResourceQuota");
    ("ServiceAccount", "Deployment"); ("Secret", "Deployment"); ("ConfigMap", "Deployment");
    ("ServiceAccount", "Pod"); ("Secret", "Pod"); ("ConfigMap", "Pod");
    ("ConfigMap", "DaemonSet"); ("Secret", "StatefulSet"); ("ConfigMap", "Job"); ("Secret", "CronJob");
    ("StorageClass", "PersistentVolumeClaim"); ("PersistentVolume", "PersistentVolumeClaim");
    ("PersistentVolumeClaim", "Deployment"); ("PersistentVolumeClaim", "StatefulSet");
    ("ClusterRole", "ClusterRoleBinding"); ("Role", "RoleBinding");
    ("ServiceAccount", "RoleBinding"); ("ServiceAccount", "ClusterRoleBinding");
    ("CustomResourceDefinition", "Deployment"); ("Service", "Ingress"); ("IngressClass", "Ingress");
    ("Deployment", "HorizontalPodAutoscaler"); ("Service", "APIService") ].

Theorem C08_install_dependency_order :
  forall a b, In (a, b) dependency_sanity -> precedes install_order a b = true.
Proof.
  assert (H : forallb (fun p => precedes install_order (fst p) (snd p)) dependency_sanity = true)
    by (vm_compute; reflexivity).
  intros a b Hin. rewrite forallb_forall in H. exact (H (a, b) Hin).
Qed.
Print Assumptions C08_install_dependency_order.

Theorem C08_uninstall_dependency_order :
  forall a b, In (a, b) dependency_sanity -> precedes uninstall_order b a = true.
Proof.
  assert (H : forallb (fun p => precedes uninstall_order (snd p) (fst p)) dependency_sanity = true)
    by (vm_compute; reflexivity).
  intros a b Hin. rewrite forallb_forall in H. exact (H (a, b) Hin).
Qed.
Print Assumptions C08_uninstall_dependency_order.

(* custom resources are unknown kinds: they follow every known kind, so their
   CustomResourceDefinition (and Namespace) come first *)
Theorem C08_crd_before_custom_resources :
  forall k, ~ In k install_order ->
    forall known, In known install_order ->
      rank_leb (kind_rank install_order known) (kind_rank install_order k) = true /\
      rank_leb (kind_rank install_order k) (kind_rank install_order known) = false.
Proof. exact (unknown_after_known install_order). Qed.
Print Assumptions C08_crd_before_custom_resources.

(* the tables the hand-written model was transcribed from are still the ones in /repo *)
Theorem C08_separator_regexp : sep_regexp = "(?:^|\s*" ++ String (byte 10) ")---\s*".
Proof. reflexivity. Qed.
Print Assumptions C08_separator_regexp.

Theorem C08_hook_tables :
  hook_events = [("pre-install", "pre-install"); ("post-install", "post-install"); ("pre-delete", "pre-delete");
                 ("post-delete", "post-delete"); ("pre-upgrade", "pre-upgrade"); ("post-upgrade", "post-upgrade");
                 ("pre-rollback", "pre-rollback"); ("post-rollback", "post-rollback"); ("test", "test");
                 ("test-success", "test")] /\
  hook_annotation = "helm.sh/hook" /\ hook_weight_annotation = "helm.sh/hook-weight" /\
  hook_delete_annotation = "helm.sh/hook-delete-policy" /\
  hook_output_log_annotation = "helm.sh/hook-output-log-policy" /\ notes_file_suffix = "NOTES.txt" /\
  resource_policy_annotation = "helm.sh/resource-policy" /\ keep_policy = "keep".
Proof. repeat split; reflexivity. Qed.
Print Assumptions C08_hook_tables.

(* ------------------------------------------------------------------------------------
   C08_barrier: batchPerform/perform as a transition system; [sched] is ANY list of thread
   choices, so each statement holds in every interleaving.
   ------------------------------------------------------------------------------------ *)
(* whenever a create of a later batch starts, every create of every earlier batch has ended *)
Theorem C08_barrier :
  forall (kinds : list string) (fails : nat -> bool) (sched : list choice) pre j' post,
    trace (run kinds fails sched) = (pre ++ EStart j' :: post)%list ->
    forall j b b', nth_error (batch_ids kinds) j = Some b -> nth_error (batch_ids kinds) j' = Some b' ->
      b < b' -> In (EEnd j) pre.
Proof. exact barrier_every_interleaving. Qed.
Print Assumptions C08_barrier.

(* no resource is created twice, nothing outside the list is created, an end follows its start *)
Theorem C08_created_at_most_once :
  forall (kinds : list string) (fails : nat -> bool) (sched : list choice),
    NoDup (trace (run kinds fails sched)) /\
    forall j, (In (EStart j) (trace (run kinds fails sched)) \/ In (EEnd j) (trace (run kinds fails sched))) ->
              j < List.length kinds.
Proof. exact created_at_most_once. Qed.
Print Assumptions C08_created_at_most_once.

Theorem C08_start_before_end :
  forall (kinds : list string) (fails : nat -> bool) (sched : list choice) pre j post,
    trace (run kinds fails sched) = (pre ++ EEnd j :: post)%list -> In (EStart j) pre.
Proof. exact start_before_end. Qed.
Print Assumptions C08_start_before_end.

(* perform returns only after exactly len(infos) results, one from every resource: then every
   resource has been created (started and ended; with NoDup above: exactly once), and the
   reported errors are exactly those of the failing creates *)
Theorem C08_returns_after_all_results :
  forall (kinds : list string) (fails : nat -> bool) (sched : list choice),
    returned (run kinds fails sched) = true ->
    let s := run kinds fails sched in
    List.length (recvd s) = List.length kinds /\
    Permutation (map fst (recvd s)) (seq 0 (List.length kinds)) /\
    (forall j, j < List.length kinds -> In (EStart j) (trace s) /\ In (EEnd j) (trace s)) /\
    Permutation (failed s) (filter fails (seq 0 (List.length kinds))).
Proof. exact returns_after_all_results. Qed.
Print Assumptions C08_returns_after_all_results.

(* the model is not vacuous: while perform has not returned some thread can move (no
   deadlock), and from every reachable state perform can still return *)
Theorem C08_no_deadlock :
  forall (kinds : list string) (fails : nat -> bool) (sched : list choice),
    returned (run kinds fails sched) = false ->
    exists c, step kinds fails (run kinds fails sched) c <> run kinds fails sched.
Proof. exact no_deadlock. Qed.
Print Assumptions C08_no_deadlock.

Theorem C08_can_always_return :
  forall (kinds : list string) (fails : nat -> bool) (sched : list choice),
    exists sched', returned (run kinds fails (sched ++ sched')%list) = true.
Proof. exact can_always_return. Qed.
Print Assumptions C08_can_always_return.

(* ------------------------------------------------------------------------------------
   C08_split_join (string level): a stream
       lead  d  (w1 "\n---" w2  d')*  trail
   of documents that are non-empty, trimmed ([trim_left d = d /\ trim_right d = d], i.e.
   TrimSpace d = d, see C08_trimmed_iff) and have no line starting with "---"
   ([dashes3 d = None] for the first line, [has_sep d = false] for the others), with w1, w2,
   trail and the lead arbitrary runs of RE2 white space (space, tab, CR, LF, FF: blank
   lines, trailing spaces, CRLF) and an optional leading "---" line, is split into exactly
   those documents: nothing lost, duplicated or altered.
   ------------------------------------------------------------------------------------ *)
Theorem C08_split_join :
  forall (lw : string) (lm : option string) (d : string) (rest : list sepdoc) (trail : string),
    re_space_str lw = true /\ match lm with Some w0 => re_space_str w0 = true | None => True end ->
    (d <> "" /\ trim_left d = d /\ trim_right d = d /\ dashes3 d = None /\ has_sep d = false) ->
    Forall (fun x => re_space_str (sd_w1 x) = true /\ re_space_str (sd_w2 x) = true /\
                     (sd_doc x <> "" /\ trim_left (sd_doc x) = sd_doc x /\ trim_right (sd_doc x) = sd_doc x /\
                      dashes3 (sd_doc x) = None /\ has_sep (sd_doc x) = false)) rest ->
    re_space_str trail = true ->
    split_manifests ((lw ++ match lm with Some w0 => "---" ++ w0 | None => "" end)
                     ++ d ++ tail_text rest ++ trail) = d :: map sd_doc rest.
Proof. exact split_join. Qed.
Print Assumptions C08_split_join.

Theorem C08_split_blank :
  forall (lw : string) (lm : option string) (trail : string),
    re_space_str lw = true /\ match lm with Some w0 => re_space_str w0 = true | None => True end ->
    re_space_str trail = true ->
    split_manifests ((lw ++ match lm with Some w0 => "---" ++ w0 | None => "" end) ++ trail) = [].
Proof. exact split_blank. Qed.
Print Assumptions C08_split_blank.

Theorem C08_trimmed_iff : forall d, trim_space d = d <-> trim_left d = d /\ trim_right d = d.
Proof. exact trim_space_fixed. Qed.
Print Assumptions C08_trimmed_iff.

(* ---- non-vacuity ------------------------------------------------------------------- *)
Definition nl : string := String (byte 10) "".

(* DESIGN.md: in  a\n---\n---\nb  the first match swallows the line feed the second marker
   would need, so the second marker stays inside the next document *)
Example C08_adjacent_separators :
  split_manifests ("a" ++ nl ++ "---" ++ nl ++ "---" ++ nl ++ "b") = ["a"; "---" ++ nl ++ "b"].
Proof. vm_compute. reflexivity. Qed.
Print Assumptions C08_adjacent_separators.

(* a file map with a partial, a blank file, a manifest document, a hook, a document naming an
   unknown event and an unknown kind: SortManifests succeeds, every place is inhabited *)
Definition ex_heads (d : string) : option head :=
  if String.eqb d "cm" then Some (mkHead "v1" "ConfigMap" (Some ("cm", [])))
  else if String.eqb d "ns" then Some (mkHead "v1" "Namespace" None)
  else if String.eqb d "crontab" then Some (mkHead "v1" "CronTab" (Some ("ct", [("a", "b")])))
  else if String.eqb d "job" then Some (mkHead "v1" "Job" (Some ("j", [("helm.sh/hook", "pre-install, POST-install"); ("helm.sh/hook-weight", "-5")])))
  else if String.eqb d "bad" then Some (mkHead "v1" "Job" (Some ("b", [("helm.sh/hook", "pre-install,bogus")])))
  else None.
Definition ex_files : list (string * string) :=
  [ ("c/templates/b.yaml", "crontab" ++ nl ++ "---" ++ nl ++ "cm" ++ nl ++ "---" ++ nl ++ "ns");
    ("c/templates/a.yaml", "---" ++ nl ++ "job" ++ nl ++ "--- " ++ nl ++ "bad" ++ nl);
    ("c/templates/_helpers.tpl", "not yaml: [");
    ("c/templates/blank.yaml", "  " ++ nl) ].

Example C08_partition_inhabited :
  sort_manifests ex_heads install_order ex_files =
    SortOk [mkHook "j" "Job" "c/templates/a.yaml" "job" ["pre-install"; "post-install"] (-5)%Z [] []]
           [mkManifest "c/templates/b.yaml" "ns" (mkHead "v1" "Namespace" None);
            mkManifest "c/templates/b.yaml" "cm" (mkHead "v1" "ConfigMap" (Some ("cm", [])));
            mkManifest "c/templates/b.yaml" "crontab" (mkHead "v1" "CronTab" (Some ("ct", [("a", "b")])))]
  /\ filter (is_dropped ex_heads) (all_docs ex_files) = [("c/templates/a.yaml", "bad")].
Proof. vm_compute. split; reflexivity. Qed.
Print Assumptions C08_partition_inhabited.

(* a complete run of Create on [A; A; B]: both A creates overlap, B starts after both ended,
   perform returns with three results *)
Definition ex_sched : list choice :=
  [ChB; ChB; ChB; ChB; ChB; ChB; ChB; ChB;
   ChW 1; ChW 0; ChW 0; ChW 1; ChRecv 1; ChRecv 0; ChW 0; ChB; ChW 1;
   ChB; ChB; ChB; ChB; ChW 2; ChW 2; ChRecv 2; ChW 2; ChP].

Example C08_barrier_inhabited :
  let s := run ["A"; "A"; "B"] (fun j => Nat.eqb j 1) ex_sched in
  returned s = true /\
  trace s = [EStart 1; EStart 0; EEnd 0; EEnd 1; EStart 2; EEnd 2] /\
  failed s = [1] /\ batch_ids ["A"; "A"; "B"] = [1; 1; 2].
Proof. vm_compute. repeat split; reflexivity. Qed.
Print Assumptions C08_barrier_inhabited.

(* the hypotheses of C08_split_join are met by a CRLF stream with a leading marker, blank
   lines, trailing spaces and unicode text; the conclusion is also checked by evaluation *)
Definition cr : string := String (byte 13) "".
Definition ex_d1 : string := "a: 1" ++ cr ++ nl ++ "b: h" ++ String (byte 195) (String (byte 169) "llo").
Definition ex_rest : list sepdoc :=
  [ mkSepDoc (" " ++ cr) (" " ++ cr ++ nl ++ nl) ("# only a comment");
    mkSepDoc "" "" ("kind: X" ++ nl ++ "x: a --- b" ++ nl ++ " ---: indented") ].

Example C08_split_join_inhabited :
  (ex_d1 <> "" /\ trim_left ex_d1 = ex_d1 /\ trim_right ex_d1 = ex_d1 /\ dashes3 ex_d1 = None /\ has_sep ex_d1 = false) /\
  Forall (fun x => re_space_str (sd_w1 x) = true /\ re_space_str (sd_w2 x) = true /\
                   (sd_doc x <> "" /\ trim_left (sd_doc x) = sd_doc x /\ trim_right (sd_doc x) = sd_doc x /\
                    dashes3 (sd_doc x) = None /\ has_sep (sd_doc x) = false)) ex_rest /\
  split_manifests ((nl ++ match Some (cr ++ nl) with Some w0 => "---" ++ w0 | None => "" end)
                   ++ ex_d1 ++ tail_text ex_rest ++ (cr ++ nl ++ "  ")) = ex_d1 :: map sd_doc ex_rest.
Proof.
  split; [|split].
  - repeat split; try reflexivity. discriminate.
  - repeat constructor; try reflexivity; discriminate.
  - vm_compute. reflexivity.
Qed.
Print Assumptions C08_split_join_inhabited.

(* uninstall of a small release: webhook first, namespace last, the kept ConfigMap set aside *)
Definition ex_un_heads (d : string) : option head :=
  if String.eqb d "ns" then Some (mkHead "v1" "Namespace" (Some ("n", [])))
  else if String.eqb d "cm" then Some (mkHead "v1" "ConfigMap" (Some ("c", [("helm.sh/resource-policy", " Keep ")])))
  else if String.eqb d "svc" then Some (mkHead "v1" "Service" (Some ("s", [])))
  else if String.eqb d "hook" then Some (mkHead "v1" "ValidatingWebhookConfiguration" (Some ("w", [])))
  else None.

Example C08_uninstall_inhabited :
  delete_order ex_un_heads uninstall_order
    ("---" ++ nl ++ "ns" ++ nl ++ "---" ++ nl ++ "cm" ++ nl ++ "---" ++ nl ++ "svc" ++ nl ++ "---" ++ nl ++ "hook" ++ nl) =
  DeleteOrder [mkManifest "manifest-3" "hook" (mkHead "v1" "ValidatingWebhookConfiguration" (Some ("w", [])));
               mkManifest "manifest-2" "svc" (mkHead "v1" "Service" (Some ("s", [])));
               mkManifest "manifest-0" "ns" (mkHead "v1" "Namespace" (Some ("n", [])))]
              [mkManifest "manifest-1" "cm" (mkHead "v1" "ConfigMap" (Some ("c", [("helm.sh/resource-policy", " Keep ")])))].
Proof. vm_compute. reflexivity. Qed.
Print Assumptions C08_uninstall_inhabited.

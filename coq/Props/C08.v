(* C08 — every rendered document is applied exactly once, in dependency order.
   Property theorems only: each closed by [exact] of a lemma proved elsewhere, except the
   obligations over the tables regenerated from /repo (Gen/KindOrder.v, Gen/Events.v),
   which are finite and proved here by computation on every run. *)
From Coq Require Import List String Ascii Bool Arith ZArith Permutation Sorted.
From Helm Require Import Common.Assoc Common.SortUniq Text.Split Text.KindSort Text.KindSortProofs
  Text.SplitProofs Text.Classify Text.ClassifyProofs Text.Uninstall Text.UninstallProofs Text.Batch Text.BatchProofs Gen.KindOrder Gen.Events
  Common.Strs Text.Lower Text.LowerProofs Text.ClassifyU Text.ClassifyUProofs Text.UninstallU Text.Full Text.FullProofs Text.SpellingProofs
  Text.Cond Text.FullTie Gen.UnicodeLower Gen.C08Render.
Import ListNotations.
Local Open Scope string_scope.

(* ------------------------------------------------------------------------------------
   C08_partition: the documents of the non-partial, non-blank files are, as a multiset,
   exactly  manifest ⊎ hooks ⊎ dropped;  (path, text) pairs are carried over unchanged.
   [head_of] is the YAML library (any function); [place_of] is the specification:
     no helm.sh/hook annotation -> PGeneric, annotation with known events only -> PHook,
     annotation with some unknown event -> PDropped, parse error -> PError.
   ------------------------------------------------------------------------------------ *)
Theorem C08_partition :
  forall (head_of : string -> option head) (order : list string) (files : list (string * string)) hs gs,
    sort_manifests head_of order files = SortOk hs gs ->
    let docs := flat_map file_docs (filter (fun f => negb (is_partial (fst f) || is_blank (snd f))) files) in
    Permutation docs (map gdoc gs ++ map hdoc hs ++ filter (is_dropped head_of) docs) /\
    Permutation (map gdoc gs) (filter (is_generic head_of) docs) /\
    Permutation (map hdoc hs) (filter (is_hook head_of) docs) /\
    (forall pd, In pd docs -> place_of head_of (snd pd) <> PError).
Proof. exact sort_manifests_partition_files. Qed.
Print Assumptions C08_partition.

(* hook iff annotation with only known events; manifest iff no annotation; neither iff an
   unknown event is named *)
Theorem C08_placed_iff :
  forall (head_of : string -> option head) (order : list string) (files : list (string * string)) hs gs,
    sort_manifests head_of order files = SortOk hs gs ->
    forall p d, In (p, d) (flat_map file_docs (filter (fun f => negb (is_partial (fst f) || is_blank (snd f))) files)) ->
      (In (p, d) (map hdoc hs) <->
         exists h types, head_of d = Some h /\ hook_ann h = Some types /\ all_known types = true) /\
      (In (p, d) (map gdoc gs) <-> exists h, head_of d = Some h /\ hook_ann h = None) /\
      (~ In (p, d) (map hdoc hs ++ map gdoc gs) <->
         exists h types, head_of d = Some h /\ hook_ann h = Some types /\ all_known types = false).
Proof. exact placed_iff. Qed.
Print Assumptions C08_placed_iff.

(* SortManifests fails iff some document of a processed file does not parse *)
Theorem C08_sort_ok_iff :
  forall (head_of : string -> option head) (order : list string) (files : list (string * string)),
    (exists hs gs, sort_manifests head_of order files = SortOk hs gs) <->
    (forall pd, In pd (all_docs files) -> place_of head_of (snd pd) <> PError).
Proof. exact sort_manifests_ok_iff. Qed.
Print Assumptions C08_sort_ok_iff.

(* placed documents keep text and head; a hook records what its annotations say *)
Theorem C08_contents_unchanged :
  forall (head_of : string -> option head) (order : list string) (files : list (string * string)) hs gs,
    sort_manifests head_of order files = SortOk hs gs ->
    (forall m, In m gs -> In (gdoc m) (all_docs files) /\ head_of (m_content m) = Some (m_head m) /\
                          hook_ann (m_head m) = None) /\
    (forall h, In h hs -> In (hdoc h) (all_docs files) /\
       exists hd name ann types, head_of (hk_manifest h) = Some hd /\ h_meta hd = Some (name, ann) /\
         aget hook_annotation ann = Some types /\ all_known types = true /\
         hk_name h = name /\ hk_kind h = h_kind hd /\
         parse_events (split_comma types) = Some (hk_events h) /\
         hk_weight h = hook_weight ann /\
         hk_delete h = annotation_values ann hook_delete_annotation /\
         hk_outlog h = annotation_values ann hook_output_log_annotation).
Proof. exact sort_manifests_contents. Qed.
Print Assumptions C08_contents_unchanged.

(* NOTES.txt and partials are never applied; the manifest text is the concatenation of
   "---\n# Source: <path>\n<document>\n" over the sorted manifest list *)
Theorem C08_notes_partials_never_applied :
  forall (head_of : string -> option head) (order : list string) (files : list (string * string)) hs txt,
    render_resources head_of order files = RenderOk hs txt ->
    exists gs, sort_manifests head_of order (filter (fun f => negb (is_notes (fst f))) files) = SortOk hs gs /\
               txt = manifest_text gs /\
               forall p d, In (p, d) (map gdoc gs ++ map hdoc hs) -> is_notes p = false /\ is_partial p = false.
Proof. exact render_resources_spec. Qed.
Print Assumptions C08_notes_partials_never_applied.

(* ------------------------------------------------------------------------------------
   C08_kind_order: the result lists are the kind sort of the documents in processing
   order (files by path, documents by position), and that sort is a permutation, sorted
   by rank (known kinds by table position, then unknown kinds by name), keeps the input
   order within every kind, and is the ONLY list with these three properties.
   ------------------------------------------------------------------------------------ *)
Theorem C08_result_is_kind_sort :
  forall (head_of : string -> option head) (order : list string) (files : list (string * string)) hs gs,
    sort_manifests head_of order files = SortOk hs gs ->
    exists hs0 gs0,
      map gdoc gs0 = filter (is_generic head_of) (all_docs files) /\
      map hdoc hs0 = filter (is_hook head_of) (all_docs files) /\
      gs = sort_by_kind (fun m => h_kind (m_head m)) order gs0 /\
      hs = sort_by_kind hk_kind order hs0.
Proof. exact sort_manifests_order. Qed.
Print Assumptions C08_result_is_kind_sort.

Theorem C08_kind_order :
  forall (A : Type) (kind_of : A -> string) (order : list string) (l : list A),
    let out := sort_by_kind kind_of order l in
    Permutation out l /\
    StronglySorted (fun a b => rank_leb (kind_rank order (kind_of a)) (kind_rank order (kind_of b)) = true) out /\
    (forall k, filter (fun x => String.eqb (kind_of x) k) out = filter (fun x => String.eqb (kind_of x) k) l) /\
    (forall l', Permutation l' l ->
                StronglySorted (fun a b => rank_leb (kind_rank order (kind_of a)) (kind_rank order (kind_of b)) = true) l' ->
                (forall k, filter (fun x => String.eqb (kind_of x) k) l' = filter (fun x => String.eqb (kind_of x) k) l) ->
                l' = out).
Proof.
  exact (fun A kind_of order l =>
           conj (sort_by_kind_perm kind_of order l)
             (conj (sort_by_kind_sorted kind_of order l)
                (conj (sort_by_kind_stable kind_of order l)
                   (sort_by_kind_unique kind_of order l)))).
Qed.
Print Assumptions C08_kind_order.

(* reading of the rank: unknown kinds come after all known ones ... *)
Theorem C08_unknown_kinds_last :
  forall (order : list string) (a b : string),
    rank_leb (kind_rank order a) (kind_rank order b) = true -> ~ In a order -> ~ In b order.
Proof. exact rank_unknown_last. Qed.
Print Assumptions C08_unknown_kinds_last.

(* ... and for a duplicate-free table known kinds are ordered by their position *)
Theorem C08_known_kinds_by_position :
  forall (order : list string) (a b : string) (i j : nat),
    nth_error order i = Some a -> nth_error order j = Some b -> NoDup order ->
    rank_leb (kind_rank order a) (kind_rank order b) = Nat.leb i j.
Proof. exact rank_known_order. Qed.
Print Assumptions C08_known_kinds_by_position.

(* the model's comparison is lessByKind: leb a b = not (less b a) *)
Theorem C08_less_is_rank :
  forall (order : list string) (a b : string),
    negb (less_by_kind order b a) = rank_leb (kind_rank order a) (kind_rank order b).
Proof. exact kind_leb_rank. Qed.
Print Assumptions C08_less_is_rank.

(* uninstall: the stored manifest is split again, sorted with the kind table passed by
   deleteRelease (UninstallOrder), resource-policy: keep documents are set aside, and the
   rest is deleted in that order: sorted by rank, nothing lost or added *)
Theorem C08_uninstall_order :
  forall (head_of : string -> option head) (order : list string) (manifest : string) del keep,
    delete_order head_of order manifest = DeleteOrder del keep ->
    exists gs0,
      map gdoc gs0 = filter (is_generic head_of) (all_docs (split_map manifest)) /\
      Permutation (del ++ keep) gs0 /\
      (forall m, In m del -> kept m = false) /\ (forall m, In m keep -> kept m = true) /\
      StronglySorted (fun a b => rank_leb (kind_rank order (h_kind (m_head a))) (kind_rank order (h_kind (m_head b))) = true) del /\
      del = filter (fun m => negb (kept m)) (sort_by_kind (fun m => h_kind (m_head m)) order gs0) /\
      keep = filter kept (sort_by_kind (fun m => h_kind (m_head m)) order gs0).
Proof. exact delete_order_spec. Qed.
Print Assumptions C08_uninstall_order.

(* ---- obligations over the regenerated tables ---------------------------------------- *)
Theorem C08_tables_nodup : NoDup install_order /\ NoDup uninstall_order /\ NoDup (map fst hook_events).
Proof. repeat split; apply nodupb_NoDup; vm_compute; reflexivity. Qed.
Print Assumptions C08_tables_nodup.

Theorem C08_tables_same_kinds : forall k, In k install_order <-> In k uninstall_order.
Proof. apply same_members_spec. vm_compute. reflexivity. Qed.
Print Assumptions C08_tables_same_kinds.

(* dependency sanity: what must exist first is created first (and deleted last) *)
Definition dependency_sanity : list (string * string) :=
  [ ("Namespace", "ServiceAccount"); ("Namespace", "Secret"); ("Namespace", "ConfigMap");
    ("Namespace", "Service"); ("Namespace", "Deployment"); ("Namespace", "Role"); ("Namespace", "ResourceQuota");
    ("ServiceAccount", "Deployment"); ("Secret", "Deployment"); ("ConfigMap", "Deployment");
    ("ServiceAccount", "Pod"); ("Secret", "Pod"); ("ConfigMap", "Pod");
    ("ConfigMap", "DaemonSet"); ("Secret", "StatefulSet"); ("ConfigMap", "Job"); ("Secret", "CronJob");
    ("StorageClass", "PersistentVolumeClaim"); ("PersistentVolume", "PersistentVolumeClaim");
    ("PersistentVolumeClaim", "Deployment"); ("PersistentVolumeClaim", "StatefulSet");
    ("ClusterRole", "ClusterRoleBinding"); ("Role", "RoleBinding");
    ("ServiceAccount", "RoleBinding"); ("ServiceAccount", "ClusterRoleBinding");
    ("CustomResourceDefinition", "Deployment"); ("Service", "Ingress"); ("IngressClass", "Ingress");
    ("Deployment", "HorizontalPodAutoscaler"); ("Service", "APIService") ].

Theorem C08_install_dependency_order :
  forall a b, In (a, b) dependency_sanity -> precedes install_order a b = true.
Proof.
  assert (H : forallb (fun p => precedes install_order (fst p) (snd p)) dependency_sanity = true)
    by (vm_compute; reflexivity).
  intros a b Hin. rewrite forallb_forall in H. exact (H (a, b) Hin).
Qed.
Print Assumptions C08_install_dependency_order.

Theorem C08_uninstall_dependency_order :
  forall a b, In (a, b) dependency_sanity -> precedes uninstall_order b a = true.
Proof.
  assert (H : forallb (fun p => precedes uninstall_order (snd p) (fst p)) dependency_sanity = true)
    by (vm_compute; reflexivity).
  intros a b Hin. rewrite forallb_forall in H. exact (H (a, b) Hin).
Qed.
Print Assumptions C08_uninstall_dependency_order.

(* custom resources are unknown kinds: they follow every known kind, so their
   CustomResourceDefinition (and Namespace) come first *)
Theorem C08_crd_before_custom_resources :
  forall k, ~ In k install_order ->
    forall known, In known install_order ->
      rank_leb (kind_rank install_order known) (kind_rank install_order k) = true /\
      rank_leb (kind_rank install_order k) (kind_rank install_order known) = false.
Proof. exact (unknown_after_known install_order). Qed.
Print Assumptions C08_crd_before_custom_resources.

(* the tables the hand-written model was transcribed from are still the ones in /repo *)
Theorem C08_separator_regexp : sep_regexp = "(?:^|\s*" ++ String (byte 10) ")---\s*".
Proof. reflexivity. Qed.
Print Assumptions C08_separator_regexp.

Theorem C08_hook_tables :
  hook_events = [("pre-install", "pre-install"); ("post-install", "post-install"); ("pre-delete", "pre-delete");
                 ("post-delete", "post-delete"); ("pre-upgrade", "pre-upgrade"); ("post-upgrade", "post-upgrade");
                 ("pre-rollback", "pre-rollback"); ("post-rollback", "post-rollback"); ("test", "test");
                 ("test-success", "test")] /\
  hook_annotation = "helm.sh/hook" /\ hook_weight_annotation = "helm.sh/hook-weight" /\
  hook_delete_annotation = "helm.sh/hook-delete-policy" /\
  hook_output_log_annotation = "helm.sh/hook-output-log-policy" /\ notes_file_suffix = "NOTES.txt" /\
  resource_policy_annotation = "helm.sh/resource-policy" /\ keep_policy = "keep".
Proof. repeat split; reflexivity. Qed.
Print Assumptions C08_hook_tables.

(* ------------------------------------------------------------------------------------
   C08_barrier: batchPerform/perform as a transition system; [sched] is ANY list of thread
   choices, so each statement holds in every interleaving.
   ------------------------------------------------------------------------------------ *)
(* whenever a create of a later batch starts, every create of every earlier batch has ended *)
Theorem C08_barrier :
  forall (kinds : list string) (fails : nat -> bool) (sched : list choice) pre j' post,
    trace (run kinds fails sched) = (pre ++ EStart j' :: post)%list ->
    forall j b b', nth_error (batch_ids kinds) j = Some b -> nth_error (batch_ids kinds) j' = Some b' ->
      b < b' -> In (EEnd j) pre.
Proof. exact barrier_every_interleaving. Qed.
Print Assumptions C08_barrier.

(* no resource is created twice, nothing outside the list is created, an end follows its start *)
Theorem C08_created_at_most_once :
  forall (kinds : list string) (fails : nat -> bool) (sched : list choice),
    NoDup (trace (run kinds fails sched)) /\
    forall j, (In (EStart j) (trace (run kinds fails sched)) \/ In (EEnd j) (trace (run kinds fails sched))) ->
              j < List.length kinds.
Proof. exact created_at_most_once. Qed.
Print Assumptions C08_created_at_most_once.

Theorem C08_start_before_end :
  forall (kinds : list string) (fails : nat -> bool) (sched : list choice) pre j post,
    trace (run kinds fails sched) = (pre ++ EEnd j :: post)%list -> In (EStart j) pre.
Proof. exact start_before_end. Qed.
Print Assumptions C08_start_before_end.

(* perform returns only after exactly len(infos) results, one from every resource: then every
   resource has been created (started and ended; with NoDup above: exactly once), and the
   reported errors are exactly those of the failing creates *)
Theorem C08_returns_after_all_results :
  forall (kinds : list string) (fails : nat -> bool) (sched : list choice),
    returned (run kinds fails sched) = true ->
    let s := run kinds fails sched in
    List.length (recvd s) = List.length kinds /\
    Permutation (map fst (recvd s)) (seq 0 (List.length kinds)) /\
    (forall j, j < List.length kinds -> In (EStart j) (trace s) /\ In (EEnd j) (trace s)) /\
    Permutation (failed s) (filter fails (seq 0 (List.length kinds))).
Proof. exact returns_after_all_results. Qed.
Print Assumptions C08_returns_after_all_results.

(* the model is not vacuous: while perform has not returned some thread can move (no
   deadlock), and from every reachable state perform can still return *)
Theorem C08_no_deadlock :
  forall (kinds : list string) (fails : nat -> bool) (sched : list choice),
    returned (run kinds fails sched) = false ->
    exists c, step kinds fails (run kinds fails sched) c <> run kinds fails sched.
Proof. exact no_deadlock. Qed.
Print Assumptions C08_no_deadlock.

Theorem C08_can_always_return :
  forall (kinds : list string) (fails : nat -> bool) (sched : list choice),
    exists sched', returned (run kinds fails (sched ++ sched')%list) = true.
Proof. exact can_always_return. Qed.
Print Assumptions C08_can_always_return.

(* ------------------------------------------------------------------------------------
   C08_split_join (string level): a stream
       lead  d  (w1 "\n---" w2  d')*  trail
   of documents that are non-empty, trimmed ([trim_left d = d /\ trim_right d = d], i.e.
   TrimSpace d = d, see C08_trimmed_iff) and have no line starting with "---"
   ([dashes3 d = None] for the first line, [has_sep d = false] for the others), with w1, w2,
   trail and the lead arbitrary runs of RE2 white space (space, tab, CR, LF, FF: blank
   lines, trailing spaces, CRLF) and an optional leading "---" line, is split into exactly
   those documents: nothing lost, duplicated or altered.
   ------------------------------------------------------------------------------------ *)
Theorem C08_split_join :
  forall (lw : string) (lm : option string) (d : string) (rest : list sepdoc) (trail : string),
    re_space_str lw = true /\ match lm with Some w0 => re_space_str w0 = true | None => True end ->
    (d <> "" /\ trim_left d = d /\ trim_right d = d /\ dashes3 d = None /\ has_sep d = false) ->
    Forall (fun x => re_space_str (sd_w1 x) = true /\ re_space_str (sd_w2 x) = true /\
                     (sd_doc x <> "" /\ trim_left (sd_doc x) = sd_doc x /\ trim_right (sd_doc x) = sd_doc x /\
                      dashes3 (sd_doc x) = None /\ has_sep (sd_doc x) = false)) rest ->
    re_space_str trail = true ->
    split_manifests ((lw ++ match lm with Some w0 => "---" ++ w0 | None => "" end)
                     ++ d ++ tail_text rest ++ trail) = d :: map sd_doc rest.
Proof. exact split_join. Qed.
Print Assumptions C08_split_join.

Theorem C08_split_blank :
  forall (lw : string) (lm : option string) (trail : string),
    re_space_str lw = true /\ match lm with Some w0 => re_space_str w0 = true | None => True end ->
    re_space_str trail = true ->
    split_manifests ((lw ++ match lm with Some w0 => "---" ++ w0 | None => "" end) ++ trail) = [].
Proof. exact split_blank. Qed.
Print Assumptions C08_split_blank.

Theorem C08_trimmed_iff : forall d, trim_space d = d <-> trim_left d = d /\ trim_right d = d.
Proof. exact trim_space_fixed. Qed.
Print Assumptions C08_trimmed_iff.

(* ---- non-vacuity ------------------------------------------------------------------- *)
Definition nl : string := String (byte 10) "".

(* DESIGN.md: in  a\n---\n---\nb  the first match swallows the line feed the second marker
   would need, so the second marker stays inside the next document *)
Example C08_adjacent_separators :
  split_manifests ("a" ++ nl ++ "---" ++ nl ++ "---" ++ nl ++ "b") = ["a"; "---" ++ nl ++ "b"].
Proof. vm_compute. reflexivity. Qed.
Print Assumptions C08_adjacent_separators.

(* a file map with a partial, a blank file, a manifest document, a hook, a document naming an
   unknown event and an unknown kind: SortManifests succeeds, every place is inhabited *)
Definition ex_heads (d : string) : option head :=
  if String.eqb d "cm" then Some (mkHead "v1" "ConfigMap" (Some ("cm", [])))
  else if String.eqb d "ns" then Some (mkHead "v1" "Namespace" None)
  else if String.eqb d "crontab" then Some (mkHead "v1" "CronTab" (Some ("ct", [("a", "b")])))
  else if String.eqb d "job" then Some (mkHead "v1" "Job" (Some ("j", [("helm.sh/hook", "pre-install, POST-install"); ("helm.sh/hook-weight", "-5")])))
  else if String.eqb d "bad" then Some (mkHead "v1" "Job" (Some ("b", [("helm.sh/hook", "pre-install,bogus")])))
  else None.
Definition ex_files : list (string * string) :=
  [ ("c/templates/b.yaml", "crontab" ++ nl ++ "---" ++ nl ++ "cm" ++ nl ++ "---" ++ nl ++ "ns");
    ("c/templates/a.yaml", "---" ++ nl ++ "job" ++ nl ++ "--- " ++ nl ++ "bad" ++ nl);
    ("c/templates/_helpers.tpl", "not yaml: [");
    ("c/templates/blank.yaml", "  " ++ nl) ].

Example C08_partition_inhabited :
  sort_manifests ex_heads install_order ex_files =
    SortOk [mkHook "j" "Job" "c/templates/a.yaml" "job" ["pre-install"; "post-install"] (-5)%Z [] []]
           [mkManifest "c/templates/b.yaml" "ns" (mkHead "v1" "Namespace" None);
            mkManifest "c/templates/b.yaml" "cm" (mkHead "v1" "ConfigMap" (Some ("cm", [])));
            mkManifest "c/templates/b.yaml" "crontab" (mkHead "v1" "CronTab" (Some ("ct", [("a", "b")])))]
  /\ filter (is_dropped ex_heads) (all_docs ex_files) = [("c/templates/a.yaml", "bad")].
Proof. vm_compute. split; reflexivity. Qed.
Print Assumptions C08_partition_inhabited.

(* a complete run of Create on [A; A; B]: both A creates overlap, B starts after both ended,
   perform returns with three results *)
Definition ex_sched : list choice :=
  [ChB; ChB; ChB; ChB; ChB; ChB; ChB; ChB;
   ChW 1; ChW 0; ChW 0; ChW 1; ChRecv 1; ChRecv 0; ChW 0; ChB; ChW 1;
   ChB; ChB; ChB; ChB; ChW 2; ChW 2; ChRecv 2; ChW 2; ChP].

Example C08_barrier_inhabited :
  let s := run ["A"; "A"; "B"] (fun j => Nat.eqb j 1) ex_sched in
  returned s = true /\
  trace s = [EStart 1; EStart 0; EEnd 0; EEnd 1; EStart 2; EEnd 2] /\
  failed s = [1] /\ batch_ids ["A"; "A"; "B"] = [1; 1; 2].
Proof. vm_compute. repeat split; reflexivity. Qed.
Print Assumptions C08_barrier_inhabited.

(* the hypotheses of C08_split_join are met by a CRLF stream with a leading marker, blank
   lines, trailing spaces and unicode text; the conclusion is also checked by evaluation *)
Definition cr : string := String (byte 13) "".
Definition ex_d1 : string := "a: 1" ++ cr ++ nl ++ "b: h" ++ String (byte 195) (String (byte 169) "llo").
Definition ex_rest : list sepdoc :=
  [ mkSepDoc (" " ++ cr) (" " ++ cr ++ nl ++ nl) ("# only a comment");
    mkSepDoc "" "" ("kind: X" ++ nl ++ "x: a --- b" ++ nl ++ " ---: indented") ].

Example C08_split_join_inhabited :
  (ex_d1 <> "" /\ trim_left ex_d1 = ex_d1 /\ trim_right ex_d1 = ex_d1 /\ dashes3 ex_d1 = None /\ has_sep ex_d1 = false) /\
  Forall (fun x => re_space_str (sd_w1 x) = true /\ re_space_str (sd_w2 x) = true /\
                   (sd_doc x <> "" /\ trim_left (sd_doc x) = sd_doc x /\ trim_right (sd_doc x) = sd_doc x /\
                    dashes3 (sd_doc x) = None /\ has_sep (sd_doc x) = false)) ex_rest /\
  split_manifests ((nl ++ match Some (cr ++ nl) with Some w0 => "---" ++ w0 | None => "" end)
                   ++ ex_d1 ++ tail_text ex_rest ++ (cr ++ nl ++ "  ")) = ex_d1 :: map sd_doc ex_rest.
Proof.
  split; [|split].
  - repeat split; try reflexivity. discriminate.
  - repeat constructor; try reflexivity; discriminate.
  - vm_compute. reflexivity.
Qed.
Print Assumptions C08_split_join_inhabited.

(* uninstall of a small release: webhook first, namespace last, the kept ConfigMap set aside *)
Definition ex_un_heads (d : string) : option head :=
  if String.eqb d "ns" then Some (mkHead "v1" "Namespace" (Some ("n", [])))
  else if String.eqb d "cm" then Some (mkHead "v1" "ConfigMap" (Some ("c", [("helm.sh/resource-policy", " Keep ")])))
  else if String.eqb d "svc" then Some (mkHead "v1" "Service" (Some ("s", [])))
  else if String.eqb d "hook" then Some (mkHead "v1" "ValidatingWebhookConfiguration" (Some ("w", [])))
  else None.

Example C08_uninstall_inhabited :
  delete_order ex_un_heads uninstall_order
    ("---" ++ nl ++ "ns" ++ nl ++ "---" ++ nl ++ "cm" ++ nl ++ "---" ++ nl ++ "svc" ++ nl ++ "---" ++ nl ++ "hook" ++ nl) =
  DeleteOrder [mkManifest "manifest-3" "hook" (mkHead "v1" "ValidatingWebhookConfiguration" (Some ("w", [])));
               mkManifest "manifest-2" "svc" (mkHead "v1" "Service" (Some ("s", [])));
               mkManifest "manifest-0" "ns" (mkHead "v1" "Namespace" (Some ("n", [])))]
              [mkManifest "manifest-1" "cm" (mkHead "v1" "ConfigMap" (Some ("c", [("helm.sh/resource-policy", " Keep ")])))].
Proof. vm_compute. reflexivity. Qed.
Print Assumptions C08_uninstall_inhabited.

(* ====================================================================================
   Round 4: the whole of renderResources, and strings.ToLower as Go computes it.
   [lower] is the lower-casing function: every statement below holds for ANY function, in
   particular for [go_to_lower] (Text/Lower.v, the model of strings.ToLower the correspondence
   run evaluates) and for [to_lower] (ASCII only), of which the first model is the instance.
   ==================================================================================== *)

(* the first model is the instance lower := to_lower of the generic one *)
Theorem C08_first_model_is_instance :
  forall (head_of : string -> option head) (order : list string) (files : list (string * string)),
    sort_manifests_g to_lower head_of order files = sort_manifests head_of order files.
Proof. exact sort_manifests_g_to_lower. Qed.
Print Assumptions C08_first_model_is_instance.

(* C08_partition for every lower-casing function *)
Theorem C08_partition_any_lowercasing :
  forall (lower : string -> string) (head_of : string -> option head) (order : list string) (files : list (string * string)) hs gs,
    sort_manifests_g lower head_of order files = SortOk hs gs ->
    let docs := flat_map file_docs (filter (fun f => negb (is_partial (fst f) || is_blank (snd f))) files) in
    Permutation docs (map gdoc gs ++ map hdoc hs ++ filter (is_dropped_g lower head_of) docs) /\
    Permutation (map gdoc gs) (filter (is_generic_g lower head_of) docs) /\
    Permutation (map hdoc hs) (filter (is_hook_g lower head_of) docs) /\
    (forall pd, In pd docs -> place_of_g lower head_of (snd pd) <> PError).
Proof. exact sort_manifests_partition_files_g. Qed.
Print Assumptions C08_partition_any_lowercasing.

Theorem C08_placed_iff_any_lowercasing :
  forall (lower : string -> string) (head_of : string -> option head) (order : list string) (files : list (string * string)) hs gs,
    sort_manifests_g lower head_of order files = SortOk hs gs ->
    forall p d, In (p, d) (flat_map file_docs (filter (fun f => negb (is_partial (fst f) || is_blank (snd f))) files)) ->
      (In (p, d) (map hdoc hs) <->
         exists h types, head_of d = Some h /\ hook_ann h = Some types /\ all_known_g lower types = true) /\
      (In (p, d) (map gdoc gs) <-> exists h, head_of d = Some h /\ hook_ann h = None) /\
      (~ In (p, d) (map hdoc hs ++ map gdoc gs) <->
         exists h types, head_of d = Some h /\ hook_ann h = Some types /\ all_known_g lower types = false).
Proof. exact placed_iff_g. Qed.
Print Assumptions C08_placed_iff_any_lowercasing.

(* ------------------------------------------------------------------------------------
   strings.ToLower.  A token names a known event for the real code iff, after TrimSpace, it
   spells a key of the event table: each byte c of the key written as c, as its ASCII capital,
   or as the UTF-8 form of a rune that unicode.ToLower maps to c (table lower_into_ascii,
   regenerated from the toolchain: today U+0130 for i and U+212A for k).
   ------------------------------------------------------------------------------------ *)
Theorem C08_known_events_up_to_go_lowercasing :
  forall tok, known_event_g go_to_lower tok = true <->
              exists e, In e (map fst hook_events) /\ spells e (trim_space tok) = true.
Proof. exact known_event_spellings. Qed.
Print Assumptions C08_known_events_up_to_go_lowercasing.

Theorem C08_go_to_lower_spells :
  forall e s, lower_name e = true -> (go_to_lower s = e <-> spells e s = true).
Proof. exact go_to_lower_spells. Qed.
Print Assumptions C08_go_to_lower_spells.

(* the ASCII fast path and the strings.Map path of strings.ToLower agree; on ASCII text the
   result is the byte-wise lower-casing of the first model *)
Theorem C08_go_to_lower_ascii :
  forall s, all_ascii s = true -> go_to_lower s = to_lower s /\ map_runes unicode_to_lower s 0 = to_lower s.
Proof. exact (fun s H => conj (go_to_lower_ascii s H) (lower_paths_agree s H)). Qed.
Print Assumptions C08_go_to_lower_ascii.

(* the only runes outside ASCII that unicode.ToLower maps into ASCII are those of the table *)
Theorem C08_lower_into_ascii_complete :
  forall r, (128 <= r)%N -> (unicode_to_lower r < 128)%N -> In (r, unicode_to_lower r) lower_into_ascii.
Proof. exact lower_into_ascii_complete. Qed.
Print Assumptions C08_lower_into_ascii_complete.

Theorem C08_unicode_tables :
  lower_into_ascii = [(304, 105); (8490, 107)]%N /\
  ascii_fold_extras = [(8490, 75); (383, 83); (8490, 107); (383, 115)]%N /\
  ranges_sorted case_ranges = true.
Proof. repeat split; vm_compute; reflexivity. Qed.
Print Assumptions C08_unicode_tables.

Example C08_lower_examples :
  go_to_lower ("PRE-" ++ bs [196; 176] ++ "NSTALL") = "pre-install" /\
  go_to_lower ("post-rollbac" ++ bs [226; 132; 170]) = "post-rollback" /\
  go_to_lower ("pre-" ++ bs [196; 177] ++ "nstall") <> "pre-install" /\                (* U+0131 dotless i *)
  go_to_lower ("A" ++ bs [128] ++ "B") = "a" ++ bs [239; 191; 189] ++ "b" /\             (* invalid byte -> U+FFFD *)
  known_event_g go_to_lower (" Pre-" ++ bs [196; 176] ++ "nstall ") = true /\
  known_event_g to_lower (" Pre-" ++ bs [196; 176] ++ "nstall ") = false /\
  kept_g go_to_lower (mkManifest "p" "d" (mkHead "v1" "ConfigMap" (Some ("c", [("helm.sh/resource-policy", bs [226; 132; 170] ++ "EEP")])))) = true.
Proof. vm_compute. repeat split; try reflexivity; discriminate. Qed.
Print Assumptions C08_lower_examples.

(* ------------------------------------------------------------------------------------
   renderResources, whole (Text/Full.v).  No output directory, no post-renderer: every
   document of the template files that are not NOTES.txt, partials or blank is in exactly one
   of manifest / hooks / dropped; nothing of a NOTES.txt file or a partial is placed; the buffer
   is the CRD files (only with includeCrds; each verbatim under its # Source header, in front)
   followed by one entry per manifest in kind order; without --hide-secret that is the manifest
   text of the first model (nothing altered).
   ------------------------------------------------------------------------------------ *)
Theorem C08_full_partition :
  forall (head_of : string -> option head) (lower : string -> string) (o : opts) (crds files : list (string * string))
         hs b notes w,
    o_output_dir o = "" ->
    render_full head_of lower o crds None files = FullOk hs b notes w ->
    let docs := flat_map file_docs
                  (filter (fun f => negb (is_notes (fst f)) && negb (is_partial (fst f) || is_blank (snd f))) files) in
    exists gs,
      Permutation docs (map gdoc gs ++ map hdoc hs ++ filter (is_dropped_g lower head_of) docs) /\
      Permutation (map gdoc gs) (filter (is_generic_g lower head_of) docs) /\
      Permutation (map hdoc hs) (filter (is_hook_g lower head_of) docs) /\
      (forall pd, In pd docs -> place_of_g lower head_of (snd pd) <> PError) /\
      (forall p d, In (p, d) (map gdoc gs ++ map hdoc hs) -> is_notes p = false /\ is_partial p = false) /\
      b = concat_str (map crd_entry (if o_include_crds o then crds else []) ++ map (doc_entry (o_hide_secret o)) gs) /\
      (o_hide_secret o = false ->
       b = (concat_str (map crd_entry (if o_include_crds o then crds else [])) ++ manifest_text gs)%string).
Proof. exact full_partition. Qed.
Print Assumptions C08_full_partition.

(* --hide-secret: the single alteration.  An entry of the buffer is the document under its
   header, unless the flag is set AND the head says kind "Secret" AND apiVersion "v1" (both
   compared byte for byte): then it is the header and the marker line.  One entry per
   manifest either way (C08_full_partition: [map]); hooks are never hidden (they are not in
   the buffer; C08_contents_unchanged). *)
Theorem C08_hide_secret_entry :
  forall (hide : bool) (m : manifest),
    doc_entry hide m =
      if hide && (String.eqb (h_kind (m_head m)) "Secret" && String.eqb (h_version (m_head m)) "v1")
      then "---" ++ nl ++ "# Source: " ++ m_name m ++ nl ++ "# HIDDEN: The Secret output has been suppressed" ++ nl
      else "---" ++ nl ++ "# Source: " ++ m_name m ++ nl ++ m_content m ++ nl.
Proof. exact doc_entry_spec. Qed.
Print Assumptions C08_hide_secret_entry.

Theorem C08_hide_secret_unaltered :
  forall (hide : bool) (m : manifest),
    hide = false \/ h_kind (m_head m) <> "Secret" \/ h_version (m_head m) <> "v1" ->
    doc_entry hide m = source_entry (m_name m) (m_content m).
Proof. exact doc_entry_unaltered. Qed.
Print Assumptions C08_hide_secret_unaltered.

(* ... and it never reaches what is applied: Install.RunWithContext / Upgrade.prepareUpgrade
   return an error when HideSecret is set without a dry run, and a dry run returns before
   anything is created ([applied], Text/Full.v; statement order tied by C08_render_tables).
   That a dry run applies nothing afterwards is property C06. *)
Theorem C08_hidden_never_applied :
  forall (f : run_flags) (m m' : string),
    applied f m = Some m' -> rf_hide_secret f = false /\ is_dry_run f = false /\ m' = m.
Proof. exact applied_not_hidden. Qed.
Print Assumptions C08_hidden_never_applied.

(* the post-renderer, for ANY function f (f b = None: pr.Run returned an error): it is handed
   exactly the buffer of the run without a renderer (CRDs and manifests, never the hooks; the
   empty buffer with an output directory), the release manifest is exactly what it returns, and
   hooks, notes and written files are those of the run without it *)
Theorem C08_post_renderer :
  forall (head_of : string -> option head) (lower : string -> string) (o : opts) (crds : list (string * string))
         (f : string -> option string) (files : list (string * string)),
    render_full head_of lower o crds (Some f) files =
    match render_full head_of lower o crds None files with
    | FullOk hs b notes w =>
        match f b with Some b' => FullOk hs b' notes w | None => FullPostErr hs notes w end
    | r => r
    end.
Proof. exact render_full_post. Qed.
Print Assumptions C08_post_renderer.

Theorem C08_post_renderer_identity :
  forall (head_of : string -> option head) (lower : string -> string) (o : opts) (crds files : list (string * string)),
    render_full head_of lower o crds (Some (fun b => Some b)) files = render_full head_of lower o crds None files.
Proof. exact render_full_identity. Qed.
Print Assumptions C08_post_renderer_identity.

(* --output-dir: nothing goes to the buffer; the file <dir>/<name> exists iff some item (CRD
   Filename with includeCrds, template path of a manifest) has that name, and holds the entries
   of exactly the items of that name, in order (manifests: in the order of the kind-sorted
   list), each in full: --hide-secret has no effect on files; no other file is written.
   Hypothesis: CRD files and manifests go to the same directory. *)
Theorem C08_output_dir :
  forall (head_of : string -> option head) (lower : string -> string) (o : opts) (crds files : list (string * string))
         hs b notes w,
    is_empty (o_output_dir o) = false ->
    (o_use_release_name o = false \/ (if o_include_crds o then crds else []) = []) ->
    render_full head_of lower o crds None files = FullOk hs b notes w ->
    b = "" /\
    exists gs, sort_manifests_g lower head_of install_order (filter (fun f => negb (is_notes (fst f))) files) = SortOk hs gs /\
      let items := ((if o_include_crds o then crds else []) ++ map (fun m => (m_name m, m_content m)) gs)%list in
      (forall n, aget (new_dir o ++ "/" ++ n) w =
                 if existsb (fun it => String.eqb n (fst it)) items
                 then Some (concat_str (map (fun it => source_entry (fst it) (snd it))
                                          (filter (fun it => String.eqb n (fst it)) items)))
                 else None) /\
      (forall p, aget p w <> None -> exists n, p = new_dir o ++ "/" ++ n).
Proof. exact render_full_output_dir. Qed.
Print Assumptions C08_output_dir.

Theorem C08_output_dir_no_write_error :
  forall (head_of : string -> option head) (lower : string -> string) (o : opts) (crds : list (string * string)) pr files,
    (o_use_release_name o = false \/ (if o_include_crds o then crds else []) = []) ->
    render_full head_of lower o crds pr files <> FullWriteErr.
Proof. exact render_full_no_write_error. Qed.
Print Assumptions C08_output_dir_no_write_error.

(* the hypothesis is needed: fileWritten is keyed by name, CRD files go to <dir> and manifests
   to <dir>/<release>; a CRD file whose Filename is a template's path makes the template's
   file be opened for appending where it does not exist.  Replayed on the real code (corpus
   case of c08_full.go: "open .../c08-release/c08chart/templates/app.yaml: no such file") *)
Example C08_output_dir_write_error_witness :
  render_full (fun _ => Some (mkHead "v1" "ConfigMap" None)) go_to_lower
    (mkOpts "c" "rel" "OUT" false true true false)
    (chart_crds (Chart "c" [("crds/../templates/app.yaml", "kind: CustomResourceDefinition")] []))
    None [("c/templates/app.yaml", "kind: ConfigMap")] = FullWriteErr.
Proof. vm_compute. reflexivity. Qed.
Print Assumptions C08_output_dir_write_error_witness.

(* Info.Notes: the texts of the selected NOTES.txt files (all with subNotes, else the chart's
   own templates/NOTES.txt), joined with a line feed when the buffer is not empty, in the order
   (number of slashes, name) - the only sorted arrangement of a map's keys; no NOTES.txt file,
   no notes *)
Theorem C08_notes :
  forall (o : opts) (files : list (string * string)),
    notes_text o (notes_order files) "" =
      fold_left (fun b v => ((if is_empty b then b else b ++ nl) ++ v)%string)
                (map snd (filter (fun f => is_notes (fst f) && (o_sub_notes o || String.eqb (fst f) (main_notes_key o)))
                            (notes_order files))) "" /\
    Permutation (notes_order files) files /\
    StronglySorted (fun a b => notes_leb (fst a) (fst b) = true) (notes_order files) /\
    (forall l, NoDup (map fst files) -> Permutation l files ->
               StronglySorted (fun a b => notes_leb (fst a) (fst b) = true) l -> l = notes_order files) /\
    ((forall f, In f files -> is_notes (fst f) = false) -> notes_text o (notes_order files) "" = "").
Proof.
  exact (fun o files =>
           conj (notes_text_spec o (notes_order files) "")
             (conj (notes_order_perm files)
                (conj (notes_order_sorted files)
                   (conj (notes_order_unique files) (notes_only_from_notes_files o files))))).
Qed.
Print Assumptions C08_notes.

(* uninstall with strings.ToLower in filterManifestsToKeep *)
Theorem C08_uninstall_order_any_lowercasing :
  forall (lower : string -> string) (head_of : string -> option head) (order : list string) (manifest : string) del keep,
    delete_order_g lower head_of order manifest = DeleteOrder del keep ->
    exists gs0,
      map gdoc gs0 = filter (is_generic_g lower head_of) (all_docs (split_map manifest)) /\
      Permutation (del ++ keep) gs0 /\
      (forall m, In m del -> kept_g lower m = false) /\ (forall m, In m keep -> kept_g lower m = true) /\
      StronglySorted (fun a b => rank_leb (kind_rank order (h_kind (m_head a))) (kind_rank order (h_kind (m_head b))) = true) del /\
      del = filter (fun m => negb (kept_g lower m)) (sort_by_kind (fun m => h_kind (m_head m)) order gs0) /\
      keep = filter (kept_g lower) (sort_by_kind (fun m => h_kind (m_head m)) order gs0).
Proof. exact delete_order_spec_g. Qed.
Print Assumptions C08_uninstall_order_any_lowercasing.

(* ---- the model of renderResources is still what /repo does: Gen/C08Render.v ----------------------
   The translator prints the call sites (buffer writes, file writes, NOTES text, deletion of
   NOTES keys, post-renderer, os.Create / os.OpenFile, append in CRDObjects) with their path
   conditions as boolean expressions over atoms, helpers followed, formats resolved through
   constants, boolean functions evaluated.  The obligations compare CONDITIONS BY TRUTH TABLE
   with the model's conditions (Text/FullTie.v: [specs_reflect_model] says they are the model's),
   formats as sets, and select rows by what they emit, so that nested ifs / && chains / reordered
   conjuncts / helpers / named constants / switch for || give the same verdict. *)
Theorem C08_render_tables :
  render_rows_ok render_rows = true /\
  bequiv notes_less notes_less_spec = true /\
  write_rows_ok write_rows = true /\
  crd_rows_ok crd_rows = true /\
  crd_filename = "filepath.Join($recv.ChartFullPath(), $elem.Name)".
Proof. repeat split; vm_compute; reflexivity. Qed.
Print Assumptions C08_render_tables.

(* the specifications used above are the model's own conditions *)
Theorem C08_render_specs_are_the_model :
  forall (o : opts) (m : manifest) (k : string),
    let env := env_render (is_empty (o_output_dir o)) (o_sub_notes o) (o_include_crds o) false (o_hide_secret o)
                 (String.eqb (h_kind (m_head m)) "Secret") (String.eqb (h_version (m_head m)) "v1")
                 (is_notes k) (String.eqb k (main_notes_key o)) in
    beval env hidden_spec = Some (is_empty (o_output_dir o) && (o_hide_secret o && is_secret_v1 (m_head m))) /\
    beval env plain_spec = Some (is_empty (o_output_dir o) && negb (o_hide_secret o && is_secret_v1 (m_head m))) /\
    beval env file_spec = Some (negb (is_empty (o_output_dir o))) /\
    beval env crd_buffer_spec = Some (o_include_crds o && is_empty (o_output_dir o)) /\
    beval env notes_spec = Some (notes_selected o k) /\
    beval env notes_delete_spec = Some (is_notes k).
Proof. exact specs_reflect_model. Qed.
Print Assumptions C08_render_specs_are_the_model.

(* the hide-secret guard, read semantically: isDryRun evaluated (an || chain, a switch, early
   returns give equivalent expressions); over DryRun / DryRunOption / HideSecret, control reaches
   renderResources iff the guard does not reject, and reaches a call that applies the release
   (performInstall*, KubeClient.Create, Releases.Create) only if moreover it is not a dry run —
   whatever the order or nesting of the statements; install and upgrade pass their own fields
   (upgrade: no output directory, no CRDs, no release-name directory) *)
Theorem C08_hide_secret_guard_tables :
  bequiv install_is_dry_run dry_spec = true /\ bequiv upgrade_is_dry_run dry_spec = true /\
  bequiv install_render_reach render_reach_spec = true /\
  bequiv install_apply_reach apply_reach_spec = true /\
  bequiv upgrade_render_reach render_reach_spec = true /\
  passed install_render_args = ["$recv.ReleaseName"; "$recv.OutputDir"; "$recv.SubNotes"; "$recv.UseReleaseName";
                                "$recv.IncludeCRDs"; "$recv.PostRenderer"; "$recv.HideSecret"] /\
  passed upgrade_render_args = [""""""; """"""; "$recv.SubNotes"; "false"; "false"; "$recv.PostRenderer"; "$recv.HideSecret"].
Proof. repeat split; vm_compute; reflexivity. Qed.
Print Assumptions C08_hide_secret_guard_tables.

Theorem C08_guard_specs_are_the_model :
  forall (f : run_flags) (m : string),
    beval (env_flags f) dry_spec = Some (is_dry_run f) /\
    beval (env_flags f) render_reach_spec = Some (negb (negb (is_dry_run f) && rf_hide_secret f)) /\
    beval (env_flags f) apply_reach_spec = Some (match applied f m with Some _ => true | None => false end).
Proof. exact guard_specs_reflect_model. Qed.
Print Assumptions C08_guard_specs_are_the_model.

(* ---- non-vacuity: a chart with CRDs in the root and a subchart, a hidden v1 Secret, a Secret
   of another version, a hook Secret, notes at two depths ---------------------------------------- *)
Definition ex_full_heads (d : string) : option head :=
  if String.eqb d "sec" then Some (mkHead "v1" "Secret" (Some ("s", [])))
  else if String.eqb d "sec2" then Some (mkHead "v2" "Secret" (Some ("s2", [])))
  else if String.eqb d "hooksec" then Some (mkHead "v1" "Secret" (Some ("hs", [("helm.sh/hook", "pre-install")])))
  else if String.eqb d "cm" then Some (mkHead "v1" "ConfigMap" (Some ("c", [])))
  else None.
Definition ex_full_files : list (string * string) :=
  [ ("c/templates/a.yaml", "cm" ++ nl ++ "---" ++ nl ++ "sec" ++ nl ++ "---" ++ nl ++ "sec2" ++ nl ++ "---" ++ nl ++ "hooksec");
    ("c/templates/NOTES.txt", "main notes");
    ("c/charts/sub/templates/NOTES.txt", "sub notes");
    ("c/templates/x/NOTES.txt", "nested") ].
Definition ex_full_chart : chart :=
  Chart "c" [("crds/w.yaml", "crd1"); ("crds/readme.txt", "no"); ("crds/x.J" ++ bs [197; 191] ++ "ON", "crd2")]
            [Chart "sub" [("crds/s.YML", "crd3"); ("files/crds/t.yaml", "no")] []].

Example C08_full_inhabited :
  chart_crds ex_full_chart = [("c/crds/w.yaml", "crd1"); ("c/crds/x.J" ++ bs [197; 191] ++ "ON", "crd2"); ("c/charts/sub/crds/s.YML", "crd3")] /\
  render_full ex_full_heads go_to_lower (mkOpts "c" "rel" "" true false true true) (chart_crds ex_full_chart) None ex_full_files =
    FullOk [mkHook "hs" "Secret" "c/templates/a.yaml" "hooksec" ["pre-install"] 0%Z [] []]
           (source_entry "c/crds/w.yaml" "crd1" ++ source_entry ("c/crds/x.J" ++ bs [197; 191] ++ "ON") "crd2" ++
            source_entry "c/charts/sub/crds/s.YML" "crd3" ++
            hidden_entry "c/templates/a.yaml" ++ source_entry "c/templates/a.yaml" "sec2" ++ source_entry "c/templates/a.yaml" "cm")
           ("main notes" ++ nl ++ "nested" ++ nl ++ "sub notes") [] /\
  render_full ex_full_heads go_to_lower (mkOpts "c" "rel" "OUT" false true false true) (chart_crds ex_full_chart) None ex_full_files =
    FullOk [mkHook "hs" "Secret" "c/templates/a.yaml" "hooksec" ["pre-install"] 0%Z [] []] "" "main notes"
           [("OUT/rel/c/templates/a.yaml",
             source_entry "c/templates/a.yaml" "sec" ++ source_entry "c/templates/a.yaml" "sec2" ++ source_entry "c/templates/a.yaml" "cm")].
Proof. vm_compute. repeat split; reflexivity. Qed.
Print Assumptions C08_full_inhabited.

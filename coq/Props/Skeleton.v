(* Effect skeleton of the release operations: the hand-written model of Engine/Ops.v is tied
   to the Go source by a translator table that is regenerated from /repo on every check run.
   Property theorems only.  This file is Required by Props/C01.v, C03.v, C06.v and C12.v, so a
   change of the order, the presence or the guarding of an effectful call in
   pkg/action/{install,upgrade,rollback,uninstall,history,hooks,action}.go or
   pkg/storage/storage.go breaks their proof obligations.  See notes/SKEL.md. *)
From Coq Require Import List String Bool Arith.
From Helm Require Import Engine.Types Engine.Eff Engine.Ops Engine.Skeleton Engine.SkeletonExpected
                         Engine.SkeletonModel Engine.SkeletonProofs Engine.SkeletonProofsAll Engine.SkeletonCover
                         Engine.SkeletonNorm Engine.SkeletonNormProofs Engine.SkeletonInlineProofs Engine.SkeletonNormModel
                         Engine.SkeletonFine Engine.SkeletonFineCover Engine.SkeletonSource
                         Engine.SkeletonSourceProofs Gen.ActionSkeleton.
Import ListNotations.
Local Open Scope string_scope.

(* 1. What the translator read out of the Go source on this run EITHER has, for each of the four
      entry points (and their wrappers, and Storage.Create), the same NORMAL FORM as the expected
      skeleton -- all calls of tracked and followed functions inlined, then compared node for
      node (every effectful call, in evaluation order, every condition on an option flag, every
      error branch with the kind of its return, every loop) modulo the rewrites of
      Engine/SkeletonNorm.v, each of which is exact for the path semantics (1b) -- OR passes
      the semantic obligations evaluated on the regenerated table itself (1c): semantic_ok t =
      fine_ok t && coverage_ok t.  The second alternative is evaluated only when the first
      fails (Engine/SkeletonSource.v: source_obligation). *)
Theorem skeleton_matches_source :
  norm_roots skeleton = norm_roots expected \/ semantic_ok skeleton = true.
Proof. exact source_normal_form_or_semantic. Qed.
Print Assumptions skeleton_matches_source.

(* nothing the translator could not classify (Unknown), no call that does not resolve and no
   recursion is reachable from an entry point of the source skeleton *)
Theorem skeleton_source_live : forallb (fun p => live (snd p)) (norm_roots skeleton) = true.
Proof. exact source_roots_live. Qed.
Print Assumptions skeleton_source_live.

(* 1c. What the semantic alternative says.  fine_ok: under the finer path language of
       Engine/SkeletonFine.v -- a run is a list of (kind, answered-an-error) pairs; a Call
       continues in the component the run says, an If keeps the components its branches end
       with, a call outside the skeleton answers nil -- the model's run is a path of the
       inlined entry function: failure-free for every operation, option assignment of its flag
       space, ledger, adopt or not (below), and with every single failure on the smaller space
       (ocheck_fail).  coverage_ok: every call site (effect / nested run) of a function
       reachable from an entry point is needed by one of the 25 probe runs (deleting it makes
       the run no path), or sits under an option the model does not have, or is of a kind
       outside the model, or has a label -- the model kinds that can be performed through it --
       that one of the unneeded sites of the expected table has too (expected_unneeded, 11
       labels: the alternative deletes of Uninstall.deleteRelease, the hook deletions that
       read like their siblings, releaseContent with a version, the calls that only act on a
       cancelled context or pass nil, two updates next to a loop of updates).  The expected
       table itself passes. *)
Theorem skeleton_semantic_alternative :
  forall t : table, semantic_ok t = true ->
    (forall (o : opk) (fl : flags) (l : list release) (ad : bool),
        In fl (flag_space o) -> In l ledgers ->
        ofollows (oroot t o) (mkScen o fl l ad) [] = true) /\
    (forall o, In o ops -> ocheck_fail t o = true) /\
    coverage_ok t = true.   (* = multi_incl (unneeded t the_probes) expected_unneeded *)
Proof.
  intros t H. unfold semantic_ok in H. apply andb_prop in H. destruct H as [Hf Hc].
  split; [exact (fine_ok_spec t Hf)|]. split; [|exact Hc].
  intros o Ho. unfold fine_ok in Hf. pose proof (forallb_In _ _ Hf o Ho) as H1. cbv beta in H1.
  apply andb_prop in H1. exact (proj2 H1).
Qed.
Print Assumptions skeleton_semantic_alternative.

Theorem skeleton_expected_fine_ok : fine_ok expected = true.
Proof. exact expected_fine. Qed.
Print Assumptions skeleton_expected_fine_ok.

(* 1b. The normal form has exactly the paths of the skeleton it is computed from, for every
       input, loop bound and option assignment (naccepts: the abstract interpretation of
       Engine/Skeleton.v by structural recursion on the inlined tree) ... *)
Theorem skeleton_norm_sound :
  forall (s : nsk) (inp : list kind) (fuel : nat) (env : string -> bool),
    naccepts (norm s) inp fuel env = naccepts s inp fuel env.
Proof. exact norm_sound. Qed.
Print Assumptions skeleton_norm_sound.

(* ... so when the normal forms are equal the source skeleton and the expected one have the
   same paths from every root *)
Theorem skeleton_source_same_paths :
  norm_roots skeleton = norm_roots expected ->
  forall entry, In entry roots ->
    forall inp fuel env,
      naccepts (inline_root skeleton entry) inp fuel env = naccepts (inline_root expected entry) inp fuel env.
Proof.
  intros Heq entry H.
  exact (same_normal_form_same_paths skeleton expected entry (root_normal_form skeleton expected Heq entry H)).
Qed.
Print Assumptions skeleton_source_same_paths.

(* the expected skeleton has no node the translator could not classify, and every function it
   calls is tracked *)
Theorem skeleton_well_formed : table_known expected = true /\ table_closed expected = true.
Proof. exact (conj expected_known expected_closed). Qed.
Print Assumptions skeleton_well_formed.

(* 2. The model follows the skeleton.  [follows t rt s fails] is
        raccepts rt (model_trace s fails) FUEL (index_of (entry_of (sc_op s)) t) (env_of (sc_fl s)):
      the sequence of effect kinds that the model program of scenario s performs on the
      scripted world, with the effects at the positions [fails] failing, is a path through
      the skeleton of the operation's Go entry point under the scenario's option assignment;
      rexpected = resolve_table expected (the same table with names resolved).

   2a. Failure-free: each of the four operations, every assignment of the options the
       operation reads (flag_space), every ledger of [ledgers] (empty, one deployed,
       superseded+deployed, deployed+failed, uninstalled, two deployed, pending, none
       deployed; two resources, two hooks on every event), with and without resources to
       adopt. *)
Theorem model_follows_skeleton :
  forall (o : opk) (fl : flags) (l : list release) (ad : bool),
    In fl (flag_space o) -> In l ledgers ->
    follows expected rexpected (mkScen o fl l ad) [] = true.
Proof. exact model_follows_skeleton_lemma. Qed.
Print Assumptions model_follows_skeleton.

(* 2b. Failures: on the smaller space fail_flag_space x fail_ledgers (atomic / cleanup-on-fail /
       keep-history / replace x no-hooks on the ledgers where the operation runs to its end),
       the run with exactly the n-th effect failing, for EVERY position n of the failure-free
       run (every storage write, cluster call, wait and hook watch in turn). *)
Theorem model_failures_follow_skeleton :
  forall (o : opk) (fl : flags) (l : list release),
    In fl (fail_flag_space o) -> In l (fail_ledgers o) ->
    follows expected rexpected (mkScen o fl l false) [] = true /\
    forall n, n < List.length (model_trace (mkScen o fl l false) []) ->
      follows expected rexpected (mkScen o fl l false) [n] = true.
Proof. exact model_failures_follow_skeleton_lemma. Qed.
Print Assumptions model_failures_follow_skeleton.

(* 2a', 2b'. The same two statements for the skeleton extracted from /repo on this run, proved by
        computation against it (not through 1.): rskeleton = resolve_table skeleton. *)
Theorem model_follows_source_skeleton :
  forall (o : opk) (fl : flags) (l : list release) (ad : bool),
    In fl (flag_space o) -> In l ledgers ->
    follows skeleton rskeleton (mkScen o fl l ad) [] = true.
Proof. exact model_follows_source_lemma. Qed.
Print Assumptions model_follows_source_skeleton.

Theorem model_failures_follow_source_skeleton :
  forall (o : opk) (fl : flags) (l : list release),
    In fl (fail_flag_space o) -> In l (fail_ledgers o) ->
    follows skeleton rskeleton (mkScen o fl l false) [] = true /\
    forall n, n < List.length (model_trace (mkScen o fl l false) []) ->
      follows skeleton rskeleton (mkScen o fl l false) [n] = true.
Proof. exact model_failures_follow_source_lemma. Qed.
Print Assumptions model_failures_follow_source_skeleton.

Theorem rskeleton_is_skeleton : rskeleton = resolve_table skeleton.
Proof. exact rskeleton_is. Qed.
Print Assumptions rskeleton_is_skeleton.

(* 2d. The transfer route, without looking at the source table again: a run the checker accepts
       on the expected table is a path of the inlined expected entry function under nx
       (Engine/SkeletonInlineProofs.v: raccepts_naccepts), hence of its normal form (1b), hence
       -- when the first alternative of 1 holds -- of the inlined entry function of the skeleton
       extracted from /repo on this run.  So 2a, 2b and 2c then hold for the source skeleton
       under nx (FUEL rounds per loop). *)
Theorem model_follows_inlined_source_skeleton :
  norm_roots skeleton = norm_roots expected ->
  forall (o : opk) (fl : flags) (l : list release) (ad : bool),
    In fl (flag_space o) -> In l ledgers ->
    naccepts (inline_root skeleton (entry_of o)) (model_trace (mkScen o fl l ad) []) FUEL (env_of fl) = true.
Proof.
  intros Heq o fl l ad H1 H2.
  exact (follows_transfer expected skeleton rexpected rexpected_is (mkScen o fl l ad) []
           (root_normal_form skeleton expected Heq _ (entry_is_root o)) (model_follows_skeleton_lemma o fl l ad H1 H2)).
Qed.
Print Assumptions model_follows_inlined_source_skeleton.

Theorem model_failures_follow_inlined_source_skeleton :
  norm_roots skeleton = norm_roots expected ->
  forall (o : opk) (fl : flags) (l : list release),
    In fl (fail_flag_space o) -> In l (fail_ledgers o) ->
    forall n, n < List.length (model_trace (mkScen o fl l false) []) ->
      naccepts (inline_root skeleton (entry_of o)) (model_trace (mkScen o fl l false) [n]) FUEL (env_of fl) = true.
Proof.
  intros Heq o fl l H1 H2 n Hn.
  exact (follows_transfer expected skeleton rexpected rexpected_is (mkScen o fl l false) [n]
           (root_normal_form skeleton expected Heq _ (entry_is_root o))
           (proj2 (model_failures_follow_skeleton_lemma o fl l H1 H2) n Hn)).
Qed.
Print Assumptions model_failures_follow_inlined_source_skeleton.

Theorem model_follows_inlined_source_skeleton_all_flags :
  norm_roots skeleton = norm_roots expected ->
  forall (o : opk) (a c k r h d co tk : bool),
    naccepts (inline_root skeleton (entry_of o))
             (model_trace (mkScen o (mkFlags a c k r 2 h d co tk 0) (main_ledger o) false) []) FUEL
             (env_of (mkFlags a c k r 2 h d co tk 0)) = true.
Proof.
  intros Heq o a c k r h d co tk.
  exact (follows_transfer expected skeleton rexpected rexpected_is
           (mkScen o (mkFlags a c k r 2 h d co tk 0) (main_ledger o) false) []
           (root_normal_form skeleton expected Heq _ (entry_is_root o))
           (model_follows_skeleton_all_flags_lemma o a c k r h d co tk)).
Qed.
Print Assumptions model_follows_inlined_source_skeleton_all_flags.

(* the link used above, for every table: what raccepts accepts, naccepts accepts *)
Theorem skeleton_checker_paths_are_nx_paths :
  forall (t : table) (inp : list kind) (fuel : nat) (entry : string) (env : string -> bool),
    fuel <= S DEPTH ->
    raccepts (resolve_table t) inp fuel (index_of entry t) env = true ->
    naccepts (inline_root t entry) inp fuel env = true.
Proof. exact raccepts_naccepts. Qed.
Print Assumptions skeleton_checker_paths_are_nx_paths.

Example skeleton_nx_rejects_reordered :
  naccepts (inline_root expected "Install.RunWithContext")
           [DHistory; KcExisting false; KcCreate; DCreate; KcWait; DUpdate] 6
           (env_of (mkFlags false false false false 0 true false false false 0)) = false.
Proof. exact nx_rejects_reordered. Qed.
Print Assumptions skeleton_nx_rejects_reordered.

Theorem rexpected_is_expected : rexpected = resolve_table expected.
Proof. exact rexpected_is. Qed.
Print Assumptions rexpected_is_expected.

(* 2c. Failure-free, for EVERY assignment of the eight boolean options (also the ones the
       operation does not read), max-history 2, on the operation's main ledger. *)
Theorem model_follows_skeleton_all_flags :
  forall (o : opk) (a c k r h d co tk : bool),
    follows expected rexpected (mkScen o (mkFlags a c k r 2 h d co tk 0) (main_ledger o) false) [] = true.
Proof. exact model_follows_skeleton_all_flags_lemma. Qed.
Print Assumptions model_follows_skeleton_all_flags.

(* 3. Conversely, the skeleton has no call the model never performs, outside a stated list.
      A call site = an effect, a call of a tracked function or a run of a nested action,
      named (function, index in preorder).  Every call site of the expected skeleton is
      either in [needed] -- with a run of the scenario space (wit_run w: operation, option
      assignment, ledger, adopt, failing positions) that is a path of the skeleton and is NOT
      a path any more once that one site is deleted (del_follows st sf = follows with the
      table [table_del (fst st) (snd st) expected]) -- or in [not_needed], each with its reason (outside the model: crds/,
      CreateNamespace, Recreate, WaitForJobs, pod logs, context cancellation; or an
      alternative of the same kind on a sibling path).  92 needed, 37 not, 129 in all. *)
Theorem skeleton_calls_needed :
  forall (st : site) (w : wit), In (st, w) needed ->
    exists s fails,
      wit_run w = Some (s, fails) /\
      In (sc_fl s) (flag_space (sc_op s)) /\ In (sc_led s) ledgers /\
      follows expected rexpected s fails = true /\
      del_follows st (s, fails) = false.
Proof. exact skeleton_sites_needed_lemma. Qed.
Print Assumptions skeleton_calls_needed.

Theorem skeleton_calls_covered :
  forall st, In st (all_sites expected) -> In st (map fst needed) \/ In st (map fst not_needed).
Proof. exact skeleton_sites_covered_lemma. Qed.
Print Assumptions skeleton_calls_covered.

Example skeleton_call_counts :
  List.length (all_sites expected) = 129 /\ List.length needed = 92 /\ List.length not_needed = 37.
Proof. exact site_counts. Qed.
Print Assumptions skeleton_call_counts.

(* 4. The checker is not vacuous: the model's plain install is the trace below; with the
      storage create moved behind the cluster create, or dropped, it is no path. *)
Example skeleton_install_trace :
  model_trace (mkScen OInstall (mkFlags false false false false 0 true false false false 0) [] false) []
  = [DHistory; KcExisting false; DCreate; KcCreate; KcWait; DUpdate].
Proof. exact install_trace_is. Qed.
Print Assumptions skeleton_install_trace.

Example skeleton_rejects_reordered :
  raccepts rexpected [DHistory; KcExisting false; KcCreate; DCreate; KcWait; DUpdate]
           FUEL (index_of "Install.RunWithContext" expected)
           (env_of (mkFlags false false false false 0 true false false false 0)) = false.
Proof. exact checker_rejects_reordered. Qed.
Print Assumptions skeleton_rejects_reordered.

Example skeleton_rejects_dropped :
  raccepts rexpected [DHistory; KcExisting false; KcCreate; KcWait; DUpdate]
           FUEL (index_of "Install.RunWithContext" expected)
           (env_of (mkFlags false false false false 0 true false false false 0)) = false.
Proof. exact checker_rejects_dropped. Qed.
Print Assumptions skeleton_rejects_dropped.

Example skeleton_rejects_unhandled_failure :
  raccepts rexpected [DHistory; KcExisting false; DCreate; KcCreate; KcWait]
           FUEL (index_of "Install.RunWithContext" expected)
           (env_of (mkFlags false false false false 0 true false false false 0)) = false.
Proof. exact checker_rejects_unhandled. Qed.
Print Assumptions skeleton_rejects_unhandled_failure.

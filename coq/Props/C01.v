(* C01 — property theorems only: each closed by [exact] of a lemma proved elsewhere. *)
From Coq Require Import List String.
From Helm Require Import Engine.Types Engine.Eff Engine.Ops Engine.Cluster Engine.Seq Engine.SeqProofs.

(* Stored revisions stay pairwise distinct: for EVERY program over the effect signature
   (hence for install, upgrade, rollback, uninstall with any flags), every cluster behaviour
   [kh], every placement of a storage-write failure and every crash point. *)
Theorem C01_revisions_unique_any_program :
  forall (K : Type) (kh : forall e : eff, K -> K * resp e * list kev) (dresp : forall e, resp e)
         (A : Type) (f : sfaults) (p : prog A) (s : rstate K),
    NoDup (revs (led s)) -> NoDup (revs (led (fst (run K kh dresp f p s)))).
Proof. exact run_revisions_unique. Qed.
Print Assumptions C01_revisions_unique_any_program.

(* ... and therefore after every step of every history of operations and out-of-band edits *)
Theorem C01_revisions_unique :
  forall rn ns h w, NoDup (revs (w_led w)) ->
    Forall (fun x => NoDup (revs (w_led (fst (fst x))))) (run_history rn ns h w).
Proof. exact history_revisions_unique. Qed.
Print Assumptions C01_revisions_unique.

(* C01 — Release revision ledger stays well-formed under any history and faults.
   Property theorems only: each closed by [exact] of a lemma proved in Engine/Ledger*.v.

   Vocabulary (all defined in Engine/Ledger*.v, all computable or first-order):
     revs l            the revisions of a ledger                     (SeqProofs)
     mx l              the highest revision of l, 0 if l is empty    (LedgerBase)
     creates t         the revisions of the TStore "create" events of a trace, in order
     ndep l            the number of records with status SDeployed   (LedgerDep)
     succ_new l0 l' x  x is in l', deployed, has revision 1 + mx l0 and is the maximum of l'
     prev_superseded l0 l'   every revision deployed in l0 that still exists in l' is superseded
     run_ops           a history of (operation, storage-fault plan) over ANY cluster handler
     h2_op / h2_hist / h2_history   "no install --replace while a revision is deployed" (K1)
     pruned h m        the revisions Storage.Create deletes for MaxHistory = S m
     fail_ok2 / fail_ok3   the storage writes an injected failure may hit: any but an Update with payload
                       status superseded / superseded, deployed or uninstalled (the final status writes)
     fail_hits_only F o f l k   in the run of operation o from ledger l and cluster state k under fault
                       plan f, the injected write failure, if it fires at all, fires at an effect in F
     h1_hist / h1_history   fail_hits_only fail_ok2 for every operation of a history (narrow H1)
     honest dresp      a storage Create / Delete that failed does not answer SOk
     one_deployed_highest l   exactly one record of l is deployed and it has the highest revision
   Quantification: every cluster handler [kh] (responses and state are arbitrary), every
   storage-fault plan [f] (n-th write fails, crash before the n-th mutating effect), every
   history; no bound on any length. *)
From Helm Require Props.Skeleton. (* effect skeleton tied to /repo by the translator: notes/SKEL.md *)
From Helm Require Props.Decisions. (* data conditions of the release operations tied to /repo by the translator: notes/DEC.md *)
From Coq Require Import List String Bool Arith.
From Helm Require Import Engine.Types Engine.Eff Engine.Ops Engine.Cluster Engine.Seq Engine.SeqProofs
  Engine.LedgerBase Engine.LedgerPieces Engine.LedgerRev Engine.LedgerDep Engine.LedgerPrune Engine.LedgerRecover
  Engine.LedgerEx.
Import ListNotations.
Local Open Scope string_scope.

(* ------------------------------------------------------------------ *)
(* revisions are pairwise distinct                                      *)

(* for EVERY program over the effect signature (hence install, upgrade, rollback, uninstall
   with any flags), every cluster behaviour, every write failure and every crash point *)
Theorem C01_revisions_unique_any_program :
  forall (K : Type) (kh : forall e : eff, K -> K * resp e * list kev) (dresp : forall e, resp e)
         (A : Type) (f : sfaults) (p : prog A) (s : rstate K),
    NoDup (revs (led s)) -> NoDup (revs (led (fst (run K kh dresp f p s)))).
Proof. exact run_revisions_unique. Qed.
Print Assumptions C01_revisions_unique_any_program.

(* ... and therefore after every step of every history of operations and out-of-band edits *)
Theorem C01_revisions_unique :
  forall rn ns h w, NoDup (revs (w_led w)) ->
    Forall (fun x => NoDup (revs (w_led (fst (fst x))))) (run_history rn ns h w).
Proof. exact history_revisions_unique. Qed.
Print Assumptions C01_revisions_unique.

(* ------------------------------------------------------------------ *)
(* 1. every created revision is the successor of the highest revision at operation start *)

(* [dresp] is what a failed / dead storage call answers; the only thing assumed of it is that
   a Create that did not happen does not report success *)
Theorem C01_create_is_successor :
  forall (K : Type) (kh : forall e : eff, K -> K * resp e * list kev) (dresp : forall e, resp e)
         (f : sfaults),
    (forall x, dresp (SCreate x) <> SOk) ->
    forall (rn ns : string) (o : op) (l : list release) (k : K),
      let c := creates (snd (run_op K kh dresp rn ns o f l k)) in
      match o with
      | OpInstall _ _ _ _ _ | OpRollback _ => c = [] \/ c = [S (mx l)]
      | OpUpgrade fl _ _ _ _ =>
          c = [] \/ c = [S (mx l)] \/ (f_atomic fl = true /\ c = [S (mx l); S (S (mx l))])
      | OpUninstall _ => c = []
      end.
Proof. exact run_op_creates. Qed.
Print Assumptions C01_create_is_successor.

(* equivalently: above everything that existed when the operation started *)
Theorem C01_created_above_all :
  forall (K : Type) (kh : forall e : eff, K -> K * resp e * list kev) (dresp : forall e, resp e)
         (f : sfaults),
    (forall x, dresp (SCreate x) <> SOk) ->
    forall (rn ns : string) (o : op) (l : list release) (k : K) (v : nat) (r : release),
      In v (creates (snd (run_op K kh dresp rn ns o f l k))) -> In r l -> rev r < v.
Proof. exact run_op_created_above. Qed.
Print Assumptions C01_created_above_all.

Example C01_dead_resp_honest : forall x, dead_resp (SCreate x) <> SOk.
Proof. exact dead_resp_honest. Qed.
Print Assumptions C01_dead_resp_honest.

(* with pruning the revision just below the new one may be gone when the new one is created:
   install; failed upgrade (2 failed); upgrade --history-max 1 deletes 2, then creates 3 *)
Example C01_prune_gap :
  views gap_history =
    [ [(1, SDeployed)]; [(1, SDeployed); (2, SFailed)]; [(1, SSuperseded); (3, SDeployed)] ] /\
  map (fun x => store_evs (snd x)) (run0 gap_history) =
    [ [TStore "create" 1 SPendingInstall; TStore "update" 1 SDeployed];
      [TStore "create" 2 SPendingUpgrade; TStore "update" 1 SDeployed; TStore "update" 2 SFailed];
      [TStore "delete" 2 SUnknown; TStore "create" 3 SPendingUpgrade;
       TStore "update" 1 SSuperseded; TStore "update" 3 SDeployed] ].
Proof. exact prune_gap. Qed.
Print Assumptions C01_prune_gap.

(* ------------------------------------------------------------------ *)
(* 2. at most one deployed revision                                     *)

(* "_partial": under H1 and H2.
   H1 (narrow form): injected storage-write failures are allowed everywhere EXCEPT on a write
   whose payload status is superseded ([h1_hist]: for every operation of the history, in its
   actual run, the failing write - if the failure fires at all - is not such a write).  Crash
   points anywhere and arbitrary cluster behaviour are allowed.
   H2: no install --replace while a revision is deployed.
   Without H1 or without H2 the statement is false in the model AND in Helm (K2, K1): the two
   refutation lemmas below. *)
Theorem C01_at_most_one_deployed_partial :
  forall (K : Type) (kh : forall e : eff, K -> K * resp e * list kev) (dresp : forall e, resp e)
         (rn ns : string) (h : list (op * sfaults)) (l : list release) (k : K),
    honest dresp ->
    NoDup (revs l) -> ndep l <= 1 ->
    h1_hist K kh dresp rn ns h l k ->                                    (* H1 *)
    h2_hist K kh dresp rn ns h l k ->                                    (* H2 *)
    Forall (fun r => ndep (res_led K r) <= 1) (run_ops K kh dresp rn ns h l k).
Proof. exact run_ops_one_deployed_narrow. Qed.
Print Assumptions C01_at_most_one_deployed_partial.

(* corollary, coarse H1: no injected storage-write failure at all (any [dresp]) *)
Theorem C01_at_most_one_deployed_coarse :
  forall (K : Type) (kh : forall e : eff, K -> K * resp e * list kev) (dresp : forall e, resp e)
         (rn ns : string) (h : list (op * sfaults)) (l : list release) (k : K),
    NoDup (revs l) -> ndep l <= 1 ->
    (forall o f, In (o, f) h -> wfail f = None) ->
    h2_hist K kh dresp rn ns h l k ->
    Forall (fun r => ndep (res_led K r) <= 1) (run_ops K kh dresp rn ns h l k).
Proof. exact run_ops_one_deployed. Qed.
Print Assumptions C01_at_most_one_deployed_coarse.

(* the same over the object-store cluster with out-of-band edits between operations *)
Theorem C01_at_most_one_deployed_history_partial :
  forall (rn ns : string) (h : list hstep) (w : world),
    NoDup (revs (w_led w)) -> ndep (w_led w) <= 1 ->
    h1_history rn ns h w ->                                              (* H1 *)
    h2_history rn ns h w ->                                              (* H2 *)
    Forall (fun x => ndep (w_led (fst (fst x))) <= 1) (run_history rn ns h w).
Proof. exact history_one_deployed_narrow. Qed.
Print Assumptions C01_at_most_one_deployed_history_partial.

Theorem C01_at_most_one_deployed_history_coarse :
  forall (rn ns : string) (h : list hstep) (w : world),
    NoDup (revs (w_led w)) -> ndep (w_led w) <= 1 ->
    (forall c, In (HOp c) h -> wfail (oc_sf c) = None) ->
    h2_history rn ns h w ->
    Forall (fun x => ndep (w_led (fst (fst x))) <= 1) (run_history rn ns h w).
Proof. exact history_one_deployed. Qed.
Print Assumptions C01_at_most_one_deployed_history_coarse.

(* the narrow H1 is met by histories in which a write failure really fires: the "failed" status
   write of a failing upgrade is lost (revision 2 stays pending-upgrade), the next upgrade is
   refused, rollback recovers; H1 in its coarse form does not hold *)
Example C01_narrow_h1_instance :
  h1_history "rel" "default" wf_history (mkW [] []) /\ h2_history "rel" "default" wf_history (mkW [] []) /\
  ~ (forall c, In (HOp c) wf_history -> wfail (oc_sf c) = None) /\
  views wf_history = [ [(1, SDeployed)]; [(1, SDeployed); (2, SPendingUpgrade)];
                       [(1, SDeployed); (2, SPendingUpgrade)];
                       [(1, SSuperseded); (2, SPendingUpgrade); (3, SDeployed)] ] /\
  outs wf_history = [OOk; OErr EOtherErr; OErr EPending; OOk].
Proof. exact narrow_h1_instance. Qed.
Print Assumptions C01_narrow_h1_instance.

(* the final "deployed" write of install may fail as far as the invariant is concerned
   (fail_ok2), but not for the success postcondition (fail_ok3) *)
Example C01_narrow_h1_final_write :
  h1_history "rel" "default" k2b_history (mkW [] []) /\ ndeps k2b_history = [0] /\
  ~ fail_hits_only kstate (kube_handle "rel" "default") dead_resp "rel" "default" fail_ok3
      (OpInstall fl0 1 1 [cm "a" "v1"] []) (mkSF (Some 1) None) [] (mkK [] None None false).
Proof. exact narrow_h1_final_write. Qed.
Print Assumptions C01_narrow_h1_final_write.

(* K1: H1 holds (no write failure at all), H2 does not — install; upgrade failing in the wait;
   install --replace *)
Lemma C01_two_deployed_replace_refuted :
  exists h : list hstep,
    (forall c, In (HOp c) h -> wfail (oc_sf c) = None) /\
    map (fun x => ndep (w_led (fst (fst x)))) (run_history "rel" "default" h (mkW [] [])) = [1; 1; 2].
Proof. exact two_deployed_replace_refuted. Qed.
Print Assumptions C01_two_deployed_replace_refuted.

(* K2: H2 holds, H1 does not — install; upgrade whose "superseded" write fails; both
   operations report success *)
Lemma C01_two_deployed_swallowed_write_refuted :
  exists h : list hstep,
    h2_history "rel" "default" h (mkW [] []) /\
    map (fun x => ndep (w_led (fst (fst x)))) (run_history "rel" "default" h (mkW [] [])) = [1; 2] /\
    map (fun x => snd (fst x)) (run_history "rel" "default" h (mkW [] [])) = [OOk; OOk].
Proof. exact two_deployed_swallowed_write_refuted. Qed.
Print Assumptions C01_two_deployed_swallowed_write_refuted.

(* ------------------------------------------------------------------ *)
(* 3. what a successful operation leaves behind (under H1, from a well-formed ledger) *)

(* H1 (narrow form) for the postcondition: the failing write, if any, is neither a
   "superseded" write nor a final status write (payload deployed / uninstalled) *)
Theorem C01_success_postcondition :
  forall (K : Type) (kh : forall e : eff, K -> K * resp e * list kev) (dresp : forall e, resp e)
         (rn ns : string) (f : sfaults) (o : op) (l : list release) (k : K),
    honest dresp ->
    fail_hits_only K kh dresp rn ns fail_ok3 o f l k ->                  (* H1 *)
    NoDup (revs l) -> ndep l <= 1 ->
    h2_op o l ->                                                         (* H2 *)
    let r := run_op K kh dresp rn ns o f l k in
    let l' := res_led K r in
    NoDup (revs l') /\ ndep l' <= 1 /\
    (res_out K r = OOk -> f_dry_run (op_flags o) = false ->
     match o with
     | OpInstall fl cid vid mani hks | OpUpgrade fl cid vid mani hks =>
         exists x, succ_new l l' x /\ prev_superseded l l' /\
                   chart_id x = cid /\ config_id x = vid /\ manifest x = mani /\ hooks x = hks
     | OpRollback fl =>
         exists x pr, succ_new l l' x /\ prev_superseded l l' /\
                      find (fun r => Nat.eqb (rev r) (rollback_target fl l)) l = Some pr /\
                      same_content x pr
     | OpUninstall fl =>
         if f_keep_history fl
         then exists x, In x l' /\ st x = SUninstalled /\ forall r, In r l' -> rev r <= rev x
         else l' = []
     end).
Proof. exact run_op_D_narrow. Qed.
Print Assumptions C01_success_postcondition.

(* corollary, coarse H1 (any [dresp]) *)
Theorem C01_success_postcondition_coarse :
  forall (K : Type) (kh : forall e : eff, K -> K * resp e * list kev) (dresp : forall e, resp e)
         (rn ns : string) (f : sfaults) (o : op) (l : list release) (k : K),
    wfail f = None ->
    NoDup (revs l) -> ndep l <= 1 ->
    h2_op o l ->
    let r := run_op K kh dresp rn ns o f l k in
    let l' := res_led K r in
    NoDup (revs l') /\ ndep l' <= 1 /\
    (res_out K r = OOk -> f_dry_run (op_flags o) = false ->
     match o with
     | OpInstall fl cid vid mani hks | OpUpgrade fl cid vid mani hks =>
         exists x, succ_new l l' x /\ prev_superseded l l' /\
                   chart_id x = cid /\ config_id x = vid /\ manifest x = mani /\ hooks x = hks
     | OpRollback fl =>
         exists x pr, succ_new l l' x /\ prev_superseded l l' /\
                      find (fun r => Nat.eqb (rev r) (rollback_target fl l)) l = Some pr /\
                      same_content x pr
     | OpUninstall fl =>
         if f_keep_history fl
         then exists x, In x l' /\ st x = SUninstalled /\ forall r, In r l' -> rev r <= rev x
         else l' = []
     end).
Proof. exact run_op_D. Qed.
Print Assumptions C01_success_postcondition_coarse.

(* a non-trivial instance meeting the hypotheses: the pruning upgrade of C01_nonvacuous *)
Example C01_success_postcondition_instance :
  NoDup (revs l3) /\ ndep l3 <= 1 /\ h2_op op4 l3 /\ wfail nosf = None /\
  f_dry_run (op_flags op4) = false /\
  (let r := run_op kstate (kube_handle "rel" "default") dead_resp "rel" "default" op4 nosf l3
                   (mkK [("ConfigMap/a", stamp_fields "rel" "default" [("d:k", "v1")])] None None false) in
   res_out kstate r = OOk /\ view (res_led kstate r) = [(4, SSuperseded); (5, SDeployed)]).
Proof. exact success_instance. Qed.
Print Assumptions C01_success_postcondition_instance.

Example C01_dead_resp_is_honest : honest dead_resp.
Proof. exact dead_resp_is_honest. Qed.
Print Assumptions C01_dead_resp_is_honest.

(* without H1 "success" may leave the new record pending-install (K2: final write of install) ... *)
Example C01_success_needs_h1 :
  views k2b_history = [ [(1, SPendingInstall)] ] /\ outs k2b_history = [OOk].
Proof. exact success_needs_h1. Qed.
Print Assumptions C01_success_needs_h1.

(* ... or the head "uninstalling" after uninstall --keep-history (K2: final write of uninstall) *)
Example C01_success_needs_h1_uninstall :
  views k2c_history = [ [(1, SDeployed)]; [(1, SUninstalling)] ] /\ outs k2c_history = [OOk; OOk].
Proof. exact success_needs_h1_uninstall. Qed.
Print Assumptions C01_success_needs_h1_uninstall.

(* ------------------------------------------------------------------ *)
(* 3b. crash, then recovery                                             *)

(* Whatever happened before - crashes anywhere, tolerated write failures, failed operations,
   all under H1/H2 - a later install / upgrade / rollback that reports success leaves exactly one
   deployed revision, the highest one, and the head is no longer pending. *)
Theorem C01_recovery :
  forall (K : Type) (kh : forall e : eff, K -> K * resp e * list kev) (dresp : forall e, resp e)
         (rn ns : string) (h : list (op * sfaults)) (o : op) (f : sfaults) (l : list release) (k : K),
    honest dresp -> NoDup (revs l) -> ndep l <= 1 ->
    h1_hist K kh dresp rn ns h l k -> h2_hist K kh dresp rn ns h l k ->
    let le := fst (ops_end K kh dresp rn ns h l k) in
    let ke := snd (ops_end K kh dresp rn ns h l k) in
    fail_hits_only K kh dresp rn ns fail_ok3 o f le ke -> h2_op o le ->
    let r := run_op K kh dresp rn ns o f le ke in
    res_out K r = OOk -> f_dry_run (op_flags o) = false ->
    (match o with OpUninstall _ => false | _ => true end) = true ->
    one_deployed_highest (res_led K r) /\
    forall last, max_rev_of (res_led K r) = Some last -> is_pending (st last) = false.
Proof. exact recovery. Qed.
Print Assumptions C01_recovery.

(* The stuck case.  A crashed upgrade (or rollback) leaves a pending head: EVERY upgrade is then
   refused with EPending before any write, for every flag set, fault plan and cluster; a rollback
   that reports success is the way out. *)
Theorem C01_pending_blocks_upgrade_until_rollback :
  forall (K : Type) (kh : forall e : eff, K -> K * resp e * list kev) (dresp : forall e, resp e)
         (rn ns : string) (l : list release) (last : release),
    max_rev_of l = Some last -> is_pending (st last) = true ->
    (forall fl cid vid mani hks f k,
        run_op K kh dresp rn ns (OpUpgrade fl cid vid mani hks) f l k = (l, k, OErr EPending, [])) /\
    (forall fl f k,
        honest dresp -> NoDup (revs l) -> ndep l <= 1 ->
        fail_hits_only K kh dresp rn ns fail_ok3 (OpRollback fl) f l k ->
        let r := run_op K kh dresp rn ns (OpRollback fl) f l k in
        res_out K r = OOk -> f_dry_run fl = false ->
        one_deployed_highest (res_led K r) /\
        forall last', max_rev_of (res_led K r) = Some last' -> is_pending (st last') = false).
Proof. exact pending_blocks_upgrade_until_rollback. Qed.
Print Assumptions C01_pending_blocks_upgrade_until_rollback.

(* A crashed install leaves pending-install: install (even --replace) is refused with
   ENameInUse before any write; uninstall (without keep-history) empties the history. *)
Theorem C01_pending_blocks_install_until_uninstall :
  forall (K : Type) (kh : forall e : eff, K -> K * resp e * list kev) (dresp : forall e, resp e)
         (rn ns : string) (l : list release) (last : release),
    max_rev_of l = Some last -> is_pending (st last) = true ->
    (forall fl cid vid mani hks f k, f_dry_run fl = false ->
        run_op K kh dresp rn ns (OpInstall fl cid vid mani hks) f l k = (l, k, OErr ENameInUse, [])) /\
    (forall fl f k,
        honest dresp -> NoDup (revs l) -> ndep l <= 1 ->
        fail_hits_only K kh dresp rn ns fail_ok3 (OpUninstall fl) f l k ->
        let r := run_op K kh dresp rn ns (OpUninstall fl) f l k in
        res_out K r = OOk -> f_dry_run fl = false -> f_keep_history fl = false ->
        res_led K r = []).
Proof. exact pending_blocks_install_until_uninstall. Qed.
Print Assumptions C01_pending_blocks_install_until_uninstall.

(* crashed install; install --replace, upgrade, rollback refused; uninstall; install *)
Example C01_crashed_install_instance :
  views ci_history = [ [(1, SPendingInstall)]; [(1, SPendingInstall)]; [(1, SPendingInstall)];
                       [(1, SPendingInstall)]; []; [(1, SDeployed)] ] /\
  outs ci_history = [OCrashed; OErr ENameInUse; OErr EPending; OErr EOtherErr; OOk; OOk].
Proof. exact crashed_install_instance. Qed.
Print Assumptions C01_crashed_install_instance.

(* ------------------------------------------------------------------ *)
(* 4. pruning: Storage.Create with MaxHistory = S m                      *)

(* (a) what the program does, without write failure and crash point: it deletes exactly
       [pruned h m] and then creates (or reports the revision as existing) *)
Theorem C01_prune_run :
  forall (K : Type) (kh : forall e : eff, K -> K * resp e * list kev) (dresp : forall e, resp e)
         (f : sfaults),
    wfail f = None ->
    forall (r : release) (m : nat) (s : rstate K),
    crash f = None -> dead s = false -> NoDup (revs (led s)) ->
    let kept := remove_all (pruned (led s) m) (led s) in
    let s' := fst (run K kh dresp f (storage_create r (S m)) s) in
    let e := snd (run K kh dresp f (storage_create r (S m)) s) in
    dead s' = false /\
    if has_rev (rev r) kept then e = SExists /\ led s' = kept
    else e = SOk /\ led s' = (kept ++ [r])%list.
Proof. exact prune_run_thm. Qed.
Print Assumptions C01_prune_run.

(* (a') with ANY crash point: if the process dies in Storage.Create, a PREFIX of [pruned h m] is
        gone and nothing else changed (the new record is missing); otherwise the full result *)
Theorem C01_prune_crash :
  forall (K : Type) (kh : forall e : eff, K -> K * resp e * list kev) (dresp : forall e, resp e)
         (f : sfaults),
    wfail f = None ->
    forall (r : release) (m : nat) (s : rstate K),
    dead s = false -> NoDup (revs (led s)) ->
    let h := led s in
    let kept := remove_all (pruned h m) h in
    let s' := fst (run K kh dresp f (storage_create r (S m)) s) in
    let e := snd (run K kh dresp f (storage_create r (S m)) s) in
    if dead s' then exists n, led s' = remove_all (firstn n (pruned h m)) h
    else if has_rev (rev r) kept then e = SExists /\ led s' = kept
    else e = SOk /\ led s' = (kept ++ [r])%list.
Proof. exact prune_crash_thm. Qed.
Print Assumptions C01_prune_crash.

(* ... so every record missing after an interrupted run was selected for deletion: by
   C01_prune_spec it is not the deployed one and is older than every kept non-deployed one *)
Theorem C01_prune_crash_only_selected :
  forall (h : list release) (m n : nat) (x : release),
    In x h -> ~ In x (remove_all (firstn n (pruned h m)) h) -> In (rev x) (pruned h m).
Proof. exact prune_prefix_missing. Qed.
Print Assumptions C01_prune_crash_only_selected.

(* (b) what the choice guarantees *)
Theorem C01_prune_spec :
  forall (h : list release) (m : nat),
    NoDup (revs h) ->
    let del := pruned h m in
    let kept := remove_all del h in
    (* the definition: the toDelete loop over the revision-ordered history, protecting the
       highest deployed revision; nothing when the history is within the limit *)
    del = (if Nat.leb (List.length h) m then []
           else prune_pick (sort_by_rev h) (deployed_rev h) (List.length h) m 0) /\
    (forall x, In x kept <-> In x h /\ ~ In (rev x) del) /\
    (* never the deployed revision *)
    (forall d, deployed_rev h = Some d -> ~ In d del) /\
    (* oldest first: every deleted revision is below every kept one other than the deployed *)
    (forall v x, In v del -> In x kept -> deployed_rev h <> Some (rev x) -> v < rev x) /\
    (* how many remain before the new record is added: m, so at most S m afterwards — except
       1 (so S m + 1 = 2 afterwards) exactly when m = 0 and a deployed revision exists *)
    List.length kept =
      (if Nat.leb (List.length h) m then List.length h
       else if Nat.eqb m 0 && is_some (deployed_rev h) then 1 else m).
Proof. exact prune_spec_all. Qed.
Print Assumptions C01_prune_spec.

Example C01_prune_instance :
  NoDup (revs l3) /\ deployed_rev l3 = Some 4 /\
  pruned l3 1 = [1; 2; 3] /\ view (remove_all (pruned l3 1) l3) = [(4, SDeployed)] /\
  pruned l3 0 = [1; 2; 3] /\ pruned l3 3 = [1] /\ pruned l3 4 = [].
Proof. exact prune_instance. Qed.
Print Assumptions C01_prune_instance.

(* ------------------------------------------------------------------ *)
(* 5. non-vacuity: a 10-operation history meeting H1 and H2 in which every clause acts *)

Example C01_nonvacuous :
  (forall c, In (HOp c) nv_history -> wfail (oc_sf c) = None) /\
  h2_history "rel" "default" nv_history (mkW [] []) /\
  views nv_history =
    [ [(1, SDeployed)];
      [(1, SDeployed); (2, SFailed)];
      [(1, SSuperseded); (2, SFailed); (3, SFailed); (4, SDeployed)];
      [(4, SSuperseded); (5, SDeployed)];
      [(4, SSuperseded); (5, SDeployed); (6, SPendingUpgrade)];
      [(4, SSuperseded); (5, SDeployed); (6, SPendingUpgrade)];
      [(4, SSuperseded); (5, SSuperseded); (6, SPendingUpgrade); (7, SDeployed)];
      [(4, SSuperseded); (5, SSuperseded); (6, SPendingUpgrade); (7, SUninstalled)];
      [(4, SSuperseded); (5, SSuperseded); (6, SPendingUpgrade); (7, SSuperseded); (8, SDeployed)];
      [] ] /\
  outs nv_history = [OOk; OErr EOtherErr; OErr EOtherErr; OOk; OCrashed; OErr EPending; OOk; OOk; OOk; OOk] /\
  created nv_history = [[1]; [2]; [3; 4]; [5]; [6]; []; [7]; []; [8]; []] /\
  ndeps nv_history = [1; 1; 1; 1; 1; 1; 1; 0; 1; 0].
Proof. exact nonvacuous. Qed.
Print Assumptions C01_nonvacuous.

(* ---- round 5: storage read faults (Engine/SeqRead.v) ----
   The effect signature gives the storage reads no error answer, so a history with a failed read is
   compared with the model up to the faulted operation and judged by the runtime oracle from there on
   (on the unchanged tree every such operation aborts or fails with the ledger clauses intact).
   What the model says: if a failed read were answered like an EMPTY one — what the seeded change
   C01-10 makes Storage.DeployedAll do with every error — the clauses break.  [run_lost_read n o w]
   runs operation o on world w with its n-th read effect (0-based) answered empty.
   (a) 1:deployed 2:failed 3:failed; upgrade --history-max 3: answered truthfully revision 2 is pruned;
       with the deployed lookup of the pruning (read 3) lost, revision 1 is deleted while deployed. *)
From Helm Require Engine.SeqRead.

Theorem C01_lost_read_prunes_deployed_refuted :
  Contain.statuses (w_led (SeqRead.world_of SeqRead.ra_prefix)) = [(1, SDeployed); (2, SFailed); (3, SFailed)] /\
  (let '(w, out, _) := run_store_op "rel" "default" (mkOp SeqRead.ra_op (mkSF None None) (mkCF None None false))
                                    (SeqRead.world_of SeqRead.ra_prefix) in
   out = OOk /\ Contain.statuses (w_led w) = [(1, SSuperseded); (3, SFailed); (4, SDeployed)]) /\
  (let '(w, out, t) := SeqRead.run_lost_read 3 SeqRead.ra_op (SeqRead.world_of SeqRead.ra_prefix) in
   out = OOk /\ Contain.statuses (w_led w) = [(2, SFailed); (3, SFailed); (4, SDeployed)] /\
   In (TStore "delete" 1 SUnknown) t).
Proof. exact SeqRead.lost_read_prunes_deployed_refuted. Qed.
Print Assumptions C01_lost_read_prunes_deployed_refuted.

(* (b) 1:superseded 2:deployed; rollback to 1: with the lookup of the revisions to supersede (read 3)
       lost, the rollback reports success with two deployed revisions *)
Theorem C01_lost_read_two_deployed_refuted :
  Contain.statuses (w_led (SeqRead.world_of SeqRead.rb_prefix)) = [(1, SSuperseded); (2, SDeployed)] /\
  (let '(w, out, _) := run_store_op "rel" "default" (mkOp (OpRollback SeqRead.fl_to1) (mkSF None None) (mkCF None None false))
                                    (SeqRead.world_of SeqRead.rb_prefix) in
   out = OOk /\ Contain.statuses (w_led w) = [(1, SSuperseded); (2, SSuperseded); (3, SDeployed)]) /\
  (let '(w, out, _) := SeqRead.run_lost_read 3 (OpRollback SeqRead.fl_to1) (SeqRead.world_of SeqRead.rb_prefix) in
   out = OOk /\ Contain.statuses (w_led w) = [(1, SSuperseded); (2, SDeployed); (3, SDeployed)]).
Proof. exact SeqRead.lost_read_two_deployed_refuted. Qed.
Print Assumptions C01_lost_read_two_deployed_refuted.

(* Finding K14 (repaired in /repo; this theorem stays as the refutation of the code BEFORE the
   repair) — Install.availableName took a FAILED history lookup for "no such release": there an empty
   answer WAS what the code computed with.  2:superseded 3:deployed (revision 1 pruned); install with
   its name check (read 0) lost reported success with a new revision 1 — below the highest one — and
   two deployed revisions.  The harness replays the history with a real injected read error: the
   repaired install returns that error and leaves the ledger as it was (the signature
   C01:install-after-lost-name-check stays for the case that the step comes back). *)
Theorem C01_lost_name_check_refuted :
  Contain.statuses (w_led (SeqRead.world_of SeqRead.nc_prefix)) = [(2, SSuperseded); (3, SDeployed)] /\
  (let '(w, out, _) := run_store_op "rel" "default" (mkOp SeqRead.nc_op (mkSF None None) (mkCF None None false))
                                    (SeqRead.world_of SeqRead.nc_prefix) in
   out = OErr ENameInUse /\ Contain.statuses (w_led w) = [(2, SSuperseded); (3, SDeployed)]) /\
  (let '(w, out, _) := SeqRead.run_lost_read 0 SeqRead.nc_op (SeqRead.world_of SeqRead.nc_prefix) in
   out = OOk /\ Contain.statuses (w_led w) = [(1, SDeployed); (2, SSuperseded); (3, SDeployed)]).
Proof. exact SeqRead.lost_name_check_refuted. Qed.
Print Assumptions C01_lost_name_check_refuted.

(* ------------------------------------------------------------------ *)
(* 9. storage READ faults inside the model (Engine/OpsR.v): the four operations with, at every
   storage read, the error handler the Go code has at that call site.  Run/RunC01.v evaluates these
   programs on every history the harness ran with a read fault injected into the real driver. *)
From Helm Require Import Engine.OpsR Engine.OpsRProofs Engine.OpsRLedger Engine.OpsRClean Engine.OpsRWrite Engine.OpsRHistory Engine.OpsRHistoryProofs.
From Helm Require Engine.Skeleton Engine.SkeletonModel Engine.SkeletonRead Engine.SkeletonExpected Gen.ActionSkeleton.

(* without a read fault they ARE the operations every theorem above speaks about: the same run
   under every cluster handler, fault plan and state *)
Theorem C01_read_model_is_ops :
  forall (K : Type) (kh : forall e : eff, K -> K * resp e * list kev) (dresp : forall e, resp e)
         (rn ns : string) (o : op),
    req K kh dresp (erase (op_progR rn ns o)) (op_prog rn ns o).
Proof. exact erase_op. Qed.
Print Assumptions C01_read_model_is_ops.

(* the transfer principle: a ledger predicate that survives "record a revision with a status other than
   deployed" and holds for EVERY crash point of the fault-free program holds for EVERY read-fault position *)
Theorem C01_read_fault_transfer :
  forall (K : Type) (kh : forall e : eff, K -> K * resp e * list kev) (dresp : forall e, resp e)
         (P : list release -> Prop),
    (forall x l, st x <> SDeployed -> P l -> P (replace_rev x l)) ->
    forall (A : Type) (p : rprog A), hqQ anyQ p ->
    forall (n : nat) (f : sfaults) (s : rstate K), crash f = None -> dead s = false ->
      (forall m, P (led (fst (run K kh dresp (fc f m) (erase p) s)))) ->
      P (led (fst (run K kh dresp f (erase p) s))) ->
      P (led (fst (run K kh dresp f (rfail n p) s))).
Proof. exact rfail_led. Qed.
Print Assumptions C01_read_fault_transfer.

(* every read handler of every operation is quiet, for every flag assignment *)
Theorem C01_read_handlers_quiet : forall (rn ns : string) (o : op), hqQ anyQ (op_progR rn ns o).
Proof. exact hq_op. Qed.
Print Assumptions C01_read_handlers_quiet.


(* the read positions of the model are the storage reads: every [RTry] node is SHistory / SDeployedAll / SGet and
   every embedded program of Engine/Ops.v (hooks, recordRelease, purge, pruning deletions, supersede loop, single
   cluster calls and writes) performs none - so "the n-th read" counts what the harness's driver wrapper counts *)
Theorem C01_read_positions_are_reads : forall (rn ns : string) (o : op), liftclean (op_progR rn ns o).
Proof. exact liftclean_op. Qed.
Print Assumptions C01_read_positions_are_reads.


(* the handlers against the Go SOURCE (not only against its behaviour in the correspondence run): for every
   scenario of the failure space of Engine/SkeletonModel.v (options x ledgers, 188 read positions over the four
   operations) the run of the model with that read answering an error - the read, then what the handler does, then
   nothing - is a path of the effect skeleton extracted from /repo on THIS run, in the finer path language (effect
   kind, answered an error): where the Go code returns on the error of a read the model returns, and what the model
   still does there (rollback's last lookup: record the revision failed) the Go code does on that branch *)
Theorem C01_read_faults_follow_source :
  SkeletonRead.read_fine_ok ActionSkeleton.skeleton = true /\ SkeletonRead.read_fine_count = 188.
Proof. split; vm_compute; reflexivity. Qed.
Print Assumptions C01_read_faults_follow_source.

Theorem C01_read_faults_follow_expected : SkeletonRead.read_fine_ok SkeletonExpected.expected = true.
Proof. vm_compute. reflexivity. Qed.
Print Assumptions C01_read_faults_follow_expected.

(* so: whichever storage read of whichever operation fails, under every cluster behaviour, revisions
   stay unique and at most one is deployed (H2 as above) *)
Theorem C01_read_fault_ledger :
  forall (K : Type) (kh : forall e : eff, K -> K * resp e * list kev) (dresp : forall e, resp e)
         (rn ns : string) (o : op) (n : nat) (l : list release) (k : K),
    NoDup (revs l) -> ndep l <= 1 -> h2_op o l ->
    ledger_ok (fst (fst (fst (run_opR K kh dresp rn ns o n l k)))).
Proof. exact read_fault_ledger. Qed.
Print Assumptions C01_read_fault_ledger.


(* an operation one of whose reads failed never reports success: either that read position is not reached -
   then the run IS the fault-free run of Engine/Ops.v (ledger, cluster, outcome, trace) - or the outcome is
   an error ("after an operation reports success ..." is never claimed on the strength of a failed lookup) *)
Theorem C01_read_fault_never_success :
  forall (K : Type) (kh : forall e : eff, K -> K * resp e * list kev) (dresp : forall e, resp e)
         (rn ns : string) (o : op) (n : nat) (l : list release) (k : K),
    run_opR K kh dresp rn ns o n l k
      = (let '(s, out) := run K kh dresp (mkSF None None) (op_prog rn ns o) (mkR l k 0 0 false []) in
         (led s, ks s, out, tr s))
    \/ snd (fst (run_opR K kh dresp rn ns o n l k)) <> OOk.
Proof. exact read_fault_never_success. Qed.
Print Assumptions C01_read_fault_never_success.


(* pruning under a failing read (the clause seeded C01-10 broke, for EVERY ledger and limit): Storage.Create has two
   reads - the history, the deployed lookup of removeLeastRecent.  Whichever fails, either it is not reached (history
   within the limit: the fault-free run) or Create answers an error and the state - ledger, cluster, counters, trace -
   is exactly what it was: no revision pruned, in particular never the deployed one, and no record created *)
Theorem C01_prune_read_fault_changes_nothing :
  forall (K : Type) (kh : forall e : eff, K -> K * resp e * list kev) (dresp : forall e, resp e)
         (f : sfaults) (r : release) (m n : nat) (s : rstate K),
    crash f = None -> dead s = false -> n < 2 ->
    let res := run K kh dresp f (rfail n (storage_createR r (S m))) s in
    res = run K kh dresp f (storage_create r (S m)) s \/ res = (s, SFail).
Proof. exact prune_read_fault. Qed.
Print Assumptions C01_prune_read_fault_changes_nothing.


(* a failing read AND a failing storage write in one operation (the transfer principle holds for every fault plan
   without a crash point): under H1 in its narrow form - the failing write is not one that marks a revision superseded -
   asked of the fault-free program for every crash point, the ledger clauses hold again; the handler's own write
   (rollback's last lookup: record the revision failed) may be the failing one *)
Theorem C01_read_and_write_fault_ledger :
  forall (K : Type) (kh : forall e : eff, K -> K * resp e * list kev) (dresp : forall e, resp e)
         (rn ns : string) (o : op) (n : nat) (f : sfaults) (l : list release) (k : K),
    crash f = None -> honest dresp ->
    fail_hits_only K kh dresp rn ns fail_ok2 o f l k ->
    (forall m, fail_hits_only K kh dresp rn ns fail_ok2 o (fc f m) l k) ->
    NoDup (revs l) -> ndep l <= 1 -> h2_op o l ->
    ledger_ok (fst (fst (fst (run_opRF K kh dresp rn ns o n f l k)))).
Proof. exact read_and_write_fault_ledger. Qed.
Print Assumptions C01_read_and_write_fault_ledger.

(* and along every history whose operations carry a crash point or a read fault *)
Theorem C01_read_or_crash_history_ledger :
  forall (K : Type) (kh : forall e : eff, K -> K * resp e * list kev) (dresp : forall e, resp e)
         (rn ns : string) (h : list (op * fault)) (l : list release) (k : K),
    (forall o f, In (o, FCrash f) h -> wfail f = None) ->
    NoDup (revs l) -> ndep l <= 1 -> h2_histF K kh dresp rn ns h l k ->
    Forall ledger_ok (run_opsF K kh dresp rn ns h l k).
Proof. exact run_opsF_ledger. Qed.
Print Assumptions C01_read_or_crash_history_ledger.


(* ... and along every history of THE EVALUATOR OF THE CORRESPONDENCE RUN (Engine/OpsRHistory.v, used by Run/RunC01.v
   on the histories the harness ran through the real actions): operations with crash points, out-of-band edits of the
   cluster, operations with a failing storage read, over the object-store cluster *)
Theorem C01_read_fault_history_ledger :
  forall (rn ns : string) (h : list rstep) (w : world),
    Forall step_faults_ok h -> ledger_ok (w_led w) -> h2_historyR rn ns h w ->
    Forall (fun x => ledger_ok (w_led (fst (fst x)))) (run_historyR rn ns h w).
Proof. exact historyR_ledger. Qed.
Print Assumptions C01_read_fault_history_ledger.

Example C01_read_fault_upgrade_instance :
  map (fun n => run_store_read_fault n SeqRead.ra_op (SeqRead.world_of SeqRead.ra_prefix)) [0; 1; 2; 3]
  = repeat ([(1, SDeployed); (2, SFailed); (3, SFailed)], OErr EOtherErr, []) 4.
Proof. exact read_fault_upgrade_instance. Qed.
Print Assumptions C01_read_fault_upgrade_instance.

Example C01_read_fault_rollback_instance :
  let '(l, out, t) := run_store_read_fault 3 (OpRollback SeqRead.fl_to1) (SeqRead.world_of SeqRead.rb_prefix) in
  l = [(1, SSuperseded); (2, SDeployed); (3, SFailed)] /\ out = OErr EOtherErr /\
  In (TStore "update" 3 SFailed) t.
Proof. exact read_fault_rollback_instance. Qed.
Print Assumptions C01_read_fault_rollback_instance.

(* C03 — property theorems only: each closed by [exact] of a lemma proved elsewhere.

   [run_op K kh dresp rn ns o f l0 k0] runs operation o on ledger l0 and cluster state k0
   under the ARBITRARY cluster handler kh (every cluster behaviour: any call may fail, at any
   position, any number of times); [nofault] = no storage-write failure, no crash.
   [run_store_op] is its instance at the object-store cluster with a one-shot fault plan
   cf = (rejected verb on a key | failing n-th watch of a hook | failing wait).  Revisions
   "created by the operation" are the revisions of the final ledger that the initial ledger
   did not have. *)
From Helm Require Props.Skeleton. (* effect skeleton tied to /repo by the translator: notes/SKEL.md *)
From Helm Require Props.Decisions. (* data conditions of the release operations tied to /repo by the translator: notes/DEC.md *)
From Coq Require Import List String Bool Arith.
From Helm Require Import Common.Assoc Engine.Types Engine.Eff Engine.Ops Engine.Cluster Engine.Seq
  Engine.SeqProofs Engine.HooksProofsGate Engine.ContainLedger Engine.ContainProofs Engine.ContainDeployed
  Engine.Contain Engine.ContainRefuted Engine.ContainStore Engine.HooksProofsTrace Engine.ContainReported Engine.ContainCleanup Engine.ContainAtomic Engine.ContainAtomicUp Engine.ContainAtomicReplace Engine.ContainAtomicFull
  Engine.ContainHistory Engine.ContainMulti Engine.ContainAtomicHooks Engine.ContainAtomicHooksEx.
Import ListNotations.
Local Open Scope string_scope.

(* C03_failed_is_recorded — a non-atomic install / upgrade / rollback that returns an error
   leaves every revision it created with status failed (never pending, never deployed):
   for every cluster behaviour, every initial ledger and every flag combination
   (cleanup-on-fail, no-hooks, replace, max-history, ...). *)
Theorem C03_failed_is_recorded :
  forall (K : Type) (kh : forall e : eff, K -> K * resp e * list kev) (dresp : forall e, resp e)
         (rn ns : string) (o : op) (l0 : list release) (k0 : K) l' k' c t,
    (match o with OpUninstall _ => False | _ => True end) ->
    f_atomic (op_flags o) = false -> f_dry_run (op_flags o) = false ->
    run_op K kh dresp rn ns o nofault l0 k0 = (l', k', OErr c, t) ->
    forall y, In y l' -> ~ In (rev y) (revs l0) -> st y = SFailed.
Proof. exact failed_is_recorded. Qed.
Print Assumptions C03_failed_is_recorded.

(* ... in particular under the object-store cluster with any one-shot fault: a rejected
   create / patch / get / delete of any resource, a failing hook, a failing wait *)
Theorem C03_failed_is_recorded_store :
  forall rn ns o cf w w' c t,
    (match o with OpUninstall _ => False | _ => True end) ->
    f_atomic (op_flags o) = false -> f_dry_run (op_flags o) = false ->
    run_store_op rn ns (mkOp o nofault cf) w = (w', OErr c, t) ->
    forall y, In y (w_led w') -> ~ In (rev y) (revs (w_led w)) -> st y = SFailed.
Proof. exact failed_is_recorded_store. Qed.
Print Assumptions C03_failed_is_recorded_store.

(* Known finding K7 — what the theorem above does NOT say: that every rejected call makes
   the operation fail.  install {a,b}; upgrade to {a'} with DELETE b (or GET b) rejected in
   the deletion phase of the update: the operation reports success, b stays. *)
Theorem C03_delete_swallowed_refuted :
  exists h w,
    final h = Some (w, OOk) /\
    statuses (w_led w) = [(1, SSuperseded); (2, SDeployed)] /\
    amem "ConfigMap/b" (w_objs w) = true.
Proof. exact delete_swallowed_refuted. Qed.
Print Assumptions C03_delete_swallowed_refuted.

Theorem C03_get_swallowed_refuted :
  exists h w,
    final h = Some (w, OOk) /\
    statuses (w_led w) = [(1, SSuperseded); (2, SDeployed)] /\
    amem "ConfigMap/b" (w_objs w) = true.
Proof. exact get_swallowed_refuted. Qed.
Print Assumptions C03_get_swallowed_refuted.

(* C03_cluster_error_is_reported — "the operation returns an error": in EVERY execution of
   install / upgrade / rollback / uninstall (every flag combination, every cluster
   behaviour, storage fault and crash point), if an ownership check, a creation, an update,
   a readiness wait or a hook watch fails ([has_failure tr]: the trace holds KExisting = None,
   KCreate = false, KUpdate = (false, _), KWait = false or KHookWatch = false), the outcome
   is not success.  Deletions are deliberately not in the list: K7 above, and the ignored
   errors of the hook-failed and clean-up deletions. *)
Theorem C03_cluster_error_is_reported :
  forall rn ns o tr out,
    exec (op_prog rn ns o) tr out -> has_failure tr = true -> out <> OOk.
Proof. exact cluster_error_reported. Qed.
Print Assumptions C03_cluster_error_is_reported.

(* C03_previous_stays_deployed — after a failed non-atomic install or upgrade the revision
   that was deployed before (the highest one marked deployed) is still stored, unchanged,
   with status deployed — also when the upgrade pruned the history (max-history). *)
Theorem C03_previous_stays_deployed :
  forall (K : Type) (kh : forall e : eff, K -> K * resp e * list kev) (dresp : forall e, resp e)
         (rn ns : string) (o : op) (l0 : list release) (k0 : K) l' k' c t (d : release),
    (match o with OpInstall _ _ _ _ _ | OpUpgrade _ _ _ _ _ => True | _ => False end) ->
    f_atomic (op_flags o) = false -> f_dry_run (op_flags o) = false ->
    NoDup (revs l0) ->
    max_rev_of (filter (fun r => status_eqb (st r) SDeployed) l0) = Some d ->
    run_op K kh dresp rn ns o nofault l0 k0 = (l', k', OErr c, t) ->
    In d l' /\ st d = SDeployed.
Proof. exact previous_stays_deployed. Qed.
Print Assumptions C03_previous_stays_deployed.

Theorem C03_previous_stays_deployed_store :
  forall rn ns o cf w w' c t d,
    (match o with OpInstall _ _ _ _ _ | OpUpgrade _ _ _ _ _ => True | _ => False end) ->
    f_atomic (op_flags o) = false -> f_dry_run (op_flags o) = false ->
    NoDup (revs (w_led w)) ->
    max_rev_of (filter (fun r => status_eqb (st r) SDeployed) (w_led w)) = Some d ->
    run_store_op rn ns (mkOp o nofault cf) w = (w', OErr c, t) ->
    In d (w_led w') /\ st d = SDeployed.
Proof. exact previous_stays_deployed_store. Qed.
Print Assumptions C03_previous_stays_deployed_store.

(* Rollback is excluded from C03_previous_stays_deployed by the property text; this is what the
   code does: install {a}; upgrade to {a'}; rollback with PATCH a rejected — the update failure
   marks the CURRENT revision superseded and the rollback's revision failed, so afterwards no
   revision is deployed although revision 2's content is what is live (replayed by the harness) *)
Example C03_rollback_supersedes_current_example :
  exists w, final rb_history = Some (w, OErr EOtherErr) /\
            statuses (w_led w) = [(1, SSuperseded); (2, SSuperseded); (3, SFailed)] /\
            aget "d:k" (match aget "ConfigMap/a" (w_objs w) with Some f => f | None => [] end) = Some "v2".
Proof. exact rollback_supersedes_current. Qed.
Print Assumptions C03_rollback_supersedes_current_example.

(* the hypotheses are met: install {a,b}; upgrade to {a',c} with CREATE c rejected *)
Example C03_containment_example :
  (match ex_upgrade with OpUninstall _ => False | _ => True end) /\
  f_atomic (op_flags ex_upgrade) = false /\ f_dry_run (op_flags ex_upgrade) = false /\
  NoDup (revs (w_led ex_w1)) /\
  (exists d, max_rev_of (filter (fun r => status_eqb (st r) SDeployed) (w_led ex_w1)) = Some d /\ rev d = 1) /\
  exists w' t, run_store_op "rel" "default" (mkOp ex_upgrade nofault ex_cf) ex_w1 = (w', OErr EOtherErr, t) /\
               statuses (w_led w') = [(1, SDeployed); (2, SFailed)].
Proof. exact containment_example. Qed.
Print Assumptions C03_containment_example.

(* C03_cleanup_on_fail — non-atomic upgrade with cleanup-on-fail under the object-store
   cluster and a one-shot fault plan that is not a DELETE fault (such a fault could only hit
   the clean-up itself, a second failure), any initial ledger and cluster: if a cluster-side
   failure occurs in the run ([run_tr] is Seq.run returning also its trace of (effect, answer)
   pairs, C03_run_tr_is_run), every resource of Result.Created — the list the update (the
   only KUpdate of the trace) returned — is absent from the cluster afterwards. *)
Theorem C03_run_tr_is_run :
  forall (K : Type) (kh : forall e : eff, K -> K * resp e * list kev) (dresp : forall e, resp e)
         (A : Type) (f : sfaults) (p : prog A) (s : rstate K),
    fst (run_tr K kh dresp f p s) = run K kh dresp f p s.
Proof. exact run_tr_run. Qed.
Print Assumptions C03_run_tr_is_run.

Theorem C03_cleanup_on_fail :
  forall rn ns fl cid vid mani hks cf l0 objs0 s' out tr,
    f_atomic fl = false -> f_cleanup fl = true -> f_dry_run fl = false ->
    (forall key, cf_k cf <> Some (VDelete, key)) ->
    run_tr kstate (kube_handle rn ns) dead_resp nofault (upgrade rn ns fl cid vid mani hks)
           (mkR l0 (mkK objs0 (cf_k cf) (cf_h cf) (cf_wait cf)) 0 0 false []) = (s', out, tr) ->
    has_failure tr = true ->
    forall cur tgt ok created, In (ER (KUpdate cur tgt) (ok, created)) tr ->
      forall r, In r created -> amem (rkey r) (objs (ks s')) = false.
Proof. exact cleanup_on_fail. Qed.
Print Assumptions C03_cleanup_on_fail.

(* C03_atomic_install — a failed atomic install of a new release (empty history, none of the
   manifest's resources in the cluster yet) ends with an EMPTY ledger and NONE of the
   manifest's resources in the cluster: object-store cluster, any one-shot fault that is not a
   DELETE fault (that could only hit the recovery itself), no keep annotations, and — known
   finding K9 — hooks disabled or no pre-/post-delete hooks. *)
Theorem C03_atomic_install :
  forall rn ns fl cid vid mani hks cf objs0 w' c t,
    f_atomic fl = true -> f_dry_run fl = false ->
    (forall r, In r mani -> manifest_keep r = false) ->
    (f_no_hooks fl = true \/ (hooks_for PreDelete hks = [] /\ hooks_for PostDelete hks = [])) ->
    (forall key, cf_k cf <> Some (VDelete, key)) ->
    (forall r, In r mani -> amem (rkey r) objs0 = false) ->
    run_store_op rn ns (mkOp (OpInstall fl cid vid mani hks) nofault cf) (mkW [] objs0) = (w', OErr c, t) ->
    w_led w' = [] /\ forall r, In r mani -> amem (rkey r) (w_objs w') = false.
Proof. exact atomic_install. Qed.
Print Assumptions C03_atomic_install.

Example C03_atomic_install_example :
  f_atomic ai_fl = true /\ f_dry_run ai_fl = false /\
  (forall r, In r ai_mani -> manifest_keep r = false) /\
  (forall key, cf_k ai_cf <> Some (VDelete, key)) /\
  exists w' t, run_store_op "rel" "default" (mkOp (OpInstall ai_fl 1 1 ai_mani []) nofault ai_cf) (mkW [] [])
               = (w', OErr EOtherErr, t) /\ w_led w' = [] /\ w_objs w' = [].
Proof. exact atomic_install_example. Qed.
Print Assumptions C03_atomic_install_example.

(* ... and for ANY initial history, install --replace over an uninstalled / failed history
   included: a failed atomic install (error class other than name-in-use / ownership conflict /
   revision-exists, which refuse the install before anything is stored) ends with an EMPTY
   ledger — the automatic uninstall purges the whole history — and none of the manifest's
   resources in the cluster, also those a previous failed install left behind. *)
Theorem C03_atomic_install_any_history :
  forall rn ns fl cid vid mani hks cf w w' t,
    f_atomic fl = true -> f_dry_run fl = false -> NoDup (revs (w_led w)) ->
    (forall r, In r mani -> manifest_keep r = false) ->
    (f_no_hooks fl = true \/ (hooks_for PreDelete hks = [] /\ hooks_for PostDelete hks = [])) ->
    (forall key, cf_k cf <> Some (VDelete, key)) ->
    run_store_op rn ns (mkOp (OpInstall fl cid vid mani hks) nofault cf) w = (w', OErr EOtherErr, t) ->
    w_led w' = [] /\ forall r, In r mani -> amem (rkey r) (w_objs w') = false.
Proof. exact atomic_install_any. Qed.
Print Assumptions C03_atomic_install_any_history.

(* a failed install left 1:failed with a in the cluster; install --replace --atomic of {a',b}
   with CREATE b rejected: the whole history and both resources are gone *)
Example C03_atomic_install_replace_example :
  statuses (w_led ar_w0) = [(1, SFailed)] /\ map fst (w_objs ar_w0) = ["ConfigMap/a"] /\
  f_atomic ar_fl = true /\ f_replace ar_fl = true /\ NoDup (revs (w_led ar_w0)) /\
  exists w' t, run_store_op "rel" "default" (mkOp (OpInstall ar_fl 2 2 [cmr "a" "v2"; cmr "b" "v2"] []) nofault ar_cf) ar_w0
               = (w', OErr EOtherErr, t) /\ w_led w' = [] /\ w_objs w' = [].
Proof. exact atomic_install_replace_example. Qed.
Print Assumptions C03_atomic_install_replace_example.

(* C03_atomic_upgrade — the full clause, under the object-store cluster.  Decidable hypotheses
   on the case: hooks disabled (this excludes K9; hook faults are then moot); one cluster fault
   [one_fault cf]: the readiness wait fails, or one request that is not a DELETE is rejected;
   K6 excluded: the failed target omits no resource of g, the highest stored revision that is
   superseded or deployed; no history limit; revisions numbered from 1, distinct (C01);
   manifests with distinct keys / field names.  If the failed upgrade got as far as storing its
   revision, it ends with a NEW revision (number last+2) that is DEPLOYED, is a copy of g
   (manifest, hooks, chart, values), and the cluster matches it: every resource of g exists
   and carries every field g's stamped manifest names (C02_update_matches gives the field-wise
   reading), and what only the failed target had is gone unless the live object says keep. *)
Theorem C03_atomic_upgrade :
  forall rn ns fl cid vid mani hks cf w w' c t last g,
    f_atomic fl = true -> f_dry_run fl = false -> f_no_hooks fl = true -> f_max_history fl = 0 ->
    NoDup (revs (w_led w)) -> (forall x, In x (w_led w) -> rev x <> 0) ->
    max_rev_of (w_led w) = Some last ->
    max_rev_of (filter (fun r => status_eqb (st r) SSuperseded || status_eqb (st r) SDeployed) (w_led w)) = Some g ->
    NoDup (map rkey mani) -> NoDup (map rkey (manifest g)) ->
    (forall r, In r (manifest g) -> NoDup (akeys (r_fields r))) ->
    (forall r, In r (manifest g) -> in_keys (rkey r) mani = true) ->
    ((cf_k cf = None /\ cf_wait cf = true) \/ (cf_wait cf = false /\ forall key, cf_k cf <> Some (VDelete, key))) ->
    run_store_op rn ns (mkOp (OpUpgrade fl cid vid mani hks) ContainLedger.nofault cf) w = (w', OErr c, t) ->
    (exists y, In y (w_led w') /\ ~ In (rev y) (revs (w_led w))) ->
    exists y, In y (w_led w') /\ rev y = S (S (rev last)) /\ st y = SDeployed /\
      manifest y = manifest g /\ hooks y = hooks g /\ chart_id y = chart_id g /\ config_id y = config_id g /\
      (forall r, In r (manifest g) ->
         exists live', aget (rkey r) (w_objs w') = Some live' /\
                       fields_sub (r_fields (stamp rn ns r)) live' = true) /\
      (forall o, In o mani -> in_keys (rkey o) (manifest g) = false ->
         aget (rkey o) (w_objs w') = None \/
         exists live, aget (rkey o) (w_objs w') = Some live /\ live_keep live = true).
Proof. exact atomic_upgrade. Qed.
Print Assumptions C03_atomic_upgrade.

(* the hypotheses are met: install {a,b}; upgrade --atomic --no-hooks to {a',b',c} with PATCH b
   rejected: 1:superseded 2:failed 3:deployed, a and b carry v1 again, c is gone *)
Example C03_atomic_upgrade_full_example :
  f_atomic fu_fl = true /\ f_dry_run fu_fl = false /\ f_no_hooks fu_fl = true /\ f_max_history fu_fl = 0 /\
  NoDup (revs (w_led fu_w1)) /\ (forall x, In x (w_led fu_w1) -> rev x <> 0) /\
  max_rev_of (w_led fu_w1) = Some fu_g /\
  max_rev_of (filter (fun r => status_eqb (st r) SSuperseded || status_eqb (st r) SDeployed) (w_led fu_w1)) = Some fu_g /\
  NoDup (map rkey fu_mani) /\ NoDup (map rkey (manifest fu_g)) /\
  (forall r, In r (manifest fu_g) -> in_keys (rkey r) fu_mani = true) /\
  one_fault fu_cf /\
  exists w' t,
    run_store_op "rel" "default" (mkOp (OpUpgrade fu_fl 2 2 fu_mani []) ContainLedger.nofault fu_cf) fu_w1 = (w', OErr EOtherErr, t) /\
    statuses (w_led w') = [(1, SSuperseded); (2, SFailed); (3, SDeployed)] /\
    map (fun kv => (fst kv, aget "d:k" (snd kv))) (w_objs w') = [("ConfigMap/a", Some "v1"); ("ConfigMap/b", Some "v1")].
Proof. exact atomic_upgrade_full_example. Qed.
Print Assumptions C03_atomic_upgrade_full_example.

(* C03_atomic_upgrade_ledger_partial — the LEDGER half of the atomic-upgrade clause, for every
   cluster behaviour (no storage fault, no crash, no history limit, revisions numbered from 1,
   C01's NoDup): after a failed atomic upgrade every new revision is either the upgrade's own
   revision — failed, or superseded by the aborted recovery (K6) — or the revision of the
   automatic rollback, which is a copy (manifest, hooks, chart, values) of the HIGHEST stored
   revision that was superseded or deployed, and is deployed or failed: never pending.
   PARTIAL: that the rollback's revision exists and is deployed, and that the cluster matches
   its manifest, is not proved (K6, K9 are counterexamples without further hypotheses); the
   runtime oracle and the correspondence run carry that part. *)
Theorem C03_atomic_upgrade_ledger_partial :
  forall (K : Type) (kh : forall e : eff, K -> K * resp e * list kev) (dresp : forall e, resp e)
         (rn ns : string) fl cid vid mani hks (l0 : list release) (k0 : K) l' k' c t,
    f_atomic fl = true -> f_dry_run fl = false -> f_max_history fl = 0 ->
    NoDup (revs l0) -> (forall x, In x l0 -> rev x <> 0) ->
    run_op K kh dresp rn ns (OpUpgrade fl cid vid mani hks) nofault l0 k0 = (l', k', OErr c, t) ->
    forall y, In y l' -> ~ In (rev y) (revs l0) ->
      exists last, max_rev_of l0 = Some last /\
        ((rev y = S (rev last) /\ (st y = SFailed \/ st y = SSuperseded))
         \/
         (rev y = S (S (rev last)) /\ (st y = SFailed \/ st y = SDeployed) /\
          exists g, In g l0 /\ (st g = SSuperseded \/ st g = SDeployed) /\
                    (forall x, In x l0 -> (st x = SSuperseded \/ st x = SDeployed) -> rev x <= rev g) /\
                    manifest y = manifest g /\ hooks y = hooks g /\
                    chart_id y = chart_id g /\ config_id y = config_id g)).
Proof. exact atomic_upgrade_ledger. Qed.
Print Assumptions C03_atomic_upgrade_ledger_partial.

(* install {a,b}; upgrade --atomic to {a',b'} whose readiness wait fails: history
   1:superseded 2:failed 3:deployed, revision 3 carries the manifest of revision 1 and the
   cluster holds a, b with the data of revision 1 *)
Example C03_atomic_upgrade_example :
  exists w, final au_history = Some (w, OErr EOtherErr) /\
    statuses (w_led w) = [(1, SSuperseded); (2, SFailed); (3, SDeployed)] /\
    map (fun r => (rev r, manifest r)) (filter (fun r => Nat.eqb (rev r) 3) (w_led w))
      = [(3, [cmr "a" "v1"; cmr "b" "v1"])] /\
    map fst (w_objs w) = ["ConfigMap/a"; "ConfigMap/b"] /\
    aget "d:k" (match aget "ConfigMap/a" (w_objs w) with Some f => f | None => [] end) = Some "v1".
Proof. exact atomic_upgrade_example. Qed.
Print Assumptions C03_atomic_upgrade_example.

(* Known finding K6 — why the atomic clause needs its hypothesis: install {a,b};
   upgrade --atomic to {a'} with PATCH a rejected: the automatic rollback aborts on the
   dropped resource b; history 1:deployed 2:superseded 3:failed, no new deployed revision,
   and the revision the upgrade created is recorded superseded, not failed. *)
Theorem C03_atomic_dropped_refuted :
  exists h w out,
    final h = Some (w, out) /\ out = OErr EOtherErr /\
    statuses (w_led w) = [(1, SDeployed); (2, SSuperseded); (3, SFailed)] /\
    amem "ConfigMap/b" (w_objs w) = true.
Proof. exact atomic_dropped_refuted. Qed.
Print Assumptions C03_atomic_dropped_refuted.

(* Repaired F5 (fix 34832b0 in /repo, modelled): a failing pre-rollback hook leaves the
   revision of the rollback failed, not pending-rollback. *)
Example C03_rollback_hook_failure_recorded :
  exists w, final f5_history = Some (w, OErr EOtherErr) /\
            statuses (w_led w) = [(1, SSuperseded); (2, SDeployed); (3, SFailed)].
Proof. exact rollback_hook_failure_recorded. Qed.
Print Assumptions C03_rollback_hook_failure_recorded.

(* Known finding K9 — the atomic clauses need "the recovery's own hooks do not fail":
   install --atomic of a chart whose hook hx runs on pre-install and pre-delete and is never
   deleted; CREATE a rejected: the automatic uninstall cannot create hx again and aborts,
   leaving history 1:uninstalling. *)
Theorem C03_atomic_recovery_hook_refuted :
  exists h w, final h = Some (w, OErr EOtherErr) /\
              statuses (w_led w) = [(1, SUninstalling)] /\ amem "ConfigMap/hx" (w_objs w) = true.
Proof. exact atomic_recovery_hook_refuted. Qed.
Print Assumptions C03_atomic_recovery_hook_refuted.

(* the hypotheses of C03_cleanup_on_fail are met: install {a}; upgrade --cleanup-on-fail to
   {a',c,d} with CREATE d rejected: Created = [c; d], and afterwards only a is in the cluster *)
Example C03_cleanup_example :
  (forall key, cf_k cu_cf <> Some (VDelete, key)) /\
  has_failure (snd cu_run) = true /\
  (exists cur tgt, In (ER (KUpdate cur tgt) (false, map (stamp "rel" "default") [cu_cm "c" "v2"; cu_cm "d" "v2"])) (snd cu_run)) /\
  map fst (objs (ks (fst (fst cu_run)))) = ["ConfigMap/a"].
Proof. exact cleanup_example. Qed.
Print Assumptions C03_cleanup_example.

(* ================= round 4: histories with more than one fault ================= *)

(* C03_history_contained — the two core clauses at EVERY position of EVERY history: whatever
   happened before the step (earlier operations that failed, were hit by storage-write faults or
   crashed, out-of-band edits — any fault plan on every earlier step) and whatever comes after,
   a non-atomic install / upgrade / rollback that returns an error (no storage fault or crash of
   its own; any one-shot cluster fault) leaves the revision it created failed — never pending,
   never deployed — and, for install and upgrade, the revision that was deployed when it started
   is still stored, unchanged, deployed.  [world_after rn ns pre w0] is the world the prefix
   leaves behind; the observation at position |pre| of [run_history] is the step's. *)
Theorem C03_history_contained :
  forall rn ns pre o cf post w0 w' c t,
    NoDup (revs (w_led w0)) ->
    (match o with OpUninstall _ => False | _ => True end) ->
    f_atomic (op_flags o) = false -> f_dry_run (op_flags o) = false ->
    nth_error (run_history rn ns (pre ++ HOp (mkOp o nofault cf) :: post) w0) (List.length pre)
      = Some (w', OErr c, t) ->
    (forall y, In y (w_led w') -> ~ In (rev y) (revs (w_led (world_after rn ns pre w0))) -> st y = SFailed)
    /\
    ((match o with OpInstall _ _ _ _ _ | OpUpgrade _ _ _ _ _ => True | _ => False end) ->
     forall d, max_rev_of (filter (fun r => status_eqb (st r) SDeployed) (w_led (world_after rn ns pre w0))) = Some d ->
               In d (w_led w') /\ st d = SDeployed).
Proof. exact history_contained. Qed.
Print Assumptions C03_history_contained.

(* ... and with the step under consideration run under an ARBITRARY cluster handler *)
Theorem C03_history_contained_any_cluster :
  forall (K : Type) (kh : forall e : eff, K -> K * resp e * list kev) (dresp : forall e, resp e)
         rn ns pre o w0 (k0 : K) l' k' c t,
    NoDup (revs (w_led w0)) ->
    (match o with OpUninstall _ => False | _ => True end) ->
    f_atomic (op_flags o) = false -> f_dry_run (op_flags o) = false ->
    run_op K kh dresp rn ns o nofault (w_led (world_after rn ns pre w0)) k0 = (l', k', OErr c, t) ->
    (forall y, In y l' -> ~ In (rev y) (revs (w_led (world_after rn ns pre w0))) -> st y = SFailed)
    /\
    ((match o with OpInstall _ _ _ _ _ | OpUpgrade _ _ _ _ _ => True | _ => False end) ->
     forall d, max_rev_of (filter (fun r => status_eqb (st r) SDeployed) (w_led (world_after rn ns pre w0))) = Some d ->
               In d l' /\ st d = SDeployed).
Proof. exact history_contained_any_cluster. Qed.
Print Assumptions C03_history_contained_any_cluster.

(* the world a history leaves behind is the world of its last observation *)
Theorem C03_world_after_is_last :
  forall rn ns pre c post w,
    nth_error (run_history rn ns (pre ++ HOp c :: post) w) (List.length pre)
    = Some (run_store_op rn ns c (world_after rn ns pre w)).
Proof. exact history_nth. Qed.
Print Assumptions C03_world_after_is_last.

(* non-vacuity, with TWO failed operations in a row: install {a,b}; upgrade to {a',c} with
   CREATE c rejected; upgrade to {a''} whose wait fails: 1:deployed 2:failed 3:failed *)
Example C03_history_contained_example :
  NoDup (revs (w_led (mkW [] []))) /\
  f_atomic (op_flags hc_up2) = false /\ f_dry_run (op_flags hc_up2) = false /\
  f_atomic (op_flags hc_up4) = false /\ f_dry_run (op_flags hc_up4) = false /\
  map obs_line (run_history "rel" "default" hc_history (mkW [] []))
  = [ (OOk, [(1, SDeployed)]);
      (OErr EOtherErr, [(1, SDeployed); (2, SFailed)]);
      (OErr EOtherErr, [(1, SDeployed); (2, SFailed); (3, SFailed)]) ] /\
  (exists d, max_rev_of (filter (fun r => status_eqb (st r) SDeployed)
                                (w_led (world_after "rel" "default" [hc_install; HOp (mkOp hc_up2 nofault hc_cf2)] (mkW [] []))))
             = Some d /\ rev d = 1).
Proof. exact history_contained_example. Qed.
Print Assumptions C03_history_contained_example.

(* the atomic clause on a ledger WITHOUT a deployed revision: install {a=v1}; upgrade to {a=v2};
   rollback with PATCH a rejected (1:superseded 2:superseded 3:failed); upgrade --atomic whose wait
   fails ends with 5:deployed carrying the manifest of revision 2 — the most recent revision that
   had been deployed — and a = v2 in the cluster ([trail]: the statuses after every step) *)
Example C03_atomic_upgrade_without_deployed_example :
  trail nodep_history =
    [ [(1, SDeployed)];
      [(1, SSuperseded); (2, SDeployed)];
      [(1, SSuperseded); (2, SSuperseded); (3, SFailed)];
      [(1, SSuperseded); (2, SSuperseded); (3, SFailed); (4, SFailed); (5, SDeployed)] ] /\
  exists w, final nodep_history = Some (w, OErr EOtherErr) /\
            manifest_of 5 w = Some [cmr "a" "v2"] /\ data_of "ConfigMap/a" w = Some "v2".
Proof. exact atomic_upgrade_without_deployed. Qed.
Print Assumptions C03_atomic_upgrade_without_deployed_example.

(* Known finding K11 — "the highest revision recorded superseded or deployed" is not always "the
   most recent revision that had been deployed": install {a=v1}; upgrade to {a=v2} whose wait fails
   (2:failed); rollback to 1 with PATCH a rejected marks the CURRENT revision 2 superseded;
   upgrade --atomic whose wait fails restores revision 2, which was never deployed at any point of
   the history ([ever_deployed]), instead of revision 1 *)
Theorem C03_atomic_restores_never_deployed_refuted :
  exists h w,
    final h = Some (w, OErr EOtherErr) /\
    trail h =
      [ [(1, SDeployed)];
        [(1, SDeployed); (2, SFailed)];
        [(1, SDeployed); (2, SSuperseded); (3, SFailed)];
        [(1, SSuperseded); (2, SSuperseded); (3, SFailed); (4, SFailed); (5, SDeployed)] ] /\
    ever_deployed h 1 = true /\ ever_deployed h 2 = false /\
    manifest_of 1 w = Some [cmr "a" "v1"] /\
    manifest_of 5 w = Some [cmr "a" "v2"] /\ data_of "ConfigMap/a" w = Some "v2".
Proof. exact atomic_restores_never_deployed_refuted. Qed.
Print Assumptions C03_atomic_restores_never_deployed_refuted.

(* Known finding K12 — why C03_atomic_upgrade_hooks admits a history limit only when g is the
   DEPLOYED revision: on the ledger without a deployed revision above (1:superseded 2:superseded
   3:failed), upgrade --atomic --history-max 2 whose wait fails: the upgrade's own Storage.Create
   prunes revisions 1 and 2 (pruning spares only a deployed revision), nothing is left to roll
   back to, no new deployed revision, a = v4 stays in the cluster *)
Theorem C03_atomic_target_pruned_refuted :
  exists h w,
    final h = Some (w, OErr EOtherErr) /\
    trail h =
      [ [(1, SDeployed)];
        [(1, SSuperseded); (2, SDeployed)];
        [(1, SSuperseded); (2, SSuperseded); (3, SFailed)];
        [(3, SFailed); (4, SFailed)] ] /\
    data_of "ConfigMap/a" w = Some "v4".
Proof. exact atomic_target_pruned_refuted. Qed.
Print Assumptions C03_atomic_target_pruned_refuted.

(* ================= round 4: the open clauses of the atomic upgrade ================= *)

(* C03_atomic_upgrade_hooks — C03_atomic_upgrade with hooks ENABLED, with the second disjunct of
   the K6 exclusion, and with a history limit.  Hypotheses beyond those of C03_atomic_upgrade:
   - K9 excluded: hooks are disabled, or g (the revision rolled back to) has no pre-/post-rollback
     hooks, or none of its rollback hooks can collide: each carries the before-hook-creation policy,
     is no CRD and sits on no key of the two manifests (and no hook fault is planned) — K9's witness
     C03_atomic_recovery_hook_refuted shows what a colliding recovery hook does;
   - the hooks of the failed target that run on pre-/post-upgrade carry the before-hook-creation
     policy (the default when a hook names none) and are not CRDs, so that no creation is refused
     with "already exists", and no pre-upgrade hook object sits on a key of the two manifests;
   - exactly one fault: no hook fault, and the wait | one rejected request that is not a DELETE;
   - K6 excluded, either way: the failed target omits no resource of g, OR the only fault is the
     wait (so the update with its deletion phase has gone through when the upgrade fails), g is
     the deployed revision, and no omitted resource of g is protected by a live keep annotation;
   - a history limit is admitted when g is the deployed revision (pruning skips it).
   Conclusion as in C03_atomic_upgrade. *)
Theorem C03_atomic_upgrade_hooks :
  forall rn ns fl cid vid mani hks cf w w' c t last g,
    f_atomic fl = true -> f_dry_run fl = false ->
    (f_max_history fl = 0 \/ st g = SDeployed) ->
    NoDup (revs (w_led w)) -> (forall x, In x (w_led w) -> rev x <> 0) ->
    max_rev_of (w_led w) = Some last ->
    max_rev_of (filter (fun r => status_eqb (st r) SSuperseded || status_eqb (st r) SDeployed) (w_led w)) = Some g ->
    NoDup (map rkey mani) -> NoDup (map rkey (manifest g)) ->
    (forall r, In r (manifest g) -> NoDup (akeys (r_fields r))) ->
    (f_no_hooks fl = true \/ (hooks_for PreRollback (hooks g) = [] /\ hooks_for PostRollback (hooks g) = []) \/
     (forall h, In h (hooks_for PreRollback (hooks g) ++ hooks_for PostRollback (hooks g)) ->
                has_policy h BeforeHookCreation = true /\ String.eqb (h_kind h) "CustomResourceDefinition" = false /\
                in_keys (rkey (h_res h)) (manifest g) = false /\ in_keys (rkey (h_res h)) mani = false)) ->
    (f_no_hooks fl = true \/
     ((forall h, In h (hooks_for PreUpgrade hks ++ hooks_for PostUpgrade hks) ->
                 has_policy h BeforeHookCreation = true /\ String.eqb (h_kind h) "CustomResourceDefinition" = false) /\
      (forall h, In h (hooks_for PreUpgrade hks) ->
                 in_keys (rkey (h_res h)) mani = false /\ in_keys (rkey (h_res h)) (manifest g) = false))) ->
    cf_h cf = None ->
    ((cf_k cf = None /\ cf_wait cf = true) \/ (cf_wait cf = false /\ forall key, cf_k cf <> Some (VDelete, key))) ->
    ((forall r, In r (manifest g) -> in_keys (rkey r) mani = true) \/
     (cf_k cf = None /\ cf_wait cf = true /\ st g = SDeployed /\
      (forall r, In r mani -> NoDup (akeys (r_fields r))) /\
      (forall r live, In r (manifest g) -> in_keys (rkey r) mani = false ->
                      aget (rkey r) (w_objs w) = Some live -> live_keep live = false))) ->
    run_store_op rn ns (mkOp (OpUpgrade fl cid vid mani hks) ContainLedger.nofault cf) w = (w', OErr c, t) ->
    (exists y, In y (w_led w') /\ ~ In (rev y) (revs (w_led w))) ->
    exists y, In y (w_led w') /\ rev y = S (S (rev last)) /\ st y = SDeployed /\
      manifest y = manifest g /\ hooks y = hooks g /\ chart_id y = chart_id g /\ config_id y = config_id g /\
      (forall r, In r (manifest g) ->
         exists live', aget (rkey r) (w_objs w') = Some live' /\
                       fields_sub (r_fields (stamp rn ns r)) live' = true) /\
      (forall o, In o mani -> in_keys (rkey o) (manifest g) = false ->
         aget (rkey o) (w_objs w') = None \/
         exists live, aget (rkey o) (w_objs w') = Some live /\ live_keep live = true).
Proof. exact atomic_upgrade_hooks. Qed.
Print Assumptions C03_atomic_upgrade_hooks.

(* ... and when nothing but a hook watch is planned to fail (or nothing at all: the upgrade fails
   for a reason that lies in the chart, e.g. a hook resource that already exists): ANY hooks of the
   failed target; K9 and K6 excluded as above (first disjunct) *)
Theorem C03_atomic_upgrade_hook_fault :
  forall rn ns fl cid vid mani hks cf w w' c t last g,
    f_atomic fl = true -> f_dry_run fl = false ->
    (f_max_history fl = 0 \/ st g = SDeployed) ->
    NoDup (revs (w_led w)) -> (forall x, In x (w_led w) -> rev x <> 0) ->
    max_rev_of (w_led w) = Some last ->
    max_rev_of (filter (fun r => status_eqb (st r) SSuperseded || status_eqb (st r) SDeployed) (w_led w)) = Some g ->
    NoDup (map rkey mani) -> NoDup (map rkey (manifest g)) ->
    (forall r, In r (manifest g) -> NoDup (akeys (r_fields r))) ->
    (f_no_hooks fl = true \/ (hooks_for PreRollback (hooks g) = [] /\ hooks_for PostRollback (hooks g) = [])) ->
    cf_k cf = None -> cf_wait cf = false ->
    (forall r, In r (manifest g) -> in_keys (rkey r) mani = true) ->
    run_store_op rn ns (mkOp (OpUpgrade fl cid vid mani hks) ContainLedger.nofault cf) w = (w', OErr c, t) ->
    (exists y, In y (w_led w') /\ ~ In (rev y) (revs (w_led w))) ->
    exists y, In y (w_led w') /\ rev y = S (S (rev last)) /\ st y = SDeployed /\
      manifest y = manifest g /\ hooks y = hooks g /\ chart_id y = chart_id g /\ config_id y = config_id g /\
      (forall r, In r (manifest g) ->
         exists live', aget (rkey r) (w_objs w') = Some live' /\
                       fields_sub (r_fields (stamp rn ns r)) live' = true) /\
      (forall o, In o mani -> in_keys (rkey o) (manifest g) = false ->
         aget (rkey o) (w_objs w') = None \/
         exists live, aget (rkey o) (w_objs w') = Some live /\ live_keep live = true).
Proof. exact atomic_upgrade_hook_fault. Qed.
Print Assumptions C03_atomic_upgrade_hook_fault.

(* hooks enabled: install {a,b}; upgrade --atomic to {a',b',c} with the hook hp on pre- and
   post-upgrade (default policy); PATCH b rejected: restored, hp is what the hook run left *)
Example C03_atomic_upgrade_hooks_example :
  f_atomic fl_atomic = true /\ f_dry_run fl_atomic = false /\ f_no_hooks fl_atomic = false /\ f_max_history fl_atomic = 0 /\
  NoDup (revs (w_led hx_w1)) /\ (forall x, In x (w_led hx_w1) -> rev x <> 0) /\
  max_rev_of (w_led hx_w1) = Some hx_g /\ max_rev_of (filter good_filter (w_led hx_w1)) = Some hx_g /\
  NoDup (map rkey hx_mani) /\ NoDup (map rkey (manifest hx_g)) /\
  hooks_for PreRollback (hooks hx_g) = [] /\ hooks_for PostRollback (hooks hx_g) = [] /\
  hooks_for PreUpgrade [hx_hp] = [hx_hp] /\ hooks_for PostUpgrade [hx_hp] = [hx_hp] /\
  has_policy hx_hp BeforeHookCreation = true /\ String.eqb (h_kind hx_hp) "CustomResourceDefinition" = false /\
  in_keys (rkey (h_res hx_hp)) hx_mani = false /\ in_keys (rkey (h_res hx_hp)) (manifest hx_g) = false /\
  cf_h hx_cf = None /\ cf_wait hx_cf = false /\ (forall key, cf_k hx_cf <> Some (VDelete, key)) /\
  (forall r, In r (manifest hx_g) -> in_keys (rkey r) hx_mani = true) /\
  exists w' t,
    run_store_op "rel" "default" (mkOp (OpUpgrade fl_atomic 2 2 hx_mani [hx_hp]) ContainLedger.nofault hx_cf) hx_w1 = (w', OErr EOtherErr, t) /\
    statuses (w_led w') = [(1, SSuperseded); (2, SFailed); (3, SDeployed)] /\
    data_view w' = [("ConfigMap/a", Some "v1"); ("ConfigMap/b", Some "v1"); ("ConfigMap/hp", None)].
Proof. exact atomic_upgrade_hooks_example. Qed.
Print Assumptions C03_atomic_upgrade_hooks_example.

(* after the deletion phase: install {a,b}; upgrade --atomic to {a'} (drops b) whose WAIT fails:
   the update has deleted b, the rollback creates it again (K6's witness rejects PATCH a instead) *)
Example C03_atomic_upgrade_after_deletion_example :
  max_rev_of (w_led ad_w1) = Some ad_g /\ max_rev_of (filter good_filter (w_led ad_w1)) = Some ad_g /\
  st ad_g = SDeployed /\ in_keys "ConfigMap/b" ad_mani = false /\
  cf_k ad_cf = None /\ cf_h ad_cf = None /\ cf_wait ad_cf = true /\
  (forall r live, In r (manifest ad_g) -> in_keys (rkey r) ad_mani = false ->
                  aget (rkey r) (w_objs ad_w1) = Some live -> live_keep live = false) /\
  exists w' t,
    run_store_op "rel" "default" (mkOp (OpUpgrade fl_atomic 2 2 ad_mani []) ContainLedger.nofault ad_cf) ad_w1 = (w', OErr EOtherErr, t) /\
    statuses (w_led w') = [(1, SSuperseded); (2, SFailed); (3, SDeployed)] /\
    data_view w' = [("ConfigMap/a", Some "v1"); ("ConfigMap/b", Some "v1")].
Proof. exact atomic_upgrade_after_deletion_example. Qed.
Print Assumptions C03_atomic_upgrade_after_deletion_example.

(* with a history limit: 1:superseded 2:superseded 3:deployed; upgrade --atomic --history-max 2
   whose wait fails prunes 1 and 2, keeps the deployed revision 3 and restores it as revision 5 *)
Example C03_atomic_upgrade_history_limit_example :
  f_atomic hl_fl = true /\ f_max_history hl_fl = 2 /\
  statuses (w_led hl_w3) = [(1, SSuperseded); (2, SSuperseded); (3, SDeployed)] /\
  max_rev_of (filter good_filter (w_led hl_w3)) = Some hl_g /\ st hl_g = SDeployed /\
  exists w' t,
    run_store_op "rel" "default" (mkOp (OpUpgrade hl_fl 4 4 [cmr "a" "v4"] []) ContainLedger.nofault (mkCF None None true)) hl_w3
      = (w', OErr EOtherErr, t) /\
    statuses (w_led w') = [(3, SSuperseded); (4, SFailed); (5, SDeployed)] /\
    data_view w' = [("ConfigMap/a", Some "v3")].
Proof. exact atomic_upgrade_history_limit_example. Qed.
Print Assumptions C03_atomic_upgrade_history_limit_example.

(* a failing post-upgrade hook: restored (the target revision has no rollback hooks) *)
Example C03_atomic_upgrade_hook_fault_example :
  cf_k hf_cf = None /\ cf_wait hf_cf = false /\ f_no_hooks fl_atomic = false /\
  max_rev_of (filter good_filter (w_led ad_w1)) = Some ad_g /\
  hooks_for PreRollback (hooks ad_g) = [] /\ hooks_for PostRollback (hooks ad_g) = [] /\
  (forall r, In r (manifest ad_g) -> in_keys (rkey r) [cmr "a" "v2"; cmr "b" "v2"] = true) /\
  exists w' t,
    run_store_op "rel" "default" (mkOp (OpUpgrade fl_atomic 2 2 [cmr "a" "v2"; cmr "b" "v2"] [hf_hq]) ContainLedger.nofault hf_cf) ad_w1
      = (w', OErr EOtherErr, t) /\
    statuses (w_led w') = [(1, SSuperseded); (2, SFailed); (3, SDeployed)] /\
    data_view w' = [("ConfigMap/a", Some "v1"); ("ConfigMap/b", Some "v1")].
Proof. exact atomic_upgrade_hook_fault_example. Qed.
Print Assumptions C03_atomic_upgrade_hook_fault_example.

(* well-behaved ROLLBACK hooks in the revision rolled back to: install {a,b} with hr on pre- and
   post-rollback (default policy); upgrade --atomic to {a',b'} with PATCH b rejected: the recovery
   runs hr twice and restores revision 1 *)
Example C03_atomic_upgrade_rollback_hooks_example :
  f_no_hooks fl_atomic = false /\
  max_rev_of (filter good_filter (w_led rh_w1)) = Some rh_g /\
  hooks_for PreRollback (hooks rh_g) = [rh_hr] /\ hooks_for PostRollback (hooks rh_g) = [rh_hr] /\
  has_policy rh_hr BeforeHookCreation = true /\ String.eqb (h_kind rh_hr) "CustomResourceDefinition" = false /\
  in_keys (rkey (h_res rh_hr)) (manifest rh_g) = false /\ in_keys (rkey (h_res rh_hr)) rh_mani = false /\
  hooks_for PreUpgrade [rh_hr] = [] /\ hooks_for PostUpgrade [rh_hr] = [] /\
  cf_h hx_cf = None /\ cf_wait hx_cf = false /\
  (forall r, In r (manifest rh_g) -> in_keys (rkey r) rh_mani = true) /\
  exists w' t,
    run_store_op "rel" "default" (mkOp (OpUpgrade fl_atomic 2 2 rh_mani [rh_hr]) ContainLedger.nofault hx_cf) rh_w1 = (w', OErr EOtherErr, t) /\
    statuses (w_led w') = [(1, SSuperseded); (2, SFailed); (3, SDeployed)] /\
    data_view w' = [("ConfigMap/a", Some "v1"); ("ConfigMap/b", Some "v1"); ("ConfigMap/hr", None)].
Proof. exact atomic_upgrade_rollback_hooks_example. Qed.
Print Assumptions C03_atomic_upgrade_rollback_hooks_example.

(* C03 — property theorems only: each closed by [exact] of a lemma proved elsewhere. *)
From Coq Require Import List String Bool Arith.
From Helm Require Import Common.Assoc Engine.Types Engine.Eff Engine.Ops Engine.Cluster Engine.Seq
  Engine.Contain Engine.ContainRefuted.
Import ListNotations.
Local Open Scope string_scope.

(* Known finding K6 — why C03_atomic_upgrade carries its hypothesis: install {a,b};
   upgrade --atomic to {a'} with PATCH a rejected: the automatic rollback aborts on the
   dropped resource b; history 1:deployed 2:superseded 3:failed, no new deployed revision. *)
Theorem C03_atomic_dropped_refuted :
  exists h w out,
    final h = Some (w, out) /\ out = OErr EOtherErr /\
    statuses (w_led w) = [(1, SDeployed); (2, SSuperseded); (3, SFailed)] /\
    amem "ConfigMap/b" (w_objs w) = true.
Proof. exact atomic_dropped_refuted. Qed.
Print Assumptions C03_atomic_dropped_refuted.

(* Known finding K7 — why C03_failed_is_recorded excludes faults of the deletion phase:
   install {a,b}; upgrade to {a'} with DELETE b (or GET b) rejected: success, b stays. *)
Theorem C03_delete_swallowed_refuted :
  exists h w,
    final h = Some (w, OOk) /\
    statuses (w_led w) = [(1, SSuperseded); (2, SDeployed)] /\
    amem "ConfigMap/b" (w_objs w) = true.
Proof. exact delete_swallowed_refuted. Qed.
Print Assumptions C03_delete_swallowed_refuted.

(* Repaired F5 (fix 34832b0 in /repo, modelled): a failing pre-rollback hook leaves the
   revision of the rollback failed, not pending-rollback. *)
Example C03_rollback_hook_failure_recorded :
  exists w, final f5_history = Some (w, OErr EOtherErr) /\
            statuses (w_led w) = [(1, SSuperseded); (2, SDeployed); (3, SFailed)].
Proof. exact rollback_hook_failure_recorded. Qed.
Print Assumptions C03_rollback_hook_failure_recorded.

(* C06 — Dry-run and template never change the cluster or the release history.
   Property theorems only: each closed by [exact] of a lemma proved in Engine/DryRunProofs.v. *)
From Helm Require Props.Skeleton. (* effect skeleton tied to /repo by the translator: notes/SKEL.md *)
From Coq Require Import List String Bool ZArith.
From Helm Require Import Engine.Types Engine.Eff Engine.Ops Engine.Cluster Engine.Seq
                         Engine.DryRun Engine.DryRunProofs Gen.DryRunSpellings.
From Helm Require Import Engine.DryOps Engine.DryOpsProofs.
From Helm Require Import Engine.DryFlow Engine.DryFlowModel Engine.DryFlowCheck Gen.DryFlow.
From Helm Require Import Engine.DryFlowFollowsInstall Engine.DryFlowFollowsUpgrade Engine.DryFlowFollowsRest.
Import ListNotations.
Local Open Scope string_scope.

(* ---- the spelling table, tied to /repo by the translator ---- *)

(* isDryRun of install.go and of upgrade.go, as read from the source on this run, is the
   disjunction  DryRun || DryRunOption == s  for exactly the model's spellings *)
Theorem C06_spellings_table_install :
  install_dry_uses_bool = true /\ install_dry_spellings = dry_spellings.
Proof. split; reflexivity. Qed.
Print Assumptions C06_spellings_table_install.

Theorem C06_spellings_table_upgrade :
  upgrade_dry_uses_bool = true /\ upgrade_dry_spellings = dry_spellings.
Proof. split; reflexivity. Qed.
Print Assumptions C06_spellings_table_upgrade.

(* the translator EVALUATES the two isDryRun bodies (any mix of if / switch / early returns /
   || chains / locals) for DryRun in {true,false} and every option string they mention plus one
   they do not; it found nothing it could not evaluate (a call such as strings.ToLower, another
   field, a body that is true for unmentioned strings would be listed here by name).  With that,
   [*_dry_uses_bool = true] above says: DryRun set => dry for EVERY option string, and the
   (sorted) spelling lists are the exact sets of option strings that are dry with DryRun clear *)
Theorem C06_spellings_table_readable : dry_table_problems = [].
Proof. reflexivity. Qed.
Print Assumptions C06_spellings_table_readable.

(* rollback.go and uninstall.go read the single boolean, in the functions the model transcribes *)
Theorem C06_spellings_table_bool_only :
  rollback_dry_readers = ["Run"; "performRollback"] /\ uninstall_dry_readers = ["Run"].
Proof. split; reflexivity. Qed.
Print Assumptions C06_spellings_table_bool_only.

(* the model's decision function is that table *)
Theorem C06_spellings :
  (forall b opt, is_dry_run b opt = (b || existsb (String.eqb opt) install_dry_spellings)) /\
  (forall b opt, is_dry_run b opt = true <-> b = true \/ In opt ["client"; "server"; "true"]) /\
  (forall opt, is_dry_run true opt = true) /\
  is_dry_run false "client" = true /\ is_dry_run false "server" = true /\ is_dry_run false "true" = true /\
  is_dry_run false "none" = false /\ is_dry_run false "false" = false /\ is_dry_run false "" = false.
Proof. exact spellings_all. Qed.
Print Assumptions C06_spellings.

(* ---- no writes ---- *)

(* Syntactic form, for every chart (manifest, hooks), every flags record whose dry-run flag is
   set, all four operations: on EVERY path through the program, whatever storage and cluster
   answer, every effect is a storage read or the ownership look-up — there is no
   SCreate/SUpdate/SDelete and no KCreate/KUpdate/KDelete (nor a wait or hook watch). *)
Theorem C06_dry_no_write_effects :
  forall (rn ns : string) (o : op),
    f_dry_run (op_flags o) = true ->
    all_eff (fun e => match e with
                      | SHistory | SDeployedAll | SGet _ | KExisting _ _ => True
                      | _ => False
                      end) (op_prog rn ns o)
    /\ all_eff (fun e => is_storage_write e = false /\ is_cluster_mutation e = false) (op_prog rn ns o).
Proof. exact op_dry_effects. Qed.
Print Assumptions C06_dry_no_write_effects.

(* rollback and uninstall in dry-run mode do not reach the cluster at all *)
Theorem C06_dry_rollback_uninstall_storage_reads_only :
  forall (rn ns : string) (fl : flags),
    f_dry_run fl = true ->
    all_eff (fun e => match e with SHistory | SDeployedAll | SGet _ => True | _ => False end) (rollback rn ns fl) /\
    all_eff (fun e => match e with SHistory | SDeployedAll | SGet _ => True | _ => False end) (uninstall fl).
Proof. exact rollback_uninstall_dry_effects. Qed.
Print Assumptions C06_dry_rollback_uninstall_storage_reads_only.

(* Semantic form, EVERY cluster handler [kh] (every cluster behaviour), every storage-fault and
   crash plan, every starting ledger: the ledger is unchanged, the trace has no storage write,
   and no crash point is reached. *)
Theorem C06_dry_no_writes_any_cluster :
  forall (K : Type) (kh : forall e : eff, K -> K * resp e * list kev) (dresp : forall e, resp e)
         (rn ns : string) (o : op) (f : sfaults) (l : list release) (k : K),
    f_dry_run (op_flags o) = true ->
    fst (fst (fst (run_op K kh dresp rn ns o f l k))) = l /\
    Forall (fun t => match t with TStore _ _ _ => false | TKube _ => true end = true)
           (snd (run_op K kh dresp rn ns o f l k)) /\
    snd (fst (run_op K kh dresp rn ns o f l k)) <> OCrashed.
Proof. exact dry_generic'. Qed.
Print Assumptions C06_dry_no_writes_any_cluster.

(* Object-store cluster: ledger AND objects unchanged, the trace is empty (no storage write, no
   cluster call that mutates — not even a logged call), for every world, fault plan and crash point. *)
Theorem C06_dry_no_writes :
  forall (rn ns : string) (c : opcase) (w : world),
    f_dry_run (op_flags (oc_op c)) = true ->
    fst (fst (run_store_op rn ns c w)) = w /\
    snd (run_store_op rn ns c w) = [] /\
    snd (fst (run_store_op rn ns c w)) <> OCrashed.
Proof. exact dry_store. Qed.
Print Assumptions C06_dry_no_writes.

(* the same with the flag computed from the spelling of the real action struct *)
Theorem C06_dry_spelled_no_writes :
  forall (rn ns : string) (o : op) (sf : sfaults) (cf : cfaults) (w : world) (b : bool) (opt : string),
    (b = true \/ In opt ["client"; "server"; "true"]) ->
    fst (fst (run_store_op rn ns (mkOp (set_dry_op o (is_dry_run b opt)) sf cf) w)) = w /\
    snd (run_store_op rn ns (mkOp (set_dry_op o (is_dry_run b opt)) sf cf) w) = [] /\
    snd (fst (run_store_op rn ns (mkOp (set_dry_op o (is_dry_run b opt)) sf cf) w)) <> OCrashed.
Proof. exact dry_store_spelled. Qed.
Print Assumptions C06_dry_spelled_no_writes.

(* ---- client-only (helm template) ---- *)

(* the program has no effect at all: no cluster call (not even the ownership look-up) and no
   effect on the configured store *)
Theorem C06_client_only_silent :
  forall (rn ns : string) (fl : flags) (cid vid : nat) (mani : list res) (hks : list hook),
    f_dry_run fl = true -> f_client_only fl = true ->
    install rn ns fl cid vid mani hks = Ret OOk.
Proof. exact install_client_only_no_effect. Qed.
Print Assumptions C06_client_only_silent.

(* hence under every handler nothing is touched and nothing is logged *)
Theorem C06_client_only_silent_run :
  forall (K : Type) (kh : forall e : eff, K -> K * resp e * list kev) (dresp : forall e, resp e)
         (rn ns : string) (fl : flags) (cid vid : nat) (mani : list res) (hks : list hook)
         (f : sfaults) (l : list release) (k : K),
    f_dry_run fl = true -> f_client_only fl = true ->
    run_op K kh dresp rn ns (OpInstall fl cid vid mani hks) f l k = (l, k, OOk, []).
Proof. exact client_only_silent_run. Qed.
Print Assumptions C06_client_only_silent_run.

(* ---- non-vacuity ---- *)

(* the hypothesis is met by concrete operations, and the SAME operations without the flag do
   write: the conclusion is not true for trivial reasons *)
Example C06_dry_example :
  f_dry_run (op_flags (OpUpgrade (ex_flags true) 3 1 [ex_res "a"; ex_res "b"] [ex_hook])) = true /\
  snd (run_store_op "rel" "default"
         (mkOp (OpUpgrade (ex_flags true) 3 1 [ex_res "a"; ex_res "b"] [ex_hook]) (mkSF None None) (mkCF None None false))
         ex_world) = [] /\
  List.length (snd (run_store_op "rel" "default"
         (mkOp (OpUpgrade (ex_flags false) 3 1 [ex_res "a"; ex_res "b"] [ex_hook]) (mkSF None None) (mkCF None None false))
         ex_world)) = 10.
Proof. repeat split; vm_compute; reflexivity. Qed.
Print Assumptions C06_dry_example.

Example C06_dry_example_all_ops :
  forallb (fun ow : op * world =>
             negb (Nat.eqb (List.length (snd (run_store_op "rel" "default" (mkOp (set_dry_op (fst ow) false) (mkSF None None) (mkCF None None false)) (snd ow)))) 0)
             && Nat.eqb (List.length (snd (run_store_op "rel" "default" (mkOp (set_dry_op (fst ow) true) (mkSF None None) (mkCF None None false)) (snd ow)))) 0)
          [(OpInstall (mkFlags false true false true 0 false false false false 0) 3 1 [ex_res "c"] [ex_hook], mkW [] (w_objs ex_world));
           (OpUpgrade (ex_flags false) 3 1 [ex_res "a"; ex_res "b"] [ex_hook], ex_world);
           (OpRollback (ex_flags false), ex_world);
           (OpUninstall (ex_flags false), ex_world)] = true.
Proof. vm_compute. reflexivity. Qed.
Print Assumptions C06_dry_example_all_ops.

(* ================================================================== *)
(* The richer model (Engine/DryOps.v): reachability check, discovery, Build, the per-object GETs
   of the ownership pre-flight, `lookup` in templates, post-renderer, --output-dir, installCRDs,
   CreateNamespace, the ClientOnly back-end swap, and helm template's flag plumbing.  Options by
   Go field name: [fb fl "CreateNamespace"]; "for all options" = for all lists of set names. *)

(* (1) every operation that is a dry run as isDryRun / the DryRun boolean decides (helm template
   always is): for EVERY option assignment, chart (any crds/, hooks, resources, lookups),
   configuration (REST client getter or not, capabilities cached or not), on EVERY path whatever
   the cluster, the storage, the post-renderer answer, each effect is one of: reachability check,
   discovery, Build of the manifests, a GET of the ownership pre-flight, a lookup, a storage
   read, the post-renderer, an --output-dir file, obtaining a waiter.  No CRD creation, no
   namespace creation, no Create/Update/Delete on the cluster, no storage write, no wait. *)
Theorem C06_rich_dry_effects :
  forall (rn ns : string) (o : xop),
    xop_dry o = true ->
    all_xeff (fun e => match e with
                       | XE TReal SHistory | XE TReal SDeployedAll | XE TReal (SGet _) => True
                       | XReach | XCaps | XGetObj _ | XPostRender _ | XWriteFile | XGetWaiter TReal => True
                       | XBuild _ BManifest _ _ | XBuild TReal BCurrent _ _ => True
                       | XLookup => True
                       | _ => False
                       end) (xop_prog rn ns o)
    /\ all_xeff (fun e => x_cluster_mut e = false /\ x_store_write e = false) (xop_prog rn ns o).
Proof. exact xop_dry_effects'. Qed.
Print Assumptions C06_rich_dry_effects.

(* the same about the trace: whatever handler (storage, cluster, post-renderer, ...) answers *)
Theorem C06_rich_dry_trace :
  forall (rn ns : string) (o : xop) (S : Type) (h : forall e : xeff, S -> S * xresp e) (s : S),
    xop_dry o = true ->
    Forall (fun e => x_cluster_mut e = false /\ x_store_write e = false) (xtrace S h (xop_prog rn ns o) s).
Proof. exact xop_dry_trace. Qed.
Print Assumptions C06_rich_dry_trace.

(* templates reach the cluster (`lookup`) only when DryRunOption is server / none / false AND the
   configuration has a REST client getter *)
Theorem C06_rich_dry_lookups :
  forall (rn ns : string) (g : xcfg) (fl : xflags) (c : xchart),
    is_dry_run (fb fl "DryRun") (xf_opt fl) = true ->
    (In (xf_opt fl) ["server"; "none"; "false"] /\ xg_getter g = true -> False) ->
    all_xeff (fun e => e <> XLookup) (x_install rn ns g fl c) /\
    all_xeff (fun e => e <> XLookup) (x_upgrade rn ns g fl c).
Proof. exact xop_dry_lookups. Qed.
Print Assumptions C06_rich_dry_lookups.

(* (2) ClientOnly, dry run or not, whatever else is set: no mutating request, no write to the
   configured storage, and the only effect that reaches the configured cluster at all is a lookup *)
Theorem C06_rich_client_only :
  forall (rn ns : string) (g : xcfg) (fl : xflags) (c : xchart),
    fb fl "ClientOnly" = true ->
    all_xeff (fun e => x_cluster_mut e = false /\ x_store_write e = false /\ (x_cluster e = true -> e = XLookup))
             (x_install rn ns g fl c).
Proof. exact x_client_only_effects. Qed.
Print Assumptions C06_rich_client_only.

(* ClientOnly + dry run + a spelling that does not ask for the server (or no getter): nothing
   reaches the configured cluster and nothing touches the configured storage, not even a read *)
Theorem C06_rich_client_only_silent :
  forall (rn ns : string) (g : xcfg) (fl : xflags) (c : xchart),
    fb fl "ClientOnly" = true ->
    is_dry_run (fb fl "DryRun") (xf_opt fl) = true ->
    interact_with_remote (is_dry_run (fb fl "DryRun") (xf_opt fl)) (xf_opt fl) && xg_getter g = false ->
    all_xeff (fun e => x_cluster e = false /\ x_store e = false) (x_install rn ns g fl c).
Proof. exact x_client_only_silent'. Qed.
Print Assumptions C06_rich_client_only_silent.

(* (3) helm template (newTemplateCmd forces DryRun, Replace, ClientOnly = not --validate, turns an
   empty --dry-run value into "true"; runInstall refuses other values), for every other
   command-line option [cli]: never a mutating request or a storage write; without --validate the
   only cluster effect is a lookup; without --validate and with --dry-run not server/none/false
   nothing reaches the cluster or the storage *)
Theorem C06_rich_template :
  forall (rn ns : string) (g : xcfg) (validate include_crds : bool) (cli : xflags) (c : xchart),
    all_xeff (fun e => x_cluster_mut e = false /\ x_store_write e = false)
             (x_template rn ns g validate include_crds cli c) /\
    (validate = false ->
     all_xeff (fun e => x_cluster e = true -> e = XLookup) (x_template rn ns g validate include_crds cli c)) /\
    (validate = false ->
     negb (String.eqb (xf_opt cli) "server" || String.eqb (xf_opt cli) "none" || String.eqb (xf_opt cli) "false") = true ->
     all_xeff (fun e => x_cluster e = false /\ x_store e = false) (x_template rn ns g validate include_crds cli c)).
Proof. exact x_template_effects'. Qed.
Print Assumptions C06_rich_template.

(* what template's plumbing does to the options *)
Theorem C06_rich_template_flags :
  forall (validate include_crds : bool) (cli : xflags),
    fb (template_flags validate include_crds cli) "DryRun" = true /\
    fb (template_flags validate include_crds cli) "ClientOnly" = negb validate /\
    fb (template_flags validate include_crds cli) "Replace" = true /\
    fb (template_flags validate include_crds cli) "IncludeCRDs" = include_crds /\
    xf_opt (template_flags validate include_crds cli) = (if String.eqb (xf_opt cli) "" then "true" else xf_opt cli) /\
    (forall n, n <> "DryRun" -> n <> "ClientOnly" -> n <> "Replace" -> n <> "IncludeCRDs" ->
               fb (template_flags validate include_crds cli) n = fb cli n).
Proof. exact template_flags_spec. Qed.
Print Assumptions C06_rich_template_flags.

(* what follows the bail-out in the richer install / upgrade is the text of the shared model:
   a real install / upgrade of Engine/Ops.v IS its checks (name check / history look-up,
   ownership look-up) followed by [install_tail] / [upgrade_tail], the programs the richer model
   lifts behind its own transcription of the checks *)
Theorem C06_rich_tails_are_shared_model :
  (forall (rn ns : string) (fl : flags) (cid vid : nat) (mani : list res) (hks : list hook),
    f_dry_run fl = false ->
    install rn ns fl cid vid mani hks =
    bind (bind (perform SHistory) (fun h =>
                match max_rev_of h with
                | None => Ret true
                | Some last => Ret (f_replace fl && (status_eqb (st last) SUninstalled || status_eqb (st last) SFailed))
                end))
         (fun avail =>
            if negb avail then Ret (OErr ENameInUse) else
            bind (if negb (f_client_only fl) && negb (match stamp_all rn ns mani with [] => true | _ => false end)
                  then perform (KExisting (stamp_all rn ns mani) (f_take_ownership fl)) else Ret (Some []))
                 (fun adopt =>
                    match adopt with
                    | None => Ret (OErr EConflict)
                    | Some adopted =>
                        install_tail fl (mkRelease 1 SPendingInstall cid vid mani hks) (stamp_all rn ns mani) adopted
                    end))) /\
  (forall (rn ns : string) (fl : flags) (cid vid : nat) (mani : list res) (hks : list hook),
    f_dry_run fl = false ->
    upgrade rn ns fl cid vid mani hks =
    bind (perform SHistory) (fun h =>
      match max_rev_of h with
      | None => Ret (OErr ENoDeployed)
      | Some last =>
          if is_pending (st last) then Ret (OErr EPending) else
          bind (if status_eqb (st last) SDeployed then Ret (Some last)
                else bind (perform SDeployedAll) (fun ds =>
                     match max_rev_of ds with
                     | Some d => Ret (Some d)
                     | None => if status_eqb (st last) SFailed || status_eqb (st last) SSuperseded
                               then Ret (Some last) else Ret None
                     end))
               (fun cur =>
                  match cur with
                  | None => Ret (OErr ENoDeployed)
                  | Some current =>
                      bind (perform (KExisting (filter (fun r => negb (in_keys (rkey r) (manifest current))) (stamp_all rn ns mani))
                                               (f_take_ownership fl)))
                           (fun adopt =>
                              match adopt with
                              | None => Ret (OErr EConflict)
                              | Some adopted =>
                                  upgrade_tail rn ns fl (mkRelease (S (rev last)) SPendingUpgrade cid vid mani hks) current
                                               (manifest current ++ adopted)%list (stamp_all rn ns mani)
                              end)
                  end)
      end)).
Proof. split; [exact install_is_checks_then_tail | exact upgrade_is_checks_then_tail]. Qed.
Print Assumptions C06_rich_tails_are_shared_model.

(* non-vacuity: a chart with crds/, a lookup and CreateNamespace, every answer "yes", empty
   history.  Without a dry spelling the run creates the CRD, the namespace, and writes to the
   storage; with DryRunOption=server (getter present) the trace is the reads below - including
   the lookup -; with client / the boolean the lookup is gone too; ClientOnly + dry: the
   post-renderer at most. *)
Example C06_rich_example :
  existsb is_crd_create (yes_trace (x_install "rel" "default" ex_cfg (ex_xflags ["CreateNamespace"] "none") ex_chart)) = true /\
  existsb is_ns_create (yes_trace (x_install "rel" "default" ex_cfg (ex_xflags ["CreateNamespace"] "none") ex_chart)) = true /\
  existsb x_store_write (yes_trace (x_install "rel" "default" ex_cfg (ex_xflags ["CreateNamespace"] "none") ex_chart)) = true /\
  yes_trace (x_install "rel" "default" ex_cfg (ex_xflags ["CreateNamespace"] "server") ex_chart) =
    [XReach; XLookup; XBuild TReal BManifest true 1;
     XGetObj (mkRes "ConfigMap" "a" [("d:k", "v"); ("l:app.kubernetes.io/managed-by", "Helm");
                                     ("a:meta.helm.sh/release-name", "rel"); ("a:meta.helm.sh/release-namespace", "default")])] /\
  existsb is_lookup (yes_trace (x_install "rel" "default" ex_cfg (ex_xflags ["CreateNamespace"] "client") ex_chart)) = false /\
  existsb is_lookup (yes_trace (x_install "rel" "default" ex_cfg (ex_xflags ["CreateNamespace"; "DryRun"] "") ex_chart)) = false /\
  yes_trace (x_template "rel" "default" ex_cfg false true (ex_xflags ["CreateNamespace"; "PostRenderer"; "Atomic"] "") ex_chart) =
    [XPostRender [mkRes "CustomResourceDefinition" "widgets.example.com" []; mkRes "ConfigMap" "a" [("d:k", "v")]]; XBuild TPriv BManifest true 2] /\
  existsb is_lookup (yes_trace (x_template "rel" "default" ex_cfg false true (ex_xflags [] "server") ex_chart)) = true.
Proof. repeat split; vm_compute; reflexivity. Qed.
Print Assumptions C06_rich_example.

(* ================================================================== *)
(* The dry-run FLOW of pkg/action, read from the Go source on this run (Gen/DryFlow.v: every
   function reachable from the four entry points, with its calls on the kube client, the waiter,
   the storage driver, discovery, the template engine, the post-renderer, the conditions on
   options they are under, the early returns, the swap of the back ends under ClientOnly).
   [analyse flow f env] over-approximates what a path through f can reach when the options are
   known only as far as [env] says (everything else, and every data-dependent test, goes both
   ways; a call the translator cannot classify may do everything). *)

(* (1) with the DryRun boolean set, or DryRunOption one of the spellings read from isDryRun on
   this run - EVERY other option unknown -: no path through Install.RunWithContext /
   Upgrade.RunWithContext (installCRDs, CreateNamespace, replaceRelease, Releases.Create, hooks,
   failRelease with its nested uninstall / rollback ... included) reaches a mutating call on the
   configured kube client or a write of the configured storage driver; the same for Rollback.Run
   and Uninstall.Run with their boolean *)
Theorem C06_flow_dry_run_writes_nothing :
  forallb (fun e => writes_nothing (analyse flow "Install.RunWithContext" e)) (dry_envs install_dry_spellings)
  && forallb (fun e => writes_nothing (analyse flow "Upgrade.RunWithContext" e)) (dry_envs upgrade_dry_spellings)
  && writes_nothing (analyse flow "Rollback.Run" (mkDE (flags_of [("DryRun", true)]) OptAny [] false))
  && writes_nothing (analyse flow "Uninstall.Run" (mkDE (flags_of [("DryRun", true)]) OptAny [] false)) = true.
Proof. exact flow_dry_fact. Qed.
Print Assumptions C06_flow_dry_run_writes_nothing.

(* ... and the analysis is not blind: with the option clear all four can mutate and write *)
Theorem C06_flow_real_run_writes :
  forallb (fun f => let s := analyse flow f (mkDE (flags_of [("DryRun", false)]) (OptIs "") install_dry_spellings false) in
                    may_kube_mut s && may_store_write s)
          ["Install.RunWithContext"; "Upgrade.RunWithContext"; "Rollback.Run"; "Uninstall.Run"] = true.
Proof. exact flow_not_dry_fact. Qed.
Print Assumptions C06_flow_real_run_writes.

(* the template engine is built from the REST config only when DryRunOption asks for the server *)
Theorem C06_flow_lookups :
  forallb (fun f =>
    negb (may_lookup (analyse flow f (mkDE (flags_of [("DryRun", true)]) (OptNotIn ["server"; "none"; "false"]) install_dry_spellings false)))
    && negb (may_lookup (analyse flow f (mkDE (flags_of []) (OptIs "client") install_dry_spellings false)))
    && negb (may_lookup (analyse flow f (mkDE (flags_of []) (OptIs "true") install_dry_spellings false)))
    && may_lookup (analyse flow f (mkDE (flags_of []) (OptIs "server") install_dry_spellings false)))
          ["Install.RunWithContext"; "Upgrade.RunWithContext"] = true.
Proof. exact flow_lookup_fact. Qed.
Print Assumptions C06_flow_lookups.

(* (2) ClientOnly set, everything else unknown: no path reaches the configured kube client at all
   (reads included), discovery, or a storage write; ClientOnly + dry run + a DryRunOption that
   does not ask for the server: no path reaches the configured cluster or storage in any way *)
Theorem C06_flow_client_only :
  (let s := analyse flow "Install.RunWithContext" (mkDE (flags_of [("ClientOnly", true)]) OptAny install_dry_spellings false) in
   writes_nothing s && negb (may_kube_read s) && negb (may_getter_read s))
  && touches_nothing (analyse flow "Install.RunWithContext"
        (mkDE (flags_of [("ClientOnly", true); ("DryRun", true)]) (OptNotIn ["server"; "none"; "false"]) install_dry_spellings false))
  && forallb (fun o => touches_nothing (analyse flow "Install.RunWithContext"
        (mkDE (flags_of [("ClientOnly", true)]) (OptIs o) install_dry_spellings false))) ["client"; "true"] = true.
Proof. exact flow_client_only_fact. Qed.
Print Assumptions C06_flow_client_only.

(* (3) helm template: the assignments newTemplateCmd makes to the Install action before
   runInstall, as read from pkg/cmd/template.go on this run, are the model's [template_flags];
   no other boolean option is assigned; runInstall validates --dry-run before RunWithContext and
   accepts exactly the values the model accepts *)
Theorem C06_flow_template_plumbing :
  forall (validate include_crds : bool) (cli : xflags),
  plumbed template_assigns (cli_of validate include_crds) "DryRun" None
    = Some (Some (fb (template_flags validate include_crds cli) "DryRun")) /\
  plumbed template_assigns (cli_of validate include_crds) "ClientOnly" None
    = Some (Some (fb (template_flags validate include_crds cli) "ClientOnly")) /\
  plumbed template_assigns (cli_of validate include_crds) "Replace" None
    = Some (Some (fb (template_flags validate include_crds cli) "Replace")) /\
  plumbed template_assigns (cli_of validate include_crds) "IncludeCRDs" None
    = Some (Some (fb (template_flags validate include_crds cli) "IncludeCRDs")) /\
  plumbed_opt template_assigns (xf_opt cli) = Some (xf_opt (template_flags validate include_crds cli)) /\
  forallb (fun f => match plumbed template_assigns (fun _ => false) f None with
                    | None => true
                    | Some _ => mem f ["DryRun"; "ClientOnly"; "Replace"; "IncludeCRDs"]
                    end)
          (match find (fun kv => String.eqb (fst kv) "Install") flow_options with Some kv => snd kv | None => ["?"] end) = true /\
  template_validates_dry_run = true /\
  (forall s, dry_opt_allowed s = mem s template_allowed_dry_run).
Proof. exact flow_template_fact. Qed.
Print Assumptions C06_flow_template_plumbing.

(* ---- the command layer (helm install / upgrade / upgrade --install / rollback / uninstall) ---- *)

(* every value validateDryRunOptionFlag accepts is a documented "no" (none, false) or a spelling
   isDryRun treats as dry - for the model's validator (all strings) and for the validator READ
   FROM pkg/cmd/install.go on this run: evaluated on the literals of its body, their upper-case /
   capitalised / space-padded variants and the empty string, it lets nothing else through
   ([cmd_validator_witnesses] lists the offenders, e.g. "TRUE" when it compares with EqualFold),
   it only compares for equality, and it accepts exactly what the model's validator accepts; the
   bare flag stands for "client", an empty value becomes "none", and runInstall / the upgrade
   command call the validator before the action runs *)
Theorem C06_cmd_accepts_only_known_spellings :
  (forall s, dry_opt_allowed s = true -> In s ["none"; "false"] \/ is_dry_run false s = true) /\
  dry_table_problems = [] /\
  cmd_validator_witnesses = [] /\
  cmd_validator_exact = true /\
  (forall s, dry_opt_allowed s = mem s cmd_validator_accepts) /\
  cmd_bare_dry_run = [("install", cmd_string_opt (Some None)); ("upgrade", cmd_string_opt (Some None))] /\
  forallb (fun kv => is_dry_run false (snd kv)) cmd_bare_dry_run = true /\
  cmd_empty_dry_run = [("install", cmd_default_opt ""); ("upgrade", cmd_default_opt ""); ("template", "true")] /\
  cmd_validated_before_run = [("install.runInstall", true); ("upgrade.newUpgradeCmd", true)].
Proof. split; [exact cmd_accepts_only_known | exact cmd_validator_fact]. Qed.
Print Assumptions C06_cmd_accepts_only_known_spellings.

(* a command line that REQUESTS a dry run (the flag is there and its value is not a documented
   "no": none / false / empty for the string flag, what ParseBool reads as false for the boolean
   flag of rollback / uninstall) - whatever the value is (case variants, spaces, "1", "yes", ...),
   whatever else is on the command line, chart, configuration, answers: either the command
   refuses it before doing anything, or the run is a dry run; never a mutating request or a
   storage write.  (upgrade --install reads the history first.) *)
Theorem C06_cmd_dry_request_writes_nothing :
  forall (rn ns : string) (g : xcfg) (k : cmdkind) (a : dry_arg) (fl : xflags) (c : xchart),
    cmd_dry_request k a = true ->
    all_xeff (fun e => x_cluster_mut e = false /\ x_store_write e = false) (x_cmd rn ns g k a fl c).
Proof. exact x_cmd_no_write. Qed.
Print Assumptions C06_cmd_dry_request_writes_nothing.

(* the richer model follows the flow: the labels of the effects of a model run (scripted world:
   canned history, every call succeeds) are a path through the Go entry point under the model's
   options - every subset of the listed options x DryRunOption x configuration x history *)
(* [install_ok tbl spell fail g fl c h] (Engine/DryFlowModel.v) is
     follows tbl "Install.RunWithContext" (env_of spell fl) (state_of g)
             (items (model_trace h fail (x_install "rel" "default" g fl c)))
   and likewise upgrade_ok / rollback_ok / uninstall_ok; quoted, not unfolded, so that the kernel
   compares the statements syntactically *)
Theorem C06_flow_model_follows_install :
  (forall on opt g h, In on (subsets install_flags_main) -> In opt sc_opts3 -> In g sc_cfgs -> In h install_hists ->
     install_ok flow install_dry_spellings None g (mkXF on opt 0 0) (sc_chart sc_crds 1) h = true) /\
  (forall on opt, In on (subsets install_flags_more) -> In opt sc_opts2 ->
     install_ok flow install_dry_spellings None (mkXG true true) (mkXF on opt 0 0) (sc_chart sc_crds 1) [] = true).
Proof. split; [exact install_main_follows | exact install_more_follows]. Qed.
Print Assumptions C06_flow_model_follows_install.

Theorem C06_flow_model_follows_upgrade_rollback_uninstall :
  (forall on opt g h, In on (subsets upgrade_flags) -> In opt sc_opts3 -> In g upgrade_cfgs -> In h upgrade_hists ->
     upgrade_ok flow upgrade_dry_spellings None g (mkXF on opt 2 0) (sc_chart sc_crds 1) h = true) /\
  (forall on v h, In on (subsets rollback_flags) -> In v [0; 1] -> In h sc_hists ->
     rollback_ok flow [] None (mkXF on "" 2 v) h = true) /\
  (forall on h, In on (subsets uninstall_flags) -> In h sc_hists ->
     uninstall_ok flow [] None (mkXF on "" 0 0) h = true).
Proof. split; [exact upgrade_follows | split; [exact rollback_follows | exact uninstall_follows]]. Qed.
Print Assumptions C06_flow_model_follows_upgrade_rollback_uninstall.

(* ... and with exactly the n-th effect of the run failing, for every n (error returns,
   failRelease, the nested uninstall / rollback of --atomic) *)
Theorem C06_flow_model_follows_single_failures :
  (forall on opt, In on (subsets fail_install_flags) -> In opt [""; "server"] ->
     install_fails_ok flow install_dry_spellings (mkXG true true) (mkXF on opt 0 0) (sc_chart sc_crds 1) [] = true) /\
  (forall on opt, In on (subsets fail_upgrade_flags) -> In opt [""; "server"] ->
     upgrade_fails_ok flow upgrade_dry_spellings (mkXG true false) (mkXF on opt 2 0) (sc_chart sc_crds 1)
                      [sc_rel 1 SSuperseded; sc_rel 2 SDeployed] = true).
Proof. split; [exact install_fail_follows | exact upgrade_fail_follows]. Qed.
Print Assumptions C06_flow_model_follows_single_failures.

(* the analysis flags a write before the bail-out and an unclassified helper on a dry path; a
   DryRunOption the spelling table does not know leaves the run a real one; the matcher accepts
   the plain dry-run install and rejects it with the namespace created before the bail-out and
   with the reachability check missing *)
Example C06_flow_examples :
  may_store_write (analyse bad_flow "F" (mkDE (flags_of [("DryRun", true)]) OptAny [] false)) = true /\
  may_kube_mut (analyse bad_flow "F" (mkDE (flags_of [("DryRun", true)]) OptAny [] false)) = false /\
  writes_nothing (analyse opaque_flow "F" (mkDE (flags_of [("DryRun", true)]) OptAny [] false)) = true /\
  writes_nothing (analyse opaque_flow "G" (mkDE (flags_of [("DryRun", true)]) OptAny [] false)) = false /\
  writes_nothing (analyse flow "Install.RunWithContext" (mkDE (flags_of []) (OptIs "none") install_dry_spellings false)) = false /\
  follows flow "Install.RunWithContext" (env_of install_dry_spellings (mkXF ["DryRun"; "CreateNamespace"] "" 0 0)) (state_of (mkXG false true))
          [("KubeClient.IsReachable", true); ("KubeClient.Build", true); ("Helper.Get", true)] = true /\
  follows flow "Install.RunWithContext" (env_of install_dry_spellings (mkXF ["DryRun"; "CreateNamespace"] "" 0 0)) (state_of (mkXG false true))
          [("KubeClient.IsReachable", true); ("KubeClient.Build", true); ("Helper.Get", true); ("KubeClient.Create", true)] = false /\
  follows flow "Install.RunWithContext" (env_of install_dry_spellings (mkXF ["DryRun"; "CreateNamespace"] "" 0 0)) (state_of (mkXG false true))
          [("KubeClient.Build", true); ("Helper.Get", true)] = false.
Proof. exact flow_examples. Qed.
Print Assumptions C06_flow_examples.

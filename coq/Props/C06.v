(* C06 — Dry-run and template never change the cluster or the release history.
   Property theorems only: each closed by [exact] of a lemma proved in Engine/DryRunProofs.v. *)
From Helm Require Props.Skeleton. (* effect skeleton tied to /repo by the translator: notes/SKEL.md *)
From Coq Require Import List String Bool ZArith.
From Helm Require Import Engine.Types Engine.Eff Engine.Ops Engine.Cluster Engine.Seq
                         Engine.DryRun Engine.DryRunProofs Gen.DryRunSpellings.
Import ListNotations.
Local Open Scope string_scope.

(* ---- the spelling table, tied to /repo by the translator ---- *)

(* isDryRun of install.go and of upgrade.go, as read from the source on this run, is the
   disjunction  DryRun || DryRunOption == s  for exactly the model's spellings *)
Theorem C06_spellings_table_install :
  install_dry_uses_bool = true /\ install_dry_spellings = dry_spellings.
Proof. split; reflexivity. Qed.
Print Assumptions C06_spellings_table_install.

Theorem C06_spellings_table_upgrade :
  upgrade_dry_uses_bool = true /\ upgrade_dry_spellings = dry_spellings.
Proof. split; reflexivity. Qed.
Print Assumptions C06_spellings_table_upgrade.

(* rollback.go and uninstall.go read the single boolean, in the functions the model transcribes *)
Theorem C06_spellings_table_bool_only :
  rollback_dry_readers = ["Run"; "performRollback"] /\ uninstall_dry_readers = ["Run"].
Proof. split; reflexivity. Qed.
Print Assumptions C06_spellings_table_bool_only.

(* the model's decision function is that table *)
Theorem C06_spellings :
  (forall b opt, is_dry_run b opt = (b || existsb (String.eqb opt) install_dry_spellings)) /\
  (forall b opt, is_dry_run b opt = true <-> b = true \/ In opt ["client"; "server"; "true"]) /\
  (forall opt, is_dry_run true opt = true) /\
  is_dry_run false "client" = true /\ is_dry_run false "server" = true /\ is_dry_run false "true" = true /\
  is_dry_run false "none" = false /\ is_dry_run false "false" = false /\ is_dry_run false "" = false.
Proof. exact spellings_all. Qed.
Print Assumptions C06_spellings.

(* ---- no writes ---- *)

(* Syntactic form, for every chart (manifest, hooks), every flags record whose dry-run flag is
   set, all four operations: on EVERY path through the program, whatever storage and cluster
   answer, every effect is a storage read or the ownership look-up — there is no
   SCreate/SUpdate/SDelete and no KCreate/KUpdate/KDelete (nor a wait or hook watch). *)
Theorem C06_dry_no_write_effects :
  forall (rn ns : string) (o : op),
    f_dry_run (op_flags o) = true ->
    all_eff (fun e => match e with
                      | SHistory | SDeployedAll | SGet _ | KExisting _ _ => True
                      | _ => False
                      end) (op_prog rn ns o)
    /\ all_eff (fun e => is_storage_write e = false /\ is_cluster_mutation e = false) (op_prog rn ns o).
Proof. exact op_dry_effects. Qed.
Print Assumptions C06_dry_no_write_effects.

(* rollback and uninstall in dry-run mode do not reach the cluster at all *)
Theorem C06_dry_rollback_uninstall_storage_reads_only :
  forall (rn ns : string) (fl : flags),
    f_dry_run fl = true ->
    all_eff (fun e => match e with SHistory | SDeployedAll | SGet _ => True | _ => False end) (rollback rn ns fl) /\
    all_eff (fun e => match e with SHistory | SDeployedAll | SGet _ => True | _ => False end) (uninstall fl).
Proof. exact rollback_uninstall_dry_effects. Qed.
Print Assumptions C06_dry_rollback_uninstall_storage_reads_only.

(* Semantic form, EVERY cluster handler [kh] (every cluster behaviour), every storage-fault and
   crash plan, every starting ledger: the ledger is unchanged, the trace has no storage write,
   and no crash point is reached. *)
Theorem C06_dry_no_writes_any_cluster :
  forall (K : Type) (kh : forall e : eff, K -> K * resp e * list kev) (dresp : forall e, resp e)
         (rn ns : string) (o : op) (f : sfaults) (l : list release) (k : K),
    f_dry_run (op_flags o) = true ->
    fst (fst (fst (run_op K kh dresp rn ns o f l k))) = l /\
    Forall (fun t => match t with TStore _ _ _ => false | TKube _ => true end = true)
           (snd (run_op K kh dresp rn ns o f l k)) /\
    snd (fst (run_op K kh dresp rn ns o f l k)) <> OCrashed.
Proof. exact dry_generic'. Qed.
Print Assumptions C06_dry_no_writes_any_cluster.

(* Object-store cluster: ledger AND objects unchanged, the trace is empty (no storage write, no
   cluster call that mutates — not even a logged call), for every world, fault plan and crash point. *)
Theorem C06_dry_no_writes :
  forall (rn ns : string) (c : opcase) (w : world),
    f_dry_run (op_flags (oc_op c)) = true ->
    fst (fst (run_store_op rn ns c w)) = w /\
    snd (run_store_op rn ns c w) = [] /\
    snd (fst (run_store_op rn ns c w)) <> OCrashed.
Proof. exact dry_store. Qed.
Print Assumptions C06_dry_no_writes.

(* the same with the flag computed from the spelling of the real action struct *)
Theorem C06_dry_spelled_no_writes :
  forall (rn ns : string) (o : op) (sf : sfaults) (cf : cfaults) (w : world) (b : bool) (opt : string),
    (b = true \/ In opt ["client"; "server"; "true"]) ->
    fst (fst (run_store_op rn ns (mkOp (set_dry_op o (is_dry_run b opt)) sf cf) w)) = w /\
    snd (run_store_op rn ns (mkOp (set_dry_op o (is_dry_run b opt)) sf cf) w) = [] /\
    snd (fst (run_store_op rn ns (mkOp (set_dry_op o (is_dry_run b opt)) sf cf) w)) <> OCrashed.
Proof. exact dry_store_spelled. Qed.
Print Assumptions C06_dry_spelled_no_writes.

(* ---- client-only (helm template) ---- *)

(* the program has no effect at all: no cluster call (not even the ownership look-up) and no
   effect on the configured store *)
Theorem C06_client_only_silent :
  forall (rn ns : string) (fl : flags) (cid vid : nat) (mani : list res) (hks : list hook),
    f_dry_run fl = true -> f_client_only fl = true ->
    install rn ns fl cid vid mani hks = Ret OOk.
Proof. exact install_client_only_no_effect. Qed.
Print Assumptions C06_client_only_silent.

(* hence under every handler nothing is touched and nothing is logged *)
Theorem C06_client_only_silent_run :
  forall (K : Type) (kh : forall e : eff, K -> K * resp e * list kev) (dresp : forall e, resp e)
         (rn ns : string) (fl : flags) (cid vid : nat) (mani : list res) (hks : list hook)
         (f : sfaults) (l : list release) (k : K),
    f_dry_run fl = true -> f_client_only fl = true ->
    run_op K kh dresp rn ns (OpInstall fl cid vid mani hks) f l k = (l, k, OOk, []).
Proof. exact client_only_silent_run. Qed.
Print Assumptions C06_client_only_silent_run.

(* ---- non-vacuity ---- *)

(* the hypothesis is met by concrete operations, and the SAME operations without the flag do
   write: the conclusion is not true for trivial reasons *)
Example C06_dry_example :
  f_dry_run (op_flags (OpUpgrade (ex_flags true) 3 1 [ex_res "a"; ex_res "b"] [ex_hook])) = true /\
  snd (run_store_op "rel" "default"
         (mkOp (OpUpgrade (ex_flags true) 3 1 [ex_res "a"; ex_res "b"] [ex_hook]) (mkSF None None) (mkCF None None false))
         ex_world) = [] /\
  List.length (snd (run_store_op "rel" "default"
         (mkOp (OpUpgrade (ex_flags false) 3 1 [ex_res "a"; ex_res "b"] [ex_hook]) (mkSF None None) (mkCF None None false))
         ex_world)) = 10.
Proof. repeat split; vm_compute; reflexivity. Qed.
Print Assumptions C06_dry_example.

Example C06_dry_example_all_ops :
  forallb (fun ow : op * world =>
             negb (Nat.eqb (List.length (snd (run_store_op "rel" "default" (mkOp (set_dry_op (fst ow) false) (mkSF None None) (mkCF None None false)) (snd ow)))) 0)
             && Nat.eqb (List.length (snd (run_store_op "rel" "default" (mkOp (set_dry_op (fst ow) true) (mkSF None None) (mkCF None None false)) (snd ow)))) 0)
          [(OpInstall (mkFlags false true false true 0 false false false false 0) 3 1 [ex_res "c"] [ex_hook], mkW [] (w_objs ex_world));
           (OpUpgrade (ex_flags false) 3 1 [ex_res "a"; ex_res "b"] [ex_hook], ex_world);
           (OpRollback (ex_flags false), ex_world);
           (OpUninstall (ex_flags false), ex_world)] = true.
Proof. vm_compute. reflexivity. Qed.
Print Assumptions C06_dry_example_all_ops.

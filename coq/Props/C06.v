(* C06 — Dry-run and template never change the cluster or the release history.
   Property theorems only: each closed by [exact] of a lemma proved in Engine/DryRunProofs.v. *)
From Helm Require Props.Skeleton. (* effect skeleton tied to /repo by the translator: notes/SKEL.md *)
From Coq Require Import List String Bool ZArith.
From Helm Require Import Engine.Types Engine.Eff Engine.Ops Engine.Cluster Engine.Seq
                         Engine.DryRun Engine.DryRunProofs Gen.DryRunSpellings.
From Helm Require Import Engine.DryOps Engine.DryOpsProofs.
Import ListNotations.
Local Open Scope string_scope.

(* ---- the spelling table, tied to /repo by the translator ---- *)

(* isDryRun of install.go and of upgrade.go, as read from the source on this run, is the
   disjunction  DryRun || DryRunOption == s  for exactly the model's spellings *)
Theorem C06_spellings_table_install :
  install_dry_uses_bool = true /\ install_dry_spellings = dry_spellings.
Proof. split; reflexivity. Qed.
Print Assumptions C06_spellings_table_install.

Theorem C06_spellings_table_upgrade :
  upgrade_dry_uses_bool = true /\ upgrade_dry_spellings = dry_spellings.
Proof. split; reflexivity. Qed.
Print Assumptions C06_spellings_table_upgrade.

(* rollback.go and uninstall.go read the single boolean, in the functions the model transcribes *)
Theorem C06_spellings_table_bool_only :
  rollback_dry_readers = ["Run"; "performRollback"] /\ uninstall_dry_readers = ["Run"].
Proof. split; reflexivity. Qed.
Print Assumptions C06_spellings_table_bool_only.

(* the model's decision function is that table *)
Theorem C06_spellings :
  (forall b opt, is_dry_run b opt = (b || existsb (String.eqb opt) install_dry_spellings)) /\
  (forall b opt, is_dry_run b opt = true <-> b = true \/ In opt ["client"; "server"; "true"]) /\
  (forall opt, is_dry_run true opt = true) /\
  is_dry_run false "client" = true /\ is_dry_run false "server" = true /\ is_dry_run false "true" = true /\
  is_dry_run false "none" = false /\ is_dry_run false "false" = false /\ is_dry_run false "" = false.
Proof. exact spellings_all. Qed.
Print Assumptions C06_spellings.

(* ---- no writes ---- *)

(* Syntactic form, for every chart (manifest, hooks), every flags record whose dry-run flag is
   set, all four operations: on EVERY path through the program, whatever storage and cluster
   answer, every effect is a storage read or the ownership look-up — there is no
   SCreate/SUpdate/SDelete and no KCreate/KUpdate/KDelete (nor a wait or hook watch). *)
Theorem C06_dry_no_write_effects :
  forall (rn ns : string) (o : op),
    f_dry_run (op_flags o) = true ->
    all_eff (fun e => match e with
                      | SHistory | SDeployedAll | SGet _ | KExisting _ _ => True
                      | _ => False
                      end) (op_prog rn ns o)
    /\ all_eff (fun e => is_storage_write e = false /\ is_cluster_mutation e = false) (op_prog rn ns o).
Proof. exact op_dry_effects. Qed.
Print Assumptions C06_dry_no_write_effects.

(* rollback and uninstall in dry-run mode do not reach the cluster at all *)
Theorem C06_dry_rollback_uninstall_storage_reads_only :
  forall (rn ns : string) (fl : flags),
    f_dry_run fl = true ->
    all_eff (fun e => match e with SHistory | SDeployedAll | SGet _ => True | _ => False end) (rollback rn ns fl) /\
    all_eff (fun e => match e with SHistory | SDeployedAll | SGet _ => True | _ => False end) (uninstall fl).
Proof. exact rollback_uninstall_dry_effects. Qed.
Print Assumptions C06_dry_rollback_uninstall_storage_reads_only.

(* Semantic form, EVERY cluster handler [kh] (every cluster behaviour), every storage-fault and
   crash plan, every starting ledger: the ledger is unchanged, the trace has no storage write,
   and no crash point is reached. *)
Theorem C06_dry_no_writes_any_cluster :
  forall (K : Type) (kh : forall e : eff, K -> K * resp e * list kev) (dresp : forall e, resp e)
         (rn ns : string) (o : op) (f : sfaults) (l : list release) (k : K),
    f_dry_run (op_flags o) = true ->
    fst (fst (fst (run_op K kh dresp rn ns o f l k))) = l /\
    Forall (fun t => match t with TStore _ _ _ => false | TKube _ => true end = true)
           (snd (run_op K kh dresp rn ns o f l k)) /\
    snd (fst (run_op K kh dresp rn ns o f l k)) <> OCrashed.
Proof. exact dry_generic'. Qed.
Print Assumptions C06_dry_no_writes_any_cluster.

(* Object-store cluster: ledger AND objects unchanged, the trace is empty (no storage write, no
   cluster call that mutates — not even a logged call), for every world, fault plan and crash point. *)
Theorem C06_dry_no_writes :
  forall (rn ns : string) (c : opcase) (w : world),
    f_dry_run (op_flags (oc_op c)) = true ->
    fst (fst (run_store_op rn ns c w)) = w /\
    snd (run_store_op rn ns c w) = [] /\
    snd (fst (run_store_op rn ns c w)) <> OCrashed.
Proof. exact dry_store. Qed.
Print Assumptions C06_dry_no_writes.

(* the same with the flag computed from the spelling of the real action struct *)
Theorem C06_dry_spelled_no_writes :
  forall (rn ns : string) (o : op) (sf : sfaults) (cf : cfaults) (w : world) (b : bool) (opt : string),
    (b = true \/ In opt ["client"; "server"; "true"]) ->
    fst (fst (run_store_op rn ns (mkOp (set_dry_op o (is_dry_run b opt)) sf cf) w)) = w /\
    snd (run_store_op rn ns (mkOp (set_dry_op o (is_dry_run b opt)) sf cf) w) = [] /\
    snd (fst (run_store_op rn ns (mkOp (set_dry_op o (is_dry_run b opt)) sf cf) w)) <> OCrashed.
Proof. exact dry_store_spelled. Qed.
Print Assumptions C06_dry_spelled_no_writes.

(* ---- client-only (helm template) ---- *)

(* the program has no effect at all: no cluster call (not even the ownership look-up) and no
   effect on the configured store *)
Theorem C06_client_only_silent :
  forall (rn ns : string) (fl : flags) (cid vid : nat) (mani : list res) (hks : list hook),
    f_dry_run fl = true -> f_client_only fl = true ->
    install rn ns fl cid vid mani hks = Ret OOk.
Proof. exact install_client_only_no_effect. Qed.
Print Assumptions C06_client_only_silent.

(* hence under every handler nothing is touched and nothing is logged *)
Theorem C06_client_only_silent_run :
  forall (K : Type) (kh : forall e : eff, K -> K * resp e * list kev) (dresp : forall e, resp e)
         (rn ns : string) (fl : flags) (cid vid : nat) (mani : list res) (hks : list hook)
         (f : sfaults) (l : list release) (k : K),
    f_dry_run fl = true -> f_client_only fl = true ->
    run_op K kh dresp rn ns (OpInstall fl cid vid mani hks) f l k = (l, k, OOk, []).
Proof. exact client_only_silent_run. Qed.
Print Assumptions C06_client_only_silent_run.

(* ---- non-vacuity ---- *)

(* the hypothesis is met by concrete operations, and the SAME operations without the flag do
   write: the conclusion is not true for trivial reasons *)
Example C06_dry_example :
  f_dry_run (op_flags (OpUpgrade (ex_flags true) 3 1 [ex_res "a"; ex_res "b"] [ex_hook])) = true /\
  snd (run_store_op "rel" "default"
         (mkOp (OpUpgrade (ex_flags true) 3 1 [ex_res "a"; ex_res "b"] [ex_hook]) (mkSF None None) (mkCF None None false))
         ex_world) = [] /\
  List.length (snd (run_store_op "rel" "default"
         (mkOp (OpUpgrade (ex_flags false) 3 1 [ex_res "a"; ex_res "b"] [ex_hook]) (mkSF None None) (mkCF None None false))
         ex_world)) = 10.
Proof. repeat split; vm_compute; reflexivity. Qed.
Print Assumptions C06_dry_example.

Example C06_dry_example_all_ops :
  forallb (fun ow : op * world =>
             negb (Nat.eqb (List.length (snd (run_store_op "rel" "default" (mkOp (set_dry_op (fst ow) false) (mkSF None None) (mkCF None None false)) (snd ow)))) 0)
             && Nat.eqb (List.length (snd (run_store_op "rel" "default" (mkOp (set_dry_op (fst ow) true) (mkSF None None) (mkCF None None false)) (snd ow)))) 0)
          [(OpInstall (mkFlags false true false true 0 false false false false 0) 3 1 [ex_res "c"] [ex_hook], mkW [] (w_objs ex_world));
           (OpUpgrade (ex_flags false) 3 1 [ex_res "a"; ex_res "b"] [ex_hook], ex_world);
           (OpRollback (ex_flags false), ex_world);
           (OpUninstall (ex_flags false), ex_world)] = true.
Proof. vm_compute. reflexivity. Qed.
Print Assumptions C06_dry_example_all_ops.

(* ================================================================== *)
(* The richer model (Engine/DryOps.v): reachability check, discovery, Build, the per-object GETs
   of the ownership pre-flight, `lookup` in templates, post-renderer, --output-dir, installCRDs,
   CreateNamespace, the ClientOnly back-end swap, and helm template's flag plumbing.  Options by
   Go field name: [fb fl "CreateNamespace"]; "for all options" = for all lists of set names. *)

(* (1) every operation that is a dry run as isDryRun / the DryRun boolean decides (helm template
   always is): for EVERY option assignment, chart (any crds/, hooks, resources, lookups),
   configuration (REST client getter or not, capabilities cached or not), on EVERY path whatever
   the cluster, the storage, the post-renderer answer, each effect is one of: reachability check,
   discovery, Build of the manifests, a GET of the ownership pre-flight, a lookup, a storage
   read, the post-renderer, an --output-dir file, obtaining a waiter.  No CRD creation, no
   namespace creation, no Create/Update/Delete on the cluster, no storage write, no wait. *)
Theorem C06_rich_dry_effects :
  forall (rn ns : string) (o : xop),
    xop_dry o = true ->
    all_xeff (fun e => match e with
                       | XE TReal SHistory | XE TReal SDeployedAll | XE TReal (SGet _) => True
                       | XReach | XCaps | XGetObj _ | XPostRender _ | XWriteFile | XGetWaiter TReal => True
                       | XBuild _ BManifest _ _ | XBuild TReal BCurrent _ _ => True
                       | XLookup => True
                       | _ => False
                       end) (xop_prog rn ns o)
    /\ all_xeff (fun e => x_cluster_mut e = false /\ x_store_write e = false) (xop_prog rn ns o).
Proof. exact xop_dry_effects'. Qed.
Print Assumptions C06_rich_dry_effects.

(* the same about the trace: whatever handler (storage, cluster, post-renderer, ...) answers *)
Theorem C06_rich_dry_trace :
  forall (rn ns : string) (o : xop) (S : Type) (h : forall e : xeff, S -> S * xresp e) (s : S),
    xop_dry o = true ->
    Forall (fun e => x_cluster_mut e = false /\ x_store_write e = false) (xtrace S h (xop_prog rn ns o) s).
Proof. exact xop_dry_trace. Qed.
Print Assumptions C06_rich_dry_trace.

(* templates reach the cluster (`lookup`) only when DryRunOption is server / none / false AND the
   configuration has a REST client getter *)
Theorem C06_rich_dry_lookups :
  forall (rn ns : string) (g : xcfg) (fl : xflags) (c : xchart),
    is_dry_run (fb fl "DryRun") (xf_opt fl) = true ->
    (In (xf_opt fl) ["server"; "none"; "false"] /\ xg_getter g = true -> False) ->
    all_xeff (fun e => e <> XLookup) (x_install rn ns g fl c) /\
    all_xeff (fun e => e <> XLookup) (x_upgrade rn ns g fl c).
Proof. exact xop_dry_lookups. Qed.
Print Assumptions C06_rich_dry_lookups.

(* (2) ClientOnly, dry run or not, whatever else is set: no mutating request, no write to the
   configured storage, and the only effect that reaches the configured cluster at all is a lookup *)
Theorem C06_rich_client_only :
  forall (rn ns : string) (g : xcfg) (fl : xflags) (c : xchart),
    fb fl "ClientOnly" = true ->
    all_xeff (fun e => x_cluster_mut e = false /\ x_store_write e = false /\ (x_cluster e = true -> e = XLookup))
             (x_install rn ns g fl c).
Proof. exact x_client_only_effects. Qed.
Print Assumptions C06_rich_client_only.

(* ClientOnly + dry run + a spelling that does not ask for the server (or no getter): nothing
   reaches the configured cluster and nothing touches the configured storage, not even a read *)
Theorem C06_rich_client_only_silent :
  forall (rn ns : string) (g : xcfg) (fl : xflags) (c : xchart),
    fb fl "ClientOnly" = true ->
    is_dry_run (fb fl "DryRun") (xf_opt fl) = true ->
    interact_with_remote (is_dry_run (fb fl "DryRun") (xf_opt fl)) (xf_opt fl) && xg_getter g = false ->
    all_xeff (fun e => x_cluster e = false /\ x_store e = false) (x_install rn ns g fl c).
Proof. exact x_client_only_silent'. Qed.
Print Assumptions C06_rich_client_only_silent.

(* (3) helm template (newTemplateCmd forces DryRun, Replace, ClientOnly = not --validate, turns an
   empty --dry-run value into "true"; runInstall refuses other values), for every other
   command-line option [cli]: never a mutating request or a storage write; without --validate the
   only cluster effect is a lookup; without --validate and with --dry-run not server/none/false
   nothing reaches the cluster or the storage *)
Theorem C06_rich_template :
  forall (rn ns : string) (g : xcfg) (validate include_crds : bool) (cli : xflags) (c : xchart),
    all_xeff (fun e => x_cluster_mut e = false /\ x_store_write e = false)
             (x_template rn ns g validate include_crds cli c) /\
    (validate = false ->
     all_xeff (fun e => x_cluster e = true -> e = XLookup) (x_template rn ns g validate include_crds cli c)) /\
    (validate = false ->
     negb (String.eqb (xf_opt cli) "server" || String.eqb (xf_opt cli) "none" || String.eqb (xf_opt cli) "false") = true ->
     all_xeff (fun e => x_cluster e = false /\ x_store e = false) (x_template rn ns g validate include_crds cli c)).
Proof. exact x_template_effects'. Qed.
Print Assumptions C06_rich_template.

(* what template's plumbing does to the options *)
Theorem C06_rich_template_flags :
  forall (validate include_crds : bool) (cli : xflags),
    fb (template_flags validate include_crds cli) "DryRun" = true /\
    fb (template_flags validate include_crds cli) "ClientOnly" = negb validate /\
    fb (template_flags validate include_crds cli) "Replace" = true /\
    fb (template_flags validate include_crds cli) "IncludeCRDs" = include_crds /\
    xf_opt (template_flags validate include_crds cli) = (if String.eqb (xf_opt cli) "" then "true" else xf_opt cli) /\
    (forall n, n <> "DryRun" -> n <> "ClientOnly" -> n <> "Replace" -> n <> "IncludeCRDs" ->
               fb (template_flags validate include_crds cli) n = fb cli n).
Proof. exact template_flags_spec. Qed.
Print Assumptions C06_rich_template_flags.

(* what follows the bail-out in the richer install / upgrade is the text of the shared model *)
Theorem C06_rich_tails_are_shared_model :
  forall (rn ns : string) (fl : flags) (cid vid : nat) (mani : list res) (hks : list hook),
    f_dry_run fl = false -> f_client_only fl = true ->
    install rn ns fl cid vid mani hks =
    bind (bind (perform SHistory) (fun h =>
                match max_rev_of h with
                | None => Ret true
                | Some last => Ret (f_replace fl && (status_eqb (st last) SUninstalled || status_eqb (st last) SFailed))
                end))
         (fun avail => if negb avail then Ret (OErr ENameInUse)
                       else install_tail fl (mkRelease 1 SPendingInstall cid vid mani hks) (stamp_all rn ns mani) []).
Proof. intros rn ns fl cid vid mani hks H1 H2. rewrite install_split, H1, H2. reflexivity. Qed.
Print Assumptions C06_rich_tails_are_shared_model.

(* non-vacuity: a chart with crds/, a lookup and CreateNamespace, every answer "yes", empty
   history.  Without a dry spelling the run creates the CRD, the namespace, and writes to the
   storage; with DryRunOption=server (getter present) the trace is the reads below - including
   the lookup -; with client / the boolean the lookup is gone too; ClientOnly + dry: the
   post-renderer at most. *)
Example C06_rich_example :
  existsb is_crd_create (yes_trace (x_install "rel" "default" ex_cfg (ex_xflags ["CreateNamespace"] "none") ex_chart)) = true /\
  existsb is_ns_create (yes_trace (x_install "rel" "default" ex_cfg (ex_xflags ["CreateNamespace"] "none") ex_chart)) = true /\
  existsb x_store_write (yes_trace (x_install "rel" "default" ex_cfg (ex_xflags ["CreateNamespace"] "none") ex_chart)) = true /\
  yes_trace (x_install "rel" "default" ex_cfg (ex_xflags ["CreateNamespace"] "server") ex_chart) =
    [XReach; XLookup; XBuild TReal BManifest true 1;
     XGetObj (mkRes "ConfigMap" "a" [("d:k", "v"); ("l:app.kubernetes.io/managed-by", "Helm");
                                     ("a:meta.helm.sh/release-name", "rel"); ("a:meta.helm.sh/release-namespace", "default")])] /\
  existsb is_lookup (yes_trace (x_install "rel" "default" ex_cfg (ex_xflags ["CreateNamespace"] "client") ex_chart)) = false /\
  existsb is_lookup (yes_trace (x_install "rel" "default" ex_cfg (ex_xflags ["CreateNamespace"; "DryRun"] "") ex_chart)) = false /\
  yes_trace (x_template "rel" "default" ex_cfg false true (ex_xflags ["CreateNamespace"; "PostRenderer"; "Atomic"] "") ex_chart) =
    [XPostRender [mkRes "CustomResourceDefinition" "widgets.example.com" []; mkRes "ConfigMap" "a" [("d:k", "v")]]; XBuild TPriv BManifest true 2] /\
  existsb is_lookup (yes_trace (x_template "rel" "default" ex_cfg false true (ex_xflags [] "server") ex_chart)) = true.
Proof. repeat split; vm_compute; reflexivity. Qed.
Print Assumptions C06_rich_example.

(* C17 — property theorems only: each closed by [exact] of a lemma proved elsewhere.
   Third-party code appears as universally quantified functions (the Section variables of
   Misc/Prov.v): clearsign_decode, check_sig, sha256, yaml_meta_ok, yaml_sums. *)
From Coq Require Import List String Ascii Bool.
From Helm Require Import Common.Assoc Misc.Prov Misc.ProvProofs Misc.ProvTrust Misc.ProvTrustProofs Gen.C17Strategy Misc.ProvSource
                        Misc.ProvFiles Misc.ProvFilesProofs Misc.ProvYaml Misc.ProvYamlProofs.
Import ListNotations.
Local Open Scope string_scope.

(* Signatory.Verify succeeds with FileHash h exactly when the provenance file decodes to a
   clear-signed block (msg, sig), a key of the keyring signed the canonical form of msg, msg
   splits at "\n...\n" into at least two parts of which the first parses as chart metadata
   and the second as a sums collection that lists, under the archive's base name, "sha256:"
   followed by the SHA-256 of the archive's bytes — and h is that string. *)
Theorem C17_verify_iff :
  forall (keyring sigbody signer : Type)
         (clearsign_decode : string -> option (string * sigbody))
         (check_sig : keyring -> string -> sigbody -> option signer)
         (sha256 : string -> string) (yaml_meta_ok : string -> bool)
         (yaml_sums : string -> option (list (string * string)))
         (kr : keyring) (prov name archive : string) (by_ : signer) (h : string),
    verify keyring sigbody signer clearsign_decode check_sig sha256 yaml_meta_ok yaml_sums kr prov name archive = VOk by_ h <->
    exists msg sg p0 p1 rest files,
      clearsign_decode prov = Some (msg, sg) /\
      check_sig kr (canon msg) sg = Some by_ /\
      split_sep DOTS msg = p0 :: p1 :: rest /\
      yaml_meta_ok p0 = true /\
      yaml_sums p1 = Some files /\
      aget name files = Some ("sha256:" ++ sha256 archive) /\
      h = "sha256:" ++ sha256 archive.
Proof. exact verify_iff. Qed.
Print Assumptions C17_verify_iff.

(* the split is bytes.Split: the parts are cut out of the text at separators, nothing else *)
Theorem C17_split_shape :
  forall s p0 p1 rest, split_sep DOTS s = p0 :: p1 :: rest ->
    s = p0 ++ DOTS ++ p1 ++ match rest with [] => "" | _ => DOTS ++ join_sep DOTS rest end.
Proof. exact split_two_parts. Qed.
Print Assumptions C17_split_shape.

(* a provenance file accepted for an archive is rejected for every archive with another digest *)
Theorem C17_tamper :
  forall (keyring sigbody signer : Type)
         (clearsign_decode : string -> option (string * sigbody))
         (check_sig : keyring -> string -> sigbody -> option signer)
         (sha256 : string -> string) (yaml_meta_ok : string -> bool)
         (yaml_sums : string -> option (list (string * string)))
         (kr : keyring) (prov name a a' : string) (by_ : signer) (h : string),
    verify keyring sigbody signer clearsign_decode check_sig sha256 yaml_meta_ok yaml_sums kr prov name a = VOk by_ h ->
    sha256 a' <> sha256 a ->
    forall by' h', verify keyring sigbody signer clearsign_decode check_sig sha256 yaml_meta_ok yaml_sums kr prov name a' <> VOk by' h'.
Proof. exact tamper_archive. Qed.
Print Assumptions C17_tamper.

(* what Helm signs lists one file: under any other base name verification fails *)
Theorem C17_tamper_name :
  forall (keyring sigbody signer : Type)
         (clearsign_decode : string -> option (string * sigbody))
         (check_sig : keyring -> string -> sigbody -> option signer)
         (sha256 : string -> string) (yaml_meta_ok : string -> bool)
         (yaml_sums : string -> option (list (string * string)))
         (kr : keyring) (prov name name' a : string) (by_ : signer) (h msg : string) (sg : sigbody)
         (p0 p1 : string) (rest : list string) (v : string),
    clearsign_decode prov = Some (msg, sg) -> split_sep DOTS msg = p0 :: p1 :: rest ->
    yaml_sums p1 = Some [(name, v)] -> name' <> name ->
    verify keyring sigbody signer clearsign_decode check_sig sha256 yaml_meta_ok yaml_sums kr prov name' a <> VOk by_ h.
Proof. exact tamper_rename. Qed.
Print Assumptions C17_tamper_name.

(* no key of the keyring signed the canonical text (or there is no block): rejected *)
Theorem C17_tamper_trust :
  forall (keyring sigbody signer : Type)
         (clearsign_decode : string -> option (string * sigbody))
         (check_sig : keyring -> string -> sigbody -> option signer)
         (sha256 : string -> string) (yaml_meta_ok : string -> bool)
         (yaml_sums : string -> option (list (string * string)))
         (kr : keyring) (prov name a msg : string) (sg : sigbody),
    clearsign_decode prov = Some (msg, sg) -> check_sig kr (canon msg) sg = None ->
    verify keyring sigbody signer clearsign_decode check_sig sha256 yaml_meta_ok yaml_sums kr prov name a = VErr ESig.
Proof. exact tamper_trust. Qed.
Print Assumptions C17_tamper_trust.

(* verification required (VerifyAlways; LocateChart --verify): success implies that the
   provenance file was obtained and VerifyChart accepted it — every failure is an error.
   VerifyIfPossible tolerates a missing provenance file but not one that fails to verify. *)
Theorem C17_required_fails_closed :
  forall (keyring sigbody signer : Type)
         (clearsign_decode : string -> option (string * sigbody))
         (check_sig : keyring -> string -> sigbody -> option signer)
         (sha256 : string -> string) (yaml_meta_ok : string -> bool)
         (yaml_sums : string -> option (list (string * string)))
         (kr : option keyring) (chart provf : option string) (name : string),
    (forall h, download_to keyring sigbody signer clearsign_decode check_sig sha256 yaml_meta_ok yaml_sums VerifyAlways kr chart provf name = DOk h ->
       exists a pv by_ hh, chart = Some a /\ provf = Some pv /\
         verify_chart keyring sigbody signer clearsign_decode check_sig sha256 yaml_meta_ok yaml_sums false kr (Some pv) name a = VOk by_ hh /\ h = Some hh)
    /\ (forall is_dir prov a,
          (locate_local keyring sigbody signer clearsign_decode check_sig sha256 yaml_meta_ok yaml_sums true is_dir kr prov name a = true ->
             exists by_ h, verify_chart keyring sigbody signer clearsign_decode check_sig sha256 yaml_meta_ok yaml_sums is_dir kr prov name a = VOk by_ h) /\
          (locate_remote keyring sigbody signer clearsign_decode check_sig sha256 yaml_meta_ok yaml_sums true kr chart provf name = true ->
             exists a' pv by_ h, chart = Some a' /\ provf = Some pv /\
               verify_chart keyring sigbody signer clearsign_decode check_sig sha256 yaml_meta_ok yaml_sums false kr (Some pv) name a' = VOk by_ h))
    /\ (forall a pv e,
          verify_chart keyring sigbody signer clearsign_decode check_sig sha256 yaml_meta_ok yaml_sums false kr (Some pv) name a = VErr e ->
          download_to keyring sigbody signer clearsign_decode check_sig sha256 yaml_meta_ok yaml_sums VerifyIfPossible kr (Some a) (Some pv) name = DErr)
    /\ (forall a, download_to keyring sigbody signer clearsign_decode check_sig sha256 yaml_meta_ok yaml_sums VerifyIfPossible kr (Some a) None name = DOk None).
Proof. exact required_fails_closed. Qed.
Print Assumptions C17_required_fails_closed.

(* VerifyChart = Verify behind the gates: not a directory, .tgz extension, provenance file
   present, keyring loads *)
Theorem C17_verify_chart_gate :
  forall (keyring sigbody signer : Type)
         (clearsign_decode : string -> option (string * sigbody))
         (check_sig : keyring -> string -> sigbody -> option signer)
         (sha256 : string -> string) (yaml_meta_ok : string -> bool)
         (yaml_sums : string -> option (list (string * string)))
         (is_dir : bool) (kr : option keyring) (prov : option string) (name a : string) (by_ : signer) (h : string),
    verify_chart keyring sigbody signer clearsign_decode check_sig sha256 yaml_meta_ok yaml_sums is_dir kr prov name a = VOk by_ h <->
    is_dir = false /\ is_tgz name = true /\
    exists k pv, kr = Some k /\ prov = Some pv /\
      verify keyring sigbody signer clearsign_decode check_sig sha256 yaml_meta_ok yaml_sums k pv name a = VOk by_ h.
Proof. exact verify_chart_ok. Qed.
Print Assumptions C17_verify_chart_gate.

(* non-vacuity: a concrete keyring / message / digest instance is accepted, and its four
   tamperings are rejected with the expected reason *)
Example C17_example_accepts : ex_verify [7] "PROV" "a-1.tgz" "d1" = VOk 7 "sha256:d1".
Proof. exact ex_accepts. Qed.
Print Assumptions C17_example_accepts.

Example C17_example_rejects :
  ex_verify [7] "PROV" "a-1.tgz" "d2" = VErr EMismatch /\ ex_verify [7] "PROV" "b-1.tgz" "d1" = VErr ENoSum
  /\ ex_verify [8] "PROV" "a-1.tgz" "d1" = VErr ESig /\ ex_verify [7] "PRO" "a-1.tgz" "d1" = VErr EDecode.
Proof. exact ex_rejects. Qed.
Print Assumptions C17_example_rejects.

(* A chart signed (messageBlock + ClearSign, as `helm package --sign` does) and then verified
   against a keyring that holds the signing key's public half always passes, with the digest of
   the archive as FileHash.  Hypotheses, all about library code: clearsign.Decode returns clean
   text (no blank/CR before a line feed, final line feed) unchanged together with the signature;
   a signature made with a key checks against a keyring containing it; the YAML printer's output
   for the sums parses back to that one entry.  Conditions on the printed texts: the metadata
   YAML and the sums YAML are clean and do not contain the separator "\n...\n" (nosep_before also
   excludes an occurrence straddling the separator that follows the metadata). *)
Theorem C17_sign_then_verify :
  forall (keyring sigbody signer key : Type)
         (clearsign_decode : string -> option (string * sigbody))
         (check_sig : keyring -> string -> sigbody -> option signer)
         (sha256 : string -> string) (yaml_meta_ok : string -> bool)
         (yaml_sums : string -> option (list (string * string)))
         (sign : key -> string -> sigbody) (clearsign_encode : string -> sigbody -> string)
         (sums_yaml : string -> string -> string) (public_of : keyring -> key -> option signer),
    (forall msg sg, clean msg = true -> clearsign_decode (clearsign_encode msg sg) = Some (msg, sg)) ->
    (forall kr k by_ msg, public_of kr k = Some by_ -> clean msg = true -> check_sig kr (canon msg) (sign k msg) = Some by_) ->
    forall (kr : keyring) (k : key) (by_ : signer) (meta name archive : string),
      public_of kr k = Some by_ ->
      clean meta = true -> clean (sums_yaml name ("sha256:" ++ sha256 archive)) = true ->
      nosep_before meta = true -> nosep (sums_yaml name ("sha256:" ++ sha256 archive)) = true ->
      yaml_meta_ok meta = true ->
      yaml_sums (sums_yaml name ("sha256:" ++ sha256 archive)) = Some [(name, "sha256:" ++ sha256 archive)] ->
      verify keyring sigbody signer clearsign_decode check_sig sha256 yaml_meta_ok yaml_sums kr
             (clear_sign sigbody key sha256 sign clearsign_encode sums_yaml k meta name archive) name archive
      = VOk by_ ("sha256:" ++ sha256 archive).
Proof. exact sign_then_verify. Qed.
Print Assumptions C17_sign_then_verify.

(* the message block splits into exactly the printed metadata and the printed sums *)
Theorem C17_block_splits :
  forall m s, nosep_before m = true -> nosep s = true -> split_sep DOTS (m ++ DOTS ++ s) = [m; s].
Proof. exact split_block. Qed.
Print Assumptions C17_block_splits.

Example C17_sign_then_verify_example :
  verify (list Ascii.ascii) Ascii.ascii Ascii.ascii sv_decode sv_check (fun a => a) (fun _ => true) sv_yaml_sums ["K"%char]
         (clear_sign Ascii.ascii Ascii.ascii (fun a => a) (fun k _ => k) sv_encode sv_sums_yaml "K"%char sv_meta "a-1.0.0.tgz" "d1")
         "a-1.0.0.tgz" "d1"
  = VOk "K"%char "sha256:d1".
Proof. exact sign_then_verify_example. Qed.
Print Assumptions C17_sign_then_verify_example.

(* the dependency manager: `helm dependency update --verify` and (after repair ec82a5f)
   `helm dependency build --verify` accept a dependency only if its provenance file was fetched
   and VerifyChart passed *)
Theorem C17_dependency_verify_fails_closed :
  forall (keyring sigbody signer : Type)
         (clearsign_decode : string -> option (string * sigbody))
         (check_sig : keyring -> string -> sigbody -> option signer)
         (sha256 : string -> string) (yaml_meta_ok : string -> bool)
         (yaml_sums : string -> option (list (string * string)))
         (kr : option keyring) (chart provf : option string) (name : string),
    (manager_dep_ok keyring sigbody signer clearsign_decode check_sig sha256 yaml_meta_ok yaml_sums (dep_update_strategy true) kr chart provf name = true \/
     manager_dep_ok keyring sigbody signer clearsign_decode check_sig sha256 yaml_meta_ok yaml_sums (dep_build_strategy true) kr chart provf name = true) ->
    exists a pv by_ h, chart = Some a /\ provf = Some pv /\
      verify_chart keyring sigbody signer clearsign_decode check_sig sha256 yaml_meta_ok yaml_sums false kr (Some pv) name a = VOk by_ h.
Proof. exact dependency_verify_fails_closed. Qed.
Print Assumptions C17_dependency_verify_fails_closed.

(* witness on the unrepaired model: with --verify and NO provenance file the build went through *)
Theorem C17_dep_build_unrepaired_refuted :
  forall (keyring sigbody signer : Type)
         (clearsign_decode : string -> option (string * sigbody))
         (check_sig : keyring -> string -> sigbody -> option signer)
         (sha256 : string -> string) (yaml_meta_ok : string -> bool)
         (yaml_sums : string -> option (list (string * string)))
         (kr : option keyring) (a name : string),
    manager_dep_ok keyring sigbody signer clearsign_decode check_sig sha256 yaml_meta_ok yaml_sums
                   (dep_build_strategy_unrepaired true) kr (Some a) None name = true.
Proof. exact dep_build_unrepaired_refuted. Qed.
Print Assumptions C17_dep_build_unrepaired_refuted.

(* ------------------------------------------------------------------ who is trusted *)
(* provenance.Signatory{Entity, KeyRing}: whether verification succeeds — and with which signer
   and FileHash — does not depend on the signatory's Entity (the signing key): the trusted keys
   are exactly the KeyRing. *)
Theorem C17_trust_is_the_keyring_only :
  forall (keyring key sigbody signer : Type)
         (clearsign_decode : string -> option (string * sigbody))
         (check_sig : keyring -> string -> sigbody -> option signer)
         (sha256 : string -> string) (yaml_meta_ok : string -> bool)
         (yaml_sums : string -> option (list (string * string)))
         (s : signatory keyring key) (e' : option key) (prov name archive : string),
    signatory_verify keyring key sigbody signer clearsign_decode check_sig sha256 yaml_meta_ok yaml_sums s prov name archive =
    signatory_verify keyring key sigbody signer clearsign_decode check_sig sha256 yaml_meta_ok yaml_sums
                     (mkSignatory e' (s_keyring s)) prov name archive.
Proof. exact trust_is_the_keyring_only. Qed.
Print Assumptions C17_trust_is_the_keyring_only.

(* C17_verify_iff for a signatory with an arbitrary Entity: the signature clause reads the
   KeyRing *)
Theorem C17_signatory_verify_iff :
  forall (keyring key sigbody signer : Type)
         (clearsign_decode : string -> option (string * sigbody))
         (check_sig : keyring -> string -> sigbody -> option signer)
         (sha256 : string -> string) (yaml_meta_ok : string -> bool)
         (yaml_sums : string -> option (list (string * string)))
         (s : signatory keyring key) (prov name archive : string) (by_ : signer) (h : string),
    signatory_verify keyring key sigbody signer clearsign_decode check_sig sha256 yaml_meta_ok yaml_sums s prov name archive = VOk by_ h <->
    exists msg sg p0 p1 rest files,
      clearsign_decode prov = Some (msg, sg) /\
      check_sig (s_keyring s) (canon msg) sg = Some by_ /\
      split_sep DOTS msg = p0 :: p1 :: rest /\
      yaml_meta_ok p0 = true /\
      yaml_sums p1 = Some files /\
      aget name files = Some ("sha256:" ++ sha256 archive) /\
      h = "sha256:" ++ sha256 archive.
Proof. exact signatory_verify_iff. Qed.
Print Assumptions C17_signatory_verify_iff.

(* CheckDetachedSignature answers with an entity of the key list it is given (hypothesis on the
   library): an accepted chart was signed by a key of the KeyRing — whatever Entity the
   signatory carries *)
Theorem C17_signer_in_keyring :
  forall (keyring key sigbody signer : Type)
         (clearsign_decode : string -> option (string * sigbody))
         (check_sig : keyring -> string -> sigbody -> option signer)
         (sha256 : string -> string) (yaml_meta_ok : string -> bool)
         (yaml_sums : string -> option (list (string * string)))
         (ring_has : keyring -> signer -> Prop),
    (forall kr bytes sg by_, check_sig kr bytes sg = Some by_ -> ring_has kr by_) ->
    forall (s : signatory keyring key) (prov name archive : string) (by_ : signer) (h : string),
      signatory_verify keyring key sigbody signer clearsign_decode check_sig sha256 yaml_meta_ok yaml_sums s prov name archive = VOk by_ h ->
      ring_has (s_keyring s) by_.
Proof. exact signer_in_keyring. Qed.
Print Assumptions C17_signer_in_keyring.

(* the constructors: NewFromFiles puts the key file into Entity and the keyring file into
   KeyRing; NewFromKeyring's KeyRing is the file's keyring, its Entity (if any) one of the
   keyring's entities, none for the empty id; VerifyChart verifies with NewFromKeyring(file, "") *)
Theorem C17_constructors_keep_the_ring :
  forall (keyring key sigbody signer : Type)
         (clearsign_decode : string -> option (string * sigbody))
         (check_sig : keyring -> string -> sigbody -> option signer)
         (sha256 : string -> string) (yaml_meta_ok : string -> bool)
         (yaml_sums : string -> option (list (string * string)))
         (ring_entities : keyring -> list (key * list string)),
    (forall keyfile ringfile s, new_from_files keyring key keyfile ringfile = Some s ->
       exists e, keyfile = Some e /\ s_entity s = Some e /\ ringfile = Some (s_keyring s)) /\
    (forall ringfile id s, new_from_keyring keyring key ring_entities ringfile id = Some s ->
       ringfile = Some (s_keyring s) /\ (id = "" -> s_entity s = None) /\
       (forall k, s_entity s = Some k -> exists names, In (k, names) (ring_entities (s_keyring s)))) /\
    (forall (kr : option keyring) pv name a, is_tgz name = true ->
       verify_chart keyring sigbody signer clearsign_decode check_sig sha256 yaml_meta_ok yaml_sums false kr (Some pv) name a =
       match new_from_keyring keyring key ring_entities kr "" with
       | Some s => signatory_verify keyring key sigbody signer clearsign_decode check_sig sha256 yaml_meta_ok yaml_sums s pv name a
       | None => VErr EKeyring
       end).
Proof.
  exact (fun keyring key sigbody signer clearsign_decode check_sig sha256 yaml_meta_ok yaml_sums ring_entities =>
           conj (new_from_files_ring keyring key)
                (conj (new_from_keyring_ring keyring key ring_entities)
                      (verify_chart_signatory keyring key sigbody signer clearsign_decode check_sig sha256 yaml_meta_ok yaml_sums ring_entities))).
Qed.
Print Assumptions C17_constructors_keep_the_ring.

(* the variant that prepends the signatory's Entity to the key list (an independently seeded
   change): signatory {Entity 7, KeyRing [8]}, chart signed by 7 — the code's rule rejects, the
   variant accepts *)
Theorem C17_entity_trusting_variant_refuted :
  signatory_verify (list nat) nat nat nat tv_decode tv_check (fun a => a) (fun _ => true) ex_sums
                   (mkSignatory (Some 7) [8]) "PROV" "a-1.tgz" "d1" = VErr ESig /\
  signatory_verify_entity_first (list nat) nat nat nat tv_decode tv_check (fun a => a) (fun _ => true) ex_sums cons
                   (mkSignatory (Some 7) [8]) "PROV" "a-1.tgz" "d1" = VOk 7 "sha256:d1".
Proof. exact entity_trusting_variant_refuted. Qed.
Print Assumptions C17_entity_trusting_variant_refuted.

Example C17_signatory_example_accepts :
  signatory_verify (list nat) nat nat nat tv_decode tv_check (fun a => a) (fun _ => true) ex_sums
                   (mkSignatory (Some 8) [7; 8]) "PROV" "a-1.tgz" "d1" = VOk 7 "sha256:d1" /\
  signatory_verify (list nat) nat nat nat tv_decode tv_check (fun a => a) (fun _ => true) ex_sums
                   (mkSignatory None [7]) "PROV" "a-1.tgz" "d1" = VOk 7 "sha256:d1".
Proof. exact signatory_example_accepts. Qed.
Print Assumptions C17_signatory_example_accepts.

Example C17_new_from_keyring_examples :
  let nfk := new_from_keyring (list (nat * list string)) nat (fun r => r) (Some tv_ring) in
  nfk "Bob <bob@example.test>" = Some (mkSignatory (Some 8) tv_ring) /\
  nfk "Alice" = Some (mkSignatory (Some 7) tv_ring) /\
  nfk "example.test" = None /\
  nfk "Carol" = Some (mkSignatory None tv_ring) /\
  nfk "" = Some (mkSignatory None tv_ring).
Proof. exact new_from_keyring_examples. Qed.
Print Assumptions C17_new_from_keyring_examples.

(* ------------------------------------------------------------------ strategy selection *)
(* every caller that maps flags to a VerificationStrategy — Pull.Run (--verify, --prov),
   LocateChart (install / upgrade / template / show --verify), helm dependency update / build
   --verify — selects VerifyAlways exactly when --verify is set, whatever else is set *)
Theorem C17_verify_flag_selects_always :
  forall (c : caller) (f : vflags), caller_strategy c f = VerifyAlways <-> f_verify f = true.
Proof. exact verify_flag_selects_always. Qed.
Print Assumptions C17_verify_flag_selects_always.

(* verification required (--verify set, whatever else is set): the caller's download succeeds
   only if archive and provenance file were fetched and VerifyChart accepted them, the FileHash
   reported is the verified one; a missing or failing provenance is an error.  Without --verify
   nothing is verified. *)
Theorem C17_verify_flag_fails_closed :
  forall (keyring sigbody signer : Type)
         (clearsign_decode : string -> option (string * sigbody))
         (check_sig : keyring -> string -> sigbody -> option signer)
         (sha256 : string -> string) (yaml_meta_ok : string -> bool)
         (yaml_sums : string -> option (list (string * string)))
         (c : caller) (f : vflags) (kr : option keyring) (chart provf : option string) (name : string),
    (f_verify f = true ->
       (forall h, caller_download keyring sigbody signer clearsign_decode check_sig sha256 yaml_meta_ok yaml_sums c f kr chart provf name = DOk h ->
          exists a pv by_ hh, chart = Some a /\ provf = Some pv /\
            verify_chart keyring sigbody signer clearsign_decode check_sig sha256 yaml_meta_ok yaml_sums false kr (Some pv) name a = VOk by_ hh /\ h = Some hh) /\
       (forall a, chart = Some a ->
          (provf = None \/ exists pv e, provf = Some pv /\
             verify_chart keyring sigbody signer clearsign_decode check_sig sha256 yaml_meta_ok yaml_sums false kr (Some pv) name a = VErr e) ->
          caller_download keyring sigbody signer clearsign_decode check_sig sha256 yaml_meta_ok yaml_sums c f kr chart provf name = DErr)) /\
    (f_verify f = false -> forall a, chart = Some a ->
       caller_download keyring sigbody signer clearsign_decode check_sig sha256 yaml_meta_ok yaml_sums c f kr chart provf name = DOk None).
Proof. exact verify_flag_fails_closed_all. Qed.
Print Assumptions C17_verify_flag_fails_closed.

(* the translator's reading of the source (Gen/C17Strategy.v: the value of the downloader's
   Verify field at the DownloadTo / Build / Update call as a decision tree over the flag fields,
   regenerated from /repo on every run) selects, for every assignment of the flags, the
   strategy of the model; Manager.downloadAll hands the Manager's strategy through; the guard
   of VerifyChart on LocateChart's local-file branch is the --verify flag *)
Theorem C17_strategy_source_agrees :
  (forall f fld, eval_s f fld pull_run_strategy_src = Some (caller_strategy CPull f)) /\
  (forall f fld, eval_s f fld locate_chart_strategy_src = Some (caller_strategy CLocateChart f)) /\
  (forall f fld, eval_s f fld dep_update_strategy_src = Some (caller_strategy CDepUpdate f)) /\
  (forall f fld, eval_s f fld dep_build_strategy_src = Some (caller_strategy CDepBuild f)) /\
  (forall f fld, eval_s f fld manager_download_all_strategy_src = Some (manager_strategy fld)) /\
  (forall f, eval_b f locate_chart_local_guard_src = Some (f_verify f)).
Proof. exact strategy_source_agrees. Qed.
Print Assumptions C17_strategy_source_agrees.

(* the numbering of the strategies (harness, RunC17.strat) is the source's iota order;
   verifySignature hands s.KeyRing, and nothing else, to openpgp.CheckDetachedSignature *)
Theorem C17_source_tables :
  verification_strategy_consts = ["VerifyNever"; "VerifyIfPossible"; "VerifyAlways"; "VerifyLater"] /\
  verify_signature_keys_src = "s.KeyRing".
Proof. exact (conj strategy_consts_source signature_keys_source). Qed.
Print Assumptions C17_source_tables.

(* ------------------------------------------------------------------ the file layer *)
(* Signatory.Verify is handed two paths, each a regular file, missing, a directory, or a file
   that opens but cannot be read.  It accepts only two readable regular files, and then exactly
   when the verification proper (C17_verify_iff) accepts their contents under the archive's base
   name.  In particular an archive that cannot be read is never accepted. *)
Theorem C17_files_verify_iff :
  forall (keyring sigbody signer : Type)
         (clearsign_decode : string -> option (string * sigbody))
         (check_sig : keyring -> string -> sigbody -> option signer)
         (sha256 : string -> string) (yaml_meta_ok : string -> bool)
         (yaml_sums : string -> option (list (string * string)))
         (kr : keyring) (chart prov : fstate) (name : string) (by_ : signer) (h : string),
    verify_files keyring sigbody signer clearsign_decode check_sig sha256 yaml_meta_ok yaml_sums kr chart prov name = FOk by_ h <->
    exists a pv, chart = FFile a /\ prov = FFile pv /\
      verify keyring sigbody signer clearsign_decode check_sig sha256 yaml_meta_ok yaml_sums kr pv name a = VOk by_ h.
Proof. exact files_verify_iff. Qed.
Print Assumptions C17_files_verify_iff.

(* downloader.VerifyChart(path, keyring): readable archive whose name ends in .tgz, readable
   <path>.prov, keyring loads, Verify accepts *)
Theorem C17_verify_chart_files_iff :
  forall (keyring sigbody signer : Type)
         (clearsign_decode : string -> option (string * sigbody))
         (check_sig : keyring -> string -> sigbody -> option signer)
         (sha256 : string -> string) (yaml_meta_ok : string -> bool)
         (yaml_sums : string -> option (list (string * string)))
         (kr : option keyring) (chart prov : fstate) (name : string) (by_ : signer) (h : string),
    verify_chart_files keyring sigbody signer clearsign_decode check_sig sha256 yaml_meta_ok yaml_sums kr chart prov name = FOk by_ h <->
    exists a pv k, chart = FFile a /\ prov = FFile pv /\ kr = Some k /\ is_tgz name = true /\
      verify keyring sigbody signer clearsign_decode check_sig sha256 yaml_meta_ok yaml_sums k pv name a = VOk by_ h.
Proof. exact verify_chart_files_iff. Qed.
Print Assumptions C17_verify_chart_files_iff.

(* witness on the unrepaired Digest (a read error answered with "" and no error): an archive
   that cannot be read verified against signed sums listing "sha256:" for its name, FileHash
   "sha256:"; the code as repaired (fda75d8) answers with an error *)
Theorem C17_digest_unrepaired_refuted :
  verify_files_unrepaired (list nat) nat nat ex_decode ex_check (fun a => a) (fun _ => true) tf_sums
                          [7] FUnreadable (FFile "PROV") "a-1.tgz" = FOk 7 "sha256:" /\
  verify_files (list nat) nat nat ex_decode ex_check (fun a => a) (fun _ => true) tf_sums
               [7] FUnreadable (FFile "PROV") "a-1.tgz" = FErr FEDigest.
Proof. exact digest_unrepaired_refuted. Qed.
Print Assumptions C17_digest_unrepaired_refuted.

Example C17_files_example :
  verify_files (list nat) nat nat ex_decode ex_check (fun a => a) (fun _ => true) ex_sums
               [7] (FFile "d1") (FFile "PROV") "a-1.tgz" = FOk 7 "sha256:d1" /\
  verify_chart_files (list nat) nat nat ex_decode ex_check (fun a => a) (fun _ => true) ex_sums
               (Some [7]) (FFile "d1") (FFile "PROV") "a-1.tgz" = FOk 7 "sha256:d1" /\
  verify_chart_files (list nat) nat nat ex_decode ex_check (fun a => a) (fun _ => true) ex_sums
               (Some [7]) (FFile "d1") FDir "a-1.tgz" = FErr FEIsDirectory /\
  verify_chart_files (list nat) nat nat ex_decode ex_check (fun a => a) (fun _ => true) ex_sums
               (Some [7]) (FFile "d1") FMissing "a-1.tgz" = FErr (FECore ENoProv).
Proof. exact files_example. Qed.
Print Assumptions C17_files_example.

(* ------------------------------------------------------------------ the sums as text *)
(* Misc/ProvYaml.v models the YAML that messageBlock prints for the sums on the text itself:
   print_sums / parse_sums ("files:" and lines of two blanks, name, colon, blank, value; names of
   [A-Za-z0-9._+-] with extension .tgz, values sha256:<hex>).  Printing and parsing round-trip. *)
Theorem C17_sums_roundtrip :
  forall l, l <> [] ->
    forallb (fun kv => name_ok (fst kv) && value_ok (snd kv)) l = true -> keys_distinct l = true ->
    parse_sums (print_sums_list l) = SIn l.
Proof. exact sums_roundtrip_list. Qed.
Print Assumptions C17_sums_roundtrip.

(* on a text of the modelled shape the entry of a name is exactly the text's line
   "  <name>: <value>" *)
Theorem C17_digest_line :
  forall p fs name v, parse_sums p = SIn fs -> name_ok name = true -> value_ok v = true ->
    (aget name fs = Some v <-> In ("  " ++ name ++ ": " ++ v) (lines p)).
Proof. exact digest_line. Qed.
Print Assumptions C17_digest_line.

(* the digest line for the archive's base name in the signed text is what Verify compares:
   with a YAML decoder that reads texts of the modelled shape as parse_sums does (checked against
   sigs.k8s.io/yaml on part 1 of every decoded block of a run), a provenance file whose part 1
   has that shape is accepted iff a keyring key signed it, part 0 parses as metadata and part 1
   contains the line "  <base name>: sha256:<SHA-256 of the archive>" *)
Theorem C17_verify_digest_line :
  forall (keyring sigbody signer : Type)
         (clearsign_decode : string -> option (string * sigbody))
         (check_sig : keyring -> string -> sigbody -> option signer)
         (sha256 : string -> string) (yaml_meta_ok : string -> bool)
         (yaml_sums : string -> option (list (string * string)))
         (kr : keyring) (prov name archive msg : string) (sg : sigbody) (p0 p1 : string) (rest : list string)
         (fs : list (string * string)) (by_ : signer) (h : string),
    (forall p files, parse_sums p = SIn files -> yaml_sums p = Some files) ->
    clearsign_decode prov = Some (msg, sg) -> split_sep DOTS msg = p0 :: p1 :: rest ->
    parse_sums p1 = SIn fs -> name_ok name = true -> value_ok ("sha256:" ++ sha256 archive) = true ->
    (verify keyring sigbody signer clearsign_decode check_sig sha256 yaml_meta_ok yaml_sums kr prov name archive = VOk by_ h <->
     check_sig kr (canon msg) sg = Some by_ /\ yaml_meta_ok p0 = true /\
     In ("  " ++ name ++ ": " ++ "sha256:" ++ sha256 archive) (lines p1) /\ h = "sha256:" ++ sha256 archive).
Proof. exact verify_digest_line. Qed.
Print Assumptions C17_verify_digest_line.

(* C17_sign_then_verify with the sums inside the model.  The YAML library is assumed to print a
   name / digest of the modelled shape as print_sums does (compared on every signed archive of a
   run) and to read texts of that shape as parse_sums does; that the printed sums are clean,
   free of the separator and parse back to the one entry is then proved, not assumed.  The
   metadata part and the clearsign / OpenPGP hypotheses are those of C17_sign_then_verify. *)
Theorem C17_sign_then_verify_sums_modelled :
  forall (keyring sigbody signer key : Type)
         (clearsign_decode : string -> option (string * sigbody))
         (check_sig : keyring -> string -> sigbody -> option signer)
         (sha256 : string -> string) (yaml_meta_ok : string -> bool)
         (yaml_sums : string -> option (list (string * string)))
         (sign : key -> string -> sigbody) (clearsign_encode : string -> sigbody -> string)
         (sums_yaml : string -> string -> string) (public_of : keyring -> key -> option signer),
    (forall msg sg, clean msg = true -> clearsign_decode (clearsign_encode msg sg) = Some (msg, sg)) ->
    (forall kr k by_ msg, public_of kr k = Some by_ -> clean msg = true -> check_sig kr (canon msg) (sign k msg) = Some by_) ->
    (forall p files, parse_sums p = SIn files -> yaml_sums p = Some files) ->
    (forall n v, name_ok n = true -> value_ok v = true -> sums_yaml n v = print_sums n v) ->
    forall (kr : keyring) (k : key) (by_ : signer) (meta name archive : string),
      public_of kr k = Some by_ ->
      name_ok name = true -> value_ok ("sha256:" ++ sha256 archive) = true ->
      clean meta = true -> nosep_before meta = true -> yaml_meta_ok meta = true ->
      verify keyring sigbody signer clearsign_decode check_sig sha256 yaml_meta_ok yaml_sums kr
             (clear_sign sigbody key sha256 sign clearsign_encode sums_yaml k meta name archive) name archive
      = VOk by_ ("sha256:" ++ sha256 archive).
Proof. exact sign_then_verify_sums_modelled. Qed.
Print Assumptions C17_sign_then_verify_sums_modelled.

Example C17_sums_example :
  name_ok "web-2.5.2-rc.1+b4.tgz" = true /\ value_ok "sha256:19bf3172" = true /\
  parse_sums (print_sums "web-2.5.2-rc.1+b4.tgz" "sha256:19bf3172") = SIn [("web-2.5.2-rc.1+b4.tgz", "sha256:19bf3172")] /\
  parse_sums ("files:" ++ LFs ++ "  a.tgz: ""sha256:""" ++ LFs) = SOutside /\
  parse_sums ("files:" ++ LFs ++ "  a.tgz: sha256:1f" ++ LFs ++ "  a.tgz: sha256:2e" ++ LFs) = SOutside.
Proof. exact sums_example. Qed.
Print Assumptions C17_sums_example.

(* C20 — malformed external input produces an error, never a crash.
   Property theorems only: each closed by [exact] of a lemma proved in Misc/Panics*Proofs.v. *)
From Coq Require Import List String Bool ZArith Permutation.
From Helm Require Import Values.Tree Common.Assoc
  Misc.Panics Misc.PanicsStorage Misc.PanicsStorageProofs
  Misc.PanicsDeps Misc.PanicsDepsProofs Misc.PanicsIndex Misc.PanicsIndexProofs
  Misc.PanicsSort Misc.PanicsSortProofs Misc.PanicsSchema Misc.PanicsSchemaProofs
  Misc.PanicsStrvalsLex Misc.PanicsStrvals Misc.PanicsStrvalsProofs Gen.C20Tables
  Misc.PanicsSchemaCoalesce
  Misc.PanicsRec Misc.PanicsRecProofs Misc.PanicsGate Misc.PanicsGateProofs Gen.C20Rec Misc.PanicsTie
  Misc.PanicsCoalesce Misc.PanicsCoalesceProofs Misc.PanicsSmall Misc.PanicsSmallProofs.
From Helm Require Values.Coalesce.
Import ListNotations.
Local Open Scope string_scope.

(* ---- C20_storage_read: Get / List / Query over arbitrary record bodies, for EVERY decoder ---- *)

Theorem C20_storage_read_get :
  forall (B : Type) (empty : B) (dec : B -> option srel) (is_system : string -> bool)
         (st : list (sobj B)) (key : string),
    no_panic (drv_get B empty dec is_system st key).
Proof. exact drv_get_no_panic. Qed.
Print Assumptions C20_storage_read_get.

Theorem C20_storage_read_get_undecodable_is_error :
  forall (B : Type) (empty : B) (dec : B -> option srel) (is_system : string -> bool)
         (st : list (sobj B)) (key : string) (o : sobj B),
    api_get B st key = Some o -> dec (data_release B empty o) = None ->
    drv_get B empty dec is_system st key = Err.
Proof. exact drv_get_undecodable. Qed.
Print Assumptions C20_storage_read_get_undecodable_is_error.

(* List returns exactly the decodable records (owner=helm) that pass the filter, in order:
   the unreadable ones are skipped and the others returned *)
Theorem C20_storage_read_list_skips_unreadable :
  forall (B : Type) (empty : B) (dec : B -> option srel) (st : list (sobj B)) (f : srel -> bool),
    drv_list B empty dec st (fun r => Ok (f r)) =
      Ok (filter f (decodable empty dec (api_list B st [("owner", "helm")]))).
Proof. exact drv_list_spec. Qed.
Print Assumptions C20_storage_read_list_skips_unreadable.

(* a filter supplied by the caller is the only way List can panic *)
Theorem C20_storage_read_list :
  forall (B : Type) (empty : B) (dec : B -> option srel) (st : list (sobj B)) (flt : srel -> res bool),
    (forall r, no_panic (flt r)) -> no_panic (drv_list B empty dec st flt).
Proof. exact drv_list_no_panic. Qed.
Print Assumptions C20_storage_read_list.

Theorem C20_storage_read_query :
  forall (B : Type) (empty : B) (dec : B -> option srel) (valid_label : string -> bool)
         (st : list (sobj B)) (q : list (string * string)),
    no_panic (drv_query B empty dec valid_label st q) /\
    (forallb (fun kv => valid_label (snd kv)) q = true -> api_list B st q <> [] ->
     drv_query B empty dec valid_label st q = Ok (decodable empty dec (api_list B st q))).
Proof. intros. split; [apply drv_query_no_panic|apply drv_query_spec]. Qed.
Print Assumptions C20_storage_read_query.

(* Storage.ListDeployed over records that decode but carry no info object (after fix b7c9b57) *)
Theorem C20_storage_read_list_deployed :
  forall (B : Type) (empty : B) (dec : B -> option srel) (st : list (sobj B)),
    list_deployed B empty dec st =
      Ok (filter (fun r => match sr_status r with Some s => String.eqb s "deployed" | None => false end)
                 (decodable empty dec (api_list B st [("owner", "helm")]))).
Proof. exact list_deployed_spec. Qed.
Print Assumptions C20_storage_read_list_deployed.

(* Storage.Deployed / Storage.Last: the [0] index after the length check *)
Theorem C20_storage_read_deployed_last :
  forall (B : Type) (empty : B) (dec : B -> option srel) (valid_label : string -> bool)
         (rev_sort : list srel -> list srel),
    (forall l, List.length (rev_sort l) = List.length l) ->
    forall (st : list (sobj B)) (name : string),
      no_panic (deployed B empty dec valid_label rev_sort st name) /\
      no_panic (last B empty dec valid_label rev_sort st name).
Proof. intros. split; [apply deployed_no_panic|apply last_no_panic]; assumption. Qed.
Print Assumptions C20_storage_read_deployed_last.

Example C20_storage_read_deployed_last_hyp_met :
  forall l : list srel, List.length (rev l) = List.length l.
Proof. exact (@rev_length srel). Qed.
Print Assumptions C20_storage_read_deployed_last_hyp_met.

(* F1: Secrets.Get before 2a945c6 reaches the nil dereference *)
Theorem C20_storage_read_secrets_get_refuted :
  exists (dec : nat -> option srel) (st : list (sobj nat)) (key : string),
    is_panic (secrets_get_prefix nat 0 dec (fun _ => false) st key) = true.
Proof. exact (ex_intro _ _ (ex_intro _ _ (ex_intro _ _ secrets_get_prefix_panics))). Qed.
Print Assumptions C20_storage_read_secrets_get_refuted.

(* found by this check: StatusFilter before b7c9b57 dereferences rls.Info of a record without info *)
Theorem C20_storage_read_list_deployed_refuted :
  exists (dec : nat -> option srel) (st : list (sobj nat)),
    is_panic (list_deployed_prefix nat 0 dec st) = true.
Proof. exact (ex_intro _ _ (ex_intro _ _ list_deployed_prefix_panics)). Qed.
Print Assumptions C20_storage_read_list_deployed_refuted.

(* since 1478473 decodeRelease gives every decoded release an info object: a record without
   one is listed with an empty status instead of crashing its readers *)
Theorem C20_storage_read_decode_normalises :
  forall (B : Type) (raw : B -> option srel) (b : B) (r : srel),
    decode_release raw b = Some r -> sr_status r <> None.
Proof. exact (@decode_release_has_info). Qed.
Print Assumptions C20_storage_read_decode_normalises.

Theorem C20_storage_read_list_deployed_normalised :
  forall (B : Type) (empty : B) (raw : B -> option srel) (st : list (sobj B)),
    no_panic (list_deployed_prefix B empty (decode_release raw) st).
Proof. exact (@list_deployed_prefix_normalised_no_panic). Qed.
Print Assumptions C20_storage_read_list_deployed_normalised.

(* ---- C20_deps + C20_import_values: load (Validate) then ProcessDependencies ---- *)

(* for every chart tree — null dependency entries, duplicate names, missing subcharts, nil
   Metadata, import-values items of any YAML type — and every behaviour of the semver
   library and of CoalesceValues/MergeValues/MergeTables *)
Theorem C20_deps_import_values :
  forall (compat : string -> string -> bool) (coalesce_values : chart -> vmap -> option vmap)
         (merge_values : chart -> option vmap) (merge_tables : vmap -> vmap -> vmap)
         (trim : string -> string) (meta_scalars_ok : meta -> bool) (alias_ok : string -> bool)
         (c : chart) (v : vmap),
    no_panic (load_and_process compat coalesce_values merge_values merge_tables trim
                               meta_scalars_ok alias_ok c v).
Proof. exact load_and_process_no_panic. Qed.
Print Assumptions C20_deps_import_values.

(* the import-values loop alone: every item shape, every values tree *)
Theorem C20_import_values :
  forall (merge_tables : vmap -> vmap -> vmap) (cvals : vmap) (rname : string) (ivs : list val) (b : vmap),
    no_panic (import_loop merge_tables cvals rname ivs b).
Proof. exact import_loop_no_panic. Qed.
Print Assumptions C20_import_values.

(* Table / PathValue over any value tree and any path string *)
Theorem C20_import_values_path_lookup :
  forall (v : vmap) (p : string), no_panic (path_value v p).
Proof. exact path_value_no_panic. Qed.
Print Assumptions C20_import_values_path_lookup.

(* F2: the loop before 57bc750 panics on {child: 1, parent: x} *)
Theorem C20_import_values_refuted :
  exists ivs : list val,
    is_panic (import_loop_prefix (fun d _ => d) [] "sub" ivs []) = true.
Proof.
  exact (ex_intro _ [VMap [("child", VNum 1); ("parent", VStr "x")]] eq_refl).
Qed.
Print Assumptions C20_import_values_refuted.

(* without the load-time gate a null dependency entry does reach a nil dereference
   (ProcessDependencies called on a chart built in memory; no loader produces such a chart) *)
Theorem C20_deps_unvalidated_refuted :
  exists c : chart,
    is_panic (process_dependencies (fun _ _ => true) (fun _ v => Some v) (fun _ => Some [])
                                   (fun d _ => d) (fun s => s) c []) = true.
Proof.
  exact (ex_intro _ (Chart (Some (mkMeta "c" "1.0.0" (Some [None]))) [] []) eq_refl).
Qed.
Print Assumptions C20_deps_unvalidated_refuted.

(* ---- C20_index: loadIndex / SortEntries / Get / Merge over arbitrary entry lists ---- *)

Theorem C20_index_load :
  forall (validate : imeta -> bool) (sorter : list centry -> list centry),
    (forall l, Permutation (sorter l) l) ->
    forall r : rawindex,
      match load_index validate sorter true r with
      | Ok i => Forall (fun ne => Forall (fun e => exists m, e = Some (Some m)) (snd ne)) (entries_of i)
      | Err => True
      | Panic _ => False
      end.
Proof. exact load_index_ok. Qed.
Print Assumptions C20_index_load.

Theorem C20_index_get :
  forall (valid_semver : string -> bool) (C : Type) (parse_constraint : string -> option C)
         (check : C -> string -> bool),
    parse_constraint "*" <> None ->
    forall (i : rawindex) (name version : string),
      Forall (fun ne => Forall (fun e => exists m, e = Some (Some m)) (snd ne)) (entries_of i) ->
      no_panic (get valid_semver C parse_constraint check i name version).
Proof.
  intros vs C pc ck Hs i n v H. exact (post_no_panic _ _ (get_ok vs C pc ck Hs i n v H)).
Qed.
Print Assumptions C20_index_get.

Theorem C20_index_merge :
  forall (valid_semver : string -> bool) (C : Type) (parse_constraint : string -> option C)
         (check : C -> string -> bool),
    parse_constraint "*" <> None ->
    forall i f : rawindex,
      Forall (fun ne => Forall (fun e => exists m, e = Some (Some m)) (snd ne)) (entries_of i) ->
      Forall (fun ne => Forall (fun e => exists m, e = Some (Some m)) (snd ne)) (entries_of f) ->
      no_panic (merge valid_semver C parse_constraint check true i f).
Proof.
  intros vs C pc ck Hs i f Hi Hf. exact (post_no_panic _ _ (merge_ok (fun _ => true) vs C pc ck Hs i f Hi Hf)).
Qed.
Print Assumptions C20_index_merge.

Example C20_index_hyps_met :
  (forall l : list centry, Permutation (rev l) l) /\
  (fun s : string => Some s) "*" <> None /\
  load_index (fun _ => true) (@rev centry) true idx_f3 =
    Ok (mkRaw "v1" (Some [("a", [Some (Some (mkIMeta "a" "1.0.0" "v2"))])])).
Proof.
  exact (conj (fun l => Permutation_sym (Permutation_rev l))
              (conj (fun H => @eq_ind _ (Some "*") (fun o => match o with Some _ => True | None => False end) I None H)
                    eq_refl)).
Qed.
Print Assumptions C20_index_hyps_met.

(* `helm search repo`: search.Index.AddRepo on a loaded index (null / metadata-less / invalid
   entries already removed, possibly leaving a name with an empty list), both for the newest
   version per chart and for --versions *)
Theorem C20_search_add_repo :
  forall (sorter : list centry -> list centry),
    (forall l, Permutation (sorter l) l) ->
    forall (nil_slice : string -> bool) (all : bool) (rname : string) (i : rawindex),
      Forall (fun ne => Forall (fun e => exists m, e = Some (Some m)) (snd ne)) (entries_of i) ->
      no_panic (add_repo sorter true nil_slice all rname i).
Proof. intros s Hs ns all rn i H. exact (add_repo_ok s Hs ns all rn i H). Qed.
Print Assumptions C20_search_add_repo.

(* seeded defect C20-4: with `ref == nil` for the guard, a chart name whose entries were all
   null / without metadata / invalid (an empty, non-nil list after loadIndex) reaches ref[0] *)
Theorem C20_search_add_repo_refuted :
  exists r : rawindex,
    match load_index (fun _ => false) (fun l => l) true r with
    | Ok i => is_panic (add_repo (fun l => l) false (fun _ => false) false "repo" i)
    | _ => false
    end = true.
Proof. exact add_repo_nil_guard_refuted. Qed.
Print Assumptions C20_search_add_repo_refuted.

(* F3: loadIndex before 161cdc1 leaves the null entry and SortEntries dereferences it *)
Theorem C20_index_refuted :
  exists r : rawindex, is_panic (load_index (fun _ => true) (fun l => l) false r) = true.
Proof. exact (ex_intro _ idx_f3 load_index_prefix_panics). Qed.
Print Assumptions C20_index_refuted.

(* found by this check: Merge before 7353d5a writes into the nil entries map of an index
   loaded from a file without an entries key *)
Theorem C20_index_merge_refuted :
  exists i f : rawindex,
    ri_entries i = None /\
    is_panic (merge (fun _ => true) unit (fun _ => Some tt) (fun _ _ => true) false i f) = true.
Proof. exact merge_unguarded_refuted. Qed.
Print Assumptions C20_index_merge_refuted.

(* ---- C20_sort_manifests: SortManifests over every head shape ---- *)

(* documents without metadata, with null / empty annotations, non-numeric weights (any Atoi),
   unknown events (any event table), empty kinds, unparsable documents; any kind-sort functions *)
Theorem C20_sort_manifests :
  forall (atoi : string -> option Z) (norm_item : string -> string) (event_of : string -> option string)
         (kind_sort_m : list manifest -> list manifest) (kind_sort_h : list hook -> list hook)
         (fs : list mfile),
    no_panic (sort_manifests atoi norm_item event_of kind_sort_m kind_sort_h true fs).
Proof. exact sort_manifests_no_panic. Qed.
Print Assumptions C20_sort_manifests.

(* an unparsable document that is reached makes the call an error (not a partial result) *)
Theorem C20_sort_manifests_parse_error :
  forall (atoi : string -> option Z) (norm_item : string -> string) (event_of : string -> option string)
         (path : string) (ds1 ds2 : list doc),
    (forall d, In d ds1 -> d <> DBad) ->
    sort_docs atoi norm_item event_of true path (ds1 ++ DBad :: ds2) = Err.
Proof. exact sort_docs_bad. Qed.
Print Assumptions C20_sort_manifests_parse_error.

(* the guard entry.Metadata != nil of hasAnyAnnotation is what the theorem rests on *)
Theorem C20_sort_manifests_unguarded_refuted :
  exists fs : list mfile,
    is_panic (sort_manifests (fun _ => None) (fun s => s) (fun e => Some e) (fun l => l) (fun l => l) false fs) = true.
Proof. exact (ex_intro _ _ sort_unguarded_panics). Qed.
Print Assumptions C20_sort_manifests_unguarded_refuted.

(* ---- C20_schema_walk: ValidateAgainstSchema over any chart tree and any value tree ---- *)

(* a subchart's slot absent, null, a scalar, a list or a table; the JSON-schema library may
   return anything, including a panic (recovered inside ValidateAgainstSingleSchema) *)
Theorem C20_schema_walk :
  forall (S : Type) (lib_validate : S -> vmap -> res bool) (c : schart S) (values : vmap),
    no_panic (validate_schema S lib_validate true c values).
Proof. exact validate_schema_no_panic. Qed.
Print Assumptions C20_schema_walk.

(* found by this check: the walk before a1cf667 asserts the slot's type unchecked *)
Theorem C20_schema_walk_refuted :
  exists (c : schart unit) (values : vmap),
    is_panic (validate_schema unit (fun _ _ => Ok true) false c values) = true.
Proof. exact (ex_intro _ _ (ex_intro _ _ validate_schema_unchecked_panics)). Qed.
Print Assumptions C20_schema_walk_refuted.

(* was the unchecked assertion safe behind CoalesceValues (ToRenderValues)?  Yes when sibling
   subcharts have distinct names at every level: coalescing (shared model Values/Coalesce.v)
   leaves a table under every subchart's name, recursively, and the OLD walk cannot panic *)
Theorem C20_schema_walk_behind_coalesce :
  forall (S : Type) (schema_of : Coalesce.chart -> option S) (lib_validate : S -> vmap -> res bool)
         (c : Coalesce.chart) (vals v : vmap),
    uniq c -> Coalesce.coalesce_values_root c vals = Some v ->
    slots (Coalesce.cdeps c) v /\
    no_panic (validate_schema S lib_validate false (to_schart S schema_of c) v).
Proof.
  intros S so lv c vals v Hu H.
  exact (conj (coalesce_makes_slots false c Hu vals v H)
              (to_render_values_unchecked_safe S so lv c vals v Hu H)).
Qed.
Print Assumptions C20_schema_walk_behind_coalesce.

Example C20_schema_walk_behind_coalesce_hyp_met :
  uniq uniq_example /\ exists v, Coalesce.coalesce_values_root uniq_example [] = Some v.
Proof. exact uniq_example_ok. Qed.
Print Assumptions C20_schema_walk_behind_coalesce_hyp_met.

(* ... and no in general: two sibling subcharts named alike plus a subchart called "global" —
   the second sibling's coalesceGlobals pass replaces a grandchild's table by a scalar; the
   values coalesce, the old walk panics on them (confirmed on the real pre-a1cf667 code), the
   repaired walk returns an error *)
Theorem C20_schema_walk_behind_coalesce_refuted :
  exists c : Coalesce.chart,
    (exists v, Coalesce.coalesce_values_root c [] = Some v) /\
    match Coalesce.coalesce_values_root c [] with
    | Some v => is_panic (validate_schema unit (fun _ _ => Ok true) false (to_schart unit (fun _ => None) c) v)
    | None => false
    end = true /\
    match Coalesce.coalesce_values_root c [] with
    | Some v => validate_schema unit (fun _ _ => Ok true) true (to_schart unit (fun _ => None) c) v
    | None => Panic "no values"
    end = Ok false.
Proof. exact cex_refutes. Qed.
Print Assumptions C20_schema_walk_behind_coalesce_refuted.

(* ---- C20_strvals (stretch): the --set parsers over every byte string ---- *)

(* the limits the statements below are about, as they stand in pkg/strvals/parser.go *)
Theorem C20_strvals_limits_table :
  strvals_max_index = 65536%Z /\ strvals_max_nested_name_level = 30%Z /\
  engine_recursion_max_nums = 1000%Z.       (* bound of include / tpl nesting, used by the exploration *)
Proof. exact (conj eq_refl (conj eq_refl eq_refl)). Qed.
Print Assumptions C20_strvals_limits_table.

(* for every parser mode, every destination table, every input and every value of the
   limits: parse returns a result or an error — no panic leaves it (the recover() of key)
   and the recursion of key / listItem never exceeds twice the input length + 2 (never Fatal) *)
Theorem C20_strvals :
  forall (cfg : pcfg) (max_index : Z) (max_level : nat) (alloc_limit : Z) (count_items : bool)
         (dest : vmap) (input : string),
    match parse cfg true max_index max_level alloc_limit count_items dest input with
    | Fatal => False
    | Ret r => no_panic r
    end.
Proof. exact parse_safe. Qed.
Print Assumptions C20_strvals.

(* since f627983 (list items count as nesting levels) the recursion depth is bounded by a
   constant, 3 * MaxNestedNameLevel + 3 calls, whatever the input *)
Theorem C20_strvals_depth_bounded :
  forall (cfg : pcfg) (rec_on : bool) (max_index alloc_limit : Z) (max_level : nat)
         (d : vmap) (s : string),
    key cfg rec_on max_index max_level alloc_limit true (3 * max_level + 3) d 0 s <> Fatal.
Proof.
  intros cfg r mi al M d s.
  exact (proj1 (depth_const cfg r mi al M (3 * M + 3) 0)
               (eq_ind_r (fun n => 3 * n + 3 <= 3 * M + 3) (le_n _) (PeanoNat.Nat.sub_0_r M)) d s).
Qed.
Print Assumptions C20_strvals_depth_bounded.

(* found by this check: before f627983 the depth grew with the input — the budget that now
   suffices for every input is exhausted by 32 list items (on the real code: a fatal,
   unrecoverable stack overflow for "a" + "[0].a" x 1 000 000) *)
Theorem C20_strvals_depth_refuted :
  exists s : string,
    key (mkCfg MTyped [] []) true 65536 30 1000000 false (3 * 30 + 3) [] 0 s = Fatal /\
    key (mkCfg MTyped [] []) true 65536 30 1000000 true (3 * 30 + 3) [] 0 s = Ret Err.
Proof. exact (ex_intro _ deep_items (conj depth_unbounded_before_fix depth_bounded_after_fix)). Qed.
Print Assumptions C20_strvals_depth_refuted.

(* setIndex under the MaxIndex bound never indexes out of range nor asks make() for more than
   MaxIndex + 1 elements *)
Theorem C20_strvals_set_index :
  forall (max_index alloc_limit : Z) (l : list val) (i : Z) (v : val),
    (max_index + 1 <= alloc_limit)%Z -> no_panic (set_index_body max_index alloc_limit l i v).
Proof. exact set_index_body_no_panic. Qed.
Print Assumptions C20_strvals_set_index.

Example C20_strvals_set_index_hyp_met : (strvals_max_index + 1 <= 2 ^ 40)%Z.
Proof. exact (Zle_bool_imp_le (strvals_max_index + 1) (2 ^ 40) (eq_refl true)). Qed.
Print Assumptions C20_strvals_set_index_hyp_met.

(* what the recover() of key and the MaxIndex bound are there for *)
Theorem C20_strvals_unguarded_refuted :
  (exists w, parse (mkCfg MTyped [] []) false 65536 30 1000000 true [] "a=x,a[0]=y" = Ret (Panic w)) /\
  is_panic (set_index_body (2 ^ 62) (2 ^ 40) [] (2 ^ 41) VNull) = true.
Proof. exact (conj parse_without_recover_panics set_index_unbounded_panics). Qed.
Print Assumptions C20_strvals_unguarded_refuted.

(* ---- C20_rec: no unbounded recursion through include / tpl (pkg/engine/engine.go) ---- *)

(* An execution is ANY sequence of enter / leave events of include, tpl and `template` calls with
   any names and texts (every prefix of every execution, terminating or not).  tpl: when the key
   of its counter is the same for every text, at most recursionMaxNums + 1 tpl calls are ever
   nested *)
Theorem C20_tpl_depth_bounded :
  forall (c : rcfg) (t : list ev),
    (0 <= rc_max c)%Z -> (0 <= rc_tmax c)%Z -> rc_tpl_on c = true ->
    (forall x y, rc_tpl_key c x = rc_tpl_key c y) ->
    (Z.of_nat (count_kind KTpl (s_stack (run_trace c rinit t))) <= rc_max c + 1)%Z.
Proof. exact tpl_depth_bounded. Qed.
Print Assumptions C20_tpl_depth_bounded.

(* include: with the counter over all names (since 55109f6) at most recursionMaxNums + 1 include
   calls are ever nested, whatever the names *)
Theorem C20_include_depth_bounded :
  forall (c : rcfg) (t : list ev) (tk : string),
    (0 <= rc_max c)%Z -> (0 <= rc_tmax c)%Z -> rc_total c = Some tk ->
    (Z.of_nat (count_kind KInclude (s_stack (run_trace c rinit t))) <= rc_max c + 1)%Z.
Proof. exact include_depth_bounded. Qed.
Print Assumptions C20_include_depth_bounded.

(* include, from the per-name counters alone (all there was before 55109f6): a chain
   a -> b -> c ... is bounded by the number of names times recursionMaxNums + 1 — finite for
   every chart, but not a constant *)
Theorem C20_include_per_name_bounded :
  forall (c : rcfg) (t : list ev) (names : list string),
    (0 <= rc_max c)%Z -> (0 <= rc_tmax c)%Z ->
    (forall f, In f (s_stack (run_trace c rinit t)) -> f_kind f = KInclude ->
               In (rc_inc_key c (f_arg f)) names) ->
    (Z.of_nat (count_kind KInclude (s_stack (run_trace c rinit t))) <=
     Z.of_nat (List.length names) * (rc_max c + 1))%Z.
Proof. exact include_names_bounded. Qed.
Print Assumptions C20_include_per_name_bounded.

(* the whole call stack, frames of the `template` action included (text/template bounds them by
   maxExecDepth per execution state, and every include / tpl starts a new state): a constant *)
Theorem C20_render_stack_bounded :
  forall (c : rcfg) (t : list ev) (tk : string),
    (0 <= rc_max c)%Z -> (0 <= rc_tmax c)%Z -> rc_total c = Some tk -> rc_tpl_on c = true ->
    (forall x y, rc_tpl_key c x = rc_tpl_key c y) ->
    (Z.of_nat (List.length (s_stack (run_trace c rinit t))) <=
     rc_tmax c + (rc_tmax c + 1) * (2 * (rc_max c + 1)))%Z.
Proof. exact stack_depth_bounded. Qed.
Print Assumptions C20_render_stack_bounded.

Example C20_rec_hyps_met :
  (0 <= rc_max engine_cfg)%Z /\ (0 <= rc_tmax engine_cfg)%Z /\ rc_total engine_cfg = Some include_depth_key /\
  rc_tpl_on engine_cfg = true /\ (forall x y, rc_tpl_key engine_cfg x = rc_tpl_key engine_cfg y).
Proof. exact engine_cfg_ok. Qed.
Print Assumptions C20_rec_hyps_met.

(* the translator's tables (Gen/C20Rec.v, from engine.go on every run): the keys that tplFun and
   includeFun compare with recursionMaxNums, increment and decrement are those of the model; in
   particular the tpl key does not depend on the template text *)
Theorem C20_engine_counter_keys_table :
  (forall text, engine_tpl_guard_keys text = [rc_tpl_key engine_cfg text]) /\
  (forall text, engine_tpl_inc_keys text = engine_tpl_guard_keys text) /\
  (forall text, engine_tpl_dec_keys text = engine_tpl_inc_keys text) /\
  (forall name, engine_include_guard_keys name =
                (match rc_total engine_cfg with Some k => [k] | None => [] end ++ [rc_inc_key engine_cfg name])%list) /\
  (forall name, engine_include_inc_keys name = engine_include_guard_keys name) /\
  (forall name, engine_include_dec_keys name = engine_include_inc_keys name) /\
  rc_max engine_cfg = engine_recursion_max_nums.
Proof. exact engine_keys_tie. Qed.
Print Assumptions C20_engine_counter_keys_table.

Theorem C20_engine_counter_keys_constant :
  (forall t1 t2, engine_tpl_guard_keys t1 = engine_tpl_guard_keys t2) /\
  (forall t, engine_tpl_guard_keys t <> []) /\
  (forall n1 n2, hd_error (engine_include_guard_keys n1) = hd_error (engine_include_guard_keys n2)) /\
  (forall n, hd_error (engine_include_guard_keys n) <> None).
Proof. exact engine_keys_constant. Qed.
Print Assumptions C20_engine_counter_keys_constant.

(* the seeded change C20-7 (tpl counted per text): n tpl calls with n different texts nest n
   deep, for every n *)
Theorem C20_tpl_key_per_text_refuted :
  forall n : nat,
    count_kind KTpl (s_stack (run_trace engine_cfg_tpl_per_text rinit (tpl_trace n))) = n.
Proof. exact (fun n => proj1 (proj2 (tpl_per_text_unbounded n))). Qed.
Print Assumptions C20_tpl_key_per_text_refuted.

(* found by this check: before 55109f6 three templates that include each other nested 3003 deep
   (on the real engine 200 templates ran out of stack); with the counter over all names the same
   calls stop at 1001 *)
Theorem C20_include_cycle_refuted :
  count_kind KInclude (s_stack (run_trace engine_cfg_per_name rinit (cycle_trace ["a"; "b"; "c"] 1100))) = 3003%nat /\
  count_kind KInclude (s_stack (run_trace engine_cfg rinit (cycle_trace ["a"; "b"; "c"] 1100))) = 1001%nat.
Proof. exact include_cycle_depth_real. Qed.
Print Assumptions C20_include_cycle_refuted.

(* the known finding K10: the bound of C20_render_stack_bounded is a product and it is attained —
   `template` nests tmax deep inside each of max+1 include frames (here max = 2, tmax = 3) *)
Theorem C20_include_times_template_refuted :
  List.length (s_stack (run_trace tiny_cfg rinit (inc_tmpl_trace 10 10))) = 12%nat.
Proof. exact include_times_template_depth. Qed.
Print Assumptions C20_include_times_template_refuted.

(* ---- C20_load_dir: only regular files of a chart directory are opened (no hang on a pipe) ---- *)

(* for every kind of directory entry — regular, directory, named pipe, socket, device, character
   device, irregular, and a symbolic link to each of them or to nothing — ignored or not, of any
   size: os.ReadFile is called only on what resolves to a regular file *)
Theorem C20_load_dir_only_regular_opened :
  forall (top : bool) (e : etype) (ignored size_ok : bool),
    entry_action gate_not_regular top e ignored size_ok = AOpen -> resolved e = Some FRegular.
Proof. exact only_regular_opened. Qed.
Print Assumptions C20_load_dir_only_regular_opened.

(* ... and what becomes of every other entry: an error, or skipped as the code says *)
Theorem C20_load_dir_entry_table :
  forall (e : etype) (ignored size_ok : bool),
    entry_action gate_not_regular false e ignored size_ok =
    match resolved e with
    | None => AErr
    | Some FDir => if ignored then ASkipDir else ADescend
    | Some FRegular => if ignored then ASkipFile else if size_ok then AOpen else AErr
    | Some _ => if ignored then ASkipFile else AErr
    end.
Proof. exact entry_table. Qed.
Print Assumptions C20_load_dir_entry_table.

(* over a whole directory tree of any shape *)
Theorem C20_load_dir_walk :
  forall n : node, Forall (fun e => resolved e = Some FRegular) (opened gate_not_regular n).
Proof. exact walk_opens_regular_only. Qed.
Print Assumptions C20_load_dir_walk.

(* the translator's table (Gen/C20Rec.v, from directory.go on every run): the conditions of the
   walk callback that return before os.ReadFile, over all 128 combinations of the type bits of
   os.FileMode and every value of the conditions that do not test the mode — os.ReadFile is
   reached only for a mode without type bits (FileMode.IsRegular), and exactly when the model's
   decision function says so *)
Theorem C20_load_dir_gate_table :
  forall (m : fmode) (o : list bool),
    List.length o = loaddir_atoms ->
    (loaddir_readfile_reached m o = true -> is_regular m = true) /\
    loaddir_readfile_reached m o =
      open_b (walk_fn gate_not_regular (nth 0 o false) (nth 1 o false) m (nth 2 o false) (negb (nth 3 o false))).
Proof. exact gate_tie. Qed.
Print Assumptions C20_load_dir_gate_table.

(* the seeded change C20-8 (refuse only device / char-device / socket bits): a named pipe,
   directly or behind a symbolic link, reaches os.ReadFile *)
Theorem C20_load_dir_gate_refuted :
  entry_action gate_c20_8 false (TPlain FPipe) false true = AOpen /\
  entry_action gate_c20_8 false (TSymlink (Some FPipe)) false true = AOpen /\
  entry_action gate_c20_8 false (TPlain FIrregular) false true = AOpen /\
  existsb (fun m => negb (Bool.eqb (gate_c20_8 m) (negb (is_regular m)))) all_modes = true.
Proof. exact gate_c20_8_opens_pipe. Qed.
Print Assumptions C20_load_dir_gate_refuted.

(* ---- C20_coalesce: value computation (pkg/chart/v2/util/coalesce.go) ---- *)

(* CoalesceValues / MergeValues with the `istable` tests and the unchecked type assertions behind
   them written separately, as in the Go code (coalesceDeps :118, coalesceGlobals :159,
   coalesceTablesFullKey :300): for every chart tree and every values tree the result is the one
   of the shared value model — so no assertion fires; the theorems about load+ProcessDependencies
   above take CoalesceValues as "any function", this is the function *)
Theorem C20_coalesce_values :
  forall (merge : bool) (c : Coalesce.chart) (vals : vmap),
    coalesce_p true merge c vals = opt_res (Coalesce.coalesce merge c vals) /\
    no_panic (coalesce_p true merge c vals).
Proof. intros. split; [apply coalesce_p_agrees|apply coalesce_p_no_panic]. Qed.
Print Assumptions C20_coalesce_values.

(* CoalesceTables / MergeTables *)
Theorem C20_coalesce_tables :
  forall (merge : bool) (dst src : vmap),
    coalesce_tables_p merge dst src = Ok (Coalesce.coalesce_tables merge dst src).
Proof. exact coalesce_tables_p_agrees. Qed.
Print Assumptions C20_coalesce_tables.

(* trimNilValues (dependencies.go :348): the assertion under istable(val) *)
Theorem C20_trim_nil_values : forall v : val, no_panic (trim_nil_p v).
Proof. exact trim_nil_p_no_panic. Qed.
Print Assumptions C20_trim_nil_values.

(* the `!istable(c)` branch of coalesceDeps is what the assertion after it rests on *)
Theorem C20_coalesce_unguarded_refuted :
  is_panic (coalesce_p false false (Coalesce.mkChart "top" [] [Coalesce.mkChart "sub" [] []]) [("sub", VStr "x")]) = true /\
  coalesce_p true false (Coalesce.mkChart "top" [] [Coalesce.mkChart "sub" [] []]) [("sub", VStr "x")] = Err.
Proof. exact coalesce_unguarded_panics. Qed.
Print Assumptions C20_coalesce_unguarded_refuted.

(* ---- C20_plugin / C20_prov_message: two pieces of glue with index expressions ---- *)

(* plugin.yaml -> LoadDir (validatePluginData) -> Plugin.PrepareCommand (getPlatformCommand,
   PrepareCommands): cmdParts[0] and cmdParts[1:] are in range and p.Metadata is not nil, for every
   decoded metadata (absent too), every platformCommand list and every behaviour of
   strings.EqualFold / strings.Split / os.ExpandEnv / the name regexp *)
Theorem C20_plugin_prepare_command :
  forall (eq_fold : string -> string -> bool) (goos goarch : string) (expand : string -> string)
         (split_space : string -> list string) (name_ok : string -> bool)
         (md : option pmeta) (extra : list string),
    no_panic (load_and_prepare eq_fold goos goarch expand split_space name_ok md extra).
Proof. exact load_and_prepare_no_panic. Qed.
Print Assumptions C20_plugin_prepare_command.

(* a Plugin that did not come from LoadDir (nil Metadata) does panic, and so does an empty
   command list without the length test in front of cmdParts[0] *)
Theorem C20_plugin_unguarded_refuted :
  is_panic (prepare_command eq_fold_ascii "linux" "amd64" (fun s => s) split_space_s true None []) = true /\
  is_panic (prepare_commands eq_fold_ascii "linux" "amd64" (fun s => s) split_space_s false [] true []) = true /\
  prepare_commands eq_fold_ascii "linux" "amd64" (fun s => s) split_space_s true [] true [] = Err.
Proof. exact plugin_unguarded_panics. Qed.
Print Assumptions C20_plugin_unguarded_refuted.

(* provenance parseMessageBlock: parts[0] and parts[1] behind len(parts) < 2, for every result
   of bytes.Split and every verdict of the YAML decoder *)
Theorem C20_prov_message_block :
  forall (B : Type) (unmarshal_md unmarshal_sums : B -> bool) (parts : list B),
    no_panic (parse_message_block B unmarshal_md unmarshal_sums 2 parts).
Proof. exact parse_message_block_no_panic. Qed.
Print Assumptions C20_prov_message_block.

Theorem C20_prov_message_block_refuted :
  is_panic (parse_message_block string (fun _ => true) (fun _ => true) 1 ["only one part"]) = true /\
  parse_message_block string (fun _ => true) (fun _ => true) 2 ["only one part"] = Err.
Proof. exact parse_message_block_unguarded_panics. Qed.
Print Assumptions C20_prov_message_block_refuted.

(* C04 — property theorems only: each closed by [exact] of a lemma proved elsewhere, or by
   computation over a table regenerated from /repo. *)
From Coq Require Import List String.
From Helm Require Import Values.Tree Values.Merge Values.Coalesce Gen.ValueOrder.
Import ListNotations.
Local Open Scope string_scope.

(* The order in which values.Options.MergeValues (pkg/cli/values/options.go) folds the flag
   families into the result, lowest precedence first:
   -f files < --set-json < --set < --set-string < --set-file < --set-literal,
   and the function each family is merged with. *)
Theorem C04_flag_family_order :
  value_order = ["ValueFiles"; "JSONValues"; "Values"; "StringValues"; "FileValues"; "LiteralValues"]
  /\ value_order_calls = ["loader.MergeMaps"; "loader.MergeMaps+strvals.ParseJSON"; "strvals.ParseInto";
                          "strvals.ParseIntoString"; "strvals.ParseIntoFile"; "strvals.ParseLiteralInto"].
Proof. split; reflexivity. Qed.
Print Assumptions C04_flag_family_order.

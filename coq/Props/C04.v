(* C04 — property theorems only: each closed by [exact] of a lemma proved elsewhere, or by
   computation over a table regenerated from /repo. *)
From Coq Require Import List String ZArith.
From Helm Require Import Values.Tree Values.Merge Values.Coalesce Values.Options
                         Values.MergeProofs Values.CoalesceProofs Gen.ValueOrder.
Import ListNotations.
Local Open Scope string_scope.

(* loader.MergeMaps folded over any list of sources (low -> high precedence, e.g. the -f files
   in command-line order): at every path the leaf (scalar, null or list: anything that is not
   a table) of the result is the leaf of the LAST source that defines the path; a source
   defines a path when walking it reaches the end or meets a non-table on the way (which
   replaces everything below); tables merge key by key. *)
Theorem C04_merge_precedence : forall (srcs : list val) (base : val) (p : list string),
  Forall wf srcs ->
  leaf_at p (merge_all base srcs) =
  match last_defining p srcs with
  | Some s => leaf_at p s
  | None => leaf_at p base
  end.
Proof. exact merge_all_leaf. Qed.
Print Assumptions C04_merge_precedence.

Example C04_merge_precedence_nonvacuous :
  Forall wf ex_srcs
  /\ leaf_at ["a"; "x"] (merge_all (VMap []) ex_srcs) = Some VNull
  /\ leaf_at ["a"; "y"] (merge_all (VMap []) ex_srcs) = Some (VNum 2%Z)
  /\ leaf_at ["l"] (merge_all (VMap []) ex_srcs) = Some (VList [VNum 3%Z])
  /\ leaf_at ["s"] (merge_all (VMap []) ex_srcs) = None
  /\ leaf_at ["s"; "now"] (merge_all (VMap []) ex_srcs) = Some (VStr "table").
Proof. exact (conj ex_srcs_wf ex_merge_values). Qed.
Print Assumptions C04_merge_precedence_nonvacuous.

(* The order in which values.Options.MergeValues (pkg/cli/values/options.go) folds the flag
   families into the result, lowest precedence first:
   -f files < --set-json < --set < --set-string < --set-file < --set-literal,
   and the function each family is merged with.  [value_order] / [value_order_calls] are
   regenerated from the Go source on every run; the model Options.merge_values is the fold in
   [expected_order]. *)
Theorem C04_flag_family_order :
  value_order = ["ValueFiles"; "JSONValues"; "Values"; "StringValues"; "FileValues"; "LiteralValues"]
  /\ value_order = expected_order
  /\ value_order_calls = ["loader.MergeMaps"; "loader.MergeMaps+strvals.ParseJSON"; "strvals.ParseInto";
                          "strvals.ParseIntoString"; "strvals.ParseIntoFile"; "strvals.ParseLiteralInto"]
  /\ (forall o, merge_values o = merge_values_in value_order o []).
Proof. repeat split; reflexivity. Qed.
Print Assumptions C04_flag_family_order.

(* ToRenderValues for a chart without dependencies: a value the user sets wins; a path the
   user says nothing about shows the chart's default; a user null removes a default (and
   stays as a null where there is no default); nested tables merge (the clauses hold at every
   depth). *)
Theorem C04_coalesce_precedence : forall (name : string) (dflt user : vmap),
  wf (VMap dflt) ->
  exists r, to_render_values (mkChart name dflt []) user = Some r
  /\ (forall p x, lookup_path p (VMap user) = Some x -> is_table x = false -> x <> VNull ->
                  lookup_path p (VMap r) = Some x)
  /\ (forall p, defines p (VMap user) = false -> lookup_path p (VMap r) = lookup_path p (VMap dflt))
  /\ (forall p y, lookup_path p (VMap user) = Some VNull -> lookup_path p (VMap dflt) = Some y ->
                  lookup_path p (VMap r) = None)
  /\ (forall p, lookup_path p (VMap user) = Some VNull -> lookup_path p (VMap dflt) = None ->
                lookup_path p (VMap r) = Some VNull).
Proof. exact coalesce_single_chart. Qed.
Print Assumptions C04_coalesce_precedence.

(* chartutil.MergeValues (used while values are still being assembled): same precedence, but a
   user null survives *)
Theorem C04_merge_values_keeps_null : forall (name : string) (dflt user : vmap),
  wf (VMap dflt) ->
  exists r, merge_values_root (mkChart name dflt []) user = Some r
  /\ (forall p x, lookup_path p (VMap user) = Some x -> is_table x = false -> x <> VNull ->
                  lookup_path p (VMap r) = Some x)
  /\ (forall p, defines p (VMap user) = false -> lookup_path p (VMap r) = lookup_path p (VMap dflt))
  /\ (forall p, lookup_path p (VMap user) = Some VNull -> lookup_path p (VMap r) = Some VNull).
Proof. exact merge_values_single_chart. Qed.
Print Assumptions C04_merge_values_keeps_null.

Example C04_coalesce_precedence_nonvacuous :
  wf (VMap ex_dflt)
  /\ exists r, to_render_values (mkChart "top" ex_dflt []) ex_user = Some r
  /\ lookup_path ["a"; "x"] (VMap r) = None
  /\ lookup_path ["a"; "y"] (VMap r) = Some (VNum 2%Z)
  /\ lookup_path ["a"; "w"] (VMap r) = Some (VStr "new")
  /\ lookup_path ["c"] (VMap r) = Some (VStr "scalar")
  /\ lookup_path ["d"] (VMap r) = Some VNull
  /\ lookup_path ["b"] (VMap r) = Some (VStr "keep").
Proof. exact (conj ex_dflt_wf ex_coalesce). Qed.
Print Assumptions C04_coalesce_precedence_nonvacuous.

(* C04 — property theorems only: each closed by [exact] of a lemma proved elsewhere, or by
   computation over a table regenerated from /repo. *)
From Coq Require Import List String ZArith.
From Helm Require Import Values.Tree Values.Merge Values.Coalesce Values.Options
                         Values.MergeProofs Values.CoalesceProofs Values.SubchartProofs Values.DepthProofs Values.GlobalProofs
                         Values.Strvals Values.StrvalsProofs Values.GrammarProofs Gen.ValueOrder.
Import ListNotations.
Local Open Scope string_scope.

(* loader.MergeMaps folded over any list of sources (low -> high precedence, e.g. the -f files
   in command-line order): at every path the leaf (scalar, null or list: anything that is not
   a table) of the result is the leaf of the LAST source that defines the path; a source
   defines a path when walking it reaches the end or meets a non-table on the way (which
   replaces everything below); tables merge key by key. *)
Theorem C04_merge_precedence : forall (srcs : list val) (base : val) (p : list string),
  Forall wf srcs ->
  leaf_at p (merge_all base srcs) =
  match last_defining p srcs with
  | Some s => leaf_at p s
  | None => leaf_at p base
  end.
Proof. exact merge_all_leaf. Qed.
Print Assumptions C04_merge_precedence.

Example C04_merge_precedence_nonvacuous :
  Forall wf ex_srcs
  /\ leaf_at ["a"; "x"] (merge_all (VMap []) ex_srcs) = Some VNull
  /\ leaf_at ["a"; "y"] (merge_all (VMap []) ex_srcs) = Some (VNum 2%Z)
  /\ leaf_at ["l"] (merge_all (VMap []) ex_srcs) = Some (VList [VNum 3%Z])
  /\ leaf_at ["s"] (merge_all (VMap []) ex_srcs) = None
  /\ leaf_at ["s"; "now"] (merge_all (VMap []) ex_srcs) = Some (VStr "table").
Proof. exact (conj ex_srcs_wf ex_merge_values). Qed.
Print Assumptions C04_merge_precedence_nonvacuous.

(* The order in which values.Options.MergeValues (pkg/cli/values/options.go) folds the flag
   families into the result, lowest precedence first:
   -f files < --set-json < --set < --set-string < --set-file < --set-literal,
   and the function each family is merged with.  [value_order] / [value_order_calls] are
   regenerated from the Go source on every run; the model Options.merge_values is the fold in
   [expected_order]. *)
Theorem C04_flag_family_order :
  value_order = ["ValueFiles"; "JSONValues"; "Values"; "StringValues"; "FileValues"; "LiteralValues"]
  /\ value_order = expected_order
  /\ value_order_calls = ["loader.MergeMaps"; "loader.MergeMaps+strvals.ParseJSON"; "strvals.ParseInto";
                          "strvals.ParseIntoString"; "strvals.ParseIntoFile"; "strvals.ParseLiteralInto"]
  /\ (forall o, merge_values o = merge_values_in value_order o []).
Proof. repeat split; reflexivity. Qed.
Print Assumptions C04_flag_family_order.

(* ToRenderValues for a chart without dependencies: a value the user sets wins; a path the
   user says nothing about shows the chart's default; a user null removes a default (and
   stays as a null where there is no default); nested tables merge (the clauses hold at every
   depth). *)
Theorem C04_coalesce_precedence : forall (name : string) (dflt user : vmap),
  wf (VMap dflt) ->
  exists r, to_render_values (mkChart name dflt []) user = Some r
  /\ (forall p x, lookup_path p (VMap user) = Some x -> is_table x = false -> x <> VNull ->
                  lookup_path p (VMap r) = Some x)
  /\ (forall p, defines p (VMap user) = false -> lookup_path p (VMap r) = lookup_path p (VMap dflt))
  /\ (forall p y, lookup_path p (VMap user) = Some VNull -> lookup_path p (VMap dflt) = Some y ->
                  lookup_path p (VMap r) = None)
  /\ (forall p, lookup_path p (VMap user) = Some VNull -> lookup_path p (VMap dflt) = None ->
                lookup_path p (VMap r) = Some VNull).
Proof. exact coalesce_single_chart. Qed.
Print Assumptions C04_coalesce_precedence.

(* chartutil.MergeValues (used while values are still being assembled): same precedence, but a
   user null survives *)
Theorem C04_merge_values_keeps_null : forall (name : string) (dflt user : vmap),
  wf (VMap dflt) ->
  exists r, merge_values_root (mkChart name dflt []) user = Some r
  /\ (forall p x, lookup_path p (VMap user) = Some x -> is_table x = false -> x <> VNull ->
                  lookup_path p (VMap r) = Some x)
  /\ (forall p, defines p (VMap user) = false -> lookup_path p (VMap r) = lookup_path p (VMap dflt))
  /\ (forall p, lookup_path p (VMap user) = Some VNull -> lookup_path p (VMap r) = Some VNull).
Proof. exact merge_values_single_chart. Qed.
Print Assumptions C04_merge_values_keeps_null.

Example C04_coalesce_precedence_nonvacuous :
  wf (VMap ex_dflt)
  /\ exists r, to_render_values (mkChart "top" ex_dflt []) ex_user = Some r
  /\ lookup_path ["a"; "x"] (VMap r) = None
  /\ lookup_path ["a"; "y"] (VMap r) = Some (VNum 2%Z)
  /\ lookup_path ["a"; "w"] (VMap r) = Some (VStr "new")
  /\ lookup_path ["c"] (VMap r) = Some (VStr "scalar")
  /\ lookup_path ["d"] (VMap r) = Some VNull
  /\ lookup_path ["b"] (VMap r) = Some (VStr "keep").
Proof. exact (conj ex_dflt_wf ex_coalesce). Qed.
Print Assumptions C04_coalesce_precedence_nonvacuous.

(* With dependencies (CoalesceValues when merge = false, MergeValues when merge = true): inside
   the scope of a direct subchart without dependencies of its own, at every path that does not
   start at "global" (globals flow top-down, C11): the user's value wins; else the parent
   chart's own section for the subchart; else the subchart's default shows. *)
Theorem C04_coalesce_subchart_precedence :
  forall (merge : bool) (n : string) (dflt : vmap) (deps : list chart) (user : vmap) (sub : chart) (r : vmap),
  wf (VMap dflt) -> wf (VMap (cvalues sub)) ->
  NoDup (map cname deps) -> In sub deps -> cdeps sub = [] ->
  coalesce merge (mkChart n dflt deps) user = Some r ->
  forall (k : string) (p' : list string), k <> global_key ->
  (forall x, lookup_path (cname sub :: k :: p') (VMap user) = Some x -> is_table x = false -> x <> VNull ->
             lookup_path (cname sub :: k :: p') (VMap r) = Some x)
  /\ (forall x, defines (cname sub :: k :: p') (VMap user) = false ->
                lookup_path (cname sub :: k :: p') (VMap dflt) = Some x -> is_table x = false -> x <> VNull ->
                lookup_path (cname sub :: k :: p') (VMap r) = Some x)
  /\ (defines (cname sub :: k :: p') (VMap user) = false -> defines (cname sub :: k :: p') (VMap dflt) = false ->
      lookup_path (cname sub :: k :: p') (VMap r) = lookup_path (k :: p') (VMap (cvalues sub))).
Proof. exact coalesce_subchart. Qed.
Print Assumptions C04_coalesce_subchart_precedence.

Example C04_coalesce_subchart_nonvacuous :
  wf (VMap (cvalues ex_top)) /\ wf (VMap (cvalues ex_sub)) /\ NoDup (map cname (cdeps ex_top))
  /\ exists r, coalesce false ex_top ex_vals = Some r
     /\ lookup_path ["sub"; "q"; "r"] (VMap r) = Some (VStr "user")
     /\ lookup_path ["sub"; "p"] (VMap r) = Some (VNum 2%Z)
     /\ lookup_path ["sub"; "o"] (VMap r) = Some (VStr "own").
Proof. exact ex_subchart. Qed.
Print Assumptions C04_coalesce_subchart_nonvacuous.

(* --set / --set-string on an expression built by the printer [show_set] from a non-empty path
   of non-empty keys (any bytes; '.', ',', '=', '[' and '\' escaped with a backslash, at most
   31 keys = the parser's nesting limit) and any scalar text (',', '\' and '{' escaped), over a
   destination in which every existing value on the way is a table: the parse succeeds, the
   result is the destination with exactly the named path set to the typed value (true / false /
   null / int64 / string by typedVal, or the string itself for --set-string), and every path
   of the destination that is neither above nor below the named one is unchanged.
   PARTIAL: the printer covers key paths and scalars; list indexes name[i], brace lists
   {a,b}, several name=value pairs in one expression, --set-json / --set-file / --set-literal
   and the statement that an unparsable expression leaves unrelated paths alone are not
   covered by this theorem (they rest on the correspondence run, incl. the exhaustive
   enumeration of short strings, and on the runtime oracle). *)
Theorem C04_set_frame_partial : forall (st : bool) (ks : list string) (v : string) (dest : vmap),
  ks <> [] -> Forall (fun k => k <> EmptyString) ks -> List.length ks <= 31 -> compat ks dest ->
  exists d',
    (if st then parse_into_string else parse_into) (show_set ks v) dest = POk d'
    /\ d' = set_path ks (typed_val st v) dest
    /\ lookup_path ks (VMap d') = Some (typed_val st v)
    /\ (forall q, related_b ks q = false -> lookup_path q (VMap d') = lookup_path q (VMap dest)).
Proof. exact set_frame. Qed.
Print Assumptions C04_set_frame_partial.

Example C04_set_frame_nonvacuous :
  compat ["a"; "x.y"] ex_dest
  /\ show_set ["a"; "x.y"] "true" = "a.x\.y=true"
  /\ parse_into (show_set ["a"; "x.y"] "true") ex_dest
     = POk [("a", VMap [("x.y", VBool true); ("keep", VNum 1%Z)]); ("b", VBool true)]
  /\ parse_into (show_set ["n"; "k,1"] "a,b") ex_dest
     = POk [("a", VMap [("x.y", VStr "old"); ("keep", VNum 1%Z)]); ("b", VBool true); ("n", VMap [("k,1", VStr "a,b")])].
Proof. exact ex_set_frame. Qed.
Print Assumptions C04_set_frame_nonvacuous.

(* Subcharts at ANY depth.  [ls] = the charts from the root down to the chart whose scope is
   looked at (each a loaded dependency of the one before, dependency names unique, none named
   "global", every values.yaml with unique keys); [scope_path ls] = the subchart names from the
   root; k :: p' = a path inside the last chart's scope that does not start at "global" nor at
   one of its own subcharts.  For CoalesceValues (merge = false) and MergeValues (true):
   - a non-null leaf the user sets there wins;
   - where the user's values say nothing about the path, [default_at ls (k :: p')] decides:
     the first chart on the way down (root first) whose own values.yaml holds a non-null leaf
     at the path inside its section for the chain, else the last chart's own defaults (the
     whole subtree or absence).  ([default_at] is None — nothing claimed — when some chart on
     the way holds a table, a null or a blocking scalar there.) *)
Theorem C04_coalesce_depth_precedence :
  forall (ls : list chart) (merge : bool) (c0 cn : chart) (dest r : vmap) (k : string) (p' : list string),
  valid_levels ls -> hd_error ls = Some c0 -> last_level ls = Some cn ->
  coalesce merge c0 dest = Some r ->
  k <> global_key -> ~ In k (map cname (cdeps cn)) ->
  let q := (scope_path ls ++ k :: p')%list in
  (forall x, lookup_path q (VMap dest) = Some x -> is_table x = false -> x <> VNull ->
             lookup_path q (VMap r) = Some x)
  /\ (defines q (VMap dest) = false ->
      match default_at ls (k :: p') with
      | Some o => lookup_path q (VMap r) = o
      | None => True
      end).
Proof. exact coalesce_depth. Qed.
Print Assumptions C04_coalesce_depth_precedence.

Example C04_coalesce_depth_nonvacuous :
  valid_levels [ex_l0; ex_l1; ex_l2]
  /\ exists r, coalesce false ex_l0 ex_uv = Some r
     /\ lookup_path ["mid"; "leaf"; "u"] (VMap r) = Some (VStr "user")
     /\ lookup_path ["mid"; "leaf"; "p"] (VMap r) = Some (VNum 2%Z)
     /\ lookup_path ["mid"; "leaf"; "q"] (VMap r) = Some (VStr "mid-q")
     /\ lookup_path ["mid"; "leaf"; "o"] (VMap r) = Some (VStr "own")
     /\ default_at [ex_l0; ex_l1; ex_l2] ["p"] = Some (Some (VNum 2%Z))
     /\ default_at [ex_l0; ex_l1; ex_l2] ["q"] = Some (Some (VStr "mid-q"))
     /\ default_at [ex_l0; ex_l1; ex_l2] ["o"] = Some (Some (VStr "own")).
Proof. exact ex_depth. Qed.
Print Assumptions C04_coalesce_depth_nonvacuous.

(* Paths inside "global": a (non-null) global leaf visible in a chart's coalesced values is
   visible at the same path inside every direct subchart's scope — the parent's global wins
   over whatever the subchart's section or defaults say — unless the subchart's own section
   (after the parent's defaults were applied: coalesce_values) holds, at the same top-level
   global key, a value of the other kind (a table where the parent has a non-table or the
   other way round; coalesceGlobals skips those with a warning) or a "global" that is not a
   table.  Applied again to the subchart's result it carries the leaf down any chain. *)
Theorem C04_global_flows_down :
  forall (merge : bool) (n : string) (dflt : vmap) (deps : list chart) (user : vmap) (sub : chart) (r : vmap)
         (g : string) (p' : list string) (x : val),
  wf (VMap dflt) -> wf (VMap user) -> wf (VMap (cvalues sub)) ->
  NoDup (map cname deps) -> In sub deps ->
  ~ In global_key (map cname deps) -> ~ In global_key (map cname (cdeps sub)) ->
  coalesce merge (mkChart n dflt deps) user = Some r ->
  lookup_path (global_key :: g :: p') (VMap r) = Some x -> is_table x = false -> x <> VNull ->
  match mget global_key (section_of (cname sub) (coalesce_values merge (mkChart n dflt deps) user)) with
  | None => True
  | Some (VMap mg) => match mget g mg with
                      | None => True
                      | Some y => is_table y = match p' with [] => false | _ => true end
                      end
  | Some _ => False
  end ->
  lookup_path (cname sub :: global_key :: g :: p') (VMap r) = Some x.
Proof. exact global_flows_down. Qed.
Print Assumptions C04_global_flows_down.

Example C04_global_flows_down_nonvacuous :
  exists r, coalesce false ex_gtop ex_guser = Some r
  /\ lookup_path ["global"; "a"; "b"] (VMap r) = Some (VStr "user-b")
  /\ lookup_path ["sub"; "global"; "a"; "b"] (VMap r) = Some (VStr "user-b")
  /\ lookup_path ["sub"; "global"; "a"; "own"] (VMap r) = Some (VStr "o")
  /\ lookup_path ["sub"; "global"; "t"] (VMap r) = Some (VStr "top-default")
  /\ mget global_key (section_of "sub" (coalesce_values false ex_gtop ex_guser)) = None.
Proof. exact ex_global. Qed.
Print Assumptions C04_global_flows_down_nonvacuous.

(* The frame of ANY parse by any of the five strvals entry points ([c] = the parser
   configuration), for every input string — well-formed or not — and every destination,
   whether the parse succeeds or FAILS: the destination as the call leaves it (ParseInto
   writes into its destination while it goes and does not undo that when it fails later)
   differs from what it was at most at the top-level keys that the name=value pairs the parser
   got to start with ([heads]: each pair's first key as runesUntil reads it).  Every other
   top-level key — and everything below it — is unchanged.
   (values.Options.MergeValues discards the table on an error altogether: Options.merge_values
   is None.)  What is left AT a named key after a failure is the model's value-semantic
   reading, compared with the real code only through this frame. *)
Theorem C04_set_error_frame : forall (c : pcfg) (s : string) (dest : vmap) (k' : string),
  ~ In k' (heads (S (String.length s)) c dest s) ->
  mget k' (pres_table (parse_with c s dest) dest) = mget k' dest.
Proof. exact parse_frame. Qed.
Print Assumptions C04_set_error_frame.

Example C04_set_error_frame_nonvacuous :
  parse_into "a.b=1,c[x]=2,d=3" [("c", VStr "old"); ("z", VBool true)]
  = PErr [("c", VStr "old"); ("z", VBool true); ("a", VMap [("b", VNum 1%Z)])]
  /\ heads 17 (mkCfg MTyped [] []) [("c", VStr "old"); ("z", VBool true)] "a.b=1,c[x]=2,d=3" = ["a"; "c"].
Proof. exact ex_error_frame. Qed.
Print Assumptions C04_set_error_frame_nonvacuous.

(* The --set grammar with list indexes, brace lists and several pairs.  An expression is a
   non-empty list of pairs; a pair is a path of segments (a non-empty key of arbitrary bytes,
   optionally one index written with any digit text that Atoi reads as i) and a value (a scalar
   text or a brace list {first,more...}); [show_expr] prints it with the documented escaping
   and ',' between the pairs; each path has at most 30 dots.  [den_expr] is what the
   expression means: the pairs applied one after the other, each setting its path to its
   typed value, creating tables on the way, creating lists and padding them with nil up to
   the index (den_key: None when a key would go below a non-table, an index onto a non-list,
   or an index is negative or above 65536).  Whenever that meaning exists, --set / --set-string
   return exactly it, and every path that is unrelated to (neither above nor below) the table
   keys of every pair is as it was: the frame of the sequential composition. *)
Theorem C04_set_frame_grammar : forall (st : bool) (ps : list pair) (dest d' : vmap),
  ps <> [] -> Forall pair_ok ps -> den_expr st ps dest = Some d' ->
  (if st then parse_into_string else parse_into) (show_expr ps) dest = POk d'
  /\ (forall q, forallb (fun p => negb (related_b (key_prefix (fst p)) q)) ps = true ->
                lookup_path q (VMap d') = lookup_path q (VMap dest)).
Proof. exact set_frame_grammar. Qed.
Print Assumptions C04_set_frame_grammar.

(* one pair: following its keys and indexes in the result reaches the value it was given, and
   nothing unrelated to its table keys changed *)
Theorem C04_set_names_its_path : forall (segs : list seg) (x : val) (d d' : vmap),
  den_key segs x d = Some d' ->
  walk segs (VMap d') = Some x
  /\ (forall q, related_b (key_prefix segs) q = false -> lookup_path q (VMap d') = lookup_path q (VMap d)).
Proof. exact pair_sets_its_path. Qed.
Print Assumptions C04_set_names_its_path.

(* setIndex: fails exactly for a negative index or one above MaxIndex = 65536; otherwise the
   element is set, the other elements are kept and the gap up to the index is nil *)
Theorem C04_set_index_spec : forall (l : list val) (i : Z) (v : val),
  (set_index l i v = None <-> (i < 0 \/ max_index < i)%Z)
  /\ (forall l', set_index l i v = Some l' ->
        in_range l' i = true /\ nth_val i l' = v
        /\ (forall j, j <> Z.to_nat i -> j < List.length l -> nth j l' VNull = nth j l VNull)
        /\ (forall j, List.length l <= j -> j < Z.to_nat i -> nth j l' VNull = VNull)).
Proof. exact set_index_spec. Qed.
Print Assumptions C04_set_index_spec.

Example C04_set_frame_grammar_nonvacuous :
  show_expr ex_ps = "srv[2].host=h,tags={a,true,7},a.x\.y=null,srv[0].port=80"
  /\ Forall pair_ok ex_ps
  /\ den_expr false ex_ps [("keep", VBool true)]
     = Some [("keep", VBool true);
             ("srv", VList [VMap [("port", VNum 80%Z)]; VNull; VMap [("host", VStr "h")]]);
             ("tags", VList [VStr "a"; VBool true; VNum 7%Z]);
             ("a", VMap [("x.y", VNull)])]
  /\ parse_into (show_expr ex_ps) [("keep", VBool true)]
     = POk [("keep", VBool true);
            ("srv", VList [VMap [("port", VNum 80%Z)]; VNull; VMap [("host", VStr "h")]]);
            ("tags", VList [VStr "a"; VBool true; VNum 7%Z]);
            ("a", VMap [("x.y", VNull)])]
  /\ den_key [("l", Some ("65537", 65537%Z))] (VStr "x") [] = None.
Proof. exact ex_grammar. Qed.
Print Assumptions C04_set_frame_grammar_nonvacuous.

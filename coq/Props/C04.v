(* C04 — property theorems only: each closed by [exact] of a lemma proved elsewhere, or by
   computation over a table regenerated from /repo. *)
From Coq Require Import List String Ascii ZArith.
From Helm Require Import Values.Tree Values.Merge Values.Coalesce Values.Options
                         Values.MergeProofs Values.CoalesceProofs Values.SubchartProofs Values.DepthProofs Values.GlobalProofs
                         Values.Strvals Values.StrvalsProofs Values.GrammarProofs Gen.ValueOrder
                         Common.Strs Values.Strvals2 Values.Strvals2Proofs Values.Strvals2Read Values.Strvals2Grammar
                         Gen.StrvalsTable Values.Strvals2Tables.
Import ListNotations.
Local Open Scope string_scope.

(* loader.MergeMaps folded over any list of sources (low -> high precedence, e.g. the -f files
   in command-line order): at every path the leaf (scalar, null or list: anything that is not
   a table) of the result is the leaf of the LAST source that defines the path; a source
   defines a path when walking it reaches the end or meets a non-table on the way (which
   replaces everything below); tables merge key by key. *)
Theorem C04_merge_precedence : forall (srcs : list val) (base : val) (p : list string),
  Forall wf srcs ->
  leaf_at p (merge_all base srcs) =
  match last_defining p srcs with
  | Some s => leaf_at p s
  | None => leaf_at p base
  end.
Proof. exact merge_all_leaf. Qed.
Print Assumptions C04_merge_precedence.

Example C04_merge_precedence_nonvacuous :
  Forall wf ex_srcs
  /\ leaf_at ["a"; "x"] (merge_all (VMap []) ex_srcs) = Some VNull
  /\ leaf_at ["a"; "y"] (merge_all (VMap []) ex_srcs) = Some (VNum 2%Z)
  /\ leaf_at ["l"] (merge_all (VMap []) ex_srcs) = Some (VList [VNum 3%Z])
  /\ leaf_at ["s"] (merge_all (VMap []) ex_srcs) = None
  /\ leaf_at ["s"; "now"] (merge_all (VMap []) ex_srcs) = Some (VStr "table").
Proof. exact (conj ex_srcs_wf ex_merge_values). Qed.
Print Assumptions C04_merge_precedence_nonvacuous.

(* The order in which values.Options.MergeValues (pkg/cli/values/options.go) folds the flag
   families into the result, lowest precedence first:
   -f files < --set-json < --set < --set-string < --set-file < --set-literal,
   and the function each family is merged with.  [value_order] / [value_order_calls] are
   regenerated from the Go source on every run; the model Options.merge_values is the fold in
   [expected_order]. *)
Theorem C04_flag_family_order :
  value_order = ["ValueFiles"; "JSONValues"; "Values"; "StringValues"; "FileValues"; "LiteralValues"]
  /\ value_order = expected_order
  /\ value_order_calls = ["loader.MergeMaps"; "loader.MergeMaps+strvals.ParseJSON"; "strvals.ParseInto";
                          "strvals.ParseIntoString"; "strvals.ParseIntoFile"; "strvals.ParseLiteralInto"]
  /\ (forall o, merge_values o = merge_values_in value_order o []).
Proof. repeat split; reflexivity. Qed.
Print Assumptions C04_flag_family_order.

(* ToRenderValues for a chart without dependencies: a value the user sets wins; a path the
   user says nothing about shows the chart's default; a user null removes a default (and
   stays as a null where there is no default); nested tables merge (the clauses hold at every
   depth). *)
Theorem C04_coalesce_precedence : forall (name : string) (dflt user : vmap),
  wf (VMap dflt) ->
  exists r, to_render_values (mkChart name dflt []) user = Some r
  /\ (forall p x, lookup_path p (VMap user) = Some x -> is_table x = false -> x <> VNull ->
                  lookup_path p (VMap r) = Some x)
  /\ (forall p, defines p (VMap user) = false -> lookup_path p (VMap r) = lookup_path p (VMap dflt))
  /\ (forall p y, lookup_path p (VMap user) = Some VNull -> lookup_path p (VMap dflt) = Some y ->
                  lookup_path p (VMap r) = None)
  /\ (forall p, lookup_path p (VMap user) = Some VNull -> lookup_path p (VMap dflt) = None ->
                lookup_path p (VMap r) = Some VNull).
Proof. exact coalesce_single_chart. Qed.
Print Assumptions C04_coalesce_precedence.

(* chartutil.MergeValues (used while values are still being assembled): same precedence, but a
   user null survives *)
Theorem C04_merge_values_keeps_null : forall (name : string) (dflt user : vmap),
  wf (VMap dflt) ->
  exists r, merge_values_root (mkChart name dflt []) user = Some r
  /\ (forall p x, lookup_path p (VMap user) = Some x -> is_table x = false -> x <> VNull ->
                  lookup_path p (VMap r) = Some x)
  /\ (forall p, defines p (VMap user) = false -> lookup_path p (VMap r) = lookup_path p (VMap dflt))
  /\ (forall p, lookup_path p (VMap user) = Some VNull -> lookup_path p (VMap r) = Some VNull).
Proof. exact merge_values_single_chart. Qed.
Print Assumptions C04_merge_values_keeps_null.

Example C04_coalesce_precedence_nonvacuous :
  wf (VMap ex_dflt)
  /\ exists r, to_render_values (mkChart "top" ex_dflt []) ex_user = Some r
  /\ lookup_path ["a"; "x"] (VMap r) = None
  /\ lookup_path ["a"; "y"] (VMap r) = Some (VNum 2%Z)
  /\ lookup_path ["a"; "w"] (VMap r) = Some (VStr "new")
  /\ lookup_path ["c"] (VMap r) = Some (VStr "scalar")
  /\ lookup_path ["d"] (VMap r) = Some VNull
  /\ lookup_path ["b"] (VMap r) = Some (VStr "keep").
Proof. exact (conj ex_dflt_wf ex_coalesce). Qed.
Print Assumptions C04_coalesce_precedence_nonvacuous.

(* With dependencies (CoalesceValues when merge = false, MergeValues when merge = true): inside
   the scope of a direct subchart without dependencies of its own, at every path that does not
   start at "global" (globals flow top-down, C11): the user's value wins; else the parent
   chart's own section for the subchart; else the subchart's default shows. *)
Theorem C04_coalesce_subchart_precedence :
  forall (merge : bool) (n : string) (dflt : vmap) (deps : list chart) (user : vmap) (sub : chart) (r : vmap),
  wf (VMap dflt) -> wf (VMap (cvalues sub)) ->
  NoDup (map cname deps) -> In sub deps -> cdeps sub = [] ->
  coalesce merge (mkChart n dflt deps) user = Some r ->
  forall (k : string) (p' : list string), k <> global_key ->
  (forall x, lookup_path (cname sub :: k :: p') (VMap user) = Some x -> is_table x = false -> x <> VNull ->
             lookup_path (cname sub :: k :: p') (VMap r) = Some x)
  /\ (forall x, defines (cname sub :: k :: p') (VMap user) = false ->
                lookup_path (cname sub :: k :: p') (VMap dflt) = Some x -> is_table x = false -> x <> VNull ->
                lookup_path (cname sub :: k :: p') (VMap r) = Some x)
  /\ (defines (cname sub :: k :: p') (VMap user) = false -> defines (cname sub :: k :: p') (VMap dflt) = false ->
      lookup_path (cname sub :: k :: p') (VMap r) = lookup_path (k :: p') (VMap (cvalues sub))).
Proof. exact coalesce_subchart. Qed.
Print Assumptions C04_coalesce_subchart_precedence.

Example C04_coalesce_subchart_nonvacuous :
  wf (VMap (cvalues ex_top)) /\ wf (VMap (cvalues ex_sub)) /\ NoDup (map cname (cdeps ex_top))
  /\ exists r, coalesce false ex_top ex_vals = Some r
     /\ lookup_path ["sub"; "q"; "r"] (VMap r) = Some (VStr "user")
     /\ lookup_path ["sub"; "p"] (VMap r) = Some (VNum 2%Z)
     /\ lookup_path ["sub"; "o"] (VMap r) = Some (VStr "own").
Proof. exact ex_subchart. Qed.
Print Assumptions C04_coalesce_subchart_nonvacuous.

(* --set / --set-string on an expression built by the printer [show_set] from a non-empty path
   of non-empty keys (any bytes; '.', ',', '=', '[' and '\' escaped with a backslash, at most
   31 keys = the parser's nesting limit) and any scalar text (',', '\' and '{' escaped), over a
   destination in which every existing value on the way is a table: the parse succeeds, the
   result is the destination with exactly the named path set to the typed value (true / false /
   null / int64 / string by typedVal, or the string itself for --set-string), and every path
   of the destination that is neither above nor below the named one is unchanged.
   PARTIAL: the printer covers key paths and scalars; list indexes name[i], brace lists
   {a,b}, several name=value pairs in one expression, --set-json / --set-file / --set-literal
   and the statement that an unparsable expression leaves unrelated paths alone are not
   covered by this theorem (they rest on the correspondence run, incl. the exhaustive
   enumeration of short strings, and on the runtime oracle). *)
Theorem C04_set_frame_partial : forall (st : bool) (ks : list string) (v : string) (dest : vmap),
  ks <> [] -> Forall (fun k => k <> EmptyString) ks -> List.length ks <= 31 -> compat ks dest ->
  exists d',
    (if st then parse_into_string else parse_into) (show_set ks v) dest = POk d'
    /\ d' = set_path ks (typed_val st v) dest
    /\ lookup_path ks (VMap d') = Some (typed_val st v)
    /\ (forall q, related_b ks q = false -> lookup_path q (VMap d') = lookup_path q (VMap dest)).
Proof. exact set_frame. Qed.
Print Assumptions C04_set_frame_partial.

Example C04_set_frame_nonvacuous :
  compat ["a"; "x.y"] ex_dest
  /\ show_set ["a"; "x.y"] "true" = "a.x\.y=true"
  /\ parse_into (show_set ["a"; "x.y"] "true") ex_dest
     = POk [("a", VMap [("x.y", VBool true); ("keep", VNum 1%Z)]); ("b", VBool true)]
  /\ parse_into (show_set ["n"; "k,1"] "a,b") ex_dest
     = POk [("a", VMap [("x.y", VStr "old"); ("keep", VNum 1%Z)]); ("b", VBool true); ("n", VMap [("k,1", VStr "a,b")])].
Proof. exact ex_set_frame. Qed.
Print Assumptions C04_set_frame_nonvacuous.

(* Subcharts at ANY depth.  [ls] = the charts from the root down to the chart whose scope is
   looked at (each a loaded dependency of the one before, dependency names unique, none named
   "global", every values.yaml with unique keys); [scope_path ls] = the subchart names from the
   root; k :: p' = a path inside the last chart's scope that does not start at "global" nor at
   one of its own subcharts.  For CoalesceValues (merge = false) and MergeValues (true):
   - a non-null leaf the user sets there wins;
   - where the user's values say nothing about the path, [default_at ls (k :: p')] decides:
     the first chart on the way down (root first) whose own values.yaml holds a non-null leaf
     at the path inside its section for the chain, else the last chart's own defaults (the
     whole subtree or absence).  ([default_at] is None — nothing claimed — when some chart on
     the way holds a table, a null or a blocking scalar there.) *)
Theorem C04_coalesce_depth_precedence :
  forall (ls : list chart) (merge : bool) (c0 cn : chart) (dest r : vmap) (k : string) (p' : list string),
  valid_levels ls -> hd_error ls = Some c0 -> last_level ls = Some cn ->
  coalesce merge c0 dest = Some r ->
  k <> global_key -> ~ In k (map cname (cdeps cn)) ->
  let q := (scope_path ls ++ k :: p')%list in
  (forall x, lookup_path q (VMap dest) = Some x -> is_table x = false -> x <> VNull ->
             lookup_path q (VMap r) = Some x)
  /\ (defines q (VMap dest) = false ->
      match default_at ls (k :: p') with
      | Some o => lookup_path q (VMap r) = o
      | None => True
      end).
Proof. exact coalesce_depth. Qed.
Print Assumptions C04_coalesce_depth_precedence.

Example C04_coalesce_depth_nonvacuous :
  valid_levels [ex_l0; ex_l1; ex_l2]
  /\ exists r, coalesce false ex_l0 ex_uv = Some r
     /\ lookup_path ["mid"; "leaf"; "u"] (VMap r) = Some (VStr "user")
     /\ lookup_path ["mid"; "leaf"; "p"] (VMap r) = Some (VNum 2%Z)
     /\ lookup_path ["mid"; "leaf"; "q"] (VMap r) = Some (VStr "mid-q")
     /\ lookup_path ["mid"; "leaf"; "o"] (VMap r) = Some (VStr "own")
     /\ default_at [ex_l0; ex_l1; ex_l2] ["p"] = Some (Some (VNum 2%Z))
     /\ default_at [ex_l0; ex_l1; ex_l2] ["q"] = Some (Some (VStr "mid-q"))
     /\ default_at [ex_l0; ex_l1; ex_l2] ["o"] = Some (Some (VStr "own")).
Proof. exact ex_depth. Qed.
Print Assumptions C04_coalesce_depth_nonvacuous.

(* Paths inside "global": a (non-null) global leaf visible in a chart's coalesced values is
   visible at the same path inside every direct subchart's scope — the parent's global wins
   over whatever the subchart's section or defaults say — unless the subchart's own section
   (after the parent's defaults were applied: coalesce_values) holds, at the same top-level
   global key, a value of the other kind (a table where the parent has a non-table or the
   other way round; coalesceGlobals skips those with a warning) or a "global" that is not a
   table.  Applied again to the subchart's result it carries the leaf down any chain. *)
Theorem C04_global_flows_down :
  forall (merge : bool) (n : string) (dflt : vmap) (deps : list chart) (user : vmap) (sub : chart) (r : vmap)
         (g : string) (p' : list string) (x : val),
  wf (VMap dflt) -> wf (VMap user) -> wf (VMap (cvalues sub)) ->
  NoDup (map cname deps) -> In sub deps ->
  ~ In global_key (map cname deps) -> ~ In global_key (map cname (cdeps sub)) ->
  coalesce merge (mkChart n dflt deps) user = Some r ->
  lookup_path (global_key :: g :: p') (VMap r) = Some x -> is_table x = false -> x <> VNull ->
  match mget global_key (section_of (cname sub) (coalesce_values merge (mkChart n dflt deps) user)) with
  | None => True
  | Some (VMap mg) => match mget g mg with
                      | None => True
                      | Some y => is_table y = match p' with [] => false | _ => true end
                      end
  | Some _ => False
  end ->
  lookup_path (cname sub :: global_key :: g :: p') (VMap r) = Some x.
Proof. exact global_flows_down. Qed.
Print Assumptions C04_global_flows_down.

Example C04_global_flows_down_nonvacuous :
  exists r, coalesce false ex_gtop ex_guser = Some r
  /\ lookup_path ["global"; "a"; "b"] (VMap r) = Some (VStr "user-b")
  /\ lookup_path ["sub"; "global"; "a"; "b"] (VMap r) = Some (VStr "user-b")
  /\ lookup_path ["sub"; "global"; "a"; "own"] (VMap r) = Some (VStr "o")
  /\ lookup_path ["sub"; "global"; "t"] (VMap r) = Some (VStr "top-default")
  /\ mget global_key (section_of "sub" (coalesce_values false ex_gtop ex_guser)) = None.
Proof. exact ex_global. Qed.
Print Assumptions C04_global_flows_down_nonvacuous.

(* The frame of ANY parse by any of the five strvals entry points ([c] = the parser
   configuration), for every input string — well-formed or not — and every destination,
   whether the parse succeeds or FAILS: the destination as the call leaves it (ParseInto
   writes into its destination while it goes and does not undo that when it fails later)
   differs from what it was at most at the top-level keys that the name=value pairs the parser
   got to start with ([heads]: each pair's first key as runesUntil reads it).  Every other
   top-level key — and everything below it — is unchanged.
   (values.Options.MergeValues discards the table on an error altogether: Options.merge_values
   is None.)  What is left AT a named key after a failure is the model's value-semantic
   reading, compared with the real code only through this frame. *)
Theorem C04_set_error_frame : forall (c : pcfg) (s : string) (dest : vmap) (k' : string),
  ~ In k' (heads (S (String.length s)) c dest s) ->
  mget k' (pres_table (parse_with c s dest) dest) = mget k' dest.
Proof. exact parse_frame. Qed.
Print Assumptions C04_set_error_frame.

Example C04_set_error_frame_nonvacuous :
  parse_into "a.b=1,c[x]=2,d=3" [("c", VStr "old"); ("z", VBool true)]
  = PErr [("c", VStr "old"); ("z", VBool true); ("a", VMap [("b", VNum 1%Z)])]
  /\ heads 17 (mkCfg MTyped [] []) [("c", VStr "old"); ("z", VBool true)] "a.b=1,c[x]=2,d=3" = ["a"; "c"].
Proof. exact ex_error_frame. Qed.
Print Assumptions C04_set_error_frame_nonvacuous.

(* The --set grammar with list indexes, brace lists and several pairs.  An expression is a
   non-empty list of pairs; a pair is a path of segments (a non-empty key of arbitrary bytes,
   optionally one index written with any digit text that Atoi reads as i) and a value (a scalar
   text or a brace list {first,more...}); [show_expr] prints it with the documented escaping
   and ',' between the pairs; each path has at most 30 dots.  [den_expr] is what the
   expression means: the pairs applied one after the other, each setting its path to its
   typed value, creating tables on the way, creating lists and padding them with nil up to
   the index (den_key: None when a key would go below a non-table, an index onto a non-list,
   or an index is negative or above 65536).  Whenever that meaning exists, --set / --set-string
   return exactly it, and every path that is unrelated to (neither above nor below) the table
   keys of every pair is as it was: the frame of the sequential composition. *)
Theorem C04_set_frame_grammar : forall (st : bool) (ps : list pair) (dest d' : vmap),
  ps <> [] -> Forall pair_ok ps -> den_expr st ps dest = Some d' ->
  (if st then parse_into_string else parse_into) (show_expr ps) dest = POk d'
  /\ (forall q, forallb (fun p => negb (related_b (key_prefix (fst p)) q)) ps = true ->
                lookup_path q (VMap d') = lookup_path q (VMap dest)).
Proof. exact set_frame_grammar. Qed.
Print Assumptions C04_set_frame_grammar.

(* one pair: following its keys and indexes in the result reaches the value it was given, and
   nothing unrelated to its table keys changed *)
Theorem C04_set_names_its_path : forall (segs : list seg) (x : val) (d d' : vmap),
  den_key segs x d = Some d' ->
  walk segs (VMap d') = Some x
  /\ (forall q, related_b (key_prefix segs) q = false -> lookup_path q (VMap d') = lookup_path q (VMap d)).
Proof. exact pair_sets_its_path. Qed.
Print Assumptions C04_set_names_its_path.

(* setIndex: fails exactly for a negative index or one above MaxIndex = 65536; otherwise the
   element is set, the other elements are kept and the gap up to the index is nil *)
Theorem C04_set_index_spec : forall (l : list val) (i : Z) (v : val),
  (set_index l i v = None <-> (i < 0 \/ max_index < i)%Z)
  /\ (forall l', set_index l i v = Some l' ->
        in_range l' i = true /\ nth_val i l' = v
        /\ (forall j, j <> Z.to_nat i -> j < List.length l -> nth j l' VNull = nth j l VNull)
        /\ (forall j, List.length l <= j -> j < Z.to_nat i -> nth j l' VNull = VNull)).
Proof. exact set_index_spec. Qed.
Print Assumptions C04_set_index_spec.

Example C04_set_frame_grammar_nonvacuous :
  show_expr ex_ps = "srv[2].host=h,tags={a,true,7},a.x\.y=null,srv[0].port=80"
  /\ Forall pair_ok ex_ps
  /\ den_expr false ex_ps [("keep", VBool true)]
     = Some [("keep", VBool true);
             ("srv", VList [VMap [("port", VNum 80%Z)]; VNull; VMap [("host", VStr "h")]]);
             ("tags", VList [VStr "a"; VBool true; VNum 7%Z]);
             ("a", VMap [("x.y", VNull)])]
  /\ parse_into (show_expr ex_ps) [("keep", VBool true)]
     = POk [("keep", VBool true);
            ("srv", VList [VMap [("port", VNum 80%Z)]; VNull; VMap [("host", VStr "h")]]);
            ("tags", VList [VStr "a"; VBool true; VNum 7%Z]);
            ("a", VMap [("x.y", VNull)])]
  /\ den_key [("l", Some ("65537", 65537%Z))] (VStr "x") [] = None.
Proof. exact ex_grammar. Qed.
Print Assumptions C04_set_frame_grammar_nonvacuous.

(* ======================= round 4: the --set family for ALL input strings =======================
   Values/Strvals2.v is a second transcription of pkg/strvals/parser.go and literal_parser.go:
   the input is read rune by rune as bytes.Buffer.ReadRune does, [mode] selects one of the five
   parsers (MTyped = --set, MString = --set-string, MFile = --set-file, MJson = --set-json,
   MLiteral = --set-literal), [rdr] is the RunesValueReader callback of ParseFile / ParseIntoFile
   and [jdec] the streaming JSON decoder behind ParseJSON — Section variables: the theorems hold
   for EVERY callback and EVERY decoder.  A path is a list of steps, [SKey k] (a table key) or
   [SIdx i] (a list index), nested to any depth; [dget] follows it.  [names_of mode rdr jdec s]
   reads the paths the successive name=value pairs of s name off the STRING ALONE (no
   destination), [pairs_of] the same with the value each pair carries.

   The frame, at full strength: for every input string (well-formed or not), every destination
   and each of the five parsers: when the parse succeeds, every path q that is not related to a
   named path — [drel false p q = false]: neither is a prefix of the other; the one exception
   counted as related is q continuing with an index where p continues with a table key right
   after an index, because "name[i].key=…" replaces a list element that is not a table as a
   whole ("indices out of order") — is in the result exactly what it was in the destination;
   or it did not exist, is nil now, and is a padding position [pad_pos p q] of a named path p
   (q follows p up to one of p's index steps [i] and ends there with an index 0 <= j < i): the
   nil padding of setIndex (make([]interface{}, index+1)) is the ONLY other effect. *)
Theorem C04_set_frame_full :
  forall (mode : pmode) (rdr : string -> val * bool) (jdec : string -> option (val * nat))
         (s : string) (dest d' : vmap),
  parse2 mode rdr jdec s dest = POk d' ->
  forall q : list step,
  (forall p, In p (names_of mode rdr jdec s) -> drel false p q = false) ->
  dget q (VMap d') = dget q (VMap dest)
  \/ (dget q (VMap dest) = None /\ dget q (VMap d') = Some VNull
      /\ exists p, In p (names_of mode rdr jdec s) /\ pad_pos p q = true).
Proof. exact parse2_frame. Qed.
Print Assumptions C04_set_frame_full.

(* … and the named path holds the value: for every input string, when the parse succeeds, a
   pair (p, v) of the expression whose keys are non-empty (set() ignores an empty key) and
   whose path no LATER pair of the same expression is related to has dget p result = v. *)
Theorem C04_set_value_full :
  forall (mode : pmode) (rdr : string -> val * bool) (jdec : string -> option (val * nat))
         (s : string) (dest d' : vmap),
  parse2 mode rdr jdec s dest = POk d' ->
  forall (pre : list (list step * option val)) (p : list step) (v : val) (post : list (list step * option val)),
  pairs_of mode rdr jdec s = (pre ++ (p, Some v) :: post)%list ->
  keys_nonempty p = true ->
  (forall p', In p' (map fst post) -> drel false p' p = false) ->
  dget p (VMap d') = Some v.
Proof. exact parse2_value. Qed.
Print Assumptions C04_set_value_full.

Example C04_set_frame_full_nonvacuous :
  parse_into2 "a[0][3][1]=x,b.c=2" ex3_dest
  = POk [("a", VList [VList [VNum 1; VNull; VNull; VList [VNull; VStr "x"]]; VStr "keep"]);
         ("z", VMap [("k", VBool true)]); ("b", VMap [("c", VNum 2)])]
  /\ names_of MTyped no_rdr no_jdec "a[0][3][1]=x,b.c=2" = [[SKey "a"; SIdx 0; SIdx 3; SIdx 1]; [SKey "b"; SKey "c"]]
  /\ pairs_of MTyped no_rdr no_jdec "a[0][3][1]=x,b.c=2"
     = [([SKey "a"; SIdx 0; SIdx 3; SIdx 1], Some (VStr "x")); ([SKey "b"; SKey "c"], Some (VNum 2))]
  /\ drel false [SKey "a"; SIdx 0; SIdx 3; SIdx 1] [SKey "a"; SIdx 1] = false
  /\ drel false [SKey "a"; SIdx 0; SIdx 3; SIdx 1] [SKey "a"; SIdx 0; SIdx 0] = false
  /\ pad_pos [SKey "a"; SIdx 0; SIdx 3; SIdx 1] [SKey "a"; SIdx 0; SIdx 2] = true
  /\ pad_pos [SKey "a"; SIdx 0; SIdx 3; SIdx 1] [SKey "a"; SIdx 0; SIdx 3; SIdx 0] = true
  /\ pad_pos [SKey "a"; SIdx 0; SIdx 3; SIdx 1] [SKey "a"; SIdx 0; SIdx 4] = false.
Proof. exact ex_parse2_frame. Qed.
Print Assumptions C04_set_frame_full_nonvacuous.

(* The reader never runs out of fuel: runes_until2's "out of fuel" branch is dead. *)
Theorem C04_rune_reader_total : forall (esc : bool) (stop : ascii -> bool) (s : string),
  exists x, ru (S (String.length s)) esc stop s = Some x.
Proof. exact ru_total. Qed.
Print Assumptions C04_rune_reader_total.

(* Printed pairs with NESTED list indexes, --set and --set-string: a path is a first key k0 and
   steps r, each a key [PK k] (printed ".k", '.', ',', '=', '[' and '\' escaped) or an index
   [PI txt i] (printed "[txt]", txt any digit text Atoi reads as i): a[0][1], a[1][0].b, ….  Keys
   are non-empty well-formed UTF-8, at most 30 steps, the value v non-empty well-formed UTF-8
   (',', '\' and '{' escaped).  [den_k] is the meaning over the destination: tables created on
   the way, lists created and nil-padded, an element that is not a table replaced by one; None
   when a key would go below a non-table, an index onto a non-list / a table element, or an
   index is outside 0..MaxIndex.  Whenever the meaning exists the parse returns exactly it, the
   named path holds the typed value, and every unrelated path is as it was up to padding. *)
Theorem C04_set_frame_grammar_nested :
  forall (st : bool) (k0 : string) (r : list pstep) (v : string) (d d' : vmap),
  utf8 k0 -> k0 <> EmptyString -> Forall esc_pwf r -> Forall pne r -> List.length r <= 30 ->
  utf8 v -> v <> EmptyString ->
  den_k r k0 (typed_val2 st v) d = Some d' ->
  (if st then parse_into_string2 else parse_into2) (show_path2 esc_key k0 r (esc_val v)) d = POk d'
  /\ dget (SKey k0 :: map step_of r) (VMap d') = Some (typed_val2 st v)
  /\ (forall q, drel false (SKey k0 :: map step_of r) q = false ->
        dget q (VMap d') = dget q (VMap d)
        \/ (dget q (VMap d) = None /\ dget q (VMap d') = Some VNull /\ pad_pos (SKey k0 :: map step_of r) q = true)).
Proof. exact set_printed_nested. Qed.
Print Assumptions C04_set_frame_grammar_nested.

(* the same for ANY of the four escaping parsers and any value text whose reading is x: the
   scanner reads the printed path back as exactly its keys and indexes *)
Theorem C04_set_names_its_path_nested :
  forall (mode : pmode) (rdr : string -> val * bool) (jdec : string -> option (val * nat))
         (k0 : string) (r : list pstep) (tail : string) (x : val) (d d' : vmap),
  lit mode = false ->
  utf8 k0 -> k0 <> EmptyString -> Forall esc_pwf r -> Forall pne r -> List.length r <= 30 ->
  value_after_eq2 mode rdr jdec tail = V2Ok x EmptyString -> den_k r k0 x d = Some d' ->
  parse2 mode rdr jdec (show_path2 esc_key k0 r tail) d = POk d'
  /\ sc_path (scan_key mode rdr jdec (S (List.length r)) (show_path2 esc_key k0 r tail)) = SKey k0 :: map step_of r
  /\ dget (SKey k0 :: map step_of r) (VMap d') = Some x
  /\ (forall q, drel false (SKey k0 :: map step_of r) q = false ->
        dget q (VMap d') = dget q (VMap d)
        \/ (dget q (VMap d) = None /\ dget q (VMap d') = Some VNull /\ pad_pos (SKey k0 :: map step_of r) q = true)).
Proof. exact escaped_printed. Qed.
Print Assumptions C04_set_names_its_path_nested.

(* --set-file: what the callback returns for the path text is stored at the named path;
   --set-json: what the decoder reads from the text after '=' *)
Theorem C04_set_file_nested :
  forall (rdr : string -> val * bool) (k0 : string) (r : list pstep) (v : string) (x : val) (d d' : vmap),
  utf8 k0 -> k0 <> EmptyString -> Forall esc_pwf r -> Forall pne r -> List.length r <= 30 ->
  utf8 v -> v <> EmptyString -> rdr v = (x, true) ->
  den_k r k0 x d = Some d' ->
  parse_into_file2 rdr (show_path2 esc_key k0 r (esc_val v)) d = POk d'
  /\ dget (SKey k0 :: map step_of r) (VMap d') = Some x
  /\ (forall q, drel false (SKey k0 :: map step_of r) q = false ->
        dget q (VMap d') = dget q (VMap d)
        \/ (dget q (VMap d) = None /\ dget q (VMap d') = Some VNull /\ pad_pos (SKey k0 :: map step_of r) q = true)).
Proof. exact file_printed_nested. Qed.
Print Assumptions C04_set_file_nested.

Theorem C04_set_json_nested :
  forall (jdec : string -> option (val * nat)) (k0 : string) (r : list pstep) (js : string) (x : val) (d d' : vmap),
  utf8 k0 -> k0 <> EmptyString -> Forall esc_pwf r -> Forall pne r -> List.length r <= 30 ->
  empty_val2 js = (false, js) -> jdec js = Some (x, String.length js) ->
  den_k r k0 x d = Some d' ->
  parse_json2 jdec (show_path2 esc_key k0 r js) d = POk d'
  /\ dget (SKey k0 :: map step_of r) (VMap d') = Some x
  /\ (forall q, drel false (SKey k0 :: map step_of r) q = false ->
        dget q (VMap d') = dget q (VMap d)
        \/ (dget q (VMap d) = None /\ dget q (VMap d') = Some VNull /\ pad_pos (SKey k0 :: map step_of r) q = true)).
Proof. exact json_printed_nested. Qed.
Print Assumptions C04_set_json_nested.

Example C04_set_file_json_nonvacuous :
  ex_rdr "/tmp/f" = (VStr (bs [108; 49; 10; 108; 50; 10]), true)
  /\ parse_into_file2 ex_rdr (show_path2 esc_key "a" [PI "1" 1%Z; PI "0" 0%Z] (esc_val "/tmp/f")) []
     = POk [("a", VList [VNull; VList [VStr (bs [108; 49; 10; 108; 50; 10])]])]
  /\ empty_val2 ex_js = (false, ex_js) /\ ex_jdec ex_js = Some (VMap [("x", VList [VNum 1; VNull])], String.length ex_js)
  /\ parse_json2 ex_jdec (show_path2 esc_key "a" [PI "0" 0%Z; PK "b"] ex_js) [("a", VList [VMap [("k", VNum 1)]])]
     = POk [("a", VList [VMap [("k", VNum 1); ("b", VMap [("x", VList [VNum 1; VNull])])]])].
Proof. exact file_json_nonvacuous. Qed.
Print Assumptions C04_set_file_json_nonvacuous.

Example C04_set_frame_grammar_nested_nonvacuous :
  show_path2 esc_key "a" ex2_path (esc_val "v,1") = "a[0][1][2].x\.y=v\,1"
  /\ Forall esc_pwf ex2_path /\ Forall pne ex2_path
  /\ den_k ex2_path "a" (typed_val2 false "v,1") ex2_dest
     = Some [("a", VList [VList [VNum 7; VList [VStr "old"; VNull; VMap [("x.y", VStr "v,1")]]]; VStr "s"]); ("keep", VBool true)]
  /\ parse_into2 "a[0][1][2].x\.y=v\,1" ex2_dest
     = POk [("a", VList [VList [VNum 7; VList [VStr "old"; VNull; VMap [("x.y", VStr "v,1")]]]; VStr "s"]); ("keep", VBool true)]
  /\ pad_pos (SKey "a" :: map step_of ex2_path) [SKey "a"; SIdx 0; SIdx 1; SIdx 1] = true
  /\ parse_into2 "a[1].k=1" ex2_dest
     = POk [("a", VList [VList [VNum 7; VList [VStr "old"]]; VMap [("k", VNum 1)]]); ("keep", VBool true)]
  /\ den_k [PI "65537" 65537%Z] "l" VNull [] = None
  /\ den_k [PI "0" 0%Z; PI "0" 0%Z] "keep" VNull ex2_dest = None.
Proof. exact set_printed_nested_nonvacuous. Qed.
Print Assumptions C04_set_frame_grammar_nested_nonvacuous.

(* typedVal's rules as a COMPLETE characterisation: for every string v the result is exactly
   one of the listed forms, decided by the listed tests ([folds_to v w] = strings.EqualFold(v, w)
   for the ASCII word w: ASCII letters fold, and U+017F folds to "s"; [int_text v n] =
   strconv.ParseInt(v, 10, 64) = n: optional sign, one or more digits, int64 range):
   --set-string never infers; true / false / null in any case; "0"; an integer text whose FIRST
   BYTE is not '0' (so "007" stays a string but "-007" is -7); everything else is the string
   itself, verbatim.  Never a float, a list or a table. *)
Theorem C04_typed_val_spec : forall (st : bool) (v : string) (x : val),
  typed_val2 st v = x <-> typed_as st v x.
Proof. exact typed_val_spec. Qed.
Print Assumptions C04_typed_val_spec.

Example C04_typed_val_spec_nonvacuous :
  typed_val2 false "TRUE" = VBool true /\ typed_val2 false "False" = VBool false /\ typed_val2 false "nUlL" = VNull
  /\ typed_val2 false ("fal" ++ bs [197; 191] ++ "e") = VBool false
  /\ typed_val2 false "0" = VNum 0 /\ typed_val2 false "00" = VStr "00" /\ typed_val2 false "1.5" = VStr "1.5"
  /\ typed_val2 false "9223372036854775807" = VNum 9223372036854775807
  /\ typed_val2 false "9223372036854775808" = VStr "9223372036854775808"
  /\ typed_val2 false "-9223372036854775808" = VNum (-9223372036854775808)
  /\ typed_val2 false "" = VStr "" /\ typed_val2 false "-" = VStr "-" /\ typed_val2 true "true" = VStr "true".
Proof. exact typed_val_examples. Qed.
Print Assumptions C04_typed_val_spec_nonvacuous.

(* --set-literal k=v: for every key path k (keys: non-empty well-formed UTF-8 without '=', '['
   and '.', which the literal parser cannot escape; indexes within 0..MaxIndex, nested to any
   depth; at most 30 steps) and EVERY byte string v — commas, backslashes, '=', brackets,
   braces, blanks — on an empty destination: the parse succeeds, the expression names exactly
   the one path k, the result is the tree [den_k] that holds string([]rune(v)) there, and every
   other path of the result is absent or a padding nil.  No escapes, no commas, no type
   inference. *)
Theorem C04_literal_verbatim : forall (k0 : string) (r : list pstep) (v : string),
  lit_key k0 -> k0 <> EmptyString -> Forall lit_pwf r -> Forall pne r -> Forall idx_in_range r -> List.length r <= 30 ->
  exists d',
    parse_literal_into2 (show_path2 (fun k => k) k0 r v) [] = POk d'
    /\ den_k r k0 (VStr (to_utf8 v)) [] = Some d'
    /\ names_of MLiteral no_rdr no_jdec (show_path2 (fun k => k) k0 r v) = [SKey k0 :: map step_of r]
    /\ dget (SKey k0 :: map step_of r) (VMap d') = Some (VStr (to_utf8 v))
    /\ (forall q, drel false (SKey k0 :: map step_of r) q = false ->
          dget q (VMap d') = None \/ (dget q (VMap d') = Some VNull /\ pad_pos (SKey k0 :: map step_of r) q = true)).
Proof. exact literal_verbatim. Qed.
Print Assumptions C04_literal_verbatim.

(* string([]rune(v)) is v itself when v is well-formed UTF-8 … *)
Theorem C04_literal_verbatim_utf8 : forall (k0 : string) (r : list pstep) (v : string),
  lit_key k0 -> k0 <> EmptyString -> Forall lit_pwf r -> Forall pne r -> Forall idx_in_range r -> List.length r <= 30 ->
  utf8 v ->
  exists d', parse_literal_into2 (show_path2 (fun k => k) k0 r v) [] = POk d'
             /\ dget (SKey k0 :: map step_of r) (VMap d') = Some (VStr v).
Proof. exact literal_verbatim_utf8. Qed.
Print Assumptions C04_literal_verbatim_utf8.

(* … and "verbatim for every byte string" is FALSE of the faithful model (replayed on the real
   code: corpus case --set-literal "a=\xff" gives "�"): bytes that are not well-formed
   UTF-8 come out as U+FFFD, because the parsers read runes.  Classified as an intended quirk
   of reading runes (command lines are UTF-8), hence the hypothesis [utf8 v] above. *)
Theorem C04_literal_verbatim_bytes_refuted :
  exists v d', parse_literal_into2 (show_path2 (fun k => k) "a" [] v) [] = POk d'
               /\ dget [SKey "a"] (VMap d') <> Some (VStr v).
Proof. exact literal_verbatim_bytes_refuted. Qed.
Print Assumptions C04_literal_verbatim_bytes_refuted.

Example C04_literal_verbatim_nonvacuous :
  lit_key "a" /\ lit_key "k-1" /\ Forall lit_pwf [PI "1" 1%Z; PI "0" 0%Z; PK "k-1"]
  /\ show_path2 (fun k => k) "a" [PI "1" 1%Z; PI "0" 0%Z; PK "k-1"] "x,y\z={1}, [2]=" = "a[1][0].k-1=x,y\z={1}, [2]="
  /\ parse_literal_into2 "a[1][0].k-1=x,y\z={1}, [2]=" []
     = POk [("a", VList [VNull; VList [VMap [("k-1", VStr "x,y\z={1}, [2]=")]]])].
Proof. exact literal_verbatim_nonvacuous. Qed.
Print Assumptions C04_literal_verbatim_nonvacuous.

(* The lexical constants and decisions of both parsers, read out of pkg/strvals/parser.go and
   literal_parser.go with go/ast on every run (Gen/StrvalsTable.v), tied to the models
   semantically — a behaviour-preserving rewrite of the Go text leaves every clause true:
   MaxIndex and MaxNestedNameLevel are the model's; the stop set of every runesUntil /
   runesUntilLiteral call (looked up by function; a runeSet literal in place, a local or a
   package-level variable) is — on all 256 bytes — the stop function the models use in that
   state, all members ASCII, and every state of the model is read somewhere; the set of runes
   each function compares the current rune with is the expected one (the escape rune in
   runesUntil only); unicode.IsSpace is used by emptyVal. *)
Theorem C04_strvals_tables :
  go_max_index = max_index
  /\ go_max_nested_name_level = max_nested_name_level
  /\ stops_ok go_stop_sets = true
  /\ rune_sets_ok go_rune_sets = true
  /\ go_is_space_users = ["parser.emptyVal"].
Proof. exact tables_all. Qed.
Print Assumptions C04_strvals_tables.

(* typedVal of the Go source — extracted as an ordered list of (test, result) rules whatever
   its syntax (if chain, tagless switch), parsed and interpreted here — is the model's typed_val2
   for every flag and EVERY string (strings.EqualFold(v, "0") and v == "0" are the same test;
   ParseInt must be base 10, 64 bits). *)
Theorem C04_typed_val_table :
  exists rules, go_rules_parsed = Some rules /\ forall (st : bool) (v : string), interp 0 rules st v = Some (typed_val2 st v).
Proof. exact typed_rules_ok. Qed.
Print Assumptions C04_typed_val_table.

(* The range checks of the Go source, compiled to boolean functions of (index, length of the
   list, nesting level), are the model's tests for ALL integers: setIndex rejects exactly the
   indexes outside 0..MaxIndex (whatever the form and order of its tests: index > MaxIndex,
   MaxIndex < index, !(index <= MaxIndex) …) and grows the list exactly when len <= index;
   listItem of both parsers rejects exactly the negative indexes; the nesting-level tests (one
   in key, two in listItem, per parser) all are MaxNestedNameLevel < level+1 on the incremented
   level; "is there an element at list[i]" is index < len (two places per listItem); and
   nothing else in these functions tests the index, the length or the level. *)
Theorem C04_range_checks_table :
  (forall index len level,
     any_holds (fns_of "setIndex" go_error_guards) index len level = orb (index <? 0)%Z (max_index <? index)%Z)
  /\ (List.length (fns_of "setIndex" go_len_conds) = 1
      /\ forall f, In f (fns_of "setIndex" go_len_conds) -> forall index len level, f index len level = (len <=? index)%Z)
  /\ (forall index len level, any_holds (fns_of "parser.listItem" go_error_guards) index len level = (index <? 0)%Z)
  /\ (forall index len level, any_holds (fns_of "literalParser.listItem" go_error_guards) index len level = (index <? 0)%Z)
  /\ (List.length (fns_of "parser.key" go_level_guards) = 1 /\ List.length (fns_of "parser.listItem" go_level_guards) = 2
      /\ List.length (fns_of "literalParser.key" go_level_guards) = 1 /\ List.length (fns_of "literalParser.listItem" go_level_guards) = 2)
  /\ (forall f, In f (fns_of "parser.key" go_level_guards ++ fns_of "parser.listItem" go_level_guards
                      ++ fns_of "literalParser.key" go_level_guards ++ fns_of "literalParser.listItem" go_level_guards)%list ->
        forall index len level, f index len level = (Z.of_nat max_nested_name_level <? level + 1)%Z)
  /\ (List.length (fns_of "parser.listItem" go_len_conds) = 2 /\ List.length (fns_of "literalParser.listItem" go_len_conds) = 2)
  /\ (forall f, In f (fns_of "parser.listItem" go_len_conds ++ fns_of "literalParser.listItem" go_len_conds)%list ->
        forall index len level, f index len level = (index <? len)%Z)
  /\ forallb (fun e => match snd e with [] => true | _ => false end) go_other_conds = true
  /\ fns_of "parser.key" go_error_guards = [] /\ fns_of "literalParser.key" go_error_guards = []
  /\ fns_of "setIndex" go_level_guards = [] /\ fns_of "parser.key" go_len_conds = [] /\ fns_of "literalParser.key" go_len_conds = [].
Proof. exact range_checks_ok. Qed.
Print Assumptions C04_range_checks_table.

(* C11 — property theorems only: each closed by [exact] of a lemma proved in Values/DepsProofs.v. *)
From Coq Require Import List String Bool ZArith.
From Helm Require Import Values.Tree Values.Schema Values.Scope Values.Deps Values.DepsProofs Values.ScopeProofs.
From Helm Require Import Values.ScopeTree Values.ScopeTreeProofs Values.DepsTreeProofs Values.ImportProofs Values.SeenProofs.
Import ListNotations.
Local Open Scope string_scope.
Local Open Scope Z_scope.

(* The flag the code computes (all true; tags; then conditions, last write wins) is the
   specification: the first condition path that resolves to a boolean decides, otherwise the
   requirement is disabled exactly when some of its tags is false and none is true. *)
Theorem C11_flag_is_spec : forall reqs cvals path,
  Forall (fun r => denabled r = true) reqs ->
  flag_reqs reqs cvals path = map (fun r => set_enabled r (enabled_spec cvals path r)) reqs.
Proof. exact flag_reqs_closed. Qed.
Print Assumptions C11_flag_is_spec.

(* One level of processDependencyEnabled, for every chart, values, path and version-check
   function [compat]: with [cvals] the values the code consults (the chart's defaults and those
   of its alias-resolved subcharts coalesced under the values handed down), and unique
   requirement names (what Metadata.Validate enforces at load time), a requirement record is
   kept iff [enabled_spec], and a chart carrying its name is kept iff one was resolved and
   [enabled_spec]. *)
Theorem C11_enabled_iff : forall compat c v path c',
  pde compat c v path = Ok c' ->
  let reqs0 := mdeps_list c in
  let ks := resolved_kids compat (kids_of compat c) reqs0 in
  let reqs := resolved_reqs reqs0 in
  exists cvals,
    CoalesceValues (set_deps c (map fst ks)) v = Ok cvals
    /\ (NoDup (map dname reqs) ->
        forall r, In r reqs ->
          (In (dname r) (map dname (mdeps_list c')) <-> enabled_spec cvals path r = true)
          /\ (In (dname r) (map cname (cdeps c')) <->
              In (dname r) (map (fun ek => cname (fst ek)) ks) /\ enabled_spec cvals path r = true)).
Proof. exact enabled_iff. Qed.
Print Assumptions C11_enabled_iff.

(* Without any assumption on names: a disabled requirement leaves neither a chart nor a record
   under its name, and nothing appears that was not resolved. *)
Theorem C11_disabled_vanish : forall compat c v path c',
  pde compat c v path = Ok c' ->
  let reqs0 := mdeps_list c in
  let ks := resolved_kids compat (kids_of compat c) reqs0 in
  let reqs := resolved_reqs reqs0 in
  exists cvals,
    CoalesceValues (set_deps c (map fst ks)) v = Ok cvals
    /\ (forall r, In r reqs -> enabled_spec cvals path r = false ->
          ~ In (dname r) (map cname (cdeps c')) /\ ~ In (dname r) (map dname (mdeps_list c')))
    /\ (forall n, In n (map cname (cdeps c')) -> In n (map (fun ek => cname (fst ek)) ks)).
Proof. exact disabled_vanish. Qed.
Print Assumptions C11_disabled_vanish.

(* An aliased dependency appears under the alias only: the resolved chart and the requirement
   record both carry the alias when there is one. *)
Theorem C11_alias_only : forall compat kids r t k,
  get_alias compat kids r = Some (t, k) ->
  cname t = (if nonempty (dalias r) then dalias r else dname r)
  /\ dname (apply_alias r) = (if nonempty (dalias r) then dalias r else dname r).
Proof. exact alias_only. Qed.
Print Assumptions C11_alias_only.

(* The same holds at every depth: each kept subchart is the result of processDependencyEnabled
   on the resolved subchart with the parent's coalesced values and the extended path, ... *)
Theorem C11_enabled_recursive : forall compat c v path c',
  pde compat c v path = Ok c' ->
  let reqs0 := mdeps_list c in
  let ks := resolved_kids compat (kids_of compat c) reqs0 in
  let reqs := resolved_reqs reqs0 in
  exists cvals,
    CoalesceValues (set_deps c (map fst ks)) v = Ok cvals
    /\ Forall2 (fun ek t' => exists t'', snd ek cvals (path ++ cname (fst ek) ++ ".") = Ok t''
                                        /\ t' = set_name t'' (cname (fst ek)))
               (filter (fun ek => keep_name cvals path reqs (cname (fst ek))) ks) (cdeps c').
Proof. exact enabled_recursive. Qed.
Print Assumptions C11_enabled_recursive.

(* ... where the processing function paired with a resolved subchart is [pde] itself on the
   chart found under charts/ (possibly renamed to the alias). *)
Theorem C11_resolved_origin : forall compat c reqs0 ek,
  In ek (resolved_kids compat (kids_of compat c) reqs0) ->
  exists d, In d (cdeps c) /\ snd ek = pde compat d /\ (fst ek = d \/ exists a, fst ek = set_name d a).
Proof. exact kids_of_origin. Qed.
Print Assumptions C11_resolved_origin.

(* A chart without requirements of its own keeps all its subcharts, and (C11_enabled_recursive)
   they are processed in turn - the repaired behaviour (fix 20099bc; before it such a chart was
   not descended into and the conditions and aliases below it were ignored). *)
Theorem C11_no_requirements_keeps_all : forall compat c v path c',
  cmdeps c = None -> pde compat c v path = Ok c' ->
  map cname (cdeps c') = map cname (cdeps c) /\ cmdeps c' = None.
Proof. exact no_requirements_keeps_all. Qed.
Print Assumptions C11_no_requirements_keeps_all.

(* A disabled dependency contributes no templates: every rendered template belongs to the chart
   itself or to a chart kept in its dependency list (defaults and schema checks walk the same list). *)
Theorem C11_templates_from_kept : forall c root pp pv p x,
  In (p, x) (rec_all_tpls c root pp pv) ->
  let vals := scoped_values root (cname c) pv in
  let full := chart_full_path root pp (cname c) in
  (exists t, In t (ctemplates c) /\ p = full ++ "/" ++ t /\ x = VMap vals)
  \/ (exists d, In d (cdeps c) /\ In (p, x) (rec_all_tpls d false full vals)).
Proof. exact templates_from_kept. Qed.
Print Assumptions C11_templates_from_kept.

(* A disabled dependency contributes no CRDs.  [crd_objects] transcribes Chart.CRDObjects()
   (own crds/ files, then those of every chart in the dependency list).  Every CRD object of a
   tree belongs to the chart itself or to a chart in its dependency list ... *)
Theorem C11_crds_from_kept : forall c root pp o,
  In o (crd_objects c root pp) ->
  let full := chart_full_path root pp (cname c) in
  (exists f, In f (ccrds c) /\ o = (f, full ++ "/" ++ f))
  \/ (exists d, In d (cdeps c) /\ In o (crd_objects d false full)).
Proof. exact crds_from_kept. Qed.
Print Assumptions C11_crds_from_kept.

(* ... so after processDependencyEnabled every CRD object comes from the chart's own crds/ or
   from a kept subchart that does not carry the name of any disabled requirement ... *)
Theorem C11_disabled_contributes_no_crds : forall compat c v path c',
  pde compat c v path = Ok c' ->
  let reqs := resolved_reqs (mdeps_list c) in
  let ks := resolved_kids compat (kids_of compat c) (mdeps_list c) in
  exists cvals,
    CoalesceValues (set_deps c (map fst ks)) v = Ok cvals
    /\ forall r, In r reqs -> enabled_spec cvals path r = false ->
       forall root pp o, In o (crd_objects c' root pp) ->
         let full := chart_full_path root pp (cname c') in
         (exists f, In f (ccrds c) /\ o = (f, full ++ "/" ++ f))
         \/ (exists d, In d (cdeps c') /\ cname d <> dname r /\ In o (crd_objects d false full)).
Proof. exact disabled_no_crds. Qed.
Print Assumptions C11_disabled_contributes_no_crds.

(* ... and the whole ProcessDependencies (import-values included) yields the same CRD objects
   as its enable/disable pass: what install sends to the cluster from crds/ AFTER
   ProcessDependencies is exactly this list. *)
Theorem C11_process_dependencies_crds : forall compat c v c'',
  process_dependencies compat c v = Ok c'' ->
  exists c', pde compat c v "" = Ok c' /\ cname c'' = cname c'
             /\ forall root pp, crd_objects c'' root pp = crd_objects c' root pp.
Proof. exact process_dependencies_crds. Qed.
Print Assumptions C11_process_dependencies_crds.

Example C11_crds_example :
  let sub := Chart "sub" "1.0.0" [] None [] None [] ["crds/s.yaml"] in
  let top := Chart "top" "1.0.0" [] None [sub]
               (Some [mkDep "sub" "*" "a1.enabled" [] "a1" false []; mkDep "sub" "*" "a2.enabled" [] "a2" false []])
               [] ["crds/t.yaml"] in
  match process_dependencies (fun _ _ => true) top [("a1", VMap [("enabled", VBool false)])] with
  | Ok c' => crd_objects c' true "" = [("crds/t.yaml", "top/crds/t.yaml"); ("crds/s.yaml", "top/charts/a2/crds/s.yaml")]
  | Err _ => False
  end.
Proof. exact crds_example. Qed.
Print Assumptions C11_crds_example.

(* C11_scope, one level of the tree (it applies at every level): what the parent's coalesced
   values hold under subchart d's name - which is d's .Values - depends only on the section
   under d's name and on the "global" table of the values handed down; it is unchanged by any
   change to a sibling's section or to the parent's other keys.  (Names of subcharts unique,
   none called "global".) *)
Theorem C11_scope : forall merge c dest dest' r r' d,
  In d (cdeps c) -> NoDup (map cname (cdeps c)) -> ~ In global_key (map cname (cdeps c)) ->
  mget (cname d) dest = mget (cname d) dest' ->
  mget global_key dest = mget global_key dest' ->
  coalesce merge c dest = Ok r -> coalesce merge c dest' = Ok r' ->
  mget (cname d) r = mget (cname d) r'.
Proof. exact scope_level. Qed.
Print Assumptions C11_scope.

(* ... and it is exactly: the subchart's defaults coalesced under (its section with the
   parent's globals pushed in). *)
Theorem C11_scope_value : forall merge c dest r d,
  coalesce merge c dest = Ok r -> In d (cdeps c) ->
  NoDup (map cname (cdeps c)) -> ~ In global_key (map cname (cdeps c)) ->
  let dest1 := coalesce_values merge (map cname (cdeps c)) (cvalues c) dest in
  exists dv x, section_of (cname d) dest1 = Some dv
               /\ coalesce merge d (coalesce_globals dv dest1) = Ok x
               /\ mget (cname d) r = Some (VMap x).
Proof. exact scope_value. Qed.
Print Assumptions C11_scope_value.

(* C11_global_flow, upward half: whatever a subchart's section holds (its "global" included),
   the parent's "global" and every key that is not a subchart's name depend only on the same
   key of the values handed down. *)
Theorem C11_global_not_upward : forall merge c dest dest' r r' k,
  ~ In k (map cname (cdeps c)) ->
  mget k dest = mget k dest' ->
  coalesce merge c dest = Ok r -> coalesce merge c dest' = Ok r' ->
  mget k r = mget k r'.
Proof. exact section_confined. Qed.
Print Assumptions C11_global_not_upward.

(* C11_global_flow, downward half: a plain (non-table, non-null) value x under global.g in the
   values a chart works with reaches the .Values of each subchart d and wins there, whatever
   d's own defaults say - provided d's section does not hold a table at global.g and its
   "global", if present, is a table (the code skips globals otherwise).  The conclusion is
   the premise again one level down, so it carries to every descendant. *)
Theorem C11_global_flow_down : forall merge c dest r d g x sg,
  coalesce merge c dest = Ok r -> In d (cdeps c) ->
  NoDup (map cname (cdeps c)) -> ~ In global_key (map cname (cdeps c)) ->
  ~ In global_key (map cname (cdeps d)) ->
  let dest1 := coalesce_values merge (map cname (cdeps c)) (cvalues c) dest in
  mget global_key dest1 = Some (VMap sg) -> NoDup (map fst sg) -> mget g sg = Some x ->
  (is_table x = false /\ is_null x = false) ->
  (forall dv, section_of (cname d) dest1 = Some dv ->
     mget global_key dv = None
     \/ exists dg, mget global_key dv = Some (VMap dg) /\ forall t, mget g dg <> Some (VMap t)) ->
  exists xv, mget (cname d) r = Some (VMap xv)
             /\ exists gm, mget global_key xv = Some (VMap gm) /\ mget g gm = Some x.
Proof. exact global_flow_down. Qed.
Print Assumptions C11_global_flow_down.

(* the child's own coalescing keeps such a global, so the premise holds again for its subcharts *)
Theorem C11_global_kept_by_defaults : forall merge kids defaults v g x,
  (exists gm, mget global_key v = Some (VMap gm) /\ mget g gm = Some x) ->
  (is_table x = false /\ is_null x = false) ->
  exists gm, mget global_key (coalesce_values merge kids defaults v) = Some (VMap gm) /\ mget g gm = Some x.
Proof. exact coalesce_values_keeps_global. Qed.
Print Assumptions C11_global_kept_by_defaults.

(* Non-vacuity of the scope / global-flow hypotheses: two subcharts, a global set by the user,
   a different one in suba's defaults; suba sees the user's, subb is untouched by suba's section. *)
Example C11_scope_example :
  let suba := Chart "suba" "1.0.0" [("global", VMap [("g", VNum 1)]); ("k", VNum 1)] None [] None [] [] in
  let subb := Chart "subb" "1.0.0" [("k", VNum 2)] None [] None [] [] in
  let top := Chart "top" "1.0.0" [] None [suba; subb] None [] [] in
  let v := [("global", VMap [("g", VNum 7)]); ("suba", VMap [("zz", VNum 1)])] in
  let v' := [("global", VMap [("g", VNum 7)]); ("suba", VMap [("zz", VNum 2); ("global", VMap [("h", VNum 3)])])] in
  NoDup (map cname (cdeps top)) /\ ~ In global_key (map cname (cdeps top)) /\
  match coalesce false top v, coalesce false top v' with
  | Ok r, Ok r' =>
      lookup_path ["suba"; "global"; "g"] (VMap r) = Some (VNum 7)
      /\ mget "subb" r = mget "subb" r' /\ mget "global" r = mget "global" r'
      /\ lookup_path ["suba"; "global"; "h"] (VMap r') = Some (VNum 3)
      /\ lookup_path ["subb"; "global"; "h"] (VMap r') = None
  | _, _ => False
  end.
Proof. exact scope_example. Qed.
Print Assumptions C11_scope_example.

(* Non-vacuity: a chart with two aliases of one subchart (unique names), one disabled by its
   condition in the user's values although its tag says true; the other kept by a tag. *)
Example C11_enabled_example :
  let sub := Chart "sub" "1.0.0" [("enabled", VBool true)] None [] None ["templates/p.yaml"] [] in
  let top := Chart "top" "1.0.0" [("tags", VMap [("t1", VBool true)])] None [sub]
               (Some [mkDep "sub" "*" "a1.enabled" ["t1"] "a1" false [];
                      mkDep "sub" "*" "a2.missing,a2.str" ["t0"; "t1"] "a2" false []])
               ["templates/p.yaml"] [] in
  let v := [("a1", VMap [("enabled", VBool false)]); ("a2", VMap [("str", VStr "yes")]); ("tags", VMap [("t0", VBool false)])] in
  NoDup (map dname (resolved_reqs [mkDep "sub" "*" "a1.enabled" ["t1"] "a1" false [];
                                   mkDep "sub" "*" "a2.missing,a2.str" ["t0"; "t1"] "a2" false []]))
  /\ match process_dependencies (fun _ _ => true) top v with
     | Ok c' => map cname (cdeps c') = ["a2"]
                /\ match CoalesceValues c' v with
                   | Ok vals => map fst (all_templates c' vals) = ["top/charts/a2/templates/p.yaml"; "top/templates/p.yaml"]
                   | Err _ => False
                   end
     | Err _ => False
     end.
Proof. exact enabled_example. Qed.
Print Assumptions C11_enabled_example.

(* ======================================================================================== *)
(* Round 4: end-to-end statements over whole trees.                                          *)
(* [values_seen compat tree user p] = ProcessDependencies (enable / alias / import-values), then
   CoalesceValues (recursive, globals), then the scoping of recAllTpls along the path p (the
   chart names below the root).  K-C11-1 (names with dots) is excluded by [path_ok].          *)
(* ======================================================================================== *)

(* What [values_seen] says is what engine.Render's renderable of every template of the chart at
   path p holds ... *)
Theorem C11_values_seen_rendered : forall compat t v p x c r d,
  process_dependencies compat t v = Ok c -> CoalesceValues c v = Ok r ->
  values_seen compat t v p = Some x -> chart_at c p = Some d ->
  forall tpl, In tpl (ctemplates d) ->
    In (dir_of (cname c) p ++ "/" ++ tpl, VMap x) (rec_all_tpls c true "" r).
Proof. exact values_seen_rendered. Qed.
Print Assumptions C11_values_seen_rendered.

(* ... and every entry recAllTpls produces is of that kind: a template of a chart reached from
   the root by names, with the values handed down that chain. *)
Theorem C11_rendered_only_on_paths : forall c root pp pv path y,
  In (path, y) (rec_all_tpls c root pp pv) ->
  exists q e x t, on_path c (scoped_values root (cname c) pv) q e x /\ In t (ctemplates e)
                  /\ path = dir_of (chart_full_path root pp (cname c)) q ++ "/" ++ t /\ y = VMap x.
Proof. exact rendered_on_path. Qed.
Print Assumptions C11_rendered_only_on_paths.

(* The composition in closed form, at any depth: the .Values of the chart P at path p are P's own
   [coalesce] (defaults and subtree of P) started from X, where [handed] computes X level by level:
   the section under the next name out of (the chart's defaults coalesced under what was handed
   to it), with that level's globals pushed in. *)
Theorem C11_values_seen_closed : forall compat t v c p x,
  process_dependencies compat t v = Ok c -> path_ok p c ->
  values_seen compat t v p = Some x ->
  exists P X, handed false c v p = Some (P, X) /\ coalesce false P X = Ok x.
Proof. exact values_seen_closed. Qed.
Print Assumptions C11_values_seen_closed.

(* (a) Isolation at any depth.  Two runs whose processed trees and user values "differ only
   outside the path" - [chart_agree eq eq p]: the defaults of the charts on the path agree in their
   "global" table and, recursively, in the section under the next name, and the subtree at the end
   of the path is the same; [agree eq p]: the same for the user's values - show the chart at p the
   same .Values.  Siblings at every level (their defaults, their subtrees, their sections in
   anybody's values) and every other key of every ancestor are unconstrained. *)
Theorem C11_values_seen_isolated : forall compat t t' v v' c c' p x x',
  process_dependencies compat t v = Ok c -> process_dependencies compat t' v' = Ok c' ->
  tree_wf t -> tree_wf t' -> path_ok p c -> path_ok p c' ->
  chart_agree eq eq p c c' -> agree eq p v v' ->
  values_seen compat t v p = Some x -> values_seen compat t' v' p = Some x' -> x = x'.
Proof. exact values_seen_isolated. Qed.
Print Assumptions C11_values_seen_isolated.

(* (b) Globals flow down with the ancestor winning, at any depth: a plain global.g = x in the
   user's values is what the chart at ANY path sees under global.g, whatever the defaults of the
   charts on the way (or its own) say - in the cases in which the code passes globals on at all
   ([globals_pass]: no section on the way holds a non-table "global" or a table at global.g). *)
Theorem C11_global_reaches_any_depth : forall compat t v c p g x r,
  process_dependencies compat t v = Ok c ->
  tree_wf t -> path_ok p c -> wfm v ->
  (exists gm, mget global_key v = Some (VMap gm) /\ mget g gm = Some x) ->
  (is_table x = false /\ is_null x = false) ->
  globals_pass false g c v p ->
  (forall P, chart_at c p = Some P -> ~ In global_key (map cname (cdeps P))) ->
  values_seen compat t v p = Some r ->
  exists gm, mget global_key r = Some (VMap gm) /\ mget g gm = Some x.
Proof. exact values_seen_global. Qed.
Print Assumptions C11_global_reaches_any_depth.

(* ... and the same from any chart on the way: what its effective values (own defaults included)
   hold under global.g is handed to every chart below it. *)
Theorem C11_global_from_ancestor : forall n p c dest g x P X,
  path_ok (n :: p) c -> defaults_wf (n :: p) c -> wfm dest ->
  (is_table x = false /\ is_null x = false) ->
  holds_global g x (coalesce_values false (map cname (cdeps c)) (cvalues c) dest) ->
  globals_pass false g c dest (n :: p) ->
  handed false c dest (n :: p) = Some (P, X) -> holds_global g x X.
Proof. exact global_from_ancestor. Qed.
Print Assumptions C11_global_from_ancestor.

(* (c) One subchart's values never change what the parent or a sibling sees.  Two runs that, at
   the chart at path q, differ only in the subchart called n (its defaults, its whole subtree,
   the parent's defaults under the key n, the user's section under n - [except_child],
   [except_key]): the parent's .Values agree on every key but n ... *)
Theorem C11_parent_view_confined : forall compat t t' v v' c c' q n x x',
  process_dependencies compat t v = Ok c -> process_dependencies compat t' v' = Ok c' ->
  tree_wf t -> tree_wf t' -> n <> global_key -> path_ok q c -> path_ok q c' ->
  chart_agree (except_key n) (except_child n) q c c' -> agree (except_key n) q v v' ->
  values_seen compat t v q = Some x -> values_seen compat t' v' q = Some x' ->
  forall k, k <> n -> mget k x = mget k x'.
Proof. exact values_seen_parent_confined. Qed.
Print Assumptions C11_parent_view_confined.

(* ... and every sibling s sees exactly the same. *)
Theorem C11_sibling_view_unchanged : forall compat t t' v v' c c' q n s x x',
  process_dependencies compat t v = Ok c -> process_dependencies compat t' v' = Ok c' ->
  tree_wf t -> tree_wf t' -> s <> n -> n <> global_key ->
  path_ok (q ++ [s]) c -> path_ok (q ++ [s]) c' ->
  chart_agree (except_key n) (except_child n) q c c' -> agree (except_key n) q v v' ->
  values_seen compat t v (q ++ [s]) = Some x -> values_seen compat t' v' (q ++ [s]) = Some x' -> x = x'.
Proof. exact values_seen_sibling_unchanged. Qed.
Print Assumptions C11_sibling_view_unchanged.

(* K-C11-1 as a refuted statement: without "no dots in the names on the path" the closed form
   fails - the subchart my.sub sees an empty .Values although its coalesce holds x = 1. *)
Theorem C11_dotted_name_refuted :
  exists c v, (NoDup (map cname (cdeps c)) /\ ~ In global_key (map cname (cdeps c)))
    /\ seen_after c v ["my.sub"] = Some []
    /\ exists P X x, handed false c v ["my.sub"] = Some (P, X) /\ coalesce false P X = Ok x
                     /\ mget "x" x = Some (VNum 1).
Proof. exact dotted_name_refuted. Qed.
Print Assumptions C11_dotted_name_refuted.

(* Non-vacuity at depth three: two runs that differ in the root's defaults, in a second-level
   sibling's defaults and in the user's values for that sibling and for other keys; a user global
   beats the leaf's own default. *)
Example C11_values_seen_example :
  let p := ["suba"; "gca"; "leaf"] in
  match process_dependencies (fun _ _ => true) (sx_top 1) (sx_user 1),
        process_dependencies (fun _ _ => true) (sx_top 2) (sx_user 2) with
  | Ok c, Ok c' =>
      path_ok p c /\ path_ok p c' /\ tree_wf (sx_top 1) /\ tree_wf (sx_top 2)
      /\ chart_agree eq eq p c c' /\ agree eq p (sx_user 1) (sx_user 2) /\ sx_user 1 <> sx_user 2 /\ c <> c'
      /\ wfm (sx_user 1) /\ globals_pass false "g" c (sx_user 1) p
      /\ values_seen (fun _ _ => true) (sx_top 1) (sx_user 1) p
         = Some [("u", VNum 5); ("global", VMap [("g", VNum 7)]); ("z", VNum 1)]
      /\ values_seen (fun _ _ => true) (sx_top 2) (sx_user 2) p
         = Some [("u", VNum 5); ("global", VMap [("g", VNum 7)]); ("z", VNum 1)]
  | _, _ => False
  end.
Proof. exact seen_example. Qed.
Print Assumptions C11_values_seen_example.

(* ---------- import-values ---------- *)

(* processImportValues on one chart with requirement records [reqs]: its new values are its
   effective defaults (own and subcharts', MergeValues without user values) with, BELOW them, the
   tables of all import entries of all kept records merged in order, earlier ones authoritative. *)
Theorem C11_import_values_closed : forall c c' reqs,
  cmdeps c = Some reqs -> process_import_values c = Ok c' ->
  exists cvals, MergeValues c [] = Ok cvals
    /\ cvalues c' = merge_tables cvals (merge_imports (import_tables cvals (import_entries reqs)))
    /\ cdeps c' = cdeps c /\ cmdeps c' = cmdeps c /\ cname c' = cname c.
Proof. exact piv_closed. Qed.
Print Assumptions C11_import_values_closed.

(* the {child, parent} form lands exactly at the named parent path: the contributed table is one
   chain of keys, the parent path, with the child's table at its end (the string form [IStr s]
   contributes the table exports.s itself, see [import_table]) *)
Theorem C11_import_lands_at_parent_path : forall parent vv,
  parent <> "." ->
  table_at (split_dot parent) (path_to_map parent vv) = Some vv
  /\ forall k, mget k (path_to_map parent vv) <> None -> k = hd "" (split_dot parent).
Proof. exact import_lands. Qed.
Print Assumptions C11_import_lands_at_parent_path.

(* one level, for every chart: (1) the chart's own effective values win over imported ones at
   every path; (2) a key that no contributed table has is unchanged - imports reach nothing but
   their landing keys; (3) under a key the chart did not have, the first contributed table with
   that key shows through (order of imports) *)
Theorem C11_import_values_level : forall c c' reqs,
  tree_wf c -> cmdeps c = Some reqs -> process_import_values c = Ok c' ->
  exists cvals,
    MergeValues c [] = Ok cvals
    /\ let ts := import_tables cvals (import_entries reqs) in
       (forall p x, p <> [] -> lookup_path p (VMap cvals) = Some x -> is_table x = false ->
                    lookup_path p (VMap (cvalues c')) = Some x)
       /\ (forall k, (forall t, In t ts -> mget k t = None) -> mget k (cvalues c') = mget k cvals)
       /\ (forall pre t post k p x,
             ts = (pre ++ t :: post)%list -> (forall u, In u pre -> mget k u = None) -> mget k cvals = None ->
             lookup_path (k :: p) (VMap t) = Some x -> is_table x = false ->
             lookup_path (k :: p) (VMap (cvalues c')) = Some x).
Proof. exact import_values_level. Qed.
Print Assumptions C11_import_values_level.

(* user-supplied values win over imported ones (and over every other chart value), at any depth:
   a plain value the user wrote at path p ++ k :: q is what the chart at p sees at k :: q, when
   k is not a subchart of that chart (and not "global" below the root: there the ancestor wins) *)
Theorem C11_user_wins_over_imported : forall compat t v c p k q x r,
  process_dependencies compat t v = Ok c -> path_ok p c ->
  lookup_path (p ++ k :: q)%list (VMap v) = Some x ->
  (is_table x = false /\ is_null x = false) ->
  (p <> [] -> k <> global_key) ->
  (forall P, chart_at c p = Some P -> ~ In k (map cname (cdeps P))) ->
  values_seen compat t v p = Some r -> lookup_path (k :: q) (VMap r) = Some x.
Proof. exact values_seen_user_wins. Qed.
Print Assumptions C11_user_wins_over_imported.

(* imports never leak into a sibling: whatever table b is put below a chart's values, if b has
   neither the sibling's key nor "global", the sibling sees the same *)
Theorem C11_import_not_in_sibling : forall c b s user x x',
  mget s b = None -> mget global_key b = None ->
  path_ok [s] c -> wfm (cvalues c) -> wfm b ->
  seen_after c user [s] = Some x ->
  seen_after (set_values c (merge_tables (cvalues c) b)) user [s] = Some x' ->
  x = x'.
Proof. exact import_not_in_sibling. Qed.
Print Assumptions C11_import_not_in_sibling.

(* a disabled dependency imports nothing: no import entry processed afterwards belongs to a
   requirement that processDependencyEnabled disabled, and no chart carries its name (so its
   defaults are not among the values imports are read from) *)
Theorem C11_disabled_imports_nothing : forall compat c v path c',
  pde compat c v path = Ok c' ->
  exists cvals,
    CoalesceValues (set_deps c (map fst (resolved_kids compat (kids_of compat c) (mdeps_list c)))) v = Ok cvals
    /\ forall r, In r (resolved_reqs (mdeps_list c)) -> enabled_spec cvals path r = false ->
         (forall e, In e (import_entries (mdeps_list c')) -> fst e <> dname r)
         /\ ~ In (dname r) (map cname (cdeps c')).
Proof. exact disabled_imports_nothing. Qed.
Print Assumptions C11_disabled_imports_nothing.

Example C11_import_example :
  match process_dependencies (fun _ _ => true) ix_top [("data", VMap [("fromB", VNum 7)])] with
  | Ok c' =>
      lookup_path ["data"; "fromA"] (VMap (cvalues c')) = Some (VNum 9)
      /\ lookup_path ["data"; "fromB"] (VMap (cvalues c')) = Some (VNum 2)
      /\ lookup_path ["imported"; "x"; "k"] (VMap (cvalues c')) = Some (VNum 3)
      /\ lookup_path ["suba"; "exports"; "one"; "data"; "fromB"] (VMap (cvalues c')) = None
      /\ match CoalesceValues c' [("data", VMap [("fromB", VNum 7)])] with
         | Ok r => lookup_path ["data"; "fromB"] (VMap r) = Some (VNum 7)
         | Err _ => False
         end
  | Err _ => False
  end.
Proof. exact import_example. Qed.
Print Assumptions C11_import_example.

(* ---------- the enablement decision over the whole tree ---------- *)

(* processDependencyEnabled on a whole tree, as ONE statement: a chain q of subcharts (names =
   alias, else name) is left in the result iff [enabled_path]: at every link the dependency is
   offered by its parent after alias resolution and every requirement record carrying its name is
   [enabled_spec] - the first condition path that resolves to a boolean decides, otherwise it is
   disabled exactly when some of its tags is false and none is true - evaluated in the parent's
   effective values (the parent's defaults and those of its offered subcharts coalesced under the
   effective values of ITS parent; the user's values at the root), conditions looked up below the
   path prefix of the parent. *)
Theorem C11_enabled_tree : forall compat q c v path c',
  pde compat c v path = Ok c' -> (has_path c' q <-> enabled_path compat c v path q).
Proof. exact enabled_tree. Qed.
Print Assumptions C11_enabled_tree.

(* the same for ProcessDependencies as a whole (import-values keeps the set of chains) *)
Theorem C11_process_dependencies_tree : forall compat c v c'',
  process_dependencies compat c v = Ok c'' ->
  forall q, has_path c'' q <-> enabled_path compat c v "" q.
Proof. exact process_dependencies_tree. Qed.
Print Assumptions C11_process_dependencies_tree.

(* a dependency at any depth contributes templates / CRDs iff it and every ancestor dependency is
   enabled: a template path is rendered, a CRD file is sent, iff it belongs to the chart at the
   end of a chain on which every link is enabled (defaults and schema checks walk the same
   dependency lists of the same processed tree) *)
Theorem C11_contributes_iff_enabled : forall compat c v c'',
  process_dependencies compat c v = Ok c'' ->
  (forall vals path,
     (exists y, In (path, y) (rec_all_tpls c'' true "" vals)) <->
     exists q e t, enabled_path compat c v "" q /\ chain c'' q e /\ In t (ctemplates e)
                   /\ path = dir_of (cname c'') q ++ "/" ++ t)
  /\ (forall o,
     In o (crd_objects c'' true "") <->
     exists q e f, enabled_path compat c v "" q /\ chain c'' q e /\ In f (ccrds e)
                   /\ o = (f, dir_of (cname c'') q ++ "/" ++ f)).
Proof. exact contributes_iff_enabled. Qed.
Print Assumptions C11_contributes_iff_enabled.

(* Non-vacuity: depth three, aliases at two levels (a1/a2 of suba, g1 of gca, l1 of leaf), a
   condition resolved by the alias-level chart's own defaults (l1.on), a chain cut at its second
   link by the user's a2.g1.enabled=false although the tag says true. *)
Example C11_enabled_tree_example :
  enabled_path (fun _ _ => true) ex_top ex_user "" ["a1"; "g1"; "l1"]
  /\ enabled_path (fun _ _ => true) ex_top ex_user "" ["a2"]
  /\ ~ enabled_path (fun _ _ => true) ex_top ex_user "" ["a2"; "g1"].
Proof. exact enabled_tree_example. Qed.
Print Assumptions C11_enabled_tree_example.

(* K-C11-2 (known finding) as a refuted statement: the values the enablement rule is evaluated in
   ([cvals] of the theorems above) are NOT always what the parent's templates see.  For a
   dependency required under an alias at the second level (top -> suba as a1 -> gca as g1) whose
   condition g1.enabled is decided only by its own values.yaml (enabled: false), a1's .Values hold
   g1.enabled = false, yet the chain a1/g1 is enabled. *)
Theorem C11_condition_in_parent_view_refuted :
  exists x, values_seen (fun _ _ => true) kx_top [] ["a1"] = Some x
    /\ lookup_path ["g1"; "enabled"] (VMap x) = Some (VBool false)
    /\ enabled_path (fun _ _ => true) kx_top [] "" ["a1"; "g1"].
Proof. exact condition_in_parent_view_refuted. Qed.
Print Assumptions C11_condition_in_parent_view_refuted.

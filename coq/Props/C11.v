(* C11 — property theorems only: each closed by [exact] of a lemma proved in Values/DepsProofs.v. *)
From Coq Require Import List String Bool.
From Helm Require Import Values.Tree Values.Schema Values.Scope Values.Deps Values.DepsProofs.
Import ListNotations.
Local Open Scope string_scope.

(* The flag the code computes (all true; tags; then conditions, last write wins) is the
   specification: the first condition path that resolves to a boolean decides, otherwise the
   requirement is disabled exactly when some of its tags is false and none is true. *)
Theorem C11_flag_is_spec : forall reqs cvals path,
  Forall (fun r => denabled r = true) reqs ->
  flag_reqs reqs cvals path = map (fun r => set_enabled r (enabled_spec cvals path r)) reqs.
Proof. exact flag_reqs_closed. Qed.
Print Assumptions C11_flag_is_spec.

(* One level of processDependencyEnabled, for every chart, values, path and version-check
   function [compat]: with [cvals] the values the code consults (the chart's defaults and those
   of its alias-resolved subcharts coalesced under the values handed down), and unique
   requirement names (what Metadata.Validate enforces at load time), a requirement record is
   kept iff [enabled_spec], and a chart carrying its name is kept iff one was resolved and
   [enabled_spec]. *)
Theorem C11_enabled_iff : forall compat c v path c' reqs0,
  cmdeps c = Some reqs0 ->
  pde compat c v path = Ok c' ->
  let ks := resolved_kids compat (kids_of compat c) reqs0 in
  let reqs := resolved_reqs reqs0 in
  exists cvals,
    CoalesceValues (set_deps c (map fst ks)) v = Ok cvals
    /\ (NoDup (map dname reqs) ->
        forall r, In r reqs ->
          (In (dname r) (map dname (mdeps_list c')) <-> enabled_spec cvals path r = true)
          /\ (In (dname r) (map cname (cdeps c')) <->
              In (dname r) (map (fun ek => cname (fst ek)) ks) /\ enabled_spec cvals path r = true)).
Proof. exact enabled_iff. Qed.
Print Assumptions C11_enabled_iff.

(* Without any assumption on names: a disabled requirement leaves neither a chart nor a record
   under its name, and nothing appears that was not resolved. *)
Theorem C11_disabled_vanish : forall compat c v path c' reqs0,
  cmdeps c = Some reqs0 ->
  pde compat c v path = Ok c' ->
  let ks := resolved_kids compat (kids_of compat c) reqs0 in
  let reqs := resolved_reqs reqs0 in
  exists cvals,
    CoalesceValues (set_deps c (map fst ks)) v = Ok cvals
    /\ (forall r, In r reqs -> enabled_spec cvals path r = false ->
          ~ In (dname r) (map cname (cdeps c')) /\ ~ In (dname r) (map dname (mdeps_list c')))
    /\ (forall n, In n (map cname (cdeps c')) -> In n (map (fun ek => cname (fst ek)) ks)).
Proof. exact disabled_vanish. Qed.
Print Assumptions C11_disabled_vanish.

(* An aliased dependency appears under the alias only: the resolved chart and the requirement
   record both carry the alias when there is one. *)
Theorem C11_alias_only : forall compat kids r t k,
  get_alias compat kids r = Some (t, k) ->
  cname t = (if nonempty (dalias r) then dalias r else dname r)
  /\ dname (apply_alias r) = (if nonempty (dalias r) then dalias r else dname r).
Proof. exact alias_only. Qed.
Print Assumptions C11_alias_only.

(* The same holds at every depth: each kept subchart is the result of processDependencyEnabled
   on the resolved subchart with the parent's coalesced values and the extended path, ... *)
Theorem C11_enabled_recursive : forall compat c v path c' reqs0,
  cmdeps c = Some reqs0 ->
  pde compat c v path = Ok c' ->
  let ks := resolved_kids compat (kids_of compat c) reqs0 in
  let reqs := resolved_reqs reqs0 in
  exists cvals,
    CoalesceValues (set_deps c (map fst ks)) v = Ok cvals
    /\ Forall2 (fun ek t' => exists t'', snd ek cvals (path ++ cname (fst ek) ++ ".") = Ok t''
                                        /\ t' = set_name t'' (cname (fst ek)))
               (filter (fun ek => keep_name cvals path reqs (cname (fst ek))) ks) (cdeps c').
Proof. exact enabled_recursive. Qed.
Print Assumptions C11_enabled_recursive.

(* ... where the processing function paired with a resolved subchart is [pde] itself on the
   chart found under charts/ (possibly renamed to the alias). *)
Theorem C11_resolved_origin : forall compat c reqs0 ek,
  In ek (resolved_kids compat (kids_of compat c) reqs0) ->
  exists d, In d (cdeps c) /\ snd ek = pde compat d /\ (fst ek = d \/ exists a, fst ek = set_name d a).
Proof. exact kids_of_origin. Qed.
Print Assumptions C11_resolved_origin.

(* Quirk recorded as a theorem: a chart without a dependencies list in Chart.yaml is not
   descended into (its subcharts' own requirements are never evaluated). *)
Theorem C11_no_requirements_untouched : forall compat c v path,
  cmdeps c = None -> pde compat c v path = Ok c.
Proof. exact no_requirements_untouched. Qed.
Print Assumptions C11_no_requirements_untouched.

(* A disabled dependency contributes no templates: every rendered template belongs to the chart
   itself or to a chart kept in its dependency list (defaults and schema checks walk the same list). *)
Theorem C11_templates_from_kept : forall c root pp pv p x,
  In (p, x) (rec_all_tpls c root pp pv) ->
  let vals := scoped_values root (cname c) pv in
  let full := chart_full_path root pp (cname c) in
  (exists t, In t (ctemplates c) /\ p = full ++ "/" ++ t /\ x = VMap vals)
  \/ (exists d, In d (cdeps c) /\ In (p, x) (rec_all_tpls d false full vals)).
Proof. exact templates_from_kept. Qed.
Print Assumptions C11_templates_from_kept.

(* Non-vacuity: a chart with two aliases of one subchart (unique names), one disabled by its
   condition in the user's values although its tag says true; the other kept by a tag. *)
Example C11_enabled_example :
  let sub := Chart "sub" "1.0.0" [("enabled", VBool true)] None [] None ["templates/p.yaml"] false in
  let top := Chart "top" "1.0.0" [("tags", VMap [("t1", VBool true)])] None [sub]
               (Some [mkDep "sub" "*" "a1.enabled" ["t1"] "a1" false [];
                      mkDep "sub" "*" "a2.missing,a2.str" ["t0"; "t1"] "a2" false []])
               ["templates/p.yaml"] false in
  let v := [("a1", VMap [("enabled", VBool false)]); ("a2", VMap [("str", VStr "yes")]); ("tags", VMap [("t0", VBool false)])] in
  NoDup (map dname (resolved_reqs [mkDep "sub" "*" "a1.enabled" ["t1"] "a1" false [];
                                   mkDep "sub" "*" "a2.missing,a2.str" ["t0"; "t1"] "a2" false []]))
  /\ match process_dependencies (fun _ _ => true) top v with
     | Ok c' => map cname (cdeps c') = ["a2"]
                /\ match CoalesceValues c' v with
                   | Ok vals => map fst (all_templates c' vals) = ["top/charts/a2/templates/p.yaml"; "top/templates/p.yaml"]
                   | Err _ => False
                   end
     | Err _ => False
     end.
Proof. exact enabled_example. Qed.
Print Assumptions C11_enabled_example.

(* C11 — property theorems only: each closed by [exact] of a lemma proved in Values/DepsProofs.v. *)
From Coq Require Import List String Bool ZArith.
From Helm Require Import Values.Tree Values.Schema Values.Scope Values.Deps Values.DepsProofs Values.ScopeProofs.
Import ListNotations.
Local Open Scope string_scope.
Local Open Scope Z_scope.

(* The flag the code computes (all true; tags; then conditions, last write wins) is the
   specification: the first condition path that resolves to a boolean decides, otherwise the
   requirement is disabled exactly when some of its tags is false and none is true. *)
Theorem C11_flag_is_spec : forall reqs cvals path,
  Forall (fun r => denabled r = true) reqs ->
  flag_reqs reqs cvals path = map (fun r => set_enabled r (enabled_spec cvals path r)) reqs.
Proof. exact flag_reqs_closed. Qed.
Print Assumptions C11_flag_is_spec.

(* One level of processDependencyEnabled, for every chart, values, path and version-check
   function [compat]: with [cvals] the values the code consults (the chart's defaults and those
   of its alias-resolved subcharts coalesced under the values handed down), and unique
   requirement names (what Metadata.Validate enforces at load time), a requirement record is
   kept iff [enabled_spec], and a chart carrying its name is kept iff one was resolved and
   [enabled_spec]. *)
Theorem C11_enabled_iff : forall compat c v path c',
  pde compat c v path = Ok c' ->
  let reqs0 := mdeps_list c in
  let ks := resolved_kids compat (kids_of compat c) reqs0 in
  let reqs := resolved_reqs reqs0 in
  exists cvals,
    CoalesceValues (set_deps c (map fst ks)) v = Ok cvals
    /\ (NoDup (map dname reqs) ->
        forall r, In r reqs ->
          (In (dname r) (map dname (mdeps_list c')) <-> enabled_spec cvals path r = true)
          /\ (In (dname r) (map cname (cdeps c')) <->
              In (dname r) (map (fun ek => cname (fst ek)) ks) /\ enabled_spec cvals path r = true)).
Proof. exact enabled_iff. Qed.
Print Assumptions C11_enabled_iff.

(* Without any assumption on names: a disabled requirement leaves neither a chart nor a record
   under its name, and nothing appears that was not resolved. *)
Theorem C11_disabled_vanish : forall compat c v path c',
  pde compat c v path = Ok c' ->
  let reqs0 := mdeps_list c in
  let ks := resolved_kids compat (kids_of compat c) reqs0 in
  let reqs := resolved_reqs reqs0 in
  exists cvals,
    CoalesceValues (set_deps c (map fst ks)) v = Ok cvals
    /\ (forall r, In r reqs -> enabled_spec cvals path r = false ->
          ~ In (dname r) (map cname (cdeps c')) /\ ~ In (dname r) (map dname (mdeps_list c')))
    /\ (forall n, In n (map cname (cdeps c')) -> In n (map (fun ek => cname (fst ek)) ks)).
Proof. exact disabled_vanish. Qed.
Print Assumptions C11_disabled_vanish.

(* An aliased dependency appears under the alias only: the resolved chart and the requirement
   record both carry the alias when there is one. *)
Theorem C11_alias_only : forall compat kids r t k,
  get_alias compat kids r = Some (t, k) ->
  cname t = (if nonempty (dalias r) then dalias r else dname r)
  /\ dname (apply_alias r) = (if nonempty (dalias r) then dalias r else dname r).
Proof. exact alias_only. Qed.
Print Assumptions C11_alias_only.

(* The same holds at every depth: each kept subchart is the result of processDependencyEnabled
   on the resolved subchart with the parent's coalesced values and the extended path, ... *)
Theorem C11_enabled_recursive : forall compat c v path c',
  pde compat c v path = Ok c' ->
  let reqs0 := mdeps_list c in
  let ks := resolved_kids compat (kids_of compat c) reqs0 in
  let reqs := resolved_reqs reqs0 in
  exists cvals,
    CoalesceValues (set_deps c (map fst ks)) v = Ok cvals
    /\ Forall2 (fun ek t' => exists t'', snd ek cvals (path ++ cname (fst ek) ++ ".") = Ok t''
                                        /\ t' = set_name t'' (cname (fst ek)))
               (filter (fun ek => keep_name cvals path reqs (cname (fst ek))) ks) (cdeps c').
Proof. exact enabled_recursive. Qed.
Print Assumptions C11_enabled_recursive.

(* ... where the processing function paired with a resolved subchart is [pde] itself on the
   chart found under charts/ (possibly renamed to the alias). *)
Theorem C11_resolved_origin : forall compat c reqs0 ek,
  In ek (resolved_kids compat (kids_of compat c) reqs0) ->
  exists d, In d (cdeps c) /\ snd ek = pde compat d /\ (fst ek = d \/ exists a, fst ek = set_name d a).
Proof. exact kids_of_origin. Qed.
Print Assumptions C11_resolved_origin.

(* A chart without requirements of its own keeps all its subcharts, and (C11_enabled_recursive)
   they are processed in turn - the repaired behaviour (fix 20099bc; before it such a chart was
   not descended into and the conditions and aliases below it were ignored). *)
Theorem C11_no_requirements_keeps_all : forall compat c v path c',
  cmdeps c = None -> pde compat c v path = Ok c' ->
  map cname (cdeps c') = map cname (cdeps c) /\ cmdeps c' = None.
Proof. exact no_requirements_keeps_all. Qed.
Print Assumptions C11_no_requirements_keeps_all.

(* A disabled dependency contributes no templates: every rendered template belongs to the chart
   itself or to a chart kept in its dependency list (defaults and schema checks walk the same list). *)
Theorem C11_templates_from_kept : forall c root pp pv p x,
  In (p, x) (rec_all_tpls c root pp pv) ->
  let vals := scoped_values root (cname c) pv in
  let full := chart_full_path root pp (cname c) in
  (exists t, In t (ctemplates c) /\ p = full ++ "/" ++ t /\ x = VMap vals)
  \/ (exists d, In d (cdeps c) /\ In (p, x) (rec_all_tpls d false full vals)).
Proof. exact templates_from_kept. Qed.
Print Assumptions C11_templates_from_kept.

(* A disabled dependency contributes no CRDs.  [crd_objects] transcribes Chart.CRDObjects()
   (own crds/ files, then those of every chart in the dependency list).  Every CRD object of a
   tree belongs to the chart itself or to a chart in its dependency list ... *)
Theorem C11_crds_from_kept : forall c root pp o,
  In o (crd_objects c root pp) ->
  let full := chart_full_path root pp (cname c) in
  (exists f, In f (ccrds c) /\ o = (f, full ++ "/" ++ f))
  \/ (exists d, In d (cdeps c) /\ In o (crd_objects d false full)).
Proof. exact crds_from_kept. Qed.
Print Assumptions C11_crds_from_kept.

(* ... so after processDependencyEnabled every CRD object comes from the chart's own crds/ or
   from a kept subchart that does not carry the name of any disabled requirement ... *)
Theorem C11_disabled_contributes_no_crds : forall compat c v path c',
  pde compat c v path = Ok c' ->
  let reqs := resolved_reqs (mdeps_list c) in
  let ks := resolved_kids compat (kids_of compat c) (mdeps_list c) in
  exists cvals,
    CoalesceValues (set_deps c (map fst ks)) v = Ok cvals
    /\ forall r, In r reqs -> enabled_spec cvals path r = false ->
       forall root pp o, In o (crd_objects c' root pp) ->
         let full := chart_full_path root pp (cname c') in
         (exists f, In f (ccrds c) /\ o = (f, full ++ "/" ++ f))
         \/ (exists d, In d (cdeps c') /\ cname d <> dname r /\ In o (crd_objects d false full)).
Proof. exact disabled_no_crds. Qed.
Print Assumptions C11_disabled_contributes_no_crds.

(* ... and the whole ProcessDependencies (import-values included) yields the same CRD objects
   as its enable/disable pass: what install sends to the cluster from crds/ AFTER
   ProcessDependencies is exactly this list. *)
Theorem C11_process_dependencies_crds : forall compat c v c'',
  process_dependencies compat c v = Ok c'' ->
  exists c', pde compat c v "" = Ok c' /\ cname c'' = cname c'
             /\ forall root pp, crd_objects c'' root pp = crd_objects c' root pp.
Proof. exact process_dependencies_crds. Qed.
Print Assumptions C11_process_dependencies_crds.

Example C11_crds_example :
  let sub := Chart "sub" "1.0.0" [] None [] None [] ["crds/s.yaml"] in
  let top := Chart "top" "1.0.0" [] None [sub]
               (Some [mkDep "sub" "*" "a1.enabled" [] "a1" false []; mkDep "sub" "*" "a2.enabled" [] "a2" false []])
               [] ["crds/t.yaml"] in
  match process_dependencies (fun _ _ => true) top [("a1", VMap [("enabled", VBool false)])] with
  | Ok c' => crd_objects c' true "" = [("crds/t.yaml", "top/crds/t.yaml"); ("crds/s.yaml", "top/charts/a2/crds/s.yaml")]
  | Err _ => False
  end.
Proof. exact crds_example. Qed.
Print Assumptions C11_crds_example.

(* C11_scope, one level of the tree (it applies at every level): what the parent's coalesced
   values hold under subchart d's name - which is d's .Values - depends only on the section
   under d's name and on the "global" table of the values handed down; it is unchanged by any
   change to a sibling's section or to the parent's other keys.  (Names of subcharts unique,
   none called "global".) *)
Theorem C11_scope : forall merge c dest dest' r r' d,
  In d (cdeps c) -> NoDup (map cname (cdeps c)) -> ~ In global_key (map cname (cdeps c)) ->
  mget (cname d) dest = mget (cname d) dest' ->
  mget global_key dest = mget global_key dest' ->
  coalesce merge c dest = Ok r -> coalesce merge c dest' = Ok r' ->
  mget (cname d) r = mget (cname d) r'.
Proof. exact scope_level. Qed.
Print Assumptions C11_scope.

(* ... and it is exactly: the subchart's defaults coalesced under (its section with the
   parent's globals pushed in). *)
Theorem C11_scope_value : forall merge c dest r d,
  coalesce merge c dest = Ok r -> In d (cdeps c) ->
  NoDup (map cname (cdeps c)) -> ~ In global_key (map cname (cdeps c)) ->
  let dest1 := coalesce_values merge (map cname (cdeps c)) (cvalues c) dest in
  exists dv x, section_of (cname d) dest1 = Some dv
               /\ coalesce merge d (coalesce_globals dv dest1) = Ok x
               /\ mget (cname d) r = Some (VMap x).
Proof. exact scope_value. Qed.
Print Assumptions C11_scope_value.

(* C11_global_flow, upward half: whatever a subchart's section holds (its "global" included),
   the parent's "global" and every key that is not a subchart's name depend only on the same
   key of the values handed down. *)
Theorem C11_global_not_upward : forall merge c dest dest' r r' k,
  ~ In k (map cname (cdeps c)) ->
  mget k dest = mget k dest' ->
  coalesce merge c dest = Ok r -> coalesce merge c dest' = Ok r' ->
  mget k r = mget k r'.
Proof. exact section_confined. Qed.
Print Assumptions C11_global_not_upward.

(* C11_global_flow, downward half: a plain (non-table, non-null) value x under global.g in the
   values a chart works with reaches the .Values of each subchart d and wins there, whatever
   d's own defaults say - provided d's section does not hold a table at global.g and its
   "global", if present, is a table (the code skips globals otherwise).  The conclusion is
   the premise again one level down, so it carries to every descendant. *)
Theorem C11_global_flow_down : forall merge c dest r d g x sg,
  coalesce merge c dest = Ok r -> In d (cdeps c) ->
  NoDup (map cname (cdeps c)) -> ~ In global_key (map cname (cdeps c)) ->
  ~ In global_key (map cname (cdeps d)) ->
  let dest1 := coalesce_values merge (map cname (cdeps c)) (cvalues c) dest in
  mget global_key dest1 = Some (VMap sg) -> NoDup (map fst sg) -> mget g sg = Some x ->
  (is_table x = false /\ is_null x = false) ->
  (forall dv, section_of (cname d) dest1 = Some dv ->
     mget global_key dv = None
     \/ exists dg, mget global_key dv = Some (VMap dg) /\ forall t, mget g dg <> Some (VMap t)) ->
  exists xv, mget (cname d) r = Some (VMap xv)
             /\ exists gm, mget global_key xv = Some (VMap gm) /\ mget g gm = Some x.
Proof. exact global_flow_down. Qed.
Print Assumptions C11_global_flow_down.

(* the child's own coalescing keeps such a global, so the premise holds again for its subcharts *)
Theorem C11_global_kept_by_defaults : forall merge kids defaults v g x,
  (exists gm, mget global_key v = Some (VMap gm) /\ mget g gm = Some x) ->
  (is_table x = false /\ is_null x = false) ->
  exists gm, mget global_key (coalesce_values merge kids defaults v) = Some (VMap gm) /\ mget g gm = Some x.
Proof. exact coalesce_values_keeps_global. Qed.
Print Assumptions C11_global_kept_by_defaults.

(* Non-vacuity of the scope / global-flow hypotheses: two subcharts, a global set by the user,
   a different one in suba's defaults; suba sees the user's, subb is untouched by suba's section. *)
Example C11_scope_example :
  let suba := Chart "suba" "1.0.0" [("global", VMap [("g", VNum 1)]); ("k", VNum 1)] None [] None [] [] in
  let subb := Chart "subb" "1.0.0" [("k", VNum 2)] None [] None [] [] in
  let top := Chart "top" "1.0.0" [] None [suba; subb] None [] [] in
  let v := [("global", VMap [("g", VNum 7)]); ("suba", VMap [("zz", VNum 1)])] in
  let v' := [("global", VMap [("g", VNum 7)]); ("suba", VMap [("zz", VNum 2); ("global", VMap [("h", VNum 3)])])] in
  NoDup (map cname (cdeps top)) /\ ~ In global_key (map cname (cdeps top)) /\
  match coalesce false top v, coalesce false top v' with
  | Ok r, Ok r' =>
      lookup_path ["suba"; "global"; "g"] (VMap r) = Some (VNum 7)
      /\ mget "subb" r = mget "subb" r' /\ mget "global" r = mget "global" r'
      /\ lookup_path ["suba"; "global"; "h"] (VMap r') = Some (VNum 3)
      /\ lookup_path ["subb"; "global"; "h"] (VMap r') = None
  | _, _ => False
  end.
Proof. exact scope_example. Qed.
Print Assumptions C11_scope_example.

(* Non-vacuity: a chart with two aliases of one subchart (unique names), one disabled by its
   condition in the user's values although its tag says true; the other kept by a tag. *)
Example C11_enabled_example :
  let sub := Chart "sub" "1.0.0" [("enabled", VBool true)] None [] None ["templates/p.yaml"] [] in
  let top := Chart "top" "1.0.0" [("tags", VMap [("t1", VBool true)])] None [sub]
               (Some [mkDep "sub" "*" "a1.enabled" ["t1"] "a1" false [];
                      mkDep "sub" "*" "a2.missing,a2.str" ["t0"; "t1"] "a2" false []])
               ["templates/p.yaml"] [] in
  let v := [("a1", VMap [("enabled", VBool false)]); ("a2", VMap [("str", VStr "yes")]); ("tags", VMap [("t0", VBool false)])] in
  NoDup (map dname (resolved_reqs [mkDep "sub" "*" "a1.enabled" ["t1"] "a1" false [];
                                   mkDep "sub" "*" "a2.missing,a2.str" ["t0"; "t1"] "a2" false []]))
  /\ match process_dependencies (fun _ _ => true) top v with
     | Ok c' => map cname (cdeps c') = ["a2"]
                /\ match CoalesceValues c' v with
                   | Ok vals => map fst (all_templates c' vals) = ["top/charts/a2/templates/p.yaml"; "top/templates/p.yaml"]
                   | Err _ => False
                   end
     | Err _ => False
     end.
Proof. exact enabled_example. Qed.
Print Assumptions C11_enabled_example.

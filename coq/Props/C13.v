(* C13 — property theorems only: each closed by [exact] of a lemma proved elsewhere. *)
From Coq Require Import List String Bool ZArith.
From Helm Require Import Values.Tree Values.Merge Values.Coalesce Values.Reuse Values.ReuseProofs.
Import ListNotations.
Local Open Scope string_scope.

(* The Config recorded for an upgrade: the new values alone with reset-values; the deployed
   revision's values under the new ones (CoalesceTables) with reuse-values or
   reset-then-reuse-values; otherwise the new values if any were given, else the deployed
   revision's. *)
Theorem C13_config_spec : forall (h : history) (f : uflags) (c : chart) (vals : vmap) (r : revision),
  step h (OUpgrade f c vals) = Some r ->
  exists cur, current h = Some cur
  /\ rconfig r =
     (if reset_values f then vals
      else if reuse_values f || reset_then_reuse_values f then coalesce_tables false vals (rconfig cur)
      else if is_empty vals then rconfig cur else vals).
Proof. exact upgrade_config_spec. Qed.
Print Assumptions C13_config_spec.

(* ... and what that overlay means path by path: a (non-null) value given now wins, a path the
   new values say nothing about keeps what the deployed revision recorded *)
Theorem C13_config_overlay : forall (f : uflags) (newv deployed : vmap),
  reset_values f = false -> reuse_values f || reset_then_reuse_values f = true ->
  wf (VMap deployed) ->
  (forall p x, lookup_path p (VMap newv) = Some x -> is_table x = false -> x <> VNull ->
               lookup_path p (VMap (config_spec f newv deployed)) = Some x)
  /\ (forall p, defines p (VMap newv) = false ->
                lookup_path p (VMap (config_spec f newv deployed)) = lookup_path p (VMap deployed))
  (* a new null over anything the deployed revision holds at that path (scalar, list or
     table) removes the key; a new null where the deployed revision has nothing stays a null *)
  /\ (forall p y, lookup_path p (VMap newv) = Some VNull -> lookup_path p (VMap deployed) = Some y ->
                  lookup_path p (VMap (config_spec f newv deployed)) = None)
  /\ (forall p, lookup_path p (VMap newv) = Some VNull -> lookup_path p (VMap deployed) = None ->
                lookup_path p (VMap (config_spec f newv deployed)) = Some VNull).
Proof. exact overlay_paths. Qed.
Print Assumptions C13_config_overlay.

(* The chart defaults used for rendering an upgrade: with reuse-values (and not reset-values)
   the coalesced values of the deployed revision (its stored chart under its stored Config);
   otherwise the new chart's.  The stored chart carries those defaults, and the values the
   templates saw are these defaults under the recorded Config. *)
Theorem C13_defaults_spec : forall (h : history) (f : uflags) (c : chart) (vals : vmap) (r : revision),
  step h (OUpgrade f c vals) = Some r ->
  exists cur d, current h = Some cur
  /\ (if negb (reset_values f) && reuse_values f
      then coalesce_values_root (rchart cur) (rconfig cur)
      else Some (cvalues c)) = Some d
  /\ rchart r = set_values c d
  /\ to_render_values (set_values c d) (rconfig r) = Some (rrendered r).
Proof. exact upgrade_defaults_spec. Qed.
Print Assumptions C13_defaults_spec.

(* in a history whose revisions re-render to what their templates saw (true of every history
   the operations build, C13_chain), "the coalesced values of the deployed revision" are the
   values the deployed revision's templates saw: its defaults stay in force *)
Theorem C13_defaults_stay_in_force : forall (h : history) (f : uflags) (c : chart) (vals : vmap) (r : revision),
  Forall consistent h ->
  step h (OUpgrade f c vals) = Some r ->
  negb (reset_values f) && reuse_values f = true ->
  exists cur, current h = Some cur /\ rchart r = set_values c (rrendered cur).
Proof. exact reuse_defaults_are_deployed_values. Qed.
Print Assumptions C13_defaults_stay_in_force.

(* A rollback's record has the target's Config, chart and rendered values unchanged. *)
Theorem C13_rollback_config : forall (h : history) (v : nat) (r : revision),
  step h (ORollback v) = Some r ->
  exists t, get_rev h (match v with O => List.length h - 1 | _ => v end) = Some t
            /\ rconfig r = rconfig t /\ rchart r = rchart t /\ rrendered r = rrendered t.
Proof. exact rollback_spec. Qed.
Print Assumptions C13_rollback_config.

(* Any chain of installs, upgrades and rollbacks from any history: the recorded Configs
   afterwards are the fold of the per-step specification over the recorded Configs alone
   (spec_chain/spec_step: install records its values, upgrade records config_spec of the
   last revision's, rollback records the target's; failed operations record nothing), and
   every revision of a history that started consistent re-renders to what its templates saw. *)
Theorem C13_chain : forall (ops : list op) (h h' : history) (oks : list bool),
  run_chain h ops = (h', oks) ->
  map rconfig h' = spec_chain (map rconfig h) ops oks
  /\ List.length oks = List.length ops.
Proof. exact chain_spec. Qed.
Print Assumptions C13_chain.

Theorem C13_chain_consistent : forall (ops : list op) (h h' : history) (oks : list bool),
  Forall consistent h -> run_chain h ops = (h', oks) -> Forall consistent h'.
Proof. exact chain_consistent. Qed.
Print Assumptions C13_chain_consistent.

Example C13_chain_nonvacuous :
  let '(h, oks) := run_chain [] ex_ops in
  oks = [true; true; true; true; false; true]
  /\ map rconfig h =
     [ [("a", VNum 10%Z); ("u", VStr "keep")];
       [("t", VMap [("y", VStr "u2")]); ("a", VNum 10%Z)];
       [("t", VMap [("y", VStr "u2")]); ("a", VNum 10%Z)];
       [("a", VNum 10%Z); ("u", VStr "keep")];
       [] ]
  /\ option_map rrendered (get_rev h 2)
     = Some [("t", VMap [("y", VStr "u2"); ("x", VStr "d")]); ("a", VNum 10%Z); ("u", VStr "keep")].
Proof. exact ex_chain. Qed.
Print Assumptions C13_chain_nonvacuous.

Example C13_config_overlay_nonvacuous :
  let f := mkFlags false false true in
  let deployed : vmap := [("a", VNum 10%Z); ("t", VMap [("x", VStr "u")]); ("u", VStr "keep")] in
  let newv : vmap := [("t", VMap [("y", VStr "n")]); ("a", VMap [("now", VStr "table")])] in
  reset_values f = false /\ reuse_values f || reset_then_reuse_values f = true /\ wf (VMap deployed)
  /\ lookup_path ["t"; "y"] (VMap (config_spec f newv deployed)) = Some (VStr "n")
  /\ lookup_path ["t"; "x"] (VMap (config_spec f newv deployed)) = Some (VStr "u")
  /\ lookup_path ["a"; "now"] (VMap (config_spec f newv deployed)) = Some (VStr "table")
  /\ lookup_path ["u"] (VMap (config_spec f newv deployed)) = Some (VStr "keep").
Proof. exact ex_overlay. Qed.
Print Assumptions C13_config_overlay_nonvacuous.

Example C13_consistent_nonvacuous :
  Forall consistent (fst (run_chain [] ex_ops))
  /\ List.length (fst (run_chain [] ex_ops)) = 5.
Proof. exact ex_consistent. Qed.
Print Assumptions C13_consistent_nonvacuous.

(* C13 — property theorems only: each closed by [exact] of a lemma proved elsewhere. *)
From Helm Require Props.Decisions. (* data conditions of the release operations tied to /repo by the translator: notes/DEC.md *)
From Coq Require Import List String Bool ZArith.
From Helm Require Import Values.Tree Values.Merge Values.Coalesce Values.Reuse Values.ReuseProofs.
Import ListNotations.
Local Open Scope string_scope.

(* Which revision an upgrade carries values forward from (prepareUpgrade's currentRelease,
   [current_idx] over the statuses of the stored revisions): the newest revision with status
   DEPLOYED when there is one — whatever came after it (failed upgrades, failed rollbacks) —
   and only when no revision is deployed the newest revision. *)
Theorem C13_current_is_deployed : forall (sts : list rstat) (n : nat),
  current_idx sts = Some n ->
  1 <= n <= List.length sts
  /\ ((nth_error sts (n - 1) = Some SDeployed
       /\ forall j, n <= j -> j < List.length sts -> nth_error sts j <> Some SDeployed)
      \/ (n = List.length sts /\ forall j, nth_error sts j <> Some SDeployed)).
Proof. exact current_idx_spec. Qed.
Print Assumptions C13_current_is_deployed.

(* What an upgrade that gets as far as creating its record stores (whether it then succeeds or
   fails): relative to that current revision [cur], the Config is the new values alone with
   reset-values; CoalesceTables(new, cur.Config) with reuse-values or reset-then-reuse-values;
   otherwise the new values if any were given, else cur.Config.  The chart defaults used for
   rendering are, with reuse-values (and not reset-values), the coalesced values of [cur]
   (its stored chart under its stored Config), otherwise the new chart's; the stored chart
   carries those defaults and the values the templates saw are these defaults under the
   recorded Config.  On success [cur] becomes superseded and the new revision deployed; on
   failure the new revision is stored as failed and nothing else changes. *)
Theorem C13_config_spec :
  forall (h : history) (f : uflags) (c : chart) (vals : vmap) (fails : bool) (h' : history) (ok : bool),
  step h (OUpgrade f c vals fails) = Some (h', ok) ->
  exists n cur d r,
    current h = Some (n, cur)
    /\ (if negb (reset_values f) && reuse_values f
        then coalesce_values_root (rchart cur) (rconfig cur)
        else Some (cvalues c)) = Some d
    /\ h' = ((if fails then h else supersede_at n h) ++ [r])%list
    /\ rconfig r =
       (if reset_values f then vals
        else if reuse_values f || reset_then_reuse_values f then coalesce_tables false vals (rconfig cur)
        else if is_empty vals then rconfig cur else vals)
    /\ rchart r = set_values c d
    /\ to_render_values (set_values c d) (rconfig r) = Some (rrendered r)
    /\ rstatus r = (if fails then SFailed else SDeployed)
    /\ ok = negb fails.
Proof. exact upgrade_stores. Qed.
Print Assumptions C13_config_spec.

(* the same statement under its second name in DESIGN.md (defaults used for rendering) *)
Theorem C13_defaults_spec :
  forall (h : history) (f : uflags) (c : chart) (vals : vmap) (fails : bool) (h' : history) (ok : bool),
  step h (OUpgrade f c vals fails) = Some (h', ok) ->
  exists n cur d r,
    current h = Some (n, cur)
    /\ defaults_spec f c cur = Some d
    /\ h' = ((if fails then h else supersede_at n h) ++ [r])%list
    /\ rconfig r = config_spec f vals (rconfig cur)
    /\ rchart r = set_values c d
    /\ to_render_values (set_values c d) (rconfig r) = Some (rrendered r)
    /\ rstatus r = fail_status fails
    /\ ok = negb fails.
Proof. exact upgrade_stores. Qed.
Print Assumptions C13_defaults_spec.

(* ... and what the overlay means path by path: a (non-null) value given now wins, a path the
   new values say nothing about keeps what the current revision recorded *)
Theorem C13_config_overlay : forall (f : uflags) (newv deployed : vmap),
  reset_values f = false -> reuse_values f || reset_then_reuse_values f = true ->
  wf (VMap deployed) ->
  (forall p x, lookup_path p (VMap newv) = Some x -> is_table x = false -> x <> VNull ->
               lookup_path p (VMap (config_spec f newv deployed)) = Some x)
  /\ (forall p, defines p (VMap newv) = false ->
                lookup_path p (VMap (config_spec f newv deployed)) = lookup_path p (VMap deployed))
  (* a new null over anything the deployed revision holds at that path (scalar, list or
     table) removes the key; a new null where the deployed revision has nothing stays a null *)
  /\ (forall p y, lookup_path p (VMap newv) = Some VNull -> lookup_path p (VMap deployed) = Some y ->
                  lookup_path p (VMap (config_spec f newv deployed)) = None)
  /\ (forall p, lookup_path p (VMap newv) = Some VNull -> lookup_path p (VMap deployed) = None ->
                lookup_path p (VMap (config_spec f newv deployed)) = Some VNull).
Proof. exact overlay_paths. Qed.
Print Assumptions C13_config_overlay.

(* in a history whose revisions re-render to what their templates saw (true of every history
   the operations build, C13_chain_consistent), "the coalesced values of the current revision"
   are the values its templates saw: its defaults stay in force *)
Theorem C13_defaults_stay_in_force :
  forall (h : history) (f : uflags) (c : chart) (vals : vmap) (fails : bool) (h' : history) (ok : bool),
  Forall consistent h ->
  step h (OUpgrade f c vals fails) = Some (h', ok) ->
  negb (reset_values f) && reuse_values f = true ->
  exists n cur r, current h = Some (n, cur) /\ last_rev h' = Some r /\ rchart r = set_values c (rrendered cur).
Proof. exact reuse_defaults_are_deployed_values. Qed.
Print Assumptions C13_defaults_stay_in_force.

(* A rollback's record has the target's Config, chart and rendered values unchanged; on
   success every deployed revision becomes superseded and the new one deployed, on failure it
   is stored as failed. *)
Theorem C13_rollback_config : forall (h : history) (v : nat) (fails : bool) (h' : history) (ok : bool),
  step h (ORollback v fails) = Some (h', ok) ->
  exists t r, get_rev h (match v with O => List.length h - 1 | _ => v end) = Some t
    /\ h' = ((if fails then h else supersede_deployed h) ++ [r])%list
    /\ rconfig r = rconfig t /\ rchart r = rchart t /\ rrendered r = rrendered t
    /\ rstatus r = (if fails then SFailed else SDeployed) /\ ok = negb fails.
Proof. exact rollback_stores. Qed.
Print Assumptions C13_rollback_config.

(* Any chain of installs, upgrades and rollbacks — succeeding, failing after their record was
   created, or rejected before — from any history: the ledger afterwards (recorded Config and
   status of every revision) is the fold of the per-step specification over the ledger alone
   (spec_chain/spec_step: install records its values; upgrade records config_spec of the
   revision current_idx picks from the statuses; rollback records the target's; a failing
   step stores a failed revision and changes no status; a rejected one stores nothing). *)
Theorem C13_chain : forall (ops : list op) (h h' : history) (oks : list bool),
  run_chain h ops = (h', oks) ->
  ledger_of h' = spec_chain (ledger_of h) ops (stored_flags h ops)
  /\ List.length oks = List.length ops.
Proof. exact chain_spec. Qed.
Print Assumptions C13_chain.

Theorem C13_chain_consistent : forall (ops : list op) (h h' : history) (oks : list bool),
  Forall consistent h -> run_chain h ops = (h', oks) -> Forall consistent h'.
Proof. exact chain_consistent. Qed.
Print Assumptions C13_chain_consistent.

(* install; a FAILED upgrade with other values; reuse-values: carried forward from revision 1 *)
Example C13_chain_nonvacuous :
  let '(h, oks) := run_chain [] ex_ops in
  oks = [true; false; true; true; true; false; true]
  /\ ledger_of h =
     [ ([("a", VNum 10%Z); ("u", VStr "keep")], SSuperseded);
       ([("a", VNum 99%Z); ("bad", VStr "x")], SFailed);
       ([("t", VMap [("y", VStr "u2")]); ("a", VNum 10%Z)], SSuperseded);
       ([("t", VMap [("y", VStr "u2")]); ("a", VNum 10%Z)], SSuperseded);
       ([("a", VNum 10%Z); ("u", VStr "keep")], SSuperseded);
       ([], SDeployed) ]
  /\ option_map rrendered (get_rev h 3)
     = Some [("t", VMap [("y", VStr "u2"); ("x", VStr "d")]); ("a", VNum 10%Z); ("u", VStr "keep")].
Proof. exact ex_chain. Qed.
Print Assumptions C13_chain_nonvacuous.

Example C13_config_overlay_nonvacuous :
  let f := mkFlags false false true in
  let deployed : vmap := [("a", VNum 10%Z); ("t", VMap [("x", VStr "u")]); ("u", VStr "keep")] in
  let newv : vmap := [("t", VMap [("y", VStr "n")]); ("a", VMap [("now", VStr "table")])] in
  reset_values f = false /\ reuse_values f || reset_then_reuse_values f = true /\ wf (VMap deployed)
  /\ lookup_path ["t"; "y"] (VMap (config_spec f newv deployed)) = Some (VStr "n")
  /\ lookup_path ["t"; "x"] (VMap (config_spec f newv deployed)) = Some (VStr "u")
  /\ lookup_path ["a"; "now"] (VMap (config_spec f newv deployed)) = Some (VStr "table")
  /\ lookup_path ["u"] (VMap (config_spec f newv deployed)) = Some (VStr "keep").
Proof. exact ex_overlay. Qed.
Print Assumptions C13_config_overlay_nonvacuous.

Example C13_consistent_nonvacuous :
  Forall consistent (fst (run_chain [] ex_ops))
  /\ List.length (fst (run_chain [] ex_ops)) = 6.
Proof. exact ex_consistent. Qed.
Print Assumptions C13_consistent_nonvacuous.

(* C13 — property theorems only: each closed by [exact] of a lemma proved elsewhere. *)
From Helm Require Props.Decisions. (* data conditions of the release operations tied to /repo by the translator: notes/DEC.md *)
From Coq Require Import List String Bool ZArith.
From Helm Require Import Values.Tree Values.Merge Values.Coalesce Values.Reuse Values.ReuseProofs Values.ReuseChain Values.ReuseMode Values.ReuseTableProofs.
From Helm Require Gen.C13Reuse.
Import ListNotations.
Local Open Scope string_scope.

(* Which revision an upgrade carries values forward from (prepareUpgrade's currentRelease,
   [current_idx] over the statuses of the stored revisions): the newest revision with status
   DEPLOYED when there is one — whatever came after it (failed upgrades, failed rollbacks) —
   and only when no revision is deployed the newest revision. *)
Theorem C13_current_is_deployed : forall (sts : list rstat) (n : nat),
  current_idx sts = Some n ->
  1 <= n <= List.length sts
  /\ ((nth_error sts (n - 1) = Some SDeployed
       /\ forall j, n <= j -> j < List.length sts -> nth_error sts j <> Some SDeployed)
      \/ (n = List.length sts /\ forall j, nth_error sts j <> Some SDeployed)).
Proof. exact current_idx_spec. Qed.
Print Assumptions C13_current_is_deployed.

(* What an upgrade that gets as far as creating its record stores (whether it then succeeds or
   fails): relative to that current revision [cur], the Config is the new values alone with
   reset-values; CoalesceTables(new, cur.Config) with reuse-values or reset-then-reuse-values;
   otherwise the new values if any were given, else cur.Config.  The chart defaults used for
   rendering are, with reuse-values (and not reset-values), the coalesced values of [cur]
   (its stored chart under its stored Config), otherwise the new chart's; the stored chart
   carries those defaults and the values the templates saw are these defaults under the
   recorded Config.  On success [cur] becomes superseded and the new revision deployed; on
   failure the new revision is stored as failed and nothing else changes. *)
Theorem C13_config_spec :
  forall (h : history) (f : uflags) (c : chart) (vals : vmap) (fails : bool) (h' : history) (ok : bool),
  step h (OUpgrade f c vals fails) = Some (h', ok) ->
  exists n cur d r,
    current h = Some (n, cur)
    /\ (if negb (reset_values f) && reuse_values f
        then coalesce_values_root (rchart cur) (rconfig cur)
        else Some (cvalues c)) = Some d
    /\ h' = ((if fails then h else supersede_at n h) ++ [r])%list
    /\ rconfig r =
       (if reset_values f then vals
        else if reuse_values f || reset_then_reuse_values f then coalesce_tables false vals (rconfig cur)
        else if is_empty vals then rconfig cur else vals)
    /\ rchart r = set_values c d
    /\ to_render_values (set_values c d) (rconfig r) = Some (rrendered r)
    /\ rstatus r = (if fails then SFailed else SDeployed)
    /\ ok = negb fails.
Proof. exact upgrade_stores. Qed.
Print Assumptions C13_config_spec.

(* the same statement under its second name in DESIGN.md (defaults used for rendering) *)
Theorem C13_defaults_spec :
  forall (h : history) (f : uflags) (c : chart) (vals : vmap) (fails : bool) (h' : history) (ok : bool),
  step h (OUpgrade f c vals fails) = Some (h', ok) ->
  exists n cur d r,
    current h = Some (n, cur)
    /\ defaults_spec f c cur = Some d
    /\ h' = ((if fails then h else supersede_at n h) ++ [r])%list
    /\ rconfig r = config_spec f vals (rconfig cur)
    /\ rchart r = set_values c d
    /\ to_render_values (set_values c d) (rconfig r) = Some (rrendered r)
    /\ rstatus r = fail_status fails
    /\ ok = negb fails.
Proof. exact upgrade_stores. Qed.
Print Assumptions C13_defaults_spec.

(* ... and what the overlay means path by path: a (non-null) value given now wins, a path the
   new values say nothing about keeps what the current revision recorded *)
Theorem C13_config_overlay : forall (f : uflags) (newv deployed : vmap),
  reset_values f = false -> reuse_values f || reset_then_reuse_values f = true ->
  wf (VMap deployed) ->
  (forall p x, lookup_path p (VMap newv) = Some x -> is_table x = false -> x <> VNull ->
               lookup_path p (VMap (config_spec f newv deployed)) = Some x)
  /\ (forall p, defines p (VMap newv) = false ->
                lookup_path p (VMap (config_spec f newv deployed)) = lookup_path p (VMap deployed))
  (* a new null over anything the deployed revision holds at that path (scalar, list or
     table) removes the key; a new null where the deployed revision has nothing stays a null *)
  /\ (forall p y, lookup_path p (VMap newv) = Some VNull -> lookup_path p (VMap deployed) = Some y ->
                  lookup_path p (VMap (config_spec f newv deployed)) = None)
  /\ (forall p, lookup_path p (VMap newv) = Some VNull -> lookup_path p (VMap deployed) = None ->
                lookup_path p (VMap (config_spec f newv deployed)) = Some VNull).
Proof. exact overlay_paths. Qed.
Print Assumptions C13_config_overlay.

(* in a history whose revisions re-render to what their templates saw (true of every history
   the operations build, C13_chain_consistent), "the coalesced values of the current revision"
   are the values its templates saw: its defaults stay in force *)
Theorem C13_defaults_stay_in_force :
  forall (h : history) (f : uflags) (c : chart) (vals : vmap) (fails : bool) (h' : history) (ok : bool),
  Forall consistent h ->
  step h (OUpgrade f c vals fails) = Some (h', ok) ->
  negb (reset_values f) && reuse_values f = true ->
  exists n cur r, current h = Some (n, cur) /\ last_rev h' = Some r /\ rchart r = set_values c (rrendered cur).
Proof. exact reuse_defaults_are_deployed_values. Qed.
Print Assumptions C13_defaults_stay_in_force.

(* A rollback's record has the target's Config, chart and rendered values unchanged; on
   success every deployed revision becomes superseded and the new one deployed, on failure it
   is stored as failed. *)
Theorem C13_rollback_config : forall (h : history) (v : nat) (fails : bool) (h' : history) (ok : bool),
  step h (ORollback v fails) = Some (h', ok) ->
  exists t r, get_rev h (match v with O => List.length h - 1 | _ => v end) = Some t
    /\ h' = ((if fails then h else supersede_deployed h) ++ [r])%list
    /\ rconfig r = rconfig t /\ rchart r = rchart t /\ rrendered r = rrendered t
    /\ rstatus r = (if fails then SFailed else SDeployed) /\ ok = negb fails.
Proof. exact rollback_stores. Qed.
Print Assumptions C13_rollback_config.

(* Any chain of installs, upgrades and rollbacks — succeeding, failing after their record was
   created, or rejected before — from any history: the ledger afterwards (recorded Config and
   status of every revision) is the fold of the per-step specification over the ledger alone
   (spec_chain/spec_step: install records its values; upgrade records config_spec of the
   revision current_idx picks from the statuses; rollback records the target's; a failing
   step stores a failed revision and changes no status; a rejected one stores nothing). *)
Theorem C13_chain : forall (ops : list op) (h h' : history) (oks : list bool),
  run_chain h ops = (h', oks) ->
  ledger_of h' = spec_chain (ledger_of h) ops (stored_flags h ops)
  /\ List.length oks = List.length ops.
Proof. exact chain_spec. Qed.
Print Assumptions C13_chain.

Theorem C13_chain_consistent : forall (ops : list op) (h h' : history) (oks : list bool),
  Forall consistent h -> run_chain h ops = (h', oks) -> Forall consistent h'.
Proof. exact chain_consistent. Qed.
Print Assumptions C13_chain_consistent.

(* install; a FAILED upgrade with other values; reuse-values: carried forward from revision 1 *)
Example C13_chain_nonvacuous :
  let '(h, oks) := run_chain [] ex_ops in
  oks = [true; false; true; true; true; false; true]
  /\ ledger_of h =
     [ ([("a", VNum 10%Z); ("u", VStr "keep")], SSuperseded);
       ([("a", VNum 99%Z); ("bad", VStr "x")], SFailed);
       ([("t", VMap [("y", VStr "u2")]); ("a", VNum 10%Z)], SSuperseded);
       ([("t", VMap [("y", VStr "u2")]); ("a", VNum 10%Z)], SSuperseded);
       ([("a", VNum 10%Z); ("u", VStr "keep")], SSuperseded);
       ([], SDeployed) ]
  /\ option_map rrendered (get_rev h 3)
     = Some [("t", VMap [("y", VStr "u2"); ("x", VStr "d")]); ("a", VNum 10%Z); ("u", VStr "keep")].
Proof. exact ex_chain. Qed.
Print Assumptions C13_chain_nonvacuous.

Example C13_config_overlay_nonvacuous :
  let f := mkFlags false false true in
  let deployed : vmap := [("a", VNum 10%Z); ("t", VMap [("x", VStr "u")]); ("u", VStr "keep")] in
  let newv : vmap := [("t", VMap [("y", VStr "n")]); ("a", VMap [("now", VStr "table")])] in
  reset_values f = false /\ reuse_values f || reset_then_reuse_values f = true /\ wf (VMap deployed)
  /\ lookup_path ["t"; "y"] (VMap (config_spec f newv deployed)) = Some (VStr "n")
  /\ lookup_path ["t"; "x"] (VMap (config_spec f newv deployed)) = Some (VStr "u")
  /\ lookup_path ["a"; "now"] (VMap (config_spec f newv deployed)) = Some (VStr "table")
  /\ lookup_path ["u"] (VMap (config_spec f newv deployed)) = Some (VStr "keep").
Proof. exact ex_overlay. Qed.
Print Assumptions C13_config_overlay_nonvacuous.

Example C13_consistent_nonvacuous :
  Forall consistent (fst (run_chain [] ex_ops))
  /\ List.length (fst (run_chain [] ex_ops)) = 6.
Proof. exact ex_consistent. Qed.
Print Assumptions C13_consistent_nonvacuous.

(* ---- round 4: histories with failed steps at any position; rollback followed by upgrades ---- *)

(* In every history the operations build from nothing at most one revision is deployed: the one
   stored by the most recent operation that returned without error ([last_ok] threads that
   revision number through the chain; failed and rejected operations leave it alone), and
   prepareUpgrade's currentRelease is that revision — the newest revision only while no operation
   has returned without error yet. *)
Theorem C13_deployed_is_last_success : forall (ops : list op) (h : history) (oks : list bool),
  run_chain [] ops = (h, oks) ->
  (forall j r, nth_error h j = Some r -> (rstatus r = SDeployed <-> last_ok [] ops None = Some (S j)))
  /\ (forall n, last_ok [] ops None = Some n -> 1 <= n <= List.length h)
  /\ (h <> [] -> exists r,
        current h = Some (match last_ok [] ops None with Some n => n | None => List.length h end, r)).
Proof. exact deployed_is_last_success. Qed.
Print Assumptions C13_deployed_is_last_success.

(* The chain theorem with failures.  Any chain from the empty history — installs, upgrades and
   rollbacks with ARBITRARY failure flags, rejected operations included — cut at any operation
   [o] that stores a revision (number [length h0 + 1]), with anything after it: at the end of the
   whole chain that revision still records what it recorded when it was stored, namely
     upgrade:  the specification [config_spec] applied to the Config of [base], the revision
               stored by the most recent EARLIER operation that returned without error — which is
               deployed, and the only deployed revision, however many failed revisions were stored
               after it; only when no earlier operation returned without error, the newest revision
               (none is deployed then).  With reuse-values the stored chart's defaults are the
               values [base]'s templates saw, otherwise the new chart's;
     rollback: the target's Config, chart and rendered values;
     install:  its values and chart (the history was empty);
   and the operation returned without error exactly when it was not made to fail. *)
Theorem C13_chain_with_failures :
  forall (pre post : list op) (o : op) (h0 h1 hfin : history) (oks0 oksfin : list bool) (ok : bool),
  run_chain [] pre = (h0, oks0) ->
  step h0 o = Some (h1, ok) ->
  run_chain h1 post = (hfin, oksfin) ->
  ok = negb (match o with OInstall _ _ fl | OUpgrade _ _ _ fl | ORollback _ fl => fl end)
  /\ exists r, get_rev hfin (S (List.length h0)) = Some r
  /\ match o with
     | OInstall c vals fails => h0 = [] /\ rconfig r = vals /\ rchart r = c
     | OUpgrade f c vals fails =>
         exists base,
           get_rev h0 (match last_ok [] pre None with Some n => n | None => List.length h0 end) = Some base
           /\ (forall n, last_ok [] pre None = Some n ->
                 rstatus base = SDeployed
                 /\ forall j x, get_rev h0 j = Some x -> rstatus x = SDeployed -> j = n)
           /\ (last_ok [] pre None = None -> forall j x, get_rev h0 j = Some x -> rstatus x <> SDeployed)
           /\ rconfig r =
              (if reset_values f then vals
               else if reuse_values f || reset_then_reuse_values f then coalesce_tables false vals (rconfig base)
               else if is_empty vals then rconfig base else vals)
           /\ (negb (reset_values f) && reuse_values f = true -> rchart r = set_values c (rrendered base))
           /\ (negb (reset_values f) && reuse_values f = false -> rchart r = set_values c (cvalues c))
     | ORollback v fails =>
         exists t, get_rev h0 (match v with O => List.length h0 - 1 | _ => v end) = Some t
           /\ rconfig r = rconfig t /\ rchart r = rchart t /\ rrendered r = rrendered t
     end.
Proof. exact chain_with_failures. Qed.
Print Assumptions C13_chain_with_failures.

(* failed install, successful upgrade (revision 2), then a failed reuse-values upgrade, a failed
   rollback, a rejected rollback and a failed reset-values upgrade; the reuse-values upgrade looked
   at carries forward from revision 2 and keeps its defaults; a failing upgrade and a rollback
   after it do not change what it recorded.  (Revision 1 — the failed install — is superseded by
   the first successful upgrade: with nothing deployed the newest revision is the one replaced.) *)
Example C13_chain_with_failures_nonvacuous :
  let '(h0, oks0) := run_chain [] exf_pre in
  oks0 = [false; true; false; false; false; false]
  /\ last_ok [] exf_pre None = Some 2
  /\ List.length h0 = 5
  /\ exists h1, step h0 exf_o = Some (h1, true)
  /\ option_map rconfig (get_rev (fst (run_chain h1 exf_post)) 6)
     = Some [("t", VMap [("y", VStr "now"); ("x", VStr "u2")]); ("a", VNum 11%Z)]
  /\ option_map (fun r => cvalues (rchart r)) (get_rev (fst (run_chain h1 exf_post)) 6)
     = option_map rrendered (get_rev h0 2)
  /\ map rstatus (fst (run_chain h1 exf_post))
     = [SSuperseded; SSuperseded; SFailed; SFailed; SFailed; SSuperseded; SFailed; SDeployed].
Proof. exact ex_chain_with_failures. Qed.
Print Assumptions C13_chain_with_failures_nonvacuous.

(* C13_rollback_config end to end: after a successful rollback to revision [t] — whose chart may
   differ from the chart deployed before the rollback — the deployed revision is the rollback's
   (current = the new revision, with [t]'s Config, chart and rendered values), so the next upgrade,
   succeeding or failing, records the specification applied to [t]'s Config, and with reuse-values
   "the chart defaults in force at the deployed revision" are the values [t]'s templates saw. *)
Theorem C13_rollback_then_upgrade :
  forall (h : history) (v : nat) (h1 : history) (f : uflags) (c : chart) (vals : vmap) (fails : bool) (h2 : history) (ok : bool),
  Forall consistent h ->
  step h (ORollback v false) = Some (h1, true) ->
  step h1 (OUpgrade f c vals fails) = Some (h2, ok) ->
  exists t r, get_rev h (match v with O => List.length h - 1 | _ => v end) = Some t
    /\ current h1 = Some (S (List.length h), set_status SDeployed t)
    /\ last_rev h2 = Some r
    /\ rconfig r =
       (if reset_values f then vals
        else if reuse_values f || reset_then_reuse_values f then coalesce_tables false vals (rconfig t)
        else if is_empty vals then rconfig t else vals)
    /\ (negb (reset_values f) && reuse_values f = true -> rchart r = set_values c (rrendered t))
    /\ (negb (reset_values f) && reuse_values f = false -> rchart r = set_values c (cvalues c)).
Proof. exact rollback_then_upgrade. Qed.
Print Assumptions C13_rollback_then_upgrade.

Example C13_rollback_then_upgrade_nonvacuous :
  let h := fst (run_chain [] exr_pre) in
  Forall consistent h
  /\ exists h1 h2,
       step h (ORollback 1 false) = Some (h1, true)
       /\ step h1 (OUpgrade (mkFlags false true false) exf_c3 [("t", VMap [("y", VStr "n")])] false) = Some (h2, true)
       /\ option_map rconfig (last_rev h2) = Some [("t", VMap [("y", VStr "n"); ("x", VStr "u1")]); ("a", VNum 10%Z)]
       /\ option_map (fun r => cvalues (rchart r)) (last_rev h2) = option_map rrendered (get_rev h 1)
       /\ option_map rrendered (last_rev h2)
          = Some [("t", VMap [("y", VStr "n"); ("x", VStr "u1")]); ("a", VNum 10%Z); ("only1", VStr "d1")].
Proof. exact ex_rollback_then_upgrade. Qed.
Print Assumptions C13_rollback_then_upgrade_nonvacuous.

(* ---- round 4: the flags, all eight combinations; the condition chain of reuseValues tied to the source ---- *)

(* which flag decides, for each of the eight combinations (ResetValues beats ReuseValues beats
   ResetThenReuseValues) ... *)
Theorem C13_flag_combinations : forall a b c : bool,
  In (a, b, c, reuse_mode (mkFlags a b c))
     [ (false, false, false, MPlain); (false, false, true, MResetThenReuse);
       (false, true, false, MReuse);  (false, true, true, MReuse);
       (true, false, false, MReset);  (true, false, true, MReset);
       (true, true, false, MReset);   (true, true, true, MReset) ].
Proof. exact reuse_mode_cases. Qed.
Print Assumptions C13_flag_combinations.

(* ... and the model's reuseValues does, for every input, what that mode says *)
Theorem C13_mode_decides : forall (f : uflags) (ch : chart) (cur : revision) (newv : vmap),
  reuse_values_fn f ch cur newv =
  match reuse_mode f with
  | MReset => Some (ch, newv)
  | MReuse =>
      match coalesce_values_root (rchart cur) (rconfig cur) with
      | None => None
      | Some oldvals => Some (set_values ch oldvals, coalesce_tables false newv (rconfig cur))
      end
  | MResetThenReuse => Some (ch, coalesce_tables false newv (rconfig cur))
  | MPlain => if is_empty newv && negb (is_empty (rconfig cur)) then Some (ch, rconfig cur) else Some (ch, newv)
  end.
Proof. exact reuse_values_fn_by_mode_explicit. Qed.
Print Assumptions C13_mode_decides.

(* The translator table Gen/C13Reuse.v — the paths through pkg/action/upgrade.go reuseValues as
   read from the source on this run — interpreted on every environment (the three flags; new
   values nil / empty / non-empty; deployed values nil / empty / non-empty): exactly one path is
   taken, and it returns what the model decides: the caller's map, current.Config, or the overlay
   onto a COPY of the caller's map, with or without the old defaults.  First: the translator met
   nothing on those paths that it could not interpret (else the list names it). *)
Theorem C13_reuse_table_understood : Gen.C13Reuse.reuse_rows_unknown = [].
Proof. exact reuse_rows_understood. Qed.
Print Assumptions C13_reuse_table_understood.

Theorem C13_reuse_table : forall e : renv,
  decide e Gen.C13Reuse.reuse_rows = Some
    (if e_reset e then mkAct RNew false
     else if e_reuse e then mkAct ROverlayCopy true
     else if e_rtr e then mkAct ROverlayCopy false
     else if negb (mstate_eqb (e_new e) MNonEmpty) && mstate_eqb (e_cur e) MNonEmpty then mkAct RCur false
     else mkAct RNew false).
Proof. exact reuse_rows_decide_explicit. Qed.
Print Assumptions C13_reuse_table.

(* hence the table applied to the model's data is the model's reuseValues, for all inputs *)
Theorem C13_reuse_table_is_model : forall (f : uflags) (ch : chart) (cur : revision) (newv : vmap),
  option_map (fun a => apply_action a ch cur newv) (decide (env_of f newv (rconfig cur)) Gen.C13Reuse.reuse_rows)
  = Some (reuse_values_fn f ch cur newv).
Proof. exact reuse_rows_are_model. Qed.
Print Assumptions C13_reuse_table_is_model.

(* ---- round 5: storage read faults (Values/ReuseRead.v) ----
   The value model has no faults; the harness injects a failing read of the release store into
   upgrades and rollbacks and the oracle judges the real code.  What the model says about the
   shape the seeded change C13-10 needs: with a truthful lookup of the deployed revision the
   base of an upgrade is the deployed revision however many failed ones follow it; with the
   lookup answered "nothing is deployed" (what C13-10 makes Storage.DeployedAll do with every
   error) it is the newest, failed, revision. *)
From Helm Require Values.ReuseRead.

Theorem C13_base_skips_failed_revisions :
  forall n, current_idx (SDeployed :: repeat SFailed (S n)) = Some 1.
Proof. exact Values.ReuseRead.current_idx_skips_failed. Qed.
Print Assumptions C13_base_skips_failed_revisions.

Theorem C13_lost_deployed_lookup_refuted :
  current_idx [SDeployed; SFailed] = Some 1 /\
  Values.ReuseRead.current_idx_lost [SDeployed; SFailed] = Some 2.
Proof. exact Values.ReuseRead.current_idx_lost_refuted. Qed.
Print Assumptions C13_lost_deployed_lookup_refuted.

(* C13 — property theorems only. *)
From Coq Require Import List String.
From Helm Require Import Values.Tree Values.Coalesce Values.Reuse.
Import ListNotations.

Theorem C13_rollback_config : forall h v r,
  step h (ORollback v) = Some r ->
  exists t, get_rev h (match v with O => List.length h - 1 | _ => v end) = Some t
            /\ rconfig r = rconfig t /\ rchart r = rchart t /\ rrendered r = rrendered t.
Proof.
  intros h v r H. unfold step in H. destruct (current h); [|discriminate].
  destruct (get_rev h _) eqn:E; [|discriminate]. inversion H; subst. exists r1. auto.
Qed.
Print Assumptions C13_rollback_config.

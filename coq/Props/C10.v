(* C10 — All storage backends behave as the same faithful key-value store.
   Property theorems only: each closed by [exact] of a lemma proved under Storage/. *)
From Coq Require Import List String Bool Arith NArith Permutation.
From Helm Require Import Common.Assoc Common.Strs Storage.Spec Storage.Mem Storage.Kube
  Storage.Proofs Storage.Refine Storage.MemProofs Storage.KubeProofs Storage.Corollaries
  Storage.Examples Storage.Tables Storage.Rmw Storage.MemNs Storage.MemNsProofs Storage.KubeX Storage.KubeXProofs Storage.KubeLabels
  Gen.SystemLabels.
Import ListNotations.
Local Open Scope string_scope.

(* ---------- the storage key ---------- *)
Theorem C10_key_roundtrip : forall name ver, mem_parse_key (make_key name ver) = Some (name, ver).
Proof. exact parse_make_key. Qed.
Print Assumptions C10_key_roundtrip.

Theorem C10_key_injective : forall n1 v1 n2 v2,
  make_key n1 v1 = make_key n2 v2 -> n1 = n2 /\ v1 = v2.
Proof. exact make_key_inj. Qed.
Print Assumptions C10_key_injective.

(* fixed defect F4: the key parser before commit 3386c57 rejects the key of "a.v1" rev 1 *)
Theorem C10_mem_dotv_refuted :
  exists name ver, mem_parse_key_prefix (make_key name ver) = None /\
                   mem_parse_key (make_key name ver) = Some (name, ver).
Proof. exact mem_dotv_refuted. Qed.
Print Assumptions C10_mem_dotv_refuted.

Example C10_mem_dotv_prefix_accepts_plain :
  mem_parse_key_prefix (make_key "my.app" 12) = Some ("my.app", 12).
Proof. exact mem_prefix_parser_plain. Qed.
Print Assumptions C10_mem_dotv_prefix_accepts_plain.

(* ---------- memory driver = reference map ---------- *)
(* every call sequence whose written releases live in namespace ns0, from an empty driver
   configured for any namespace ns1: step by step the same Ok / error class / release, and
   List/Query results equal as multisets *)
Theorem C10_mem_refines_spec : forall (ns0 ns1 : string) (ops : list op),
  Forall (op_in_ns ns0) ops ->
  Forall2 out_equiv (mem_run (mkMem ns1 []) ops) (spec_run [] ops).
Proof. exact mem_refines_spec. Qed.
Print Assumptions C10_mem_refines_spec.

Example C10_mem_refines_spec_ex :
  Forall (op_in_ns "team-a") ex_ops /\ mem_run mem_init ex_ops = ex_outs /\ spec_run [] ex_ops = ex_outs.
Proof. exact ex_mem. Qed.
Print Assumptions C10_mem_refines_spec_ex.

(* a call the reference map fails (create-existing, get/update/delete-missing, empty query)
   fails with the same class and leaves the driver exactly as it was *)
Theorem C10_mem_error_unchanged : forall (ns0 : string) (ops : list op) (o : op) (e : err),
  Forall (op_in_ns ns0) ops -> op_in_ns ns0 o ->
  snd (spec_step (spec_exec [] ops) o) = RErr e ->
  mem_step (mem_exec (mkMem ns0 []) ops) o = (mem_exec (mkMem ns0 []) ops, RErr e).
Proof. exact mem_error_unchanged. Qed.
Print Assumptions C10_mem_error_unchanged.

Theorem C10_mem_create_existing : forall (ns0 : string) (ops : list op) (r : rel),
  Forall (op_in_ns ns0) ops -> ns_of r = ns0 ->
  aget (key_of r) (spec_exec [] ops) <> None ->
  mem_step (mem_exec (mkMem ns0 []) ops) (OCreate r) = (mem_exec (mkMem ns0 []) ops, RErr EExists).
Proof. exact mem_create_existing. Qed.
Print Assumptions C10_mem_create_existing.

Theorem C10_mem_missing_key : forall (ns0 : string) (ops : list op) (n : string) (v : nat),
  Forall (op_in_ns ns0) ops ->
  aget (make_key n v) (spec_exec [] ops) = None ->
  let m := mem_exec (mkMem ns0 []) ops in
  mem_step m (OGet n v) = (m, RErr ENotFound) /\
  mem_step m (ODelete n v) = (m, RErr ENotFound) /\
  (forall r, rname r = n -> rver r = v -> ns_of r = ns0 -> mem_step m (OUpdate r) = (m, RErr ENotFound)).
Proof. exact mem_missing_key. Qed.
Print Assumptions C10_mem_missing_key.

Theorem C10_mem_delete_returns : forall (ns0 : string) (ops : list op) (n : string) (v : nat) (r : rel),
  Forall (op_in_ns ns0) ops ->
  aget (make_key n v) (spec_exec [] ops) = Some r ->
  let m := mem_exec (mkMem ns0 []) ops in
  snd (mem_step m (ODelete n v)) = RRel r /\
  snd (mem_step (fst (mem_step m (ODelete n v))) (OGet n v)) = RErr ENotFound.
Proof. exact mem_delete_returns. Qed.
Print Assumptions C10_mem_delete_returns.

Theorem C10_mem_query_exact : forall (ns0 : string) (ops : list op) (q : list (string * string)),
  Forall (op_in_ns ns0) ops ->
  let m := mem_exec (mkMem ns0 []) ops in
  let stored := map snd (spec_exec [] ops) in
  match snd (mem_step m (OQuery q)) with
  | RRels l => l <> [] /\ forall r, In r l <-> (In r stored /\ sys_match q r = true)
  | RErr e => e = ENotFound /\ forall r, In r stored -> sys_match q r = false
  | _ => False
  end.
Proof. exact mem_query_exact. Qed.
Print Assumptions C10_mem_query_exact.

Theorem C10_mem_list_exact : forall (ns0 : string) (ops : list op),
  Forall (op_in_ns ns0) ops ->
  exists l, snd (mem_step (mem_exec (mkMem ns0 []) ops) OList) = RRels l /\
            Permutation l (map snd (spec_exec [] ops)).
Proof. exact mem_list_exact. Qed.
Print Assumptions C10_mem_list_exact.

(* ---------- Secret / ConfigMap drivers = reference map ---------- *)
(* hypotheses: the record body codec round-trips; written releases carry a label map that
   avoids the system label names; queries select on name/owner/status/version with valid
   label values.  Results are compared after dropping the system labels (strip_out);
   Update of a missing key answers "an error" (EOther) where the map says not-found. *)
Theorem C10_kube_refines_spec :
  forall (B : Type) (enc : rel -> B) (dec : B -> option rel) (valid_label_value : string -> bool),
  (forall r, dec (enc r) = Some r) ->
  forall ops : list op,
  Forall (kube_op_ok valid_label_value) ops ->
  Forall2 out_refines (map strip_out (kube_run B enc dec valid_label_value [] ops)) (spec_run [] ops).
Proof. exact kube_refines_spec. Qed.
Print Assumptions C10_kube_refines_spec.

(* C10_labels: Get/Delete return exactly the stored release (user labels only, no
   projection needed); every release returned by List/Query carries user labels, one
   time-stamp label and the four system labels *)
Theorem C10_labels :
  forall (B : Type) (enc : rel -> B) (dec : B -> option rel) (valid_label_value : string -> bool),
  (forall r, dec (enc r) = Some r) ->
  forall ops : list op,
  Forall (kube_op_ok valid_label_value) ops ->
  Forall labels_shape (kube_run B enc dec valid_label_value [] ops).
Proof. exact kube_labels. Qed.
Print Assumptions C10_labels.

Theorem C10_kube_get_exact :
  forall (B : Type) (enc : rel -> B) (dec : B -> option rel) (valid_label_value : string -> bool),
  (forall r, dec (enc r) = Some r) ->
  forall ops : list op,
  Forall (kube_op_ok valid_label_value) ops ->
  Forall2 (fun ok os => forall r, ok = RRel r -> os = RRel r)
          (kube_run B enc dec valid_label_value [] ops) (spec_run [] ops).
Proof. exact kube_get_exact. Qed.
Print Assumptions C10_kube_get_exact.

Example C10_kube_refines_spec_ex :
  Forall (kube_op_ok ex_valid) ex_ops /\ (forall r : rel, Some r = Some r) /\
  ex_krun [] ex_ops = ex_kube_outs /\ map strip_out ex_kube_outs <> ex_kube_outs.
Proof. exact ex_kube. Qed.
Print Assumptions C10_kube_refines_spec_ex.

Theorem C10_kube_error_unchanged :
  forall (B : Type) (enc : rel -> B) (dec : B -> option rel) (valid_label_value : string -> bool),
  (forall r, dec (enc r) = Some r) ->
  forall (ops : list op) (o : op) (e : err),
  Forall (kube_op_ok valid_label_value) ops -> kube_op_ok valid_label_value o ->
  snd (spec_step (spec_exec [] ops) o) = RErr e ->
  exists e', err_refines e' e /\
    kube_step B enc dec valid_label_value (kube_exec B enc dec valid_label_value [] ops) o
    = (kube_exec B enc dec valid_label_value [] ops, RErr e').
Proof. exact kube_error_unchanged. Qed.
Print Assumptions C10_kube_error_unchanged.

Theorem C10_kube_create_existing :
  forall (B : Type) (enc : rel -> B) (dec : B -> option rel) (valid_label_value : string -> bool),
  (forall r, dec (enc r) = Some r) ->
  forall (ops : list op) (r : rel),
  Forall (kube_op_ok valid_label_value) ops -> labels_ok (rlabels r) ->
  aget (key_of r) (spec_exec [] ops) <> None ->
  kube_step B enc dec valid_label_value (kube_exec B enc dec valid_label_value [] ops) (OCreate r)
  = (kube_exec B enc dec valid_label_value [] ops, RErr EExists).
Proof. exact kube_create_existing. Qed.
Print Assumptions C10_kube_create_existing.

Theorem C10_kube_missing_key :
  forall (B : Type) (enc : rel -> B) (dec : B -> option rel) (valid_label_value : string -> bool),
  (forall r, dec (enc r) = Some r) ->
  forall (ops : list op) (n : string) (v : nat),
  Forall (kube_op_ok valid_label_value) ops ->
  aget (make_key n v) (spec_exec [] ops) = None ->
  let k := kube_exec B enc dec valid_label_value [] ops in
  kube_step B enc dec valid_label_value k (OGet n v) = (k, RErr ENotFound) /\
  kube_step B enc dec valid_label_value k (ODelete n v) = (k, RErr ENotFound) /\
  (forall r, rname r = n -> rver r = v -> labels_ok (rlabels r) ->
     exists e, kube_step B enc dec valid_label_value k (OUpdate r) = (k, RErr e) /\ e <> EExists).
Proof. exact kube_missing_key. Qed.
Print Assumptions C10_kube_missing_key.

Theorem C10_kube_delete_returns :
  forall (B : Type) (enc : rel -> B) (dec : B -> option rel) (valid_label_value : string -> bool),
  (forall r, dec (enc r) = Some r) ->
  forall (ops : list op) (n : string) (v : nat) (r : rel),
  Forall (kube_op_ok valid_label_value) ops ->
  aget (make_key n v) (spec_exec [] ops) = Some r ->
  let k := kube_exec B enc dec valid_label_value [] ops in
  snd (kube_step B enc dec valid_label_value k (ODelete n v)) = RRel r /\
  snd (kube_step B enc dec valid_label_value
         (fst (kube_step B enc dec valid_label_value k (ODelete n v))) (OGet n v)) = RErr ENotFound.
Proof. exact kube_delete_returns. Qed.
Print Assumptions C10_kube_delete_returns.

Theorem C10_kube_query_exact :
  forall (B : Type) (enc : rel -> B) (dec : B -> option rel) (valid_label_value : string -> bool),
  (forall r, dec (enc r) = Some r) ->
  forall (ops : list op) (q : list (string * string)),
  Forall (kube_op_ok valid_label_value) ops -> kube_op_ok valid_label_value (OQuery q) ->
  let k := kube_exec B enc dec valid_label_value [] ops in
  let stored := map snd (spec_exec [] ops) in
  match snd (kube_step B enc dec valid_label_value k (OQuery q)) with
  | RRels l => l <> [] /\ forall r, In r (map strip_rel l) <-> (In r stored /\ sys_match q r = true)
  | RErr e => e <> EExists /\ forall r, In r stored -> sys_match q r = false
  | _ => False
  end.
Proof. exact kube_query_exact. Qed.
Print Assumptions C10_kube_query_exact.

Theorem C10_kube_list_exact :
  forall (B : Type) (enc : rel -> B) (dec : B -> option rel) (valid_label_value : string -> bool),
  (forall r, dec (enc r) = Some r) ->
  forall ops : list op,
  Forall (kube_op_ok valid_label_value) ops ->
  exists l, snd (kube_step B enc dec valid_label_value (kube_exec B enc dec valid_label_value [] ops) OList) = RRels l /\
            Permutation (map strip_rel l) (map snd (spec_exec [] ops)).
Proof. exact kube_list_exact. Qed.
Print Assumptions C10_kube_list_exact.

(* ---------- table regenerated from pkg/storage/driver/util.go on every run ---------- *)
Theorem C10_system_labels_table : system_labels = system_label_keys.
Proof. exact system_labels_table. Qed.
Print Assumptions C10_system_labels_table.

(* ---------- namespaces (memory driver) ---------- *)
(* with no hypothesis at all: for every sequence of driver calls, SetNamespace calls and
   read-modify-writes (MRmw = Storage/Rmw.v: Query{name, version}, change status, Update), on
   releases of any namespaces, the memory driver answers as one reference map per namespace
   plus a current-namespace register that every Create/Update overwrites ([nspec_step]);
   List/Query with current namespace "" range over all namespaces *)
Theorem C10_mem_refines_nspec : forall xs : list mop,
  Forall2 out_equiv (mem_mrun mem_init xs) (nspec_run nspec_init xs).
Proof. exact mem_refines_nspec. Qed.
Print Assumptions C10_mem_refines_nspec.

Example C10_mem_refines_nspec_ex :
  mem_mrun mem_init ex_ns_ops =
  [ ROk; ROk; RErr ENotFound; RRels [mkRel "web" "team-b" 1 "deployed" [] 2]; ROk;
    RRels [mkRel "app" "team-a" 1 "deployed" [] 1; mkRel "web" "team-b" 1 "deployed" [] 2];
    RErr ENotFound; ROk; RRel (mkRel "app" "team-a" 1 "deployed" [] 1); ROk;
    RRels [mkRel "web" "team-b" 1 "deployed" [] 2] ] /\
  nspec_run nspec_init ex_ns_ops = mem_mrun mem_init ex_ns_ops.
Proof. exact ex_ns. Qed.
Print Assumptions C10_mem_refines_nspec_ex.

(* the single-namespace hypothesis of C10_mem_refines_spec cannot be dropped: after a write
   to a second namespace the first release is not found although the flat map has it *)
Theorem C10_mem_two_namespaces_refuted :
  exists ops r, nth_error (spec_run [] ops) 2 = Some (RRel r) /\
                nth_error (mem_run mem_init ops) 2 = Some (RErr ENotFound).
Proof. exact mem_two_namespaces_refuted. Qed.
Print Assumptions C10_mem_two_namespaces_refuted.

(* ---------- a record that does not decode (also used by C20) ---------- *)
(* after any history, if an object with an undecodable body appears under the key of
   (n, v): List and Query still return exactly the other stored releases (Query answers
   with an empty list, not not-found, when only the damaged record matches); Get and Delete
   of that key fail and change nothing; every other key reads as before *)
Theorem C10_list_skips_undecodable :
  forall (B : Type) (enc : rel -> B) (dec : B -> option rel) (valid_label_value : string -> bool) (bad : B),
  (forall r, dec (enc r) = Some r) -> dec bad = None ->
  forall (ops : list op) (n : string) (v : nat) (st : string),
  Forall (kube_op_ok valid_label_value) ops ->
  let k := kube_exec B enc dec valid_label_value [] ops in
  let k' := fst (kube_xstep B enc dec valid_label_value bad k (XCorrupt n v st)) in
  let others := map snd (adel (make_key n v) (spec_exec [] ops)) in
  (exists l, snd (kube_step B enc dec valid_label_value k' OList) = RRels l /\ map strip_rel l = others) /\
  (forall q, kube_op_ok valid_label_value (OQuery q) ->
     match snd (kube_step B enc dec valid_label_value k' (OQuery q)) with
     | RRels l => map strip_rel l = filter (sys_match q) others
     | RErr e => filter (sys_match q) others = []
     | _ => False
     end) /\
  kube_step B enc dec valid_label_value k' (OGet n v) = (k', RErr EOther) /\
  kube_step B enc dec valid_label_value k' (ODelete n v) = (k', RErr EOther) /\
  (forall n' v', make_key n' v' <> make_key n v ->
     snd (kube_step B enc dec valid_label_value k' (OGet n' v')) =
     snd (kube_step B enc dec valid_label_value k (OGet n' v'))).
Proof. exact list_skips_undecodable. Qed.
Print Assumptions C10_list_skips_undecodable.

Example C10_list_skips_undecodable_ex :
  map strip_out (exx_run [] exx_ops) =
  [ ROk; ROk; ROk; RRels [exx_b]; RErr EOther; RRel exx_b; RRels [exx_b]; RRels [];
    RErr EExists; RErr EOther; ROk; RRel exx_a ].
Proof. exact exx_outs. Qed.
Print Assumptions C10_list_skips_undecodable_ex.

(* ---------- read-modify-write: a release read back through List/Query and written again ---------- *)
(* for EVERY release (no hypothesis on its label map — it may carry stale name/owner/status/
   version keys, as a release that came back from List/Query does), the object the drivers
   store is filed under the computed system labels, and a selector on system keys finds it
   exactly when the release's own name/owner/status/version match *)
Theorem C10_kube_system_labels_win :
  forall (B : Type) (enc : rel -> B) (stamp : string) (r : rel),
  (forall k, In k sys_keys ->
     aget k (olabels B (new_object B enc stamp r)) = aget k (sys_labels r)) /\
  (forall q, (forall k v, In (k, v) q -> In k sys_keys) ->
     selects B q (new_object B enc stamp r) = sys_match q r).
Proof. exact kube_system_labels_win. Qed.
Print Assumptions C10_kube_system_labels_win.

Example C10_kube_system_labels_win_ex :
  selects rel [("status", "superseded")] (new_object rel (fun r => r) "modifiedAt" ex_stale) = true /\
  selects rel [("status", "deployed")] (new_object rel (fun r => r) "modifiedAt" ex_stale) = false /\
  aget "status" (rlabels ex_stale) = Some "deployed".
Proof. exact ex_stale_selected. Qed.
Print Assumptions C10_kube_system_labels_win_ex.

(* C10 — All storage backends behave as the same faithful key-value store.
   Property theorems only: each closed by [exact] of a lemma proved under Storage/. *)
From Coq Require Import List String Ascii Bool Arith NArith Permutation.
From Helm Require Import Common.Assoc Common.Strs Storage.Spec Storage.Mem Storage.Kube
  Storage.Proofs Storage.Refine Storage.MemProofs Storage.KubeProofs Storage.Corollaries
  Storage.Examples Storage.Tables Storage.Rmw Storage.MemNs Storage.MemNsProofs Storage.KubeX Storage.KubeXProofs Storage.KubeLabels
  Storage.Calls Storage.LabelsAll Storage.AllProofs Storage.AllExamples Storage.Base64 Storage.Base64Proofs
  Storage.Codec Storage.CodecProofs Storage.GuardExpr Storage.CodecTables Storage.AllBytes Storage.Order Storage.OrderEngine
  Gen.SystemLabels Gen.CodecConsts.
From Helm Require Engine.Types Engine.Ops.
Import ListNotations.
Local Open Scope string_scope.

(* ---------- the storage key ---------- *)
Theorem C10_key_roundtrip : forall name ver, mem_parse_key (make_key name ver) = Some (name, ver).
Proof. exact parse_make_key. Qed.
Print Assumptions C10_key_roundtrip.

Theorem C10_key_injective : forall n1 v1 n2 v2,
  make_key n1 v1 = make_key n2 v2 -> n1 = n2 /\ v1 = v2.
Proof. exact make_key_inj. Qed.
Print Assumptions C10_key_injective.

(* fixed defect F4: the key parser before commit 3386c57 rejects the key of "a.v1" rev 1 *)
Theorem C10_mem_dotv_refuted :
  exists name ver, mem_parse_key_prefix (make_key name ver) = None /\
                   mem_parse_key (make_key name ver) = Some (name, ver).
Proof. exact mem_dotv_refuted. Qed.
Print Assumptions C10_mem_dotv_refuted.

Example C10_mem_dotv_prefix_accepts_plain :
  mem_parse_key_prefix (make_key "my.app" 12) = Some ("my.app", 12).
Proof. exact mem_prefix_parser_plain. Qed.
Print Assumptions C10_mem_dotv_prefix_accepts_plain.

(* ---------- memory driver = reference map ---------- *)
(* every call sequence whose written releases live in namespace ns0, from an empty driver
   configured for any namespace ns1: step by step the same Ok / error class / release, and
   List/Query results equal as multisets *)
Theorem C10_mem_refines_spec : forall (ns0 ns1 : string) (ops : list op),
  Forall (op_in_ns ns0) ops ->
  Forall2 out_equiv (mem_run (mkMem ns1 []) ops) (spec_run [] ops).
Proof. exact mem_refines_spec. Qed.
Print Assumptions C10_mem_refines_spec.

Example C10_mem_refines_spec_ex :
  Forall (op_in_ns "team-a") ex_ops /\ mem_run mem_init ex_ops = ex_outs /\ spec_run [] ex_ops = ex_outs.
Proof. exact ex_mem. Qed.
Print Assumptions C10_mem_refines_spec_ex.

(* a call the reference map fails (create-existing, get/update/delete-missing, empty query)
   fails with the same class and leaves the driver exactly as it was *)
Theorem C10_mem_error_unchanged : forall (ns0 : string) (ops : list op) (o : op) (e : err),
  Forall (op_in_ns ns0) ops -> op_in_ns ns0 o ->
  snd (spec_step (spec_exec [] ops) o) = RErr e ->
  mem_step (mem_exec (mkMem ns0 []) ops) o = (mem_exec (mkMem ns0 []) ops, RErr e).
Proof. exact mem_error_unchanged. Qed.
Print Assumptions C10_mem_error_unchanged.

Theorem C10_mem_create_existing : forall (ns0 : string) (ops : list op) (r : rel),
  Forall (op_in_ns ns0) ops -> ns_of r = ns0 ->
  aget (key_of r) (spec_exec [] ops) <> None ->
  mem_step (mem_exec (mkMem ns0 []) ops) (OCreate r) = (mem_exec (mkMem ns0 []) ops, RErr EExists).
Proof. exact mem_create_existing. Qed.
Print Assumptions C10_mem_create_existing.

Theorem C10_mem_missing_key : forall (ns0 : string) (ops : list op) (n : string) (v : nat),
  Forall (op_in_ns ns0) ops ->
  aget (make_key n v) (spec_exec [] ops) = None ->
  let m := mem_exec (mkMem ns0 []) ops in
  mem_step m (OGet n v) = (m, RErr ENotFound) /\
  mem_step m (ODelete n v) = (m, RErr ENotFound) /\
  (forall r, rname r = n -> rver r = v -> ns_of r = ns0 -> mem_step m (OUpdate r) = (m, RErr ENotFound)).
Proof. exact mem_missing_key. Qed.
Print Assumptions C10_mem_missing_key.

Theorem C10_mem_delete_returns : forall (ns0 : string) (ops : list op) (n : string) (v : nat) (r : rel),
  Forall (op_in_ns ns0) ops ->
  aget (make_key n v) (spec_exec [] ops) = Some r ->
  let m := mem_exec (mkMem ns0 []) ops in
  snd (mem_step m (ODelete n v)) = RRel r /\
  snd (mem_step (fst (mem_step m (ODelete n v))) (OGet n v)) = RErr ENotFound.
Proof. exact mem_delete_returns. Qed.
Print Assumptions C10_mem_delete_returns.

Theorem C10_mem_query_exact : forall (ns0 : string) (ops : list op) (q : list (string * string)),
  Forall (op_in_ns ns0) ops ->
  let m := mem_exec (mkMem ns0 []) ops in
  let stored := map snd (spec_exec [] ops) in
  match snd (mem_step m (OQuery q)) with
  | RRels l => l <> [] /\ forall r, In r l <-> (In r stored /\ sys_match q r = true)
  | RErr e => e = ENotFound /\ forall r, In r stored -> sys_match q r = false
  | _ => False
  end.
Proof. exact mem_query_exact. Qed.
Print Assumptions C10_mem_query_exact.

Theorem C10_mem_list_exact : forall (ns0 : string) (ops : list op),
  Forall (op_in_ns ns0) ops ->
  exists l, snd (mem_step (mem_exec (mkMem ns0 []) ops) OList) = RRels l /\
            Permutation l (map snd (spec_exec [] ops)).
Proof. exact mem_list_exact. Qed.
Print Assumptions C10_mem_list_exact.

(* ---------- Secret / ConfigMap drivers = reference map ---------- *)
(* hypotheses: the record body codec round-trips; written releases carry a label map that
   avoids the system label names; queries select on name/owner/status/version with valid
   label values.  Results are compared after dropping the system labels (strip_out);
   Update of a missing key answers "an error" (EOther) where the map says not-found. *)
Theorem C10_kube_refines_spec :
  forall (B : Type) (enc : rel -> B) (dec : B -> option rel) (valid_label_value : string -> bool),
  (forall r, dec (enc r) = Some r) ->
  forall ops : list op,
  Forall (kube_op_ok valid_label_value) ops ->
  Forall2 out_refines (map strip_out (kube_run B enc dec valid_label_value [] ops)) (spec_run [] ops).
Proof. exact kube_refines_spec. Qed.
Print Assumptions C10_kube_refines_spec.

(* C10_labels: Get/Delete return exactly the stored release (user labels only, no
   projection needed); every release returned by List/Query carries user labels, one
   time-stamp label and the four system labels *)
Theorem C10_labels :
  forall (B : Type) (enc : rel -> B) (dec : B -> option rel) (valid_label_value : string -> bool),
  (forall r, dec (enc r) = Some r) ->
  forall ops : list op,
  Forall (kube_op_ok valid_label_value) ops ->
  Forall labels_shape (kube_run B enc dec valid_label_value [] ops).
Proof. exact kube_labels. Qed.
Print Assumptions C10_labels.

Theorem C10_kube_get_exact :
  forall (B : Type) (enc : rel -> B) (dec : B -> option rel) (valid_label_value : string -> bool),
  (forall r, dec (enc r) = Some r) ->
  forall ops : list op,
  Forall (kube_op_ok valid_label_value) ops ->
  Forall2 (fun ok os => forall r, ok = RRel r -> os = RRel r)
          (kube_run B enc dec valid_label_value [] ops) (spec_run [] ops).
Proof. exact kube_get_exact. Qed.
Print Assumptions C10_kube_get_exact.

Example C10_kube_refines_spec_ex :
  Forall (kube_op_ok ex_valid) ex_ops /\ (forall r : rel, Some r = Some r) /\
  ex_krun [] ex_ops = ex_kube_outs /\ map strip_out ex_kube_outs <> ex_kube_outs.
Proof. exact ex_kube. Qed.
Print Assumptions C10_kube_refines_spec_ex.

Theorem C10_kube_error_unchanged :
  forall (B : Type) (enc : rel -> B) (dec : B -> option rel) (valid_label_value : string -> bool),
  (forall r, dec (enc r) = Some r) ->
  forall (ops : list op) (o : op) (e : err),
  Forall (kube_op_ok valid_label_value) ops -> kube_op_ok valid_label_value o ->
  snd (spec_step (spec_exec [] ops) o) = RErr e ->
  exists e', err_refines e' e /\
    kube_step B enc dec valid_label_value (kube_exec B enc dec valid_label_value [] ops) o
    = (kube_exec B enc dec valid_label_value [] ops, RErr e').
Proof. exact kube_error_unchanged. Qed.
Print Assumptions C10_kube_error_unchanged.

Theorem C10_kube_create_existing :
  forall (B : Type) (enc : rel -> B) (dec : B -> option rel) (valid_label_value : string -> bool),
  (forall r, dec (enc r) = Some r) ->
  forall (ops : list op) (r : rel),
  Forall (kube_op_ok valid_label_value) ops -> labels_ok (rlabels r) ->
  aget (key_of r) (spec_exec [] ops) <> None ->
  kube_step B enc dec valid_label_value (kube_exec B enc dec valid_label_value [] ops) (OCreate r)
  = (kube_exec B enc dec valid_label_value [] ops, RErr EExists).
Proof. exact kube_create_existing. Qed.
Print Assumptions C10_kube_create_existing.

Theorem C10_kube_missing_key :
  forall (B : Type) (enc : rel -> B) (dec : B -> option rel) (valid_label_value : string -> bool),
  (forall r, dec (enc r) = Some r) ->
  forall (ops : list op) (n : string) (v : nat),
  Forall (kube_op_ok valid_label_value) ops ->
  aget (make_key n v) (spec_exec [] ops) = None ->
  let k := kube_exec B enc dec valid_label_value [] ops in
  kube_step B enc dec valid_label_value k (OGet n v) = (k, RErr ENotFound) /\
  kube_step B enc dec valid_label_value k (ODelete n v) = (k, RErr ENotFound) /\
  (forall r, rname r = n -> rver r = v -> labels_ok (rlabels r) ->
     exists e, kube_step B enc dec valid_label_value k (OUpdate r) = (k, RErr e) /\ e <> EExists).
Proof. exact kube_missing_key. Qed.
Print Assumptions C10_kube_missing_key.

Theorem C10_kube_delete_returns :
  forall (B : Type) (enc : rel -> B) (dec : B -> option rel) (valid_label_value : string -> bool),
  (forall r, dec (enc r) = Some r) ->
  forall (ops : list op) (n : string) (v : nat) (r : rel),
  Forall (kube_op_ok valid_label_value) ops ->
  aget (make_key n v) (spec_exec [] ops) = Some r ->
  let k := kube_exec B enc dec valid_label_value [] ops in
  snd (kube_step B enc dec valid_label_value k (ODelete n v)) = RRel r /\
  snd (kube_step B enc dec valid_label_value
         (fst (kube_step B enc dec valid_label_value k (ODelete n v))) (OGet n v)) = RErr ENotFound.
Proof. exact kube_delete_returns. Qed.
Print Assumptions C10_kube_delete_returns.

Theorem C10_kube_query_exact :
  forall (B : Type) (enc : rel -> B) (dec : B -> option rel) (valid_label_value : string -> bool),
  (forall r, dec (enc r) = Some r) ->
  forall (ops : list op) (q : list (string * string)),
  Forall (kube_op_ok valid_label_value) ops -> kube_op_ok valid_label_value (OQuery q) ->
  let k := kube_exec B enc dec valid_label_value [] ops in
  let stored := map snd (spec_exec [] ops) in
  match snd (kube_step B enc dec valid_label_value k (OQuery q)) with
  | RRels l => l <> [] /\ forall r, In r (map strip_rel l) <-> (In r stored /\ sys_match q r = true)
  | RErr e => e <> EExists /\ forall r, In r stored -> sys_match q r = false
  | _ => False
  end.
Proof. exact kube_query_exact. Qed.
Print Assumptions C10_kube_query_exact.

Theorem C10_kube_list_exact :
  forall (B : Type) (enc : rel -> B) (dec : B -> option rel) (valid_label_value : string -> bool),
  (forall r, dec (enc r) = Some r) ->
  forall ops : list op,
  Forall (kube_op_ok valid_label_value) ops ->
  exists l, snd (kube_step B enc dec valid_label_value (kube_exec B enc dec valid_label_value [] ops) OList) = RRels l /\
            Permutation (map strip_rel l) (map snd (spec_exec [] ops)).
Proof. exact kube_list_exact. Qed.
Print Assumptions C10_kube_list_exact.

(* ---------- table regenerated from pkg/storage/driver/util.go on every run ---------- *)
Theorem C10_system_labels_table : system_labels = system_label_keys.
Proof. exact system_labels_table. Qed.
Print Assumptions C10_system_labels_table.

(* ---------- namespaces (memory driver) ---------- *)
(* with no hypothesis at all: for every sequence of driver calls, SetNamespace calls and
   read-modify-writes (MRmw = Storage/Rmw.v: Query{name, version}, change status, Update), on
   releases of any namespaces, the memory driver answers as one reference map per namespace
   plus a current-namespace register that every Create/Update overwrites ([nspec_step]);
   List/Query with current namespace "" range over all namespaces *)
Theorem C10_mem_refines_nspec : forall xs : list mop,
  Forall2 out_equiv (mem_mrun mem_init xs) (nspec_run nspec_init xs).
Proof. exact mem_refines_nspec. Qed.
Print Assumptions C10_mem_refines_nspec.

Example C10_mem_refines_nspec_ex :
  mem_mrun mem_init ex_ns_ops =
  [ ROk; ROk; RErr ENotFound; RRels [mkRel "web" "team-b" 1 "deployed" [] 2]; ROk;
    RRels [mkRel "app" "team-a" 1 "deployed" [] 1; mkRel "web" "team-b" 1 "deployed" [] 2];
    RErr ENotFound; ROk; RRel (mkRel "app" "team-a" 1 "deployed" [] 1); ROk;
    RRels [mkRel "web" "team-b" 1 "deployed" [] 2] ] /\
  nspec_run nspec_init ex_ns_ops = mem_mrun mem_init ex_ns_ops.
Proof. exact ex_ns. Qed.
Print Assumptions C10_mem_refines_nspec_ex.

(* the single-namespace hypothesis of C10_mem_refines_spec cannot be dropped: after a write
   to a second namespace the first release is not found although the flat map has it *)
Theorem C10_mem_two_namespaces_refuted :
  exists ops r, nth_error (spec_run [] ops) 2 = Some (RRel r) /\
                nth_error (mem_run mem_init ops) 2 = Some (RErr ENotFound).
Proof. exact mem_two_namespaces_refuted. Qed.
Print Assumptions C10_mem_two_namespaces_refuted.

(* ---------- a record that does not decode (also used by C20) ---------- *)
(* after any history, if an object with an undecodable body appears under the key of
   (n, v): List and Query still return exactly the other stored releases (Query answers
   with an empty list, not not-found, when only the damaged record matches); Get and Delete
   of that key fail and change nothing; every other key reads as before *)
Theorem C10_list_skips_undecodable :
  forall (B : Type) (enc : rel -> B) (dec : B -> option rel) (valid_label_value : string -> bool) (bad : B),
  (forall r, dec (enc r) = Some r) -> dec bad = None ->
  forall (ops : list op) (n : string) (v : nat) (st : string),
  Forall (kube_op_ok valid_label_value) ops ->
  let k := kube_exec B enc dec valid_label_value [] ops in
  let k' := fst (kube_xstep B enc dec valid_label_value bad k (XCorrupt n v st)) in
  let others := map snd (adel (make_key n v) (spec_exec [] ops)) in
  (exists l, snd (kube_step B enc dec valid_label_value k' OList) = RRels l /\ map strip_rel l = others) /\
  (forall q, kube_op_ok valid_label_value (OQuery q) ->
     match snd (kube_step B enc dec valid_label_value k' (OQuery q)) with
     | RRels l => map strip_rel l = filter (sys_match q) others
     | RErr e => filter (sys_match q) others = []
     | _ => False
     end) /\
  kube_step B enc dec valid_label_value k' (OGet n v) = (k', RErr EOther) /\
  kube_step B enc dec valid_label_value k' (ODelete n v) = (k', RErr EOther) /\
  (forall n' v', make_key n' v' <> make_key n v ->
     snd (kube_step B enc dec valid_label_value k' (OGet n' v')) =
     snd (kube_step B enc dec valid_label_value k (OGet n' v'))).
Proof. exact list_skips_undecodable. Qed.
Print Assumptions C10_list_skips_undecodable.

Example C10_list_skips_undecodable_ex :
  map strip_out (exx_run [] exx_ops) =
  [ ROk; ROk; ROk; RRels [exx_b]; RErr EOther; RRel exx_b; RRels [exx_b]; RRels [];
    RErr EExists; RErr EOther; ROk; RRel exx_a ].
Proof. exact exx_outs. Qed.
Print Assumptions C10_list_skips_undecodable_ex.

(* ---------- read-modify-write: a release read back through List/Query and written again ---------- *)
(* for EVERY release (no hypothesis on its label map — it may carry stale name/owner/status/
   version keys, as a release that came back from List/Query does), the object the drivers
   store is filed under the computed system labels, and a selector on system keys finds it
   exactly when the release's own name/owner/status/version match *)
Theorem C10_kube_system_labels_win :
  forall (B : Type) (enc : rel -> B) (stamp : string) (r : rel),
  (forall k, In k sys_keys ->
     aget k (olabels B (new_object B enc stamp r)) = aget k (sys_labels r)) /\
  (forall q, (forall k v, In (k, v) q -> In k sys_keys) ->
     selects B q (new_object B enc stamp r) = sys_match q r).
Proof. exact kube_system_labels_win. Qed.
Print Assumptions C10_kube_system_labels_win.

Example C10_kube_system_labels_win_ex :
  selects rel [("status", "superseded")] (new_object rel (fun r => r) "modifiedAt" ex_stale) = true /\
  selects rel [("status", "deployed")] (new_object rel (fun r => r) "modifiedAt" ex_stale) = false /\
  aget "status" (rlabels ex_stale) = Some "deployed".
Proof. exact ex_stale_selected. Qed.
Print Assumptions C10_kube_system_labels_win_ex.

(* ====================================================================== *)
(* Round 4: every release content, the byte-level codec, result order      *)
(* ====================================================================== *)

(* ---------- all backends, every call sequence, every release content ---------- *)
(* Vocabulary (Storage/Calls.v): a call [sop] is a driver call or a read-modify-write (Query
   {name, version}, change the status of the single release that came back - with the labels it
   came back with -, Update); [srun step s xs] runs a call sequence; [norm_rel r] is r with its
   label map replaced by its user labels [ulabels]: the six system keys removed, one entry per
   key (the last value written wins).  The reference map stores [norm_rel r]; results are
   compared after the same projection.  No condition on release contents: label maps may
   repeat keys and may carry name/owner/status/version/createdAt/modifiedAt.  The conditions
   are on calls only: queries (and the query inside a read-modify-write) select on
   name/owner/status/version with values that are valid Kubernetes label values - every valid
   release name is one - for the Secret/ConfigMap model; one namespace per driver instance for
   the memory model (C10_mem_refines_nspec is the statement without it).  The codec hypothesis
   asks the record body to give back the release without its label map (Release.Labels is
   json:"-"). *)
Theorem C10_all_backends_refine_spec :
  forall (B : Type) (enc : rel -> B) (dec : B -> option rel) (valid_label_value : string -> bool),
  (forall r, option_map unlabel (dec (enc r)) = Some (unlabel r)) ->
  forall (ns0 ns1 : string) (xs : list sop),
  let ref := srun spec_step [] (map norm_sop xs) in
  (Forall (call_in_ns ns0) xs ->
     Forall2 out_equiv (map norm_out (srun mem_step (mkMem ns1 []) xs)) ref) /\
  (Forall (call_ok valid_label_value) xs ->
     Forall2 out_refines (map norm_out (srun (kube_step B enc dec valid_label_value) [] xs)) ref).
Proof. exact all_backends_refine_spec. Qed.
Print Assumptions C10_all_backends_refine_spec.

Example C10_all_backends_refine_spec_ex :
  Forall (call_in_ns "team-a") exa_ops /\ Forall (call_ok ex_valid) exa_ops /\
  (forall r : rel, option_map unlabel (Some r) = Some (unlabel r)) /\
  srun spec_step [] (map norm_sop exa_ops) = exa_ref /\
  map norm_out (srun mem_step mem_init exa_ops) = exa_ref /\
  map norm_out (exa_krun [] exa_ops) = exa_kube_ref /\
  map norm_sop exa_ops <> exa_ops.
Proof. exact exa_all. Qed.
Print Assumptions C10_all_backends_refine_spec_ex.

(* the projection is needed: unprojected, the memory driver hands back the label map it was
   given (system keys included), Get on the Kubernetes drivers drops the system keys, List and
   Query on them hand back the stored object's labels - where the release's own createdAt has
   replaced the driver's stamp and the computed name/owner/status/version its stale ones *)
Example C10_backends_differ_unprojected :
  nth 2 (srun mem_step mem_init exa_ops) ROk = RRel exa_r1 /\
  nth 2 (exa_krun [] exa_ops) ROk = RRel exa_n1 /\
  nth 4 (exa_krun [] exa_ops) ROk =
    RRels [mkRel "a.v1" "team-a" 1 "deployed"
             [("team", "y"); ("name", "a.v1"); ("status", "deployed"); ("owner", "helm");
              ("createdAt", "77"); ("version", "1")] 7].
Proof. exact exa_unprojected_differ. Qed.
Print Assumptions C10_backends_differ_unprojected.

(* the memory driver needs no projection: it hands back exactly what the reference map holds *)
Theorem C10_mem_refines_spec_rmw : forall (ns0 ns1 : string) (xs : list sop),
  Forall (call_in_ns ns0) xs ->
  Forall2 out_equiv (srun mem_step (mkMem ns1 []) xs) (srun spec_step [] xs).
Proof. exact mem_refines_spec_rmw. Qed.
Print Assumptions C10_mem_refines_spec_rmw.

(* whenever Get / Delete on the Secret/ConfigMap model hand back a release, it IS the reference
   map's entry (no projection): filterSystemLabels computes the user labels *)
Theorem C10_kube_get_exact_all :
  forall (B : Type) (enc : rel -> B) (dec : B -> option rel) (valid_label_value : string -> bool),
  (forall r, option_map unlabel (dec (enc r)) = Some (unlabel r)) ->
  forall xs : list sop,
  Forall (call_ok valid_label_value) xs ->
  Forall2 (fun ok os => forall r, ok = RRel r -> os = RRel r)
          (srun (kube_step B enc dec valid_label_value) [] xs) (srun spec_step [] (map norm_sop xs)).
Proof. exact kube_get_exact_all. Qed.
Print Assumptions C10_kube_get_exact_all.

(* what newSecretsObject / newConfigMapsObject + filterSystemLabels do with ANY label map *)
Theorem C10_user_labels : forall (stamp : string) (r : rel),
  is_stamp stamp ->
  filter_system_labels (object_labels stamp r) = ulabels (rlabels r) /\
  ulabels (object_labels stamp r) = ulabels (rlabels r) /\
  labels_ok (ulabels (rlabels r)) /\
  (labels_ok (rlabels r) -> ulabels (rlabels r) = rlabels r).
Proof. exact user_labels_all. Qed.
Print Assumptions C10_user_labels.

(* the time-stamp label of a stored object: the driver's stamp ("0" in the model) unless the
   release's own label map has an entry of that name, which then wins (its last value).  A
   release read back through Query and updated keeps the createdAt of its creation - and, from
   its second update on, the modifiedAt of its first update (replayed on the real drivers:
   notes/C10.md) *)
Theorem C10_stamp_label_own_wins : forall (stamp : string) (r : rel),
  is_stamp stamp ->
  aget stamp (object_labels stamp r) =
  Some (match alast stamp (rlabels r) with Some v => v | None => "0" end).
Proof. exact stamp_label_own_wins. Qed.
Print Assumptions C10_stamp_label_own_wins.

(* ---------- the base64 layer of the record codec (encoding/base64 StdEncoding) ---------- *)
Theorem C10_base64_roundtrip : forall bs : string, b64_decode (b64_encode bs) = Some bs.
Proof. exact b64_roundtrip. Qed.
Print Assumptions C10_base64_roundtrip.

Theorem C10_base64_injective : forall s1 s2 : string, b64_encode s1 = b64_encode s2 -> s1 = s2.
Proof. exact b64_encode_injective. Qed.
Print Assumptions C10_base64_injective.

(* encoded text consists of alphabet characters and '=' only *)
Theorem C10_base64_text : forall bs : string, all_chars b64_text_char (b64_encode bs) = true.
Proof. exact b64_encode_text. Qed.
Print Assumptions C10_base64_text.

(* the decoder skips '\n' and '\r' wherever they stand and rejects the whole text on any other
   character that is neither a digit nor '=' *)
Theorem C10_base64_newlines_and_rejects : forall (st : quantum) (ch : Ascii.ascii) (t : string),
  (is_nl ch = true -> b64_decode_from st (String ch t) = b64_decode_from st t) /\
  (b64_digit ch = None -> is_nl ch = false -> Ascii.eqb ch pad_char = false ->
     b64_decode_from st (String ch t) = None).
Proof. exact b64_newlines_and_rejects. Qed.
Print Assumptions C10_base64_newlines_and_rejects.

Example C10_base64_ex :
  b64_encode "AB" = "QUI=" /\ b64_decode "QUI=" = Some "AB" /\ b64_decode "QQ=" = None /\
  b64_decode "QR==" = Some "A" /\ b64_decode "QQ==QQ==" = None /\ b64_decode "QU-D" = None.
Proof. exact b64_examples. Qed.
Print Assumptions C10_base64_ex.

(* ---------- decodeRelease: dispatch on the gzip magic number ---------- *)
Theorem C10_codec_dispatch :
  forall (unjson : string -> option rel) (gunzip : string -> option string) (data b : string),
  b64_decode data = Some b ->
  decode_release unjson gunzip data =
  (if has_gzip_magic b then match gunzip b with Some b2 => unjson b2 | None => None end else unjson b).
Proof. exact decode_dispatch. Qed.
Print Assumptions C10_codec_dispatch.

(* the test is: more than three bytes, the first three 1f 8b 08; a JSON text (it opens with a
   brace) never passes it, so a record of the time before compression is never gunzipped *)
Theorem C10_gzip_magic_test : forall b : string,
  (has_gzip_magic b = true <->
   exists c t, b = String "031"%char (String "139"%char (String "008"%char (String c t)))) /\
  (forall t, has_gzip_magic (String "{"%char t) = false).
Proof. exact gzip_magic_test. Qed.
Print Assumptions C10_gzip_magic_test.

(* only the round trips of encoding/json and compress/gzip are assumed *)
Theorem C10_codec_roundtrip :
  forall (json : rel -> string) (unjson : string -> option rel)
         (gzip : string -> string) (gunzip : string -> option string),
  (forall b, gunzip (gzip b) = Some b) -> (forall b, has_gzip_magic (gzip b) = true) ->
  (forall r, option_map unlabel (unjson (json r)) = Some (unlabel r)) ->
  forall r, option_map unlabel (decode_release unjson gunzip (encode_release json gzip r)) = Some (unlabel r).
Proof. exact codec_roundtrip_body. Qed.
Print Assumptions C10_codec_roundtrip.

Theorem C10_codec_legacy :
  forall (json : rel -> string) (unjson : string -> option rel) (gunzip : string -> option string),
  (forall r, option_map unlabel (unjson (json r)) = Some (unlabel r)) ->
  (forall r, exists t, json r = String "{"%char t) ->
  forall r, option_map unlabel (decode_release unjson gunzip (encode_release_legacy json r)) = Some (unlabel r).
Proof. exact codec_legacy_body. Qed.
Print Assumptions C10_codec_legacy.

Theorem C10_codec_injective :
  forall (json : rel -> string) (unjson : string -> option rel)
         (gzip : string -> string) (gunzip : string -> option string),
  (forall b, gunzip (gzip b) = Some b) -> (forall b, has_gzip_magic (gzip b) = true) ->
  (forall r, option_map unlabel (unjson (json r)) = Some (unlabel r)) ->
  forall r1 r2, encode_release json gzip r1 = encode_release json gzip r2 -> unlabel r1 = unlabel r2.
Proof. exact encode_release_injective. Qed.
Print Assumptions C10_codec_injective.

(* the hypotheses on gzip can be met *)
Example C10_codec_hypotheses_ex :
  (forall b, toy_gunzip (toy_gzip b) = Some b) /\ (forall b, has_gzip_magic (toy_gzip b) = true).
Proof. exact toy_gzip_ok. Qed.
Print Assumptions C10_codec_hypotheses_ex.

(* regenerated from pkg/storage/driver on every run (Gen/CodecConsts.v): the encodings
   encodeRelease / decodeRelease use, the magic number, and the guard that decides about gunzip
   as a boolean expression [magic_guard] over "len(b) compared with a constant" and "b[lo:hi]
   equals the magic number", with [magic_guard_positive] saying whether the guarded branch is
   the one that gunzips or the early return that does not *)
Theorem C10_codec_consts_table :
  (b64_encoding, b64_decoding) = ("base64.StdEncoding", "base64.StdEncoding") /\
  magic_gzip = magic_gzip_bytes /\ gunknowns magic_guard = [].
Proof. exact codec_consts_table. Qed.
Print Assumptions C10_codec_consts_table.

(* the guard of the source is EQUIVALENT to the model's dispatch condition: for every byte
   string, the source gunzips exactly when [has_gzip_magic] holds - however the condition is
   written (len(b) > 3, !(len(b) <= 3), len(b) >= 4, negated for an early return, ...) *)
Theorem C10_magic_guard_is_model : forall b : string,
  gunzip_taken magic_guard_positive magic_guard (String.length b) (starts_magic b) = has_gzip_magic b.
Proof. exact magic_guard_is_model. Qed.
Print Assumptions C10_magic_guard_is_model.

(* ---------- the refinement statements on the byte-level codec ---------- *)
Theorem C10_all_backends_refine_spec_bytes :
  forall (json : rel -> string) (unjson : string -> option rel)
         (gzip : string -> string) (gunzip : string -> option string)
         (valid_label_value : string -> bool),
  (forall b, gunzip (gzip b) = Some b) -> (forall b, has_gzip_magic (gzip b) = true) ->
  (forall r, option_map unlabel (unjson (json r)) = Some (unlabel r)) ->
  forall (ns0 ns1 : string) (xs : list sop),
  let ref := srun spec_step [] (map norm_sop xs) in
  (Forall (call_in_ns ns0) xs ->
     Forall2 out_equiv (map norm_out (srun mem_step (mkMem ns1 []) xs)) ref) /\
  (Forall (call_ok valid_label_value) xs ->
     Forall2 out_refines
       (map norm_out (srun (kube_step string (encode_release json gzip) (decode_release unjson gunzip)
                                      valid_label_value) [] xs)) ref).
Proof. exact all_backends_refine_spec_bytes. Qed.
Print Assumptions C10_all_backends_refine_spec_bytes.

Theorem C10_kube_refines_spec_bytes :
  forall (json : rel -> string) (unjson : string -> option rel)
         (gzip : string -> string) (gunzip : string -> option string)
         (valid_label_value : string -> bool),
  (forall b, gunzip (gzip b) = Some b) -> (forall b, has_gzip_magic (gzip b) = true) ->
  (forall r, unjson (json r) = Some r) ->
  forall ops : list op,
  Forall (kube_op_ok valid_label_value) ops ->
  Forall2 out_refines
    (map strip_out (kube_run string (encode_release json gzip) (decode_release unjson gunzip)
                             valid_label_value [] ops)) (spec_run [] ops).
Proof. exact kube_refines_spec_bytes. Qed.
Print Assumptions C10_kube_refines_spec_bytes.

(* the damaged record the harness (and C20) plants is rejected by the base64 layer: the
   hypothesis [dec bad = None] of C10_list_skips_undecodable is a fact *)
Theorem C10_damaged_record_undecodable :
  forall (unjson : string -> option rel) (gunzip : string -> option string),
  decode_release unjson gunzip "!! not a release !!" = None.
Proof. exact damaged_record_undecodable. Qed.
Print Assumptions C10_damaged_record_undecodable.

(* ---------- the order of List / Query results ---------- *)
(* sorting by a numeric key and taking the maximum do not depend on the order of the input
   when the keys are pairwise different (sort.Sort is not stable, so only then) *)
Theorem C10_sort_order_independent : forall (A : Type) (key : A -> nat) (l1 l2 : list A),
  Permutation l1 l2 -> NoDup (map key l1) ->
  ksort A key l1 = ksort A key l2 /\ kmax A key l1 = kmax A key l2.
Proof. exact sort_order_independent. Qed.
Print Assumptions C10_sort_order_independent.

(* storage.go on top of a driver (Storage/Order.v): Last = [storage_last] = History
   (Query{name, owner}), Reverse(SortByRevision), h[0]; Deployed = [storage_deployed] = the same
   of Query{name, owner, status=deployed}; [sorted_of] = SortByRevision of the History
   (removeLeastRecent, uninstall).  After any call sequence, on the memory model and on the
   Secret/ConfigMap model, they are those of the reference map - whatever order the driver
   lists in: the revisions a query with a name returns are pairwise different because the store
   is keyed by (name, revision) *)
Theorem C10_reads_order_independent :
  forall (B : Type) (enc : rel -> B) (dec : B -> option rel) (valid_label_value : string -> bool),
  (forall r, option_map unlabel (dec (enc r)) = Some (unlabel r)) ->
  forall (ns0 ns1 : string) (xs : list sop) (n : string),
  let sref := sexec spec_step [] (map norm_sop xs) in
  (Forall (call_in_ns ns0) xs ->
     let m := sexec mem_step (mkMem ns1 []) xs in
     norm_out (storage_last mem_step m n) = storage_last spec_step sref n /\
     norm_out (storage_deployed mem_step m n) = storage_deployed spec_step sref n /\
     norm_out (sorted_of (snd (mem_step m (OQuery (history_query n))))) =
       sorted_of (snd (spec_step sref (OQuery (history_query n))))) /\
  (Forall (call_ok valid_label_value) xs ->
   valid_label_value n = true -> valid_label_value "helm" = true -> valid_label_value "deployed" = true ->
     let k := sexec (kube_step B enc dec valid_label_value) [] xs in
     out_refines (norm_out (storage_last (kube_step B enc dec valid_label_value) k n)) (storage_last spec_step sref n) /\
     out_refines (norm_out (storage_deployed (kube_step B enc dec valid_label_value) k n)) (storage_deployed spec_step sref n) /\
     out_refines (norm_out (sorted_of (snd (kube_step B enc dec valid_label_value k (OQuery (history_query n))))))
                 (sorted_of (snd (spec_step sref (OQuery (history_query n)))))).
Proof. exact reads_order_independent. Qed.
Print Assumptions C10_reads_order_independent.

Example C10_reads_order_independent_ex :
  let a := mkRel "app" "default" 1 "superseded" [] 1 in
  let b := mkRel "app" "default" 2 "superseded" [] 2 in
  let c := mkRel "app" "default" 3 "deployed" [] 3 in
  last_of (RRels [b; c; a]) = RRel c /\ deployed_of (RRels [c; a; b]) = RRel c /\
  sorted_of (RRels [b; c; a]) = RRels [a; b; c] /\ [b; c; a] <> [c; a; b].
Proof. exact order_ex. Qed.
Print Assumptions C10_reads_order_independent_ex.

(* the release-engine model of C01 consumes SHistory / SDeployedAll only through these *)
Theorem C10_engine_reads_order_independent : forall l1 l2 : list Engine.Types.release,
  Permutation l1 l2 -> NoDup (map Engine.Types.rev l1) ->
  Engine.Ops.sort_by_rev l1 = Engine.Ops.sort_by_rev l2 /\
  Engine.Types.max_rev_of l1 = Engine.Types.max_rev_of l2 /\
  forall dep total maxkeep picked,
    Engine.Ops.prune_pick (Engine.Ops.sort_by_rev l1) dep total maxkeep picked =
    Engine.Ops.prune_pick (Engine.Ops.sort_by_rev l2) dep total maxkeep picked.
Proof. exact engine_reads_order_independent. Qed.
Print Assumptions C10_engine_reads_order_independent.

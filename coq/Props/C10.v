(* C10 — property theorems only: each closed by [exact] of a lemma proved elsewhere. *)
From Coq Require Import List String.
From Helm Require Import Storage.Spec Storage.Mem Storage.Kube Storage.Proofs Gen.SystemLabels.

Theorem C10_key_roundtrip : forall name ver, mem_parse_key (make_key name ver) = Some (name, ver).
Proof. exact parse_make_key. Qed.
Print Assumptions C10_key_roundtrip.

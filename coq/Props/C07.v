(* C07 — Helm never takes over or deletes resources it does not own.
   Property theorems only: each closed by [exact] of a lemma proved in Engine/OwnershipProofs*.v. *)
From Coq Require Import List String Bool ZArith.
From Helm Require Import Common.Assoc Engine.Types Engine.Eff Engine.Ops Engine.Cluster Engine.Seq
                         Engine.DryRun Engine.Ownership Engine.OwnershipProofs Engine.OwnershipCalls
                         Engine.OwnershipConfine Engine.OwnershipStamped Engine.OwnershipLookup.
Import ListNotations.
Local Open Scope string_scope.

(* ---- refusal before any mutation ---- *)

(* install and install --replace (any flags record without take-ownership, dry-run or not),
   every chart, every world, every storage-fault / crash / cluster-fault plan: if some manifest
   resource exists in the cluster and is not owned by (rn, ns) — label managed-by=Helm AND
   annotation release-name = rn AND annotation release-namespace = ns — the operation ends in
   the conflict error (or, before that, in the name-in-use error when the name is not available),
   the trace is empty (no storage write, no cluster call that mutates) and ledger and objects
   are unchanged. *)
Theorem C07_refuse_before_mutation_install :
  forall (rn ns : string) (fl : flags) (cid vid : nat) (mani : list res) (hks : list hook)
         (sf : sfaults) (cf : cfaults) (w : world),
    f_take_ownership fl = false -> f_client_only fl = false ->
    (exists r, In r mani /\ exists live, aget (rkey r) (w_objs w) = Some live /\ owned_by rn ns live = false) ->
    (snd (fst (run_store_op rn ns (mkOp (OpInstall fl cid vid mani hks) sf cf) w)) = OErr EConflict \/
     (snd (fst (run_store_op rn ns (mkOp (OpInstall fl cid vid mani hks) sf cf) w)) = OErr ENameInUse /\
      f_dry_run fl = false /\
      match max_rev_of (w_led w) with
      | None => true
      | Some last => f_replace fl && (status_eqb (st last) SUninstalled || status_eqb (st last) SFailed)
      end = false)) /\
    snd (run_store_op rn ns (mkOp (OpInstall fl cid vid mani hks) sf cf) w) = [] /\
    fst (fst (run_store_op rn ns (mkOp (OpInstall fl cid vid mani hks) sf cf) w)) = w.
Proof. exact refuse_install. Qed.
Print Assumptions C07_refuse_before_mutation_install.

(* upgrade: the resources it would newly create are the target resources whose key is not in
   the manifest of the revision the upgrade starts from *)
Theorem C07_refuse_before_mutation_upgrade :
  forall (rn ns : string) (fl : flags) (cid vid : nat) (mani : list res) (hks : list hook)
         (sf : sfaults) (cf : cfaults) (w : world),
    f_take_ownership fl = false ->
    (forall cur, upgrade_current (w_led w) = Some cur ->
       exists r, In r (filter (fun r => negb (in_keys (rkey r) (manifest cur))) mani) /\
                 exists live, aget (rkey r) (w_objs w) = Some live /\ owned_by rn ns live = false) ->
    (snd (fst (run_store_op rn ns (mkOp (OpUpgrade fl cid vid mani hks) sf cf) w)) = OErr EConflict \/
     ((snd (fst (run_store_op rn ns (mkOp (OpUpgrade fl cid vid mani hks) sf cf) w)) = OErr ENoDeployed \/
       snd (fst (run_store_op rn ns (mkOp (OpUpgrade fl cid vid mani hks) sf cf) w)) = OErr EPending) /\
      upgrade_current (w_led w) = None)) /\
    snd (run_store_op rn ns (mkOp (OpUpgrade fl cid vid mani hks) sf cf) w) = [] /\
    fst (fst (run_store_op rn ns (mkOp (OpUpgrade fl cid vid mani hks) sf cf) w)) = w.
Proof. exact refuse_upgrade. Qed.
Print Assumptions C07_refuse_before_mutation_upgrade.

(* A FAILED ownership look-up is a refusal too.  Fault plan: the API server rejects the GET of
   [key] (cf_k = Some (VGet, key)).  If [key] is the key of a manifest resource, install and
   install --replace — every flags record, take-ownership on or off, atomic or not, whatever
   object sits at the key (foreign, partially labelled, owned, none) — end in the conflict error
   (or the earlier name-in-use error), with an empty trace and an unchanged world: nothing is
   recorded, created or (by an atomic clean-up) deleted. *)
Theorem C07_refuse_when_lookup_fails :
  forall (rn ns : string) (fl : flags) (cid vid : nat) (mani : list res) (hks : list hook)
         (sf : sfaults) (cf : cfaults) (w : world) (key : string),
    cf_k cf = Some (VGet, key) -> f_client_only fl = false -> In key (map rkey mani) ->
    (snd (fst (run_store_op rn ns (mkOp (OpInstall fl cid vid mani hks) sf cf) w)) = OErr EConflict \/
     (snd (fst (run_store_op rn ns (mkOp (OpInstall fl cid vid mani hks) sf cf) w)) = OErr ENameInUse /\
      f_dry_run fl = false /\
      match max_rev_of (w_led w) with
      | None => true
      | Some last => f_replace fl && (status_eqb (st last) SUninstalled || status_eqb (st last) SFailed)
      end = false)) /\
    snd (run_store_op rn ns (mkOp (OpInstall fl cid vid mani hks) sf cf) w) = [] /\
    fst (fst (run_store_op rn ns (mkOp (OpInstall fl cid vid mani hks) sf cf) w)) = w.
Proof. exact refuse_install_lookup. Qed.
Print Assumptions C07_refuse_when_lookup_fails.

(* upgrade: [key] is the key of a target resource that is not in the manifest of the revision
   the upgrade starts from *)
Theorem C07_refuse_when_lookup_fails_upgrade :
  forall (rn ns : string) (fl : flags) (cid vid : nat) (mani : list res) (hks : list hook)
         (sf : sfaults) (cf : cfaults) (w : world) (key : string),
    cf_k cf = Some (VGet, key) ->
    (forall cur, upgrade_current (w_led w) = Some cur ->
       In key (map rkey (filter (fun r => negb (in_keys (rkey r) (manifest cur))) mani))) ->
    (snd (fst (run_store_op rn ns (mkOp (OpUpgrade fl cid vid mani hks) sf cf) w)) = OErr EConflict \/
     ((snd (fst (run_store_op rn ns (mkOp (OpUpgrade fl cid vid mani hks) sf cf) w)) = OErr ENoDeployed \/
       snd (fst (run_store_op rn ns (mkOp (OpUpgrade fl cid vid mani hks) sf cf) w)) = OErr EPending) /\
      upgrade_current (w_led w) = None)) /\
    snd (run_store_op rn ns (mkOp (OpUpgrade fl cid vid mani hks) sf cf) w) = [] /\
    fst (fst (run_store_op rn ns (mkOp (OpUpgrade fl cid vid mani hks) sf cf) w)) = w.
Proof. exact refuse_upgrade_lookup. Qed.
Print Assumptions C07_refuse_when_lookup_fails_upgrade.

(* ---- stamping ---- *)

(* setMetadataVisitor followed by checkOwnership: a stamped resource is owned, whatever it
   carried before (including another release's metadata) *)
Theorem C07_stamp_owned :
  forall (rn ns : string) (r : res), owned_by rn ns (r_fields (stamp rn ns r)) = true.
Proof. exact owned_by_stamp. Qed.
Print Assumptions C07_stamp_owned.

(* Every path of install / upgrade / rollback / uninstall (any flags, any chart, whatever
   storage and cluster answer, including the atomic fall-backs): a KCreate carries either
   [map (stamp rn ns) m] for a manifest m or exactly one hook resource; the target of every
   KUpdate is [map (stamp rn ns) m]. *)
Theorem C07_stamped :
  forall (rn ns : string) (o : op),
    all_eff (fun e => match e with
                      | KCreate rs => (exists m, rs = map (stamp rn ns) m) \/ (exists h, rs = [h_res h])
                      | KUpdate _ tgt => exists m, tgt = map (stamp rn ns) m
                      | _ => True
                      end) (op_prog rn ns o).
Proof. exact ops_writes_stamped. Qed.
Print Assumptions C07_stamped.

(* ... hence every manifest resource in such a payload carries the managed-by label and both
   annotations of this release *)
Theorem C07_stamped_owned :
  forall (rn ns : string) (o : op),
    all_eff (fun e => match e with
                      | KCreate rs => Forall (fun r => owned_by rn ns (r_fields r) = true) rs \/ exists h, rs = [h_res h]
                      | KUpdate _ tgt => Forall (fun r => owned_by rn ns (r_fields r) = true) tgt
                      | _ => True
                      end) (op_prog rn ns o).
Proof. exact ops_payload_owned. Qed.
Print Assumptions C07_stamped_owned.

(* ---- deletes are confined to the release ---- *)

(* per call (pkg/kube/client.go): Update deletes only keys of the ORIGINAL list that are absent
   from the target; Delete only keys of its argument; Create deletes nothing *)
Theorem C07_update_deletes_confined :
  forall (k : kstate) (cur tgt : list res),
    incl (mut_deletes (snd (k_update k cur tgt)))
         (keys (filter (fun o => negb (in_keys (rkey o) tgt)) cur)).
Proof. exact k_update_deletes_confined. Qed.
Print Assumptions C07_update_deletes_confined.

Theorem C07_delete_deletes_confined :
  forall (rs : list res) (k : kstate) (ok : bool) (muts : list (verb * string)),
    incl (mut_deletes (snd (k_delete k rs ok muts))) (mut_deletes muts ++ keys rs)%list.
Proof. exact k_delete_deletes. Qed.
Print Assumptions C07_delete_deletes_confined.

Theorem C07_create_deletes_nothing :
  forall (rs : list res) (k : kstate) (ok : bool) (muts : list (verb * string)),
    mut_deletes (snd (k_create k rs ok muts)) = mut_deletes muts.
Proof. exact k_create_deletes. Qed.
Print Assumptions C07_create_deletes_nothing.

(* whole operation: every (VDelete, key) in the trace of an operation — any of the four, any
   flags (atomic fall-backs, cleanup-on-fail, hooks with delete policies included), any world,
   any storage-fault / crash / cluster-fault plan — has its key among the manifest and hook keys
   of a revision stored at operation start, or of the operation's own chart *)
Theorem C07_deletes_confined :
  forall (rn ns : string) (c : opcase) (w : world),
    incl (trace_deletes (snd (run_store_op rn ns c w)))
         (flat_map (fun r => (map rkey (manifest r) ++ map (fun h => rkey (h_res h)) (hooks r))%list) (w_led w)
          ++ match oc_op c with
             | OpInstall _ _ _ m h | OpUpgrade _ _ _ m h => (map rkey m ++ map (fun h => rkey (h_res h)) h)%list
             | OpRollback _ | OpUninstall _ => []
             end)%list.
Proof. exact deletes_confined. Qed.
Print Assumptions C07_deletes_confined.

(* the set does not grow along a history except by the charts of the operations themselves *)
Theorem C07_ledger_keys_confined :
  forall (rn ns : string) (c : opcase) (w : world),
    incl (ledger_keys (w_led (fst (fst (run_store_op rn ns c w)))))
         (ledger_keys (w_led w) ++ op_chart_keys (oc_op c))%list.
Proof. exact ledger_keys_confined. Qed.
Print Assumptions C07_ledger_keys_confined.

(* ---- non-vacuity ---- *)

(* the hypotheses of the refusal theorems are met by concrete worlds: a foreign object, an
   object of another release, the same release name in another namespace, a partially labelled
   one; with take-ownership the same install goes through and stamps the object *)
Example C07_refuse_example :
  forallb (fun live =>
     let w := mkW [] [("ConfigMap/a", live); ("ConfigMap/bystander", [("d:k", "x")])] in
     let fl t := mkFlags false false false false 0 false false false t 0 in
     let run t := run_store_op "rel" "default"
                    (mkOp (OpInstall (fl t) 1 1 [mkRes "ConfigMap" "a" [("d:k", "v")]] []) (mkSF None None) (mkCF None None false)) w in
     negb (owned_by "rel" "default" live)
     && outcome_eqb (snd (fst (run false))) (OErr EConflict)
     && Nat.eqb (List.length (snd (run false))) 0
     && outcome_eqb (snd (fst (run true))) OOk
     && match aget "ConfigMap/a" (w_objs (fst (fst (run true)))) with
        | Some f => owned_by "rel" "default" f
        | None => false
        end)
    [ [("d:k", "live")];
      [("d:k", "live"); (managed_by_key, "Helm"); (rel_name_key, "other"); (rel_ns_key, "default")];
      [("d:k", "live"); (managed_by_key, "Helm"); (rel_name_key, "rel"); (rel_ns_key, "elsewhere")];
      [("d:k", "live"); (managed_by_key, "Helm")];
      [("d:k", "live"); (managed_by_key, "Helm"); (rel_name_key, "rel")];
      [("d:k", "live"); (rel_name_key, "rel"); (rel_ns_key, "default")] ] = true.
Proof. vm_compute. reflexivity. Qed.
Print Assumptions C07_refuse_example.

(* upgrade adding a resource over a foreign object: refused with an empty trace; a correctly
   owned object is adopted *)
Example C07_refuse_upgrade_example :
  let cm n v := mkRes "ConfigMap" n [("d:k", v)] in
  let w live := mkW [mkRelease 1 SDeployed 1 1 [cm "base" "1"] []]
                    [("ConfigMap/base", stamp_fields "rel" "default" [("d:k", "1")]); ("ConfigMap/a", live)] in
  let run live := run_store_op "rel" "default"
                    (mkOp (OpUpgrade (mkFlags false false false false 0 false false false false 0) 2 1 [cm "base" "2"; cm "a" "v"] [])
                          (mkSF None None) (mkCF None None false)) (w live) in
  upgrade_current (w_led (w [])) = Some (mkRelease 1 SDeployed 1 1 [cm "base" "1"] []) /\
  snd (fst (run [("d:k", "live")])) = OErr EConflict /\ snd (run [("d:k", "live")]) = [] /\
  snd (fst (run (stamp_fields "rel" "default" [("d:k", "live")]))) = OOk.
Proof. vm_compute. repeat split; reflexivity. Qed.
Print Assumptions C07_refuse_upgrade_example.

(* deletes do happen (the confinement statement is not about an empty list): an upgrade that
   drops a resource deletes exactly that key *)
Example C07_deletes_example :
  let cm n v := mkRes "ConfigMap" n [("d:k", v)] in
  let w := mkW [mkRelease 1 SDeployed 1 1 [cm "a" "1"; cm "b" "1"] []]
               [("ConfigMap/a", stamp_fields "rel" "default" [("d:k", "1")]);
                ("ConfigMap/b", stamp_fields "rel" "default" [("d:k", "1")]);
                ("ConfigMap/bystander", [("d:k", "x")])] in
  trace_deletes (snd (run_store_op "rel" "default"
                        (mkOp (OpUpgrade (mkFlags false false false false 0 false false false false 0) 2 1 [cm "a" "2"] [])
                              (mkSF None None) (mkCF None None false)) w)) = ["ConfigMap/b"].
Proof. vm_compute. reflexivity. Qed.
Print Assumptions C07_deletes_example.

(* a rejected look-up of a foreign object under install --atomic with take-ownership: refused,
   nothing written, the foreign object still there; without the fault the same install adopts it *)
Example C07_lookup_fails_example :
  let w := mkW [] [("ConfigMap/a", [("d:k", "live")])] in
  let fl := mkFlags true false false false 0 false false false true 0 in
  let run kf := run_store_op "rel" "default"
                  (mkOp (OpInstall fl 1 1 [mkRes "ConfigMap" "a" [("d:k", "v")]; mkRes "ConfigMap" "b" [("d:k", "v")]] [])
                        (mkSF None None) (mkCF kf None false)) w in
  snd (fst (run (Some (VGet, "ConfigMap/a")))) = OErr EConflict /\
  snd (run (Some (VGet, "ConfigMap/a"))) = [] /\
  fst (fst (run (Some (VGet, "ConfigMap/a")))) = w /\
  snd (fst (run None)) = OOk.
Proof. vm_compute. repeat split; reflexivity. Qed.
Print Assumptions C07_lookup_fails_example.

(* C07_crd_caveat (prose): the quantifier of C07_refuse_before_mutation ranges over manifests.
   A chart's crds/ directory is outside the model: Install.RunWithContext calls installCRDs
   (a cluster Create of every CRD object) BEFORE rendering and before existingResourceConflict,
   so an install that is later refused may already have created CRDs; CRDs are not part of the
   release manifest, are never stamped and are never deleted by Helm. *)

(* C07 — Helm never takes over or deletes resources it does not own.
   Property theorems only: each closed by [exact] of a lemma proved in Engine/OwnershipProofs*.v. *)
From Coq Require Import List String Bool ZArith.
From Helm Require Import Common.Assoc Engine.Types Engine.Eff Engine.Ops Engine.Cluster Engine.Seq
                         Engine.DryRun Engine.Ownership Engine.OwnershipProofs Engine.OwnershipCalls
                         Engine.OwnershipConfine Engine.OwnershipStamped Engine.OwnershipLookup
                         Engine.MatchDefs Engine.Stamp Engine.StampProofs Engine.StampWorld
                         Engine.OwnershipFrame Engine.OwnershipOnlyIf Engine.OwnershipNs Engine.OwnershipReq
                         Engine.StampTableSem Gen.StampTable Engine.OwnershipRace Engine.OwnershipRaceProofs.
Import ListNotations.
Local Open Scope string_scope.

(* ---- refusal before any mutation ---- *)

(* install and install --replace (any flags record without take-ownership, dry-run or not),
   every chart, every world, every storage-fault / crash / cluster-fault plan: if some manifest
   resource exists in the cluster and is not owned by (rn, ns) — label managed-by=Helm AND
   annotation release-name = rn AND annotation release-namespace = ns — the operation ends in
   the conflict error (or, before that, in the name-in-use error when the name is not available),
   the trace is empty (no storage write, no cluster call that mutates) and ledger and objects
   are unchanged. *)
Theorem C07_refuse_before_mutation_install :
  forall (rn ns : string) (fl : flags) (cid vid : nat) (mani : list res) (hks : list hook)
         (sf : sfaults) (cf : cfaults) (w : world),
    f_take_ownership fl = false -> f_client_only fl = false ->
    (exists r, In r mani /\ exists live, aget (rkey r) (w_objs w) = Some live /\ owned_by rn ns live = false) ->
    (snd (fst (run_store_op rn ns (mkOp (OpInstall fl cid vid mani hks) sf cf) w)) = OErr EConflict \/
     (snd (fst (run_store_op rn ns (mkOp (OpInstall fl cid vid mani hks) sf cf) w)) = OErr ENameInUse /\
      f_dry_run fl = false /\
      match max_rev_of (w_led w) with
      | None => true
      | Some last => f_replace fl && (status_eqb (st last) SUninstalled || status_eqb (st last) SFailed)
      end = false)) /\
    snd (run_store_op rn ns (mkOp (OpInstall fl cid vid mani hks) sf cf) w) = [] /\
    fst (fst (run_store_op rn ns (mkOp (OpInstall fl cid vid mani hks) sf cf) w)) = w.
Proof. exact refuse_install. Qed.
Print Assumptions C07_refuse_before_mutation_install.

(* upgrade: the resources it would newly create are the target resources whose key is not in
   the manifest of the revision the upgrade starts from *)
Theorem C07_refuse_before_mutation_upgrade :
  forall (rn ns : string) (fl : flags) (cid vid : nat) (mani : list res) (hks : list hook)
         (sf : sfaults) (cf : cfaults) (w : world),
    f_take_ownership fl = false ->
    (forall cur, upgrade_current (w_led w) = Some cur ->
       exists r, In r (filter (fun r => negb (in_keys (rkey r) (manifest cur))) mani) /\
                 exists live, aget (rkey r) (w_objs w) = Some live /\ owned_by rn ns live = false) ->
    (snd (fst (run_store_op rn ns (mkOp (OpUpgrade fl cid vid mani hks) sf cf) w)) = OErr EConflict \/
     ((snd (fst (run_store_op rn ns (mkOp (OpUpgrade fl cid vid mani hks) sf cf) w)) = OErr ENoDeployed \/
       snd (fst (run_store_op rn ns (mkOp (OpUpgrade fl cid vid mani hks) sf cf) w)) = OErr EPending) /\
      upgrade_current (w_led w) = None)) /\
    snd (run_store_op rn ns (mkOp (OpUpgrade fl cid vid mani hks) sf cf) w) = [] /\
    fst (fst (run_store_op rn ns (mkOp (OpUpgrade fl cid vid mani hks) sf cf) w)) = w.
Proof. exact refuse_upgrade. Qed.
Print Assumptions C07_refuse_before_mutation_upgrade.

(* A FAILED ownership look-up is a refusal too.  Fault plan: the API server rejects the GET of
   [key] (cf_k = Some (VGet, key)).  If [key] is the key of a manifest resource, install and
   install --replace — every flags record, take-ownership on or off, atomic or not, whatever
   object sits at the key (foreign, partially labelled, owned, none) — end in the conflict error
   (or the earlier name-in-use error), with an empty trace and an unchanged world: nothing is
   recorded, created or (by an atomic clean-up) deleted. *)
Theorem C07_refuse_when_lookup_fails :
  forall (rn ns : string) (fl : flags) (cid vid : nat) (mani : list res) (hks : list hook)
         (sf : sfaults) (cf : cfaults) (w : world) (key : string),
    cf_k cf = Some (VGet, key) -> f_client_only fl = false -> In key (map rkey mani) ->
    (snd (fst (run_store_op rn ns (mkOp (OpInstall fl cid vid mani hks) sf cf) w)) = OErr EConflict \/
     (snd (fst (run_store_op rn ns (mkOp (OpInstall fl cid vid mani hks) sf cf) w)) = OErr ENameInUse /\
      f_dry_run fl = false /\
      match max_rev_of (w_led w) with
      | None => true
      | Some last => f_replace fl && (status_eqb (st last) SUninstalled || status_eqb (st last) SFailed)
      end = false)) /\
    snd (run_store_op rn ns (mkOp (OpInstall fl cid vid mani hks) sf cf) w) = [] /\
    fst (fst (run_store_op rn ns (mkOp (OpInstall fl cid vid mani hks) sf cf) w)) = w.
Proof. exact refuse_install_lookup. Qed.
Print Assumptions C07_refuse_when_lookup_fails.

(* upgrade: [key] is the key of a target resource that is not in the manifest of the revision
   the upgrade starts from *)
Theorem C07_refuse_when_lookup_fails_upgrade :
  forall (rn ns : string) (fl : flags) (cid vid : nat) (mani : list res) (hks : list hook)
         (sf : sfaults) (cf : cfaults) (w : world) (key : string),
    cf_k cf = Some (VGet, key) ->
    (forall cur, upgrade_current (w_led w) = Some cur ->
       In key (map rkey (filter (fun r => negb (in_keys (rkey r) (manifest cur))) mani))) ->
    (snd (fst (run_store_op rn ns (mkOp (OpUpgrade fl cid vid mani hks) sf cf) w)) = OErr EConflict \/
     ((snd (fst (run_store_op rn ns (mkOp (OpUpgrade fl cid vid mani hks) sf cf) w)) = OErr ENoDeployed \/
       snd (fst (run_store_op rn ns (mkOp (OpUpgrade fl cid vid mani hks) sf cf) w)) = OErr EPending) /\
      upgrade_current (w_led w) = None)) /\
    snd (run_store_op rn ns (mkOp (OpUpgrade fl cid vid mani hks) sf cf) w) = [] /\
    fst (fst (run_store_op rn ns (mkOp (OpUpgrade fl cid vid mani hks) sf cf) w)) = w.
Proof. exact refuse_upgrade_lookup. Qed.
Print Assumptions C07_refuse_when_lookup_fails_upgrade.

(* ---- stamping ---- *)

(* setMetadataVisitor followed by checkOwnership: a stamped resource is owned, whatever it
   carried before (including another release's metadata) *)
Theorem C07_stamp_owned :
  forall (rn ns : string) (r : res), owned_by rn ns (r_fields (stamp rn ns r)) = true.
Proof. exact owned_by_stamp. Qed.
Print Assumptions C07_stamp_owned.

(* Every path of install / upgrade / rollback / uninstall (any flags, any chart, whatever
   storage and cluster answer, including the atomic fall-backs): a KCreate carries either
   [map (stamp rn ns) m] for a manifest m or exactly one hook resource; the target of every
   KUpdate is [map (stamp rn ns) m]. *)
Theorem C07_stamped :
  forall (rn ns : string) (o : op),
    all_eff (fun e => match e with
                      | KCreate rs => (exists m, rs = map (stamp rn ns) m) \/ (exists h, rs = [h_res h])
                      | KUpdate _ tgt => exists m, tgt = map (stamp rn ns) m
                      | _ => True
                      end) (op_prog rn ns o).
Proof. exact ops_writes_stamped. Qed.
Print Assumptions C07_stamped.

(* ... hence every manifest resource in such a payload carries the managed-by label and both
   annotations of this release *)
Theorem C07_stamped_owned :
  forall (rn ns : string) (o : op),
    all_eff (fun e => match e with
                      | KCreate rs => Forall (fun r => owned_by rn ns (r_fields r) = true) rs \/ exists h, rs = [h_res h]
                      | KUpdate _ tgt => Forall (fun r => owned_by rn ns (r_fields r) = true) tgt
                      | _ => True
                      end) (op_prog rn ns o).
Proof. exact ops_payload_owned. Qed.
Print Assumptions C07_stamped_owned.

(* ---- stamping, inside the model: setMetadataVisitor / mergeLabels / mergeAnnotations /
        mergeStrStrMaps / checkOwnership / requireValue of validate.go (Engine/Stamp.v) on the label
        map and the annotation map of an object ---- *)

(* For ALL objects — whatever labels and annotations the chart rendered, conflicting values for
   the three ownership keys included: after stamping the managed-by label is exactly "Helm" and
   the release-name / release-namespace annotations are exactly this release's *)
Theorem C07_stamp_forces_values :
  forall (rn ns : string) (o : meta),
    aget app_managed_by_label (m_labels (stamp_meta rn ns o)) = Some app_managed_by_helm /\
    aget helm_release_name_annotation (m_annots (stamp_meta rn ns o)) = Some rn /\
    aget helm_release_namespace_annotation (m_annots (stamp_meta rn ns o)) = Some ns.
Proof. exact stamp_meta_values. Qed.
Print Assumptions C07_stamp_forces_values.

(* every other label / annotation the chart rendered is preserved unchanged (the maps are Go
   maps: no key twice) *)
Theorem C07_stamp_preserves_labels :
  forall (rn ns : string) (o : meta) (k : string),
    NoDup (akeys (m_labels o)) -> k <> app_managed_by_label ->
    aget k (m_labels (stamp_meta rn ns o)) = aget k (m_labels o).
Proof. exact stamp_meta_preserves_labels. Qed.
Print Assumptions C07_stamp_preserves_labels.

Theorem C07_stamp_preserves_annotations :
  forall (rn ns : string) (o : meta) (k : string),
    NoDup (akeys (m_annots o)) ->
    k <> helm_release_name_annotation -> k <> helm_release_namespace_annotation ->
    aget k (m_annots (stamp_meta rn ns o)) = aget k (m_annots o).
Proof. exact stamp_meta_preserves_annots. Qed.
Print Assumptions C07_stamp_preserves_annotations.

(* stamping is idempotent, for every object, as an equation between the maps *)
Theorem C07_stamp_idempotent :
  forall (rn ns : string) (o : meta), stamp_meta rn ns (stamp_meta rn ns o) = stamp_meta rn ns o.
Proof. exact stamp_meta_idempotent. Qed.
Print Assumptions C07_stamp_idempotent.

(* the stamped object passes checkOwnership for this release and fails it for every other
   (name, namespace) *)
Theorem C07_stamp_then_check :
  forall (rn ns : string) (o : meta),
    check_ownership (stamp_meta rn ns o) rn ns = [] /\
    (forall rn' ns', owned_meta (stamp_meta rn ns o) rn' ns' = true <-> rn' = rn /\ ns' = ns).
Proof. exact stamp_then_check. Qed.
Print Assumptions C07_stamp_then_check.

(* the visitor as the code has it, forcing or not: it fails exactly when force is off and
   checkOwnership fails; whenever it succeeds the object is owned by exactly this release *)
Theorem C07_set_metadata_visitor :
  forall (rn ns : string) (force : bool) (o : meta),
    (set_metadata_visitor rn ns force o = None <-> force = false /\ owned_meta o rn ns = false) /\
    (forall o', set_metadata_visitor rn ns force o = Some o' ->
       o' = stamp_meta rn ns o /\ check_ownership o' rn ns = [] /\
       (forall rn' ns', owned_meta o' rn' ns' = true <-> rn' = rn /\ ns' = ns)).
Proof. exact set_metadata_visitor_spec. Qed.
Print Assumptions C07_set_metadata_visitor.

(* The operations of Engine/Ops.v (and every theorem above about them) stamp with [stamp_fields]
   and check with [owned_by] on the flat field map.  Those ARE the transcription of validate.go:
   look-up by look-up [stamp_fields] equals setMetadataVisitor applied to the object's label and
   annotation maps with everything else untouched, and [owned_by] equals checkOwnership. *)
Theorem C07_stamp_fields_is_validate_go :
  forall (rn ns : string) (f : fields) (key : string),
    NoDup (akeys f) -> aget key (stamp_fields rn ns f) = aget key (stamp_fields_v rn ns f).
Proof. exact stamp_fields_is_validate_go. Qed.
Print Assumptions C07_stamp_fields_is_validate_go.

Theorem C07_owned_by_is_check_ownership :
  forall (f : fields) (rn ns : string), owned_meta (meta_of f) rn ns = owned_by rn ns f.
Proof. exact owned_meta_owned_by. Qed.
Print Assumptions C07_owned_by_is_check_ownership.

(* hence for every resource: forced values, preservation, idempotence, exclusivity *)
Theorem C07_stamp_fields_spec :
  forall (rn ns : string) (f : fields),
    (aget managed_by_key (stamp_fields rn ns f) = Some "Helm" /\
     aget rel_name_key (stamp_fields rn ns f) = Some rn /\
     aget rel_ns_key (stamp_fields rn ns f) = Some ns) /\
    (forall key, key <> managed_by_key -> key <> rel_name_key -> key <> rel_ns_key ->
                 aget key (stamp_fields rn ns f) = aget key f) /\
    stamp_fields rn ns (stamp_fields rn ns f) = stamp_fields rn ns f /\
    (forall rn' ns', owned_by rn' ns' (stamp_fields rn ns f) = true <-> rn' = rn /\ ns' = ns).
Proof. exact stamp_fields_spec. Qed.
Print Assumptions C07_stamp_fields_spec.

(* ---- translator table Gen/StampTable.v: what the stamping code computes, read out of
        pkg/action (validate.go and the call sites) by a symbolic evaluation over go/ast on every
        run: canonical names (parameters by position, constants by value), copy loops / maps.Copy /
        maps.Clone / make, hoisted locals, inlined helpers, order of independent statements ---- *)

(* the translator interpreted every construct it met (anything else is a row Unknown "<text>",
   listed here, so that the failure names the construct) *)
Theorem C07_stamp_table_readable : stamp_table_unknowns = [].
Proof. reflexivity. Qed.
Print Assumptions C07_stamp_table_readable.

(* the constants, the parameter names of mergeStrStrMaps and the maps it copies (in order), the
   argument roles at its two callers, the literal maps of setMetadataVisitor, the force argument
   at every call site: exactly what the model was transcribed from *)
Theorem C07_stamp_table_expected :
  stamp_consts = [("appManagedByLabel", app_managed_by_label); ("appManagedByHelm", app_managed_by_helm);
                  ("helmReleaseNameAnnotation", helm_release_name_annotation);
                  ("helmReleaseNamespaceAnnotation", helm_release_namespace_annotation)] /\
  merge_params = ["current"; "desired"] /\ merge_loops = ["current"; "desired"] /\
  merge_calls = [("mergeLabels", ["object:Labels"; "param"]); ("mergeAnnotations", ["object:Annotations"; "param"])] /\
  visitor_maps = [("mergeLabels", [("appManagedByLabel", "appManagedByHelm")]);
                  ("mergeAnnotations", [("helmReleaseNameAnnotation", "releaseName");
                                        ("helmReleaseNamespaceAnnotation", "releaseNamespace")])] /\
  map fst visitor_force_sites = ["install.go"; "rollback.go"; "upgrade.go"] /\
  all_forced visitor_force_sites = true.
Proof. repeat split; reflexivity. Qed.
Print Assumptions C07_stamp_table_expected.

(* semantic obligations: the merge and the stamping the generated table describes, interpreted by
   Engine/StampTableSem.v, ARE the model's functions — for all maps, all objects, all releases *)
Theorem C07_stamp_table_merge :
  forall (current desired : strmap),
    merge_by_table merge_params merge_loops current desired [] = Some (merge_str_str_maps current desired).
Proof. intros current desired. reflexivity. Qed.
Print Assumptions C07_stamp_table_merge.

Theorem C07_stamp_table_stamp :
  forall (rn ns : string) (o : meta),
    stamp_by_table stamp_consts merge_params merge_loops merge_calls visitor_maps rn ns o = Some (stamp_meta rn ns o).
Proof. intros rn ns o. reflexivity. Qed.
Print Assumptions C07_stamp_table_stamp.

(* what the main create / update of an operation leave in the store: every object Client.Create
   creates from a stamped manifest, and every object Client.Update creates or patches towards a
   stamped manifest (resources with duplicate-free field maps), is owned by exactly (rn, ns) when
   the call returns.  With C07_stamped (every main KCreate / KUpdate of every operation carries
   [map (stamp rn ns) m]) this covers every manifest write of install / upgrade / rollback. *)
Theorem C07_created_objects_owned :
  forall (rn ns : string) (m : list res) (k : kstate) (key : string),
    In (VCreate, key) (snd (k_create k (map (stamp rn ns) m) true [])) ->
    exists f, aget key (objs (fst (fst (k_create k (map (stamp rn ns) m) true [])))) = Some f /\
              owned_by rn ns f = true /\
              (forall rn' ns', owned_by rn' ns' f = true -> rn' = rn /\ ns' = ns).
Proof. exact create_leaves_owned. Qed.
Print Assumptions C07_created_objects_owned.

Theorem C07_updated_objects_owned :
  forall (rn ns : string) (m : list res) (k : kstate) (cur : list res) (key : string),
    Forall (fun r => NoDup (akeys (r_fields r))) m ->
    In (VCreate, key) (snd (k_update k cur (map (stamp rn ns) m))) \/
    In (VPatch, key) (snd (k_update k cur (map (stamp rn ns) m))) ->
    exists f, aget key (objs (fst (fst (k_update k cur (map (stamp rn ns) m))))) = Some f /\
              owned_by rn ns f = true /\
              (forall rn' ns', owned_by rn' ns' f = true -> rn' = rn /\ ns' = ns).
Proof. exact update_leaves_owned. Qed.
Print Assumptions C07_updated_objects_owned.

(* ... and a later ownership look-up: an object stamped by (rn, ns) at the key of a manifest
   resource makes the install of every OTHER release — another name, or the same name in
   another namespace — end in the conflict error before any mutation; the look-up of (rn, ns)
   itself returns the resource among those it may adopt *)
Theorem C07_stamped_object_refuses_other_release :
  forall (rn ns : string) (f : fields) (rn' ns' : string) (fl : flags) (cid vid : nat)
         (mani : list res) (hks : list hook) (sf : sfaults) (cf : cfaults) (w : world) (r : res),
    (rn', ns') <> (rn, ns) ->
    In r mani -> aget (rkey r) (w_objs w) = Some (stamp_fields rn ns f) ->
    f_take_ownership fl = false -> f_client_only fl = false ->
    (snd (fst (run_store_op rn' ns' (mkOp (OpInstall fl cid vid mani hks) sf cf) w)) = OErr EConflict \/
     (snd (fst (run_store_op rn' ns' (mkOp (OpInstall fl cid vid mani hks) sf cf) w)) = OErr ENameInUse /\
      f_dry_run fl = false /\
      match max_rev_of (w_led w) with
      | None => true
      | Some last => f_replace fl && (status_eqb (st last) SUninstalled || status_eqb (st last) SFailed)
      end = false)) /\
    snd (run_store_op rn' ns' (mkOp (OpInstall fl cid vid mani hks) sf cf) w) = [] /\
    fst (fst (run_store_op rn' ns' (mkOp (OpInstall fl cid vid mani hks) sf cf) w)) = w.
Proof. exact stamped_object_refuses_other_release. Qed.
Print Assumptions C07_stamped_object_refuses_other_release.

Theorem C07_stamped_object_recognised :
  forall (rn ns : string) (f : fields) (k : kstate) (r : res) (rs : list res),
    kfault k = None -> In r rs -> aget (rkey r) (objs k) = Some (stamp_fields rn ns f) ->
    (forall x, In x rs -> match aget (rkey x) (objs k) with
                          | Some live => owned_by rn ns live = true
                          | None => True
                          end) ->
    exists l, snd (k_existing rn ns k rs false []) = Some l /\ In r l.
Proof. exact stamped_object_recognised. Qed.
Print Assumptions C07_stamped_object_recognised.

(* non-vacuity: the hypotheses (duplicate-free maps) hold of a chart object that renders foreign
   values for all three keys; the run: "rel" installs it, the stored object carries rel's values
   and the chart's other label, "other" and "rel"-in-"elsewhere" are refused on it, "rel" upgrades *)
Example C07_stamp_example :
  let o := mkMeta [("app.kubernetes.io/name", "keep"); (app_managed_by_label, "kustomize")]
                  [(helm_release_name_annotation, "old"); ("example.com/note", "keep me");
                   (helm_release_namespace_annotation, "")] in
  NoDup (akeys (m_labels o)) /\ NoDup (akeys (m_annots o)) /\
  stamp_meta "rel" "default" o =
    mkMeta [("app.kubernetes.io/name", "keep"); (app_managed_by_label, "Helm")]
           [(helm_release_name_annotation, "rel"); ("example.com/note", "keep me");
            (helm_release_namespace_annotation, "default")] /\
  set_metadata_visitor "rel" "default" false o = None /\
  set_metadata_visitor "rel" "default" false (stamp_meta "rel" "default" o) = Some (stamp_meta "rel" "default" o).
Proof. exact stamp_example. Qed.
Print Assumptions C07_stamp_example.

Example C07_stamped_then_recognised_example :
  let cm := mkRes "ConfigMap" "a" [("d:k", "v"); ("l:tier", "web"); (managed_by_key, "kustomize");
                                    (rel_name_key, "old"); (rel_ns_key, "")] in
  let fl := mkFlags false false false false 0 false false false false 0 in
  let w1 := fst (fst (run_store_op "rel" "default" (mkOp (OpInstall fl 1 1 [cm] []) (mkSF None None) (mkCF None None false)) (mkW [] []))) in
  aget "ConfigMap/a" (w_objs w1) =
    Some [("d:k", "v"); ("l:tier", "web"); (managed_by_key, "Helm"); (rel_name_key, "rel"); (rel_ns_key, "default")] /\
  snd (fst (run_store_op "other" "default" (mkOp (OpInstall fl 1 1 [cm] []) (mkSF None None) (mkCF None None false)) (mkW [] (w_objs w1)))) = OErr EConflict /\
  snd (fst (run_store_op "rel" "elsewhere" (mkOp (OpInstall fl 1 1 [cm] []) (mkSF None None) (mkCF None None false)) (mkW [] (w_objs w1)))) = OErr EConflict /\
  snd (fst (run_store_op "rel" "default" (mkOp (OpUpgrade fl 2 1 [cm] []) (mkSF None None) (mkCF None None false)) w1)) = OOk.
Proof. exact stamped_then_recognised. Qed.
Print Assumptions C07_stamped_then_recognised_example.

(* ---- deletes are confined to the release ---- *)

(* per call (pkg/kube/client.go): Update deletes only keys of the ORIGINAL list that are absent
   from the target; Delete only keys of its argument; Create deletes nothing *)
Theorem C07_update_deletes_confined :
  forall (k : kstate) (cur tgt : list res),
    incl (mut_deletes (snd (k_update k cur tgt)))
         (keys (filter (fun o => negb (in_keys (rkey o) tgt)) cur)).
Proof. exact k_update_deletes_confined. Qed.
Print Assumptions C07_update_deletes_confined.

Theorem C07_delete_deletes_confined :
  forall (rs : list res) (k : kstate) (ok : bool) (muts : list (verb * string)),
    incl (mut_deletes (snd (k_delete k rs ok muts))) (mut_deletes muts ++ keys rs)%list.
Proof. exact k_delete_deletes. Qed.
Print Assumptions C07_delete_deletes_confined.

Theorem C07_create_deletes_nothing :
  forall (rs : list res) (k : kstate) (ok : bool) (muts : list (verb * string)),
    mut_deletes (snd (k_create k rs ok muts)) = mut_deletes muts.
Proof. exact k_create_deletes. Qed.
Print Assumptions C07_create_deletes_nothing.

(* whole operation: every (VDelete, key) in the trace of an operation — any of the four, any
   flags (atomic fall-backs, cleanup-on-fail, hooks with delete policies included), any world,
   any storage-fault / crash / cluster-fault plan — has its key among the manifest and hook keys
   of a revision stored at operation start, or of the operation's own chart *)
Theorem C07_deletes_confined :
  forall (rn ns : string) (c : opcase) (w : world),
    incl (trace_deletes (snd (run_store_op rn ns c w)))
         (flat_map (fun r => (map rkey (manifest r) ++ map (fun h => rkey (h_res h)) (hooks r))%list) (w_led w)
          ++ match oc_op c with
             | OpInstall _ _ _ m h | OpUpgrade _ _ _ m h => (map rkey m ++ map (fun h => rkey (h_res h)) h)%list
             | OpRollback _ | OpUninstall _ => []
             end)%list.
Proof. exact deletes_confined. Qed.
Print Assumptions C07_deletes_confined.

(* the set does not grow along a history except by the charts of the operations themselves *)
Theorem C07_ledger_keys_confined :
  forall (rn ns : string) (c : opcase) (w : world),
    incl (ledger_keys (w_led (fst (fst (run_store_op rn ns c w)))))
         (ledger_keys (w_led w) ++ op_chart_keys (oc_op c))%list.
Proof. exact ledger_keys_confined. Qed.
Print Assumptions C07_ledger_keys_confined.

(* ---- nothing outside the release is touched ---- *)

(* every operation — any of the four, any flags (take-ownership, atomic fall-backs, cleanup,
   hooks with delete policies), any world, any storage-fault / crash / cluster-fault plan: an
   object at a key that is not the key of a manifest resource or hook of a revision stored at
   operation start, nor of the operation's own chart, is afterwards exactly what it was before
   (not created, not patched, not deleted) *)
Theorem C07_outside_release_untouched :
  forall (rn ns : string) (c : opcase) (w : world) (key : string),
    ~ In key (flat_map (fun r => (map rkey (manifest r) ++ map (fun h => rkey (h_res h)) (hooks r))%list) (w_led w)
              ++ match oc_op c with
                 | OpInstall _ _ _ m h | OpUpgrade _ _ _ m h => (map rkey m ++ map (fun h => rkey (h_res h)) h)%list
                 | OpRollback _ | OpUninstall _ => []
                 end)%list ->
    aget key (w_objs (fst (fst (run_store_op rn ns c w)))) = aget key (w_objs w).
Proof. exact outside_release_untouched. Qed.
Print Assumptions C07_outside_release_untouched.

(* ---- the conflict error only for a real conflict ---- *)

(* the converse of C07_refuse_before_mutation_*: install ends in the conflict error only if the
   ownership GET of a manifest resource was rejected, or take-ownership is off and a manifest
   resource exists — at its own key — un-owned; objects anywhere else are never a conflict *)
Theorem C07_conflict_only_if_install :
  forall (rn ns : string) (fl : flags) (cid vid : nat) (mani : list res) (hks : list hook)
         (sf : sfaults) (cf : cfaults) (w : world),
    snd (fst (run_store_op rn ns (mkOp (OpInstall fl cid vid mani hks) sf cf) w)) = OErr EConflict ->
    (exists key, cf_k cf = Some (VGet, key) /\ In key (map rkey mani)) \/
    (f_take_ownership fl = false /\
     exists r, In r mani /\ exists live, aget (rkey r) (w_objs w) = Some live /\ owned_by rn ns live = false).
Proof. exact install_conflict_only_if. Qed.
Print Assumptions C07_conflict_only_if_install.

Theorem C07_conflict_only_if_upgrade :
  forall (rn ns : string) (fl : flags) (cid vid : nat) (mani : list res) (hks : list hook)
         (sf : sfaults) (cf : cfaults) (w : world),
    snd (fst (run_store_op rn ns (mkOp (OpUpgrade fl cid vid mani hks) sf cf) w)) = OErr EConflict ->
    exists cur, upgrade_current (w_led w) = Some cur /\
      ((exists key, cf_k cf = Some (VGet, key) /\
                    In key (map rkey (filter (fun r => negb (in_keys (rkey r) (manifest cur))) mani))) \/
       (f_take_ownership fl = false /\
        exists r, In r (filter (fun r => negb (in_keys (rkey r) (manifest cur))) mani) /\
                  exists live, aget (rkey r) (w_objs w) = Some live /\ owned_by rn ns live = false)).
Proof. exact upgrade_conflict_only_if. Qed.
Print Assumptions C07_conflict_only_if_upgrade.

(* the look-up reads only the objects at the keys of its argument *)
Theorem C07_lookup_ignores_other_keys :
  forall (rn ns : string) (rs : list res) (k : kstate) (take : bool) (acc : list res) (key : string) (f : fields),
    ~ In key (map rkey rs) ->
    snd (k_existing rn ns (set_objs k (aset key f (objs k))) rs take acc) = snd (k_existing rn ns k rs take acc).
Proof. exact k_existing_other_key. Qed.
Print Assumptions C07_lookup_ignores_other_keys.

(* ---- more than one namespace ---- *)

(* a namespaced resource (metadata.namespace, "" = the release namespace dns) enters the model
   under the key Kind/name in the release namespace and <namespace>/Kind/name elsewhere
   ([nkey], the key of the simulated API server too).  The spelling is injective: same key iff
   same (namespace, kind, name) *)
Theorem C07_ns_key_injective :
  forall (dns : string), no_slash dns = true ->
  forall (r1 r2 : nres),
    (no_slash (n_ns r1) = true /\ no_slash (n_kind r1) = true /\ no_slash (n_name r1) = true) ->
    (no_slash (n_ns r2) = true /\ no_slash (n_kind r2) = true /\ no_slash (n_name r2) = true) ->
    nkey dns r1 = nkey dns r2 ->
    (eff_ns dns r1, n_kind r1, n_name r1) = (eff_ns dns r2, n_kind r2, n_name r2).
Proof. exact nkey_injective. Qed.
Print Assumptions C07_ns_key_injective.

(* the ownership check is per (namespace, kind, name): a manifest resource of whatever
   namespace that exists there un-owned makes the install end in the conflict error before any
   mutation ... *)
Theorem C07_ns_install_refused :
  forall (dns rn : string) (fl : flags) (cid vid : nat) (nm : list nres) (hks : list hook)
         (sf : sfaults) (cf : cfaults) (w : world) (r : nres) (live : fields),
    f_take_ownership fl = false -> f_client_only fl = false ->
    In r nm -> aget (nkey dns r) (w_objs w) = Some live -> owned_by rn dns live = false ->
    (snd (fst (run_store_op rn dns (mkOp (OpInstall fl cid vid (map (flat_res dns) nm) hks) sf cf) w)) = OErr EConflict \/
     (snd (fst (run_store_op rn dns (mkOp (OpInstall fl cid vid (map (flat_res dns) nm) hks) sf cf) w)) = OErr ENameInUse /\
      f_dry_run fl = false /\
      match max_rev_of (w_led w) with
      | None => true
      | Some last => f_replace fl && (status_eqb (st last) SUninstalled || status_eqb (st last) SFailed)
      end = false)) /\
    snd (run_store_op rn dns (mkOp (OpInstall fl cid vid (map (flat_res dns) nm) hks) sf cf) w) = [] /\
    fst (fst (run_store_op rn dns (mkOp (OpInstall fl cid vid (map (flat_res dns) nm) hks) sf cf) w)) = w.
Proof. exact ns_install_refused. Qed.
Print Assumptions C07_ns_install_refused.

(* ... and (no rejected GET) the conflict error means exactly that: some manifest resource
   exists un-owned at ITS OWN (namespace, kind, name) *)
Theorem C07_ns_conflict_only_own :
  forall (dns rn : string) (fl : flags) (cid vid : nat) (nm : list nres) (hks : list hook)
         (sf : sfaults) (cf : cfaults) (w : world),
    (forall key, cf_k cf <> Some (VGet, key)) ->
    snd (fst (run_store_op rn dns (mkOp (OpInstall fl cid vid (map (flat_res dns) nm) hks) sf cf) w)) = OErr EConflict ->
    f_take_ownership fl = false /\
    exists r live, In r nm /\ aget (nkey dns r) (w_objs w) = Some live /\ owned_by rn dns live = false.
Proof. exact ns_install_conflict_only_own. Qed.
Print Assumptions C07_ns_conflict_only_own.

(* an object whose (namespace, kind, name) is that of no manifest resource, hook or stored
   revision — e.g. the kind and name of a manifest resource in ANOTHER namespace, owned by
   another release — is untouched by install and upgrade (any flags, take-ownership included) *)
Theorem C07_ns_other_object_untouched :
  forall (dns : string), no_slash dns = true ->
  forall (rn : string) (install_not_upgrade : bool) (fl : flags) (cid vid : nat) (nm : list nres)
         (hks : list hook) (sf : sfaults) (cf : cfaults) (w : world) (x : nres),
    (no_slash (n_ns x) = true /\ no_slash (n_kind x) = true /\ no_slash (n_name x) = true) ->
    Forall (fun r => no_slash (n_ns r) = true /\ no_slash (n_kind r) = true /\ no_slash (n_name r) = true) nm ->
    (forall r, In r nm -> (eff_ns dns r, n_kind r, n_name r) <> (eff_ns dns x, n_kind x, n_name x)) ->
    ~ In (nkey dns x) (map (fun h => rkey (h_res h)) hks) ->
    ~ In (nkey dns x) (flat_map (fun r => (map rkey (manifest r) ++ map (fun h => rkey (h_res h)) (hooks r))%list) (w_led w)) ->
    let o := if install_not_upgrade then OpInstall fl cid vid (map (flat_res dns) nm) hks
             else OpUpgrade fl cid vid (map (flat_res dns) nm) hks in
    aget (nkey dns x) (w_objs (fst (fst (run_store_op rn dns (mkOp o sf cf) w)))) = aget (nkey dns x) (w_objs w).
Proof. exact ns_other_object_untouched. Qed.
Print Assumptions C07_ns_other_object_untouched.

(* ... and it plays no part in the pre-flight check *)
Theorem C07_ns_other_object_not_looked_up :
  forall (dns : string), no_slash dns = true ->
  forall (rn : string) (nm : list nres) (k : kstate) (take : bool) (x : nres) (fx : fields),
    (no_slash (n_ns x) = true /\ no_slash (n_kind x) = true /\ no_slash (n_name x) = true) ->
    Forall (fun r => no_slash (n_ns r) = true /\ no_slash (n_kind r) = true /\ no_slash (n_name r) = true) nm ->
    (forall r, In r nm -> (eff_ns dns r, n_kind r, n_name r) <> (eff_ns dns x, n_kind x, n_name x)) ->
    snd (k_existing rn dns (set_objs k (aset (nkey dns x) fx (objs k))) (map (flat_res dns) nm) take []) =
    snd (k_existing rn dns k (map (flat_res dns) nm) take []).
Proof. exact ns_other_object_not_looked_up. Qed.
Print Assumptions C07_ns_other_object_not_looked_up.

(* non-vacuity of the namespace theorems: the same kind and name in the release namespace, in
   "other" (both in the manifest) and in "third" (another release's object) *)
Example C07_ns_example :
  let a0 := mkNRes "" "ConfigMap" "a" [("d:k", "v")] in
  let a1 := mkNRes "other" "ConfigMap" "a" [("d:k", "v")] in
  let a2 := mkNRes "third" "ConfigMap" "a" [] in
  let foreign := [("d:k", "live"); (managed_by_key, "Helm"); (rel_name_key, "other-release"); (rel_ns_key, "third")] in
  let fl t := mkFlags false false false false 0 false false false t 0 in
  let inst t w := run_store_op "rel" "default" (mkOp (OpInstall (fl t) 1 1 (map (flat_res "default") [a0; a1]) []) (mkSF None None) (mkCF None None false)) w in
  let w3 := mkW [] [(nkey "default" a2, foreign)] in
  let w13 := mkW [] [(nkey "default" a1, foreign); (nkey "default" a2, foreign)] in
  map (nkey "default") [a0; a1; a2] = ["ConfigMap/a"; "other/ConfigMap/a"; "third/ConfigMap/a"] /\
  snd (fst (inst false w3)) = OOk /\
  aget "third/ConfigMap/a" (w_objs (fst (fst (inst false w3)))) = Some foreign /\
  snd (fst (inst false w13)) = OErr EConflict /\ snd (inst false w13) = [] /\
  snd (fst (inst true w13)) = OOk /\
  aget "third/ConfigMap/a" (w_objs (fst (fst (inst true w13)))) = Some foreign /\
  (match aget "other/ConfigMap/a" (w_objs (fst (fst (inst true w13)))) with
   | Some f => owned_by "rel" "default" f | None => false end) = true /\
  trace_deletes (snd (run_store_op "rel" "default"
                        (mkOp (OpUpgrade (fl false) 2 1 (map (flat_res "default") [a0]) []) (mkSF None None) (mkCF None None false))
                        (fst (fst (inst false w3))))) = ["other/ConfigMap/a"].
Proof. exact ns_example. Qed.
Print Assumptions C07_ns_example.

(* ---- the request level of the pre-flight check ---- *)

(* [run_store_op_rq] is [run_store_op] with a cluster handler that also logs the GETs of
   existingResourceConflict / requireAdoption (one per visited resource, in order, stopping after a
   rejected GET or, without take-ownership, after the first un-owned object) as a call "existing".
   It computes the same world and outcome, and the same trace once those events are erased *)
Theorem C07_request_log_refines :
  forall (rn ns : string) (c : opcase) (w : world),
    fst (run_store_op_rq rn ns c w) = fst (run_store_op rn ns c w) /\
    filter (fun e => negb (match e with TKube (KCall n _) => String.eqb n "existing" | TStore _ _ _ => false end))
           (snd (run_store_op_rq rn ns c w)) = snd (run_store_op rn ns c w).
Proof. exact run_store_op_rq_refines. Qed.
Print Assumptions C07_request_log_refines.

(* every operation, any flags / world / fault plan: in the logged trace the pre-flight look-up —
   if there is one — is the FIRST event and there is no second one: no storage write and no
   cluster call that could POST, PATCH or DELETE precedes a pre-flight GET *)
Theorem C07_preflight_gets_first :
  forall (rn ns : string) (c : opcase) (w : world),
    Forall (fun e => match e with TKube (KCall n _) => String.eqb n "existing" | TStore _ _ _ => false end = false)
           (snd (run_store_op_rq rn ns c w)) \/
    exists g rest,
      snd (run_store_op_rq rn ns c w) = TKube (KCall "existing" (map (fun key => (VGet, key)) g)) :: rest /\
      Forall (fun e => match e with TKube (KCall n _) => String.eqb n "existing" | TStore _ _ _ => false end = false) rest.
Proof. exact preflight_gets_first. Qed.
Print Assumptions C07_preflight_gets_first.

(* a refused operation sent nothing but its pre-flight GETs *)
Theorem C07_refused_log_is_gets :
  forall (rn ns : string) (c : opcase) (w : world),
    snd (run_store_op rn ns c w) = [] ->
    snd (run_store_op_rq rn ns c w) = [] \/
    exists g, snd (run_store_op_rq rn ns c w) = [TKube (KCall "existing" (map (fun key => (VGet, key)) g))].
Proof. exact refused_log_is_gets. Qed.
Print Assumptions C07_refused_log_is_gets.

(* the GETs of a look-up are those of a prefix of the looked-up resources, in order *)
Theorem C07_preflight_gets_prefix :
  forall (rn ns : string) (rs : list res) (k : kstate) (take : bool),
    exists n, existing_gets rn ns k rs take = firstn n (map rkey rs).
Proof. exact existing_gets_prefix. Qed.
Print Assumptions C07_preflight_gets_prefix.

Example C07_preflight_example :
  let cm n := mkRes "ConfigMap" n [("d:k", "v")] in
  let fl := mkFlags false false false false 0 false false false false 0 in
  let run objs := snd (run_store_op_rq "rel" "default"
                         (mkOp (OpInstall fl 1 1 [cm "a"; cm "b"; cm "c"] []) (mkSF None None) (mkCF None None false)) (mkW [] objs)) in
  firstn 3 (run []) = [TKube (KCall "existing" [(VGet, "ConfigMap/a"); (VGet, "ConfigMap/b"); (VGet, "ConfigMap/c")]);
                       TStore "create" 1 SPendingInstall;
                       TKube (KCall "create" [(VCreate, "ConfigMap/a"); (VCreate, "ConfigMap/b"); (VCreate, "ConfigMap/c")])] /\
  run [("ConfigMap/b", [("d:k", "live")])] = [TKube (KCall "existing" [(VGet, "ConfigMap/a"); (VGet, "ConfigMap/b")])].
Proof. exact preflight_example. Qed.
Print Assumptions C07_preflight_example.

(* ---- check-to-create races: another actor creates an object in the middle of an operation ---- *)

(* [run_store_op_i rn ns i] runs an operation against the cluster handler of Engine/OwnershipRace.v:
   the handler of Engine/Cluster.v in which the intruder [i] makes a foreign object appear at a key
   right after the n-th GET of that key answered "not found" or just before the first POST creating
   it; the POST then answers "already exists" (createResource returns the error).  Without an
   intruder it is the plain handler, so every theorem above is about its race-free runs. *)
Theorem C07_no_intruder_is_plain :
  forall (rn ns : string) (c : opcase) (w : world),
    run_store_op_i rn ns None c w = run_store_op rn ns c w.
Proof. exact run_store_op_i_none. Qed.
Print Assumptions C07_no_intruder_is_plain.

(* per call, Client.Create: the foreign object f is at K when the call starts and nobody else
   comes (landed), or it appears just before the POST of K (at_post).  Then the call fails when it
   names K, the object is exactly f afterwards, and the call logs no mutation of K *)
Theorem C07_create_race_call :
  forall (K : string) (f : fields) (rs : list res) (s : kstate_i),
    ((ki_intr s = None /\ aget K (objs (ki_k s)) = Some f /\ kfault (ki_k s) = None) \/
     (ki_intr s = Some (mkIntr K IPost f) /\ aget K (objs (ki_k s)) = None /\ kfault (ki_k s) = None)) ->
    In K (map rkey rs) ->
    snd (fst (k_create_i s rs true [])) = false /\
    aget K (objs (ki_k (fst (fst (k_create_i s rs true []))))) = Some f /\
    (forall v, ~ In (v, K) (snd (k_create_i s rs true []))).
Proof. exact create_race_call. Qed.
Print Assumptions C07_create_race_call.

(* whole operation.  A fresh install (no stored revision, nothing at any key of the manifest; not
   a dry run, not client-only, not --atomic, hooks disabled; take-ownership and --replace: any).
   Another actor creates f — any object — at the key K of a manifest resource right after the
   pre-flight GET of K was answered "not found", or just before Helm's POST of K.  Then the
   install ends in an error, its revision is recorded and ends FAILED, the object is exactly f
   and no request of Helm created, patched or deleted anything at K. *)
Theorem C07_create_race_refused :
  forall (rn ns : string) (fl : flags) (cid vid : nat) (mani : list res) (hks : list hook)
         (K : string) (f : fields) (when : iwhen) (w : world),
    f_dry_run fl = false -> f_client_only fl = false -> f_atomic fl = false -> f_no_hooks fl = true ->
    w_led w = [] -> (forall r, In r mani -> aget (rkey r) (w_objs w) = None) ->
    NoDup (map rkey mani) -> In K (map rkey mani) ->
    when = IGet404 1 \/ when = IPost ->
    let res := run_store_op_i rn ns (Some (mkIntr K when f))
                 (mkOp (OpInstall fl cid vid mani hks) (mkSF None None) (mkCF None None false)) w in
    snd (fst res) = OErr EOtherErr /\
    w_led (fst (fst res)) = [mkRelease 1 SFailed cid vid mani hks] /\
    aget K (w_objs (fst (fst res))) = Some f /\
    (forall v, ~ In (v, K) (trace_muts (snd res))).
Proof. exact create_race_refused. Qed.
Print Assumptions C07_create_race_refused.

(* the hypothesis "not --atomic" (for upgrade / rollback also "not --cleanup-on-fail") is NEEDED:
   witnesses of the faithful model, replayed on the real code by the corpus — known findings
   K-C07-1a..d (the failure clean-up deletes by manifest key an object Helm neither created nor
   owns).  Also the non-vacuity of C07_create_race_refused (second conjunct) and the race of an
   upgrade between Client.update's GET and its POST (failed revision, previous one still deployed,
   object untouched) *)
Theorem C07_create_race_cleanup_refuted :
  let cm n := mkRes "ConfigMap" n [("d:k", "v")] in
  let foreign := [("d:k", "intruder")] in
  let fl atm cl := mkFlags atm cl false false 0 true false false false 0 in
  let noF := mkSF None None in let noC := mkCF None None false in
  let i n := Some (mkIntr "ConfigMap/a" (IGet404 n) foreign) in
  (let r := run_store_op_i "rel" "default" (i 1) (mkOp (OpInstall (fl true false) 1 1 [cm "a"; cm "b"] []) noF noC) (mkW [] []) in
   snd (fst r) = OErr EOtherErr /\ aget "ConfigMap/a" (w_objs (fst (fst r))) = None /\
   In (VDelete, "ConfigMap/a") (trace_muts (snd r))) /\
  (let r := run_store_op_i "rel" "default" (i 1) (mkOp (OpInstall (fl false false) 1 1 [cm "a"; cm "b"] []) noF noC) (mkW [] []) in
   snd (fst r) = OErr EOtherErr /\ aget "ConfigMap/a" (w_objs (fst (fst r))) = Some foreign /\
   map st (w_led (fst (fst r))) = [SFailed]) /\
  (let w1 := fst (fst (run_store_op "rel" "default" (mkOp (OpInstall (fl false false) 1 1 [cm "base"] []) noF noC) (mkW [] []))) in
   let up atm cl := run_store_op_i "rel" "default" (i 2) (mkOp (OpUpgrade (fl atm cl) 2 1 [cm "base"; cm "a"] []) noF noC) w1 in
   snd (fst (up false false)) = OErr EOtherErr /\ aget "ConfigMap/a" (w_objs (fst (fst (up false false)))) = Some foreign /\
   map st (w_led (fst (fst (up false false)))) = [SDeployed; SFailed] /\
   aget "ConfigMap/a" (w_objs (fst (fst (up false true)))) = None /\
   aget "ConfigMap/a" (w_objs (fst (fst (up true false)))) = None).
Proof. exact create_race_cleanup_refuted. Qed.
Print Assumptions C07_create_race_cleanup_refuted.

(* ---- non-vacuity ---- *)

(* the hypotheses of the refusal theorems are met by concrete worlds: a foreign object, an
   object of another release, the same release name in another namespace, a partially labelled
   one; with take-ownership the same install goes through and stamps the object *)
Example C07_refuse_example :
  forallb (fun live =>
     let w := mkW [] [("ConfigMap/a", live); ("ConfigMap/bystander", [("d:k", "x")])] in
     let fl t := mkFlags false false false false 0 false false false t 0 in
     let run t := run_store_op "rel" "default"
                    (mkOp (OpInstall (fl t) 1 1 [mkRes "ConfigMap" "a" [("d:k", "v")]] []) (mkSF None None) (mkCF None None false)) w in
     negb (owned_by "rel" "default" live)
     && outcome_eqb (snd (fst (run false))) (OErr EConflict)
     && Nat.eqb (List.length (snd (run false))) 0
     && outcome_eqb (snd (fst (run true))) OOk
     && match aget "ConfigMap/a" (w_objs (fst (fst (run true)))) with
        | Some f => owned_by "rel" "default" f
        | None => false
        end)
    [ [("d:k", "live")];
      [("d:k", "live"); (managed_by_key, "Helm"); (rel_name_key, "other"); (rel_ns_key, "default")];
      [("d:k", "live"); (managed_by_key, "Helm"); (rel_name_key, "rel"); (rel_ns_key, "elsewhere")];
      [("d:k", "live"); (managed_by_key, "Helm")];
      [("d:k", "live"); (managed_by_key, "Helm"); (rel_name_key, "rel")];
      [("d:k", "live"); (rel_name_key, "rel"); (rel_ns_key, "default")] ] = true.
Proof. vm_compute. reflexivity. Qed.
Print Assumptions C07_refuse_example.

(* upgrade adding a resource over a foreign object: refused with an empty trace; a correctly
   owned object is adopted *)
Example C07_refuse_upgrade_example :
  let cm n v := mkRes "ConfigMap" n [("d:k", v)] in
  let w live := mkW [mkRelease 1 SDeployed 1 1 [cm "base" "1"] []]
                    [("ConfigMap/base", stamp_fields "rel" "default" [("d:k", "1")]); ("ConfigMap/a", live)] in
  let run live := run_store_op "rel" "default"
                    (mkOp (OpUpgrade (mkFlags false false false false 0 false false false false 0) 2 1 [cm "base" "2"; cm "a" "v"] [])
                          (mkSF None None) (mkCF None None false)) (w live) in
  upgrade_current (w_led (w [])) = Some (mkRelease 1 SDeployed 1 1 [cm "base" "1"] []) /\
  snd (fst (run [("d:k", "live")])) = OErr EConflict /\ snd (run [("d:k", "live")]) = [] /\
  snd (fst (run (stamp_fields "rel" "default" [("d:k", "live")]))) = OOk.
Proof. vm_compute. repeat split; reflexivity. Qed.
Print Assumptions C07_refuse_upgrade_example.

(* deletes do happen (the confinement statement is not about an empty list): an upgrade that
   drops a resource deletes exactly that key *)
Example C07_deletes_example :
  let cm n v := mkRes "ConfigMap" n [("d:k", v)] in
  let w := mkW [mkRelease 1 SDeployed 1 1 [cm "a" "1"; cm "b" "1"] []]
               [("ConfigMap/a", stamp_fields "rel" "default" [("d:k", "1")]);
                ("ConfigMap/b", stamp_fields "rel" "default" [("d:k", "1")]);
                ("ConfigMap/bystander", [("d:k", "x")])] in
  trace_deletes (snd (run_store_op "rel" "default"
                        (mkOp (OpUpgrade (mkFlags false false false false 0 false false false false 0) 2 1 [cm "a" "2"] [])
                              (mkSF None None) (mkCF None None false)) w)) = ["ConfigMap/b"].
Proof. vm_compute. reflexivity. Qed.
Print Assumptions C07_deletes_example.

(* a rejected look-up of a foreign object under install --atomic with take-ownership: refused,
   nothing written, the foreign object still there; without the fault the same install adopts it *)
Example C07_lookup_fails_example :
  let w := mkW [] [("ConfigMap/a", [("d:k", "live")])] in
  let fl := mkFlags true false false false 0 false false false true 0 in
  let run kf := run_store_op "rel" "default"
                  (mkOp (OpInstall fl 1 1 [mkRes "ConfigMap" "a" [("d:k", "v")]; mkRes "ConfigMap" "b" [("d:k", "v")]] [])
                        (mkSF None None) (mkCF kf None false)) w in
  snd (fst (run (Some (VGet, "ConfigMap/a")))) = OErr EConflict /\
  snd (run (Some (VGet, "ConfigMap/a"))) = [] /\
  fst (fst (run (Some (VGet, "ConfigMap/a")))) = w /\
  snd (fst (run None)) = OOk.
Proof. vm_compute. repeat split; reflexivity. Qed.
Print Assumptions C07_lookup_fails_example.

(* C07_crd_caveat (prose): the quantifier of C07_refuse_before_mutation ranges over manifests.
   A chart's crds/ directory is outside the model: Install.RunWithContext calls installCRDs
   (a cluster Create of every CRD object) BEFORE rendering and before existingResourceConflict,
   so an install that is later refused may already have created CRDs; CRDs are not part of the
   release manifest, are never stamped and are never deleted by Helm. *)

(* C07 — Helm never takes over or deletes resources it does not own.
   Property theorems only: each closed by [exact] of a lemma proved in Engine/OwnershipProofs*.v. *)
From Coq Require Import List String Bool ZArith.
From Helm Require Import Common.Assoc Engine.Types Engine.Eff Engine.Ops Engine.Cluster Engine.Seq
                         Engine.DryRun Engine.Ownership Engine.OwnershipProofs.
Import ListNotations.
Local Open Scope string_scope.

(* ---- refusal before any mutation ---- *)

(* install and install --replace (any flags record without take-ownership, dry-run or not),
   every chart, every world, every storage-fault / crash / cluster-fault plan: if some manifest
   resource exists in the cluster and is not owned by (rn, ns) — label managed-by=Helm AND
   annotation release-name = rn AND annotation release-namespace = ns — the operation ends in
   the conflict error (or, before that, in the name-in-use error when the name is not available),
   the trace is empty (no storage write, no cluster call that mutates) and ledger and objects
   are unchanged. *)
Theorem C07_refuse_before_mutation_install :
  forall (rn ns : string) (fl : flags) (cid vid : nat) (mani : list res) (hks : list hook)
         (sf : sfaults) (cf : cfaults) (w : world),
    f_take_ownership fl = false -> f_client_only fl = false ->
    (exists r, In r mani /\ exists live, aget (rkey r) (w_objs w) = Some live /\ owned_by rn ns live = false) ->
    (snd (fst (run_store_op rn ns (mkOp (OpInstall fl cid vid mani hks) sf cf) w)) = OErr EConflict \/
     (snd (fst (run_store_op rn ns (mkOp (OpInstall fl cid vid mani hks) sf cf) w)) = OErr ENameInUse /\
      f_dry_run fl = false /\
      match max_rev_of (w_led w) with
      | None => true
      | Some last => f_replace fl && (status_eqb (st last) SUninstalled || status_eqb (st last) SFailed)
      end = false)) /\
    snd (run_store_op rn ns (mkOp (OpInstall fl cid vid mani hks) sf cf) w) = [] /\
    fst (fst (run_store_op rn ns (mkOp (OpInstall fl cid vid mani hks) sf cf) w)) = w.
Proof. exact refuse_install. Qed.
Print Assumptions C07_refuse_before_mutation_install.

(* upgrade: the resources it would newly create are the target resources whose key is not in
   the manifest of the revision the upgrade starts from *)
Theorem C07_refuse_before_mutation_upgrade :
  forall (rn ns : string) (fl : flags) (cid vid : nat) (mani : list res) (hks : list hook)
         (sf : sfaults) (cf : cfaults) (w : world),
    f_take_ownership fl = false ->
    (forall cur, upgrade_current (w_led w) = Some cur ->
       exists r, In r (filter (fun r => negb (in_keys (rkey r) (manifest cur))) mani) /\
                 exists live, aget (rkey r) (w_objs w) = Some live /\ owned_by rn ns live = false) ->
    (snd (fst (run_store_op rn ns (mkOp (OpUpgrade fl cid vid mani hks) sf cf) w)) = OErr EConflict \/
     ((snd (fst (run_store_op rn ns (mkOp (OpUpgrade fl cid vid mani hks) sf cf) w)) = OErr ENoDeployed \/
       snd (fst (run_store_op rn ns (mkOp (OpUpgrade fl cid vid mani hks) sf cf) w)) = OErr EPending) /\
      upgrade_current (w_led w) = None)) /\
    snd (run_store_op rn ns (mkOp (OpUpgrade fl cid vid mani hks) sf cf) w) = [] /\
    fst (fst (run_store_op rn ns (mkOp (OpUpgrade fl cid vid mani hks) sf cf) w)) = w.
Proof. exact refuse_upgrade. Qed.
Print Assumptions C07_refuse_before_mutation_upgrade.

(* ---- stamping ---- *)

(* setMetadataVisitor followed by checkOwnership: a stamped resource is owned, whatever it
   carried before (including another release's metadata) *)
Theorem C07_stamp_owned :
  forall (rn ns : string) (r : res), owned_by rn ns (r_fields (stamp rn ns r)) = true.
Proof. exact owned_by_stamp. Qed.
Print Assumptions C07_stamp_owned.

(* C05 — property theorems only: each closed by [exact] of a lemma proved elsewhere. *)
From Coq Require Import List String Bool Permutation Sorted.
From Helm Require Import Common.Assoc Values.Tree Render.SortLemmas Render.Pipeline Render.PipelineProofs Render.PipelineInst
     Render.Files Render.FilesProofs Render.FuncMap Gen.FuncMap.
From Helm Require Import Render.Engine Render.EngineProofs Render.EngineNames Render.EngineEquiv Render.EngineDeps Render.FilesMore
     Render.Funcs Render.FuncsProofs Render.FuncMap2 Render.Mini Render.EngineExamples Misc.PanicsRec Gen.C05Funcs.
From Helm Require Chart.Paths.
Import ListNotations.
Local Open Scope string_scope.

(* The templates of one render share their values and may write to them ([vstate], threaded
   through [exec] in execution order), so the execution order is observable.
   Go map iteration = "the entries in an arbitrary order".  [l], [l'] are two iteration orders
   of the template set; [sh1], [sh1'] two iteration orders of the rendered-files map where
   renderResources collects the notes keys; [sh2], [sh2'] two iteration orders of the
   remaining files where SortManifests (or the error blob) collects the file paths.  The
   manifest text, the hook list, the notes - or the error outcome - are the same. *)
Theorem C05_order_independent :
  forall (tset : Type) (t0 : tset) (tsrc : Type)
         (parse : tset -> string -> tsrc -> option tset)
         (vstate : Type) (v0 : vstate)
         (exec : tset -> vstate -> string -> tsrc -> option (string * vstate))
         (split : string -> list string) (head_of : string -> option head)
         (o : opts) (chart_name : string) (crds : list (string * string))
         (sh1 sh1' sh2 sh2' : list (string * string) -> list (string * string))
         (l l' : list (string * tsrc)),
    (forall x, Permutation (sh1 x) x) -> (forall x, Permutation (sh1' x) x) ->
    (forall x, Permutation (sh2 x) x) -> (forall x, Permutation (sh2' x) x) ->
    NoDup (map fst l) -> Permutation l l' ->
    pipeline tset t0 tsrc parse vstate v0 exec split head_of o chart_name crds sh1 sh2 l
    = pipeline tset t0 tsrc parse vstate v0 exec split head_of o chart_name crds sh1' sh2' l'.
Proof. exact pipeline_order_independent. Qed.
Print Assumptions C05_order_independent.

(* non-vacuity: a parent with two subcharts, three NOTES.txt, a hook and a partial meets the
   hypotheses, renders successfully, and two different iteration orders agree *)
Example C05_order_independent_witness :
  NoDup w_keys /\
  w_run (fun x => x) (fun x => x) w_keys = w_run (@rev _) (@rev _) (rev w_keys) /\
  exists m hs, w_run (fun x => x) (fun x => x) w_keys
               = ROk m hs ("parent notes" ++ nl ++ "notes of a" ++ nl ++ "notes of b") /\ List.length hs = 1.
Proof. exact pipeline_witness. Qed.
Print Assumptions C05_order_independent_witness.

(* The execution order matters (seeded defect C05-1): an engine that parses in sorted order but
   executes while ranging over the template map is NOT order independent as soon as templates
   write to the values they share. *)
Lemma C05_exec_map_order_refuted :
  exists l l' : list (string * unit), NoDup (map fst l) /\ Permutation l l' /\
    forall m m',
      engine_render_exec_in_map_order unit tt unit (fun t _ _ => Some t) string EmptyString trace_exec l = inl m ->
      engine_render_exec_in_map_order unit tt unit (fun t _ _ => Some t) string EmptyString trace_exec l' = inl m' ->
      aget "c/templates/a.yaml" m <> aget "c/templates/a.yaml" m'.
Proof. exact exec_map_order_refuted. Qed.
Print Assumptions C05_exec_map_order_refuted.

(* The theorem does not depend on Go's sorting algorithm: whatever sort.Sort / sort.Slice /
   sort.Strings return, if it is a sorted permutation of distinct keys it is the list the
   model computes. *)
Theorem C05_sort_algorithm_irrelevant :
  forall (keys s : list string), NoDup keys -> Permutation s keys ->
    (StronglySorted (fun a c => tpl_before a c = true) s -> s = sort_templates keys) /\
    (StronglySorted (fun a c => notes_before a c = true) s -> s = sort_notes_keys keys) /\
    (StronglySorted (fun a c => str_ltb a c = true) s -> s = sort_strings keys).
Proof. exact sort_algorithm_irrelevant. Qed.
Print Assumptions C05_sort_algorithm_irrelevant.

(* F7 (repaired by 43ed85f): the code that collected the notes while ranging over the map *)
Lemma C05_notes_order_refuted :
  exists f f' : list (string * string), NoDup (map fst f) /\ Permutation f f' /\
    fst (extract_notes_prefix true "p" f) <> fst (extract_notes_prefix true "p" f').
Proof. exact notes_order_prefix_refuted. Qed.
Print Assumptions C05_notes_order_refuted.

(* F12 (repaired by 9782149): the debug blob of a failed render written in map order *)
Lemma C05_error_blob_order_refuted :
  exists f f' : list (string * string), NoDup (map fst f) /\ Permutation f f' /\
    error_blob_prefix f <> error_blob_prefix f'.
Proof. exact error_blob_prefix_refuted. Qed.
Print Assumptions C05_error_blob_order_refuted.

(* The regenerated function table contains no function that reads the process environment,
   and the names the engine overrides (the DNS stub among them) are names of the table. *)
Theorem C05_funcmap_hermetic :
  (forall f, In f ["env"; "expandenv"] -> ~ In f func_names) /\
  (forall f, In f ["include"; "tpl"; "required"; "fail"; "lookup"; "getHostByName"; "toYaml"; "fromYaml"; "toJson"] -> In f func_names) /\
  NoDup func_names /\ Nat.leb 100 (List.length func_names) = true.
Proof. exact funcmap_hermetic_all. Qed.
Print Assumptions C05_funcmap_hermetic.

(* .Files is a function of the chart's in-memory file map alone, whatever order that map is
   iterated in (glob matching, YAML encoding and base64 are arbitrary functions). *)
Theorem C05_files_closed :
  forall (gmatch : string -> string -> bool) (to_yaml : list (string * string) -> string) (b64 : string -> string)
         (f f' : list (string * string)),
    NoDup (map fst f) -> Permutation f f' ->
    (forall n, files_get n f = files_get n f') /\
    (forall n, files_lines n f = files_lines n f') /\
    (forall p, Permutation (files_glob gmatch p f) (files_glob gmatch p f')) /\
    (forall p, as_config to_yaml (files_glob gmatch p f) = as_config to_yaml (files_glob gmatch p f')) /\
    (forall p, as_secrets to_yaml b64 (files_glob gmatch p f) = as_secrets to_yaml b64 (files_glob gmatch p f')) /\
    (forall p n, files_get n (files_glob gmatch p f) = files_get n (files_glob gmatch p f')).
Proof. exact files_closed. Qed.
Print Assumptions C05_files_closed.

(* F11 (repaired by 8d6e67f): AsConfig/AsSecrets filled in map order with colliding base names *)
Lemma C05_as_config_order_refuted :
  exists f f' : list (string * string), NoDup (map fst f) /\ Permutation f f' /\
    base_map_prefix (fun s => s) f <> base_map_prefix (fun s => s) f'.
Proof. exact base_map_prefix_refuted. Qed.
Print Assumptions C05_as_config_order_refuted.

Example C05_as_config_fixed_witness :
  base_map (fun s => s) [("conf/a/x.txt", "A"); ("conf/b/x.txt", "B")] = [("x.txt", "B")] /\
  base_map (fun s => s) [("conf/b/x.txt", "B"); ("conf/a/x.txt", "A")] = [("x.txt", "B")].
Proof. exact base_map_fixed_witness. Qed.
Print Assumptions C05_as_config_fixed_witness.

(* ====================================================================================== round 4 *)
(* pkg/engine itself inside the model: allTemplates / recAllTpls over a chart TREE, Engine.render,
   .Files, Helm's own template functions.  text/template, sprig, the codecs and the cluster are
   arbitrary functions (Section variables of the model). *)

(* ---- (a) Engine.render and the iteration order of its maps ---- *)

(* For every executor ([parse] = t.New(name).Parse, [exec] = ExecuteTemplate on the scope value Helm
   built, [ustate] = whatever executed templates wrote to the values they share): the rendered map,
   the state left behind, or the error (stage, file) are the same for every iteration order of the
   templates map and of the store of scope maps. *)
Theorem C05_render_order_independent :
  forall (file_val : string -> val) (tset : Type) (parse : tset -> string -> string -> option tset)
         (ustate : Type) (exec : tset -> ustate -> string -> val -> option (string * ustate))
         (t0 : tset) (u0 : ustate) (tpls tpls' : tmap) (store store' : smap),
    NoDup (map fst tpls) -> Permutation tpls tpls' -> NoDup (map fst store) -> Permutation store store' ->
    render file_val tset parse ustate exec t0 u0 tpls store = render file_val tset parse ustate exec t0 u0 tpls' store'.
Proof. exact render_order_independent. Qed.
Print Assumptions C05_render_order_independent.

(* Where the execution ORDER matters, and what it is.  The templates of a chart share one scope map
   (and its .Values), so what a file sees depends on the files executed before it (seeded C05-1 and
   C05-8 broke exactly that).  For EVERY template map, executor and starting state: the executor
   that additionally records the names it is called with gives the same outcome, and its record
   is [executed (sort_templates keys)] - the non-partial keys in sortTemplates order; the rendered
   names are exactly these. *)
Theorem C05_render_execution_order :
  forall (file_val : string -> val) (tset : Type) (parse : tset -> string -> string -> option tset)
         (ustate : Type) (exec : tset -> ustate -> string -> val -> option (string * ustate))
         (t0 : tset) (u0 : ustate) (tpls : tmap) (store : smap),
    match render file_val tset parse ustate exec t0 u0 tpls store with
    | inl (m, (ts, u)) =>
        render file_val tset parse (ustate * list string) (logged tset ustate exec) t0 (u0, []) tpls store
        = inl (m, (ts, (u, executed (sort_templates (map fst tpls))))) /\
        map fst m = executed (sort_templates (map fst tpls))
    | inr e => render file_val tset parse (ustate * list string) (logged tset ustate exec) t0 (u0, []) tpls store = inr e
    end.
Proof. exact render_execution_order. Qed.
Print Assumptions C05_render_execution_order.

(* executing while ranging over the map (the seeded change) is refuted on the new model too *)
Lemma C05_render_exec_map_order_refuted :
  exists tpls tpls' : tmap, NoDup (map fst tpls) /\ Permutation tpls tpls' /\
    forall m m' fin fin',
      render_exec_in_map_order (fun _ => VNull) unit (fun t _ _ => Some t) string trace_exec2 tt "" tpls w2_store = inl (m, fin) ->
      render_exec_in_map_order (fun _ => VNull) unit (fun t _ _ => Some t) string trace_exec2 tt "" tpls' w2_store = inl (m', fin') ->
      aget "c/templates/a.yaml" m <> aget "c/templates/a.yaml" m'.
Proof. exact render_exec_map_order_refuted. Qed.
Print Assumptions C05_render_exec_map_order_refuted.

(* the first key in sortTemplates order that does not parse is the one reported *)
Theorem C05_parse_first_failure :
  forall (tset : Type) (parse : tset -> string -> string -> option tset) (t : tset) (keys : list string) (tpls : tmap) (f : string),
    (forall k, In k keys -> aget k tpls <> None) ->
    parse_files tset parse t keys tpls = inr f ->
    exists pre post t', keys = (pre ++ f :: post)%list /\ parse_files tset parse t pre tpls = inl t' /\
                        exists r, aget f tpls = Some r /\ parse t' f (r_tpl r) = None.
Proof. exact parse_files_first_failure. Qed.
Print Assumptions C05_parse_first_failure.

(* The render values are Go maps as well.  [vmeq top top']: every key has equal bindings up to the
   order of map entries at every depth ([veq]).  If the executor cannot tell two orders of one map
   apart, Engine.Render(chart tree, values) is the same for both - for every chart tree. *)
Theorem C05_render_values_order :
  forall (file_val : string -> val) (tset : Type) (parse : tset -> string -> string -> option tset)
         (ustate : Type) (exec : tset -> ustate -> string -> val -> option (string * ustate)),
    (forall t u k v v', veq v v' -> exec t u k v = exec t u k v') ->
    forall (t0 : tset) (u0 : ustate) (c : chart) (top top' : vmap),
      vmeq top top' ->
      engine_render_tree file_val tset parse ustate exec t0 u0 c top = engine_render_tree file_val tset parse ustate exec t0 u0 c top'.
Proof. exact engine_render_values_order. Qed.
Print Assumptions C05_render_values_order.

(* the hypothesis is satisfiable by a non-trivial executor: one that prints the string under a path
   of the scope value (what {{ .Values.k }} does); for it the render of ANY tree is the same for the
   values and for the values with their top-level map reversed *)
Example C05_render_values_order_witness :
  (forall p t u k v v', veq v v' -> probe_exec p t u k v = probe_exec p t u k v') /\
  forall (c : chart) (top : vmap), NoDup (map fst top) ->
    engine_render_tree VStr unit (fun t _ _ => Some t) unit (probe_exec ["Values"; "k"]) tt tt c top
    = engine_render_tree VStr unit (fun t _ _ => Some t) unit (probe_exec ["Values"; "k"]) tt tt c (rev top).
Proof. exact (conj probe_exec_veq render_values_order_witness). Qed.
Print Assumptions C05_render_values_order_witness.

(* The order of the dependency lists.  Engine code ranges over Dependencies(), a slice - but where the
   slice is filled from a Go map (the loader before fix 14399c3, F10) its order is arbitrary.  For a
   well-formed tree, [dperm c c'] (the dependency lists re-ordered at every level) does not reach the
   rendered map, the final state or the error. *)
Theorem C05_render_dependency_order :
  forall (file_val : string -> val) (tset : Type) (parse : tset -> string -> string -> option tset)
         (ustate : Type) (exec : tset -> ustate -> string -> val -> option (string * ustate)),
    (forall t u k v v', veq v v' -> exec t u k v = exec t u k v') ->
    forall (t0 : tset) (u0 : ustate) (c c' : chart) (top : vmap),
      wf_chart c -> dperm c c' ->
      engine_render_tree file_val tset parse ustate exec t0 u0 c top = engine_render_tree file_val tset parse ustate exec t0 u0 c' top.
Proof. exact engine_render_dependency_order. Qed.
Print Assumptions C05_render_dependency_order.

Example C05_dependency_order_witness :
  wf_chart ex_chart /\ dperm ex_chart ex_chart_swapped /\
  engine_render_tree VStr mset_t (m_parse ex_srcs) rst (m_exec ex_opts) m_t0 rinit ex_chart ex_top
  = engine_render_tree VStr mset_t (m_parse ex_srcs) rst (m_exec ex_opts) m_t0 rinit ex_chart_swapped ex_top.
Proof. exact ex_dependency_order_witness. Qed.
Print Assumptions C05_dependency_order_witness.

Theorem C05_veq_of_permutation :
  forall m m' : vmap, NoDup (map fst m) -> Permutation m m' -> veq (VMap m) (VMap m').
Proof. exact veq_of_permutation. Qed.
Print Assumptions C05_veq_of_permutation.

(* ---- (b) template names ---- *)

(* for EVERY chart tree the keys of the map allTemplates returns are distinct (it is a map) ... *)
Theorem C05_template_map_keys_distinct :
  forall (c : chart) (top : vmap), NoDup (map fst (fst (all_templates c top))).
Proof. exact all_templates_keys_nodup. Qed.
Print Assumptions C05_template_map_keys_distinct.

(* ... and for a well-formed tree (names are clean path elements, sibling dependencies have distinct
   names, template names are distinct clean paths below templates/) nothing was overwritten on the
   way: the names are distinct BEFORE the map collapses anything, and the map is the plain
   enumeration of the tree (dependencies first, in Dependencies() order) *)
Theorem C05_template_names_unique :
  forall c : chart, wf_chart c -> NoDup (map fst (tree_entries c true [] "")).
Proof. exact tree_entries_keys_nodup. Qed.
Print Assumptions C05_template_names_unique.

Theorem C05_all_templates_is_tree_entries :
  forall (c : chart) (top : vmap), wf_chart c -> fst (all_templates c top) = tree_entries c true [] "".
Proof. exact all_templates_is_tree_entries. Qed.
Print Assumptions C05_all_templates_is_tree_entries.

(* scoping by path: a chart's own templates are <ChartFullPath>/<name> with base path
   <ChartFullPath>/templates and the chart's own scope map ... *)
Theorem C05_own_templates_scoped :
  forall (c : chart) (root : bool) (id : sid) (pfull : string),
    wf_chart c -> path_ok (chart_full root pfull (ch_name c)) ->
    let full := chart_full root pfull (ch_name c) in
    Forall (fun kv => exists t, In t (some_names (ch_templates c)) /\ fst kv = full ++ "/" ++ t /\
                                r_scope (snd kv) = id /\ r_base (snd kv) = full ++ "/templates")
           (own_entries (is_library (ch_type c)) full id (ch_templates c)).
Proof. exact own_templates_scoped. Qed.
Print Assumptions C05_own_templates_scoped.

(* ... and everything else in its subtree lies under <ChartFullPath>/charts/<dependency name>/ *)
Theorem C05_dependency_templates_scoped :
  forall (c : chart) (root : bool) (id : sid) (pfull k : string) (r : renderable),
    wf_chart c -> path_ok (chart_full root pfull (ch_name c)) ->
    In (k, r) (tree_entries c root id pfull) ->
    let full := chart_full root pfull (ch_name c) in
    (exists rest, k = full ++ "/templates/" ++ rest) \/
    (exists d rest, In d (ch_deps c) /\ k = full ++ "/charts/" ++ ch_name d ++ "/" ++ rest).
Proof. exact dependency_templates_scoped. Qed.
Print Assumptions C05_dependency_templates_scoped.

(* non-vacuity: a parent with a library chart, an application chart with a dependency of its own, a
   partial with a clashing definition - well-formed, rendered by the reference executor *)
Example C05_tree_witness :
  wf_chart ex_chart /\
  map fst (fst (all_templates ex_chart ex_top)) =
    ["p/charts/lib/templates/_l.tpl"; "p/charts/app/charts/deep/templates/d.yaml"; "p/charts/app/templates/a.yaml";
     "p/templates/_h.tpl"; "p/templates/cm.yaml"] /\
  exists fin, ex_render = inl ([("p/charts/app/charts/deep/templates/d.yaml", "deep sees parent-h");
                                ("p/charts/app/templates/a.yaml", "app in rel: from-app");
                                ("p/templates/cm.yaml", "p/templates/cm.yaml root=true lib=[lib] ")], fin).
Proof. exact ex_tree_witness. Qed.
Print Assumptions C05_tree_witness.

(* ---- .Files ---- *)

(* hermeticity: the only content .Files can hand out is an entry of the chart's own file list ... *)
Theorem C05_files_only_own_content :
  forall (from : list (string * string)) (n d : string), aget n (new_files from) = Some d -> In (n, d) from.
Proof. exact files_only_own_content. Qed.
Print Assumptions C05_files_only_own_content.

(* ... any other name (absolute, ../, host paths) is the empty string / no lines *)
Theorem C05_files_unknown_is_empty :
  forall (from : list (string * string)) (n : string),
    ~ In n (map fst from) -> files_get n (new_files from) = EmptyString /\ files_lines n (new_files from) = Some [].
Proof. exact files_get_unknown_is_empty. Qed.
Print Assumptions C05_files_unknown_is_empty.

(* the order of the chart's file list is irrelevant when its names are distinct; with a repeated
   name the later entry wins (newFiles overwrites) *)
Theorem C05_files_list_order :
  forall from from' : list (string * string),
    NoDup (map fst from) -> Permutation from from' -> forall n, aget n (new_files from) = aget n (new_files from').
Proof. exact new_files_list_order. Qed.
Print Assumptions C05_files_list_order.

Lemma C05_files_repeated_name_refuted :
  exists from from', Permutation from from' /\ files_get "a" (new_files from) <> files_get "a" (new_files from').
Proof. exact new_files_repeated_name_refuted. Qed.
Print Assumptions C05_files_repeated_name_refuted.

(* Glob returns a sub-map, for any matcher *)
Theorem C05_glob_is_submap :
  forall (gmatch : string -> string -> bool) (p : string) (f : files) (kv : string * string),
    In kv (files_glob gmatch p f) -> In kv f /\ gmatch p (fst kv) = true.
Proof. exact glob_is_submap. Qed.
Print Assumptions C05_glob_is_submap.

Theorem C05_glob_get :
  forall (gmatch : string -> string -> bool) (p : string) (f : files) (n : string),
    files_get n (files_glob gmatch p f) = if gmatch p n then files_get n f else EmptyString.
Proof. exact glob_get. Qed.
Print Assumptions C05_glob_get.

(* AsConfig / AsSecrets with colliding base names: the greatest full name wins, for every file map *)
Theorem C05_as_config_winner :
  forall (enc : string -> string) (f : files) (k b : string),
    NoDup (map fst f) -> In k (map fst f) -> path_base k = b ->
    (forall k', In k' (map fst f) -> path_base k' = b -> k' = k \/ str_ltb k' k = true) ->
    aget b (base_map enc f) = Some (enc (files_get k f)).
Proof. exact base_map_winner. Qed.
Print Assumptions C05_as_config_winner.

(* ---- Helm's own template functions ---- *)

(* toYaml: a marshal error is the empty string; otherwise exactly one trailing newline is cut *)
Theorem C05_to_yaml :
  forall (yaml_marshal : val -> string + string) (v : val),
    match yaml_marshal v with
    | inr _ => to_yaml yaml_marshal v = EmptyString
    | inl d => to_yaml yaml_marshal v = d \/ d = to_yaml yaml_marshal v ++ nl1
    end.
Proof. exact to_yaml_spec. Qed.
Print Assumptions C05_to_yaml.

(* fromYaml / fromJson / fromToml on error: the map gets the key "Error", the rest stays *)
Theorem C05_from_map_error :
  forall (m : vmap) (e : string),
    exists m', from_map (Some m, Some e) = FOk (VMap m') /\ mget "Error" m' = Some (VStr e) /\
               forall k, k <> "Error" -> mget k m' = mget k m.
Proof. exact from_map_error. Qed.
Print Assumptions C05_from_map_error.

(* required fails exactly on nil and "" - and never in lint mode *)
Theorem C05_required :
  forall (warn : string) (v : val),
    ((exists e, required_fn false warn v = FErr e) <-> (v = VNull \/ v = VStr EmptyString)) /\
    (exists x, required_fn true warn v = FOk x).
Proof. exact (fun warn v => conj (required_fails_iff warn v) (required_lint_never_fails warn v)). Qed.
Print Assumptions C05_required.

(* lookup without a client provider (or in lint mode) answers {} whatever the cluster holds; the engine
   renderResources builds for a client-side dry run has no client: dry-run rendering is hermetic *)
Theorem C05_lookup_without_client :
  forall (client_for : string -> string -> (bool + string)) (cluster_get : string -> string -> string -> string -> cluster_res)
         (cluster_list : string -> string -> string -> cluster_res) (e : engine_opts) (apiv kind ns name : string),
    lookup_bound e = false -> lookup_fn client_for cluster_get cluster_list e apiv kind ns name = (VMap [], None).
Proof. exact lookup_without_client. Qed.
Print Assumptions C05_lookup_without_client.

Theorem C05_dry_run_lookup_is_empty :
  forall (client_for : string -> string -> (bool + string)) (cluster_get : string -> string -> string -> string -> cluster_res)
         (cluster_list : string -> string -> string -> cluster_res)
         (dry_run : bool) (opt : string) (has_getter dns : bool) (apiv kind ns name : string),
    is_dry_run_flags dry_run opt = true -> opt <> "server" -> opt <> "none" -> opt <> "false" ->
    lookup_fn client_for cluster_get cluster_list (render_engine dry_run opt has_getter dns) apiv kind ns name = (VMap [], None).
Proof. exact dry_run_lookup_is_empty. Qed.
Print Assumptions C05_dry_run_lookup_is_empty.

(* the hypotheses are needed: DryRun = true with DryRunOption "none" / "false" talks to the cluster *)
Example C05_dry_run_none_interacts :
  is_dry_run_flags true "none" = true /\ interact_with_remote true "none" = true /\ interact_with_remote true "false" = true /\
  interact_with_remote true "client" = false /\ interact_with_remote true "" = false /\ interact_with_remote false "" = true.
Proof. exact dry_run_none_interacts. Qed.
Print Assumptions C05_dry_run_none_interacts.

(* include and tpl leave the depth counters all files of a render share as they found them (also
   on failure and when refused), around any body that does: no file's rendering can depend, through
   the counters, on the files executed before it *)
Theorem C05_include_balanced :
  forall (A : Type) (body : rst -> (A * option string) * rst) (dflt : A) (s : rst) (name : string),
    (forall s1, same_counters (snd (body s1)) s1) ->
    same_counters (snd (include_fn body dflt s name)) s.
Proof. exact @include_fn_balanced. Qed.
Print Assumptions C05_include_balanced.

Theorem C05_tpl_balanced :
  forall (tset src : Type) (src_text : src -> string) (t_clone : tset -> option tset) (t_option : bool -> tset -> tset)
         (t_rebind : tset -> tset) (t_parse_new : tset -> src -> option tset)
         (t_execute : tset -> rst -> val -> (string * option string) * rst)
         (strict : bool) (parent : tset) (s : rst) (text : src) (vals : val),
    (forall t s1 v, same_counters (snd (t_execute t s1 v)) s1) ->
    same_counters (snd (tpl_fn tset src src_text t_clone t_option t_rebind t_parse_new t_execute strict parent s text vals)) s.
Proof. exact tpl_fn_balanced. Qed.
Print Assumptions C05_tpl_balanced.

(* ---- the function table, semantically ---- *)

(* regenerated by reflection on every run: funcMap() is sprig's table minus env / expandenv with
   Helm's own entries put in - as a set of (name, is-it-sprig's-function) pairs *)
Theorem C05_funcmap_semantic :
  Permutation funcmap_origins (func_table sprig_names) /\
  func_names = map fst funcmap_origins /\
  (forall n, In n ["env"; "expandenv"] -> ~ In n (map fst funcmap_origins)).
Proof. exact funcmap_semantic. Qed.
Print Assumptions C05_funcmap_semantic.

(* for each of the 8 engines (LintMode x client provider x EnableDNS): what initFunMap binds on a
   fresh template is the model's bound table; no env / expandenv; getHostByName is Helm's stub
   whenever EnableDNS is off (with or without a client: seeded C05-2); lookup is re-bound only with a
   client outside lint mode *)
Theorem C05_bound_semantic :
  forall (e : engine_opts) (ot : list (string * origin)),
    In (e, ot) bound_origins ->
    Permutation ot (bound_table e sprig_names) /\
    (forall n, In n ["env"; "expandenv"] -> ~ In n (map fst ot)) /\
    (e_dns e = false -> In ("getHostByName", OHelm) ot) /\
    (lookup_bound e = false -> ~ In "lookup" (rebound e)).
Proof. exact bound_semantic. Qed.
Print Assumptions C05_bound_semantic.

Theorem C05_rebound_is_model :
  map fst bound_rebound = all_engines /\
  Forall (fun ce => snd ce = sort_strings (rebound (fst ce))) bound_rebound.
Proof. exact rebound_is_model. Qed.
Print Assumptions C05_rebound_is_model.

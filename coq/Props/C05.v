(* C05 — property theorems only: each closed by [exact] of a lemma proved elsewhere. *)
From Coq Require Import List String Bool Permutation Sorted.
From Helm Require Import Common.Assoc Render.SortLemmas Render.Pipeline Render.PipelineProofs Render.PipelineInst
     Render.Files Render.FilesProofs Render.FuncMap Gen.FuncMap.
Import ListNotations.
Local Open Scope string_scope.

(* The templates of one render share their values and may write to them ([vstate], threaded
   through [exec] in execution order), so the execution order is observable.
   Go map iteration = "the entries in an arbitrary order".  [l], [l'] are two iteration orders
   of the template set; [sh1], [sh1'] two iteration orders of the rendered-files map where
   renderResources collects the notes keys; [sh2], [sh2'] two iteration orders of the
   remaining files where SortManifests (or the error blob) collects the file paths.  The
   manifest text, the hook list, the notes - or the error outcome - are the same. *)
Theorem C05_order_independent :
  forall (tset : Type) (t0 : tset) (tsrc : Type)
         (parse : tset -> string -> tsrc -> option tset)
         (vstate : Type) (v0 : vstate)
         (exec : tset -> vstate -> string -> tsrc -> option (string * vstate))
         (split : string -> list string) (head_of : string -> option head)
         (o : opts) (chart_name : string) (crds : list (string * string))
         (sh1 sh1' sh2 sh2' : list (string * string) -> list (string * string))
         (l l' : list (string * tsrc)),
    (forall x, Permutation (sh1 x) x) -> (forall x, Permutation (sh1' x) x) ->
    (forall x, Permutation (sh2 x) x) -> (forall x, Permutation (sh2' x) x) ->
    NoDup (map fst l) -> Permutation l l' ->
    pipeline tset t0 tsrc parse vstate v0 exec split head_of o chart_name crds sh1 sh2 l
    = pipeline tset t0 tsrc parse vstate v0 exec split head_of o chart_name crds sh1' sh2' l'.
Proof. exact pipeline_order_independent. Qed.
Print Assumptions C05_order_independent.

(* non-vacuity: a parent with two subcharts, three NOTES.txt, a hook and a partial meets the
   hypotheses, renders successfully, and two different iteration orders agree *)
Example C05_order_independent_witness :
  NoDup w_keys /\
  w_run (fun x => x) (fun x => x) w_keys = w_run (@rev _) (@rev _) (rev w_keys) /\
  exists m hs, w_run (fun x => x) (fun x => x) w_keys
               = ROk m hs ("parent notes" ++ nl ++ "notes of a" ++ nl ++ "notes of b") /\ List.length hs = 1.
Proof. exact pipeline_witness. Qed.
Print Assumptions C05_order_independent_witness.

(* The execution order matters (seeded defect C05-1): an engine that parses in sorted order but
   executes while ranging over the template map is NOT order independent as soon as templates
   write to the values they share. *)
Lemma C05_exec_map_order_refuted :
  exists l l' : list (string * unit), NoDup (map fst l) /\ Permutation l l' /\
    forall m m',
      engine_render_exec_in_map_order unit tt unit (fun t _ _ => Some t) string EmptyString trace_exec l = inl m ->
      engine_render_exec_in_map_order unit tt unit (fun t _ _ => Some t) string EmptyString trace_exec l' = inl m' ->
      aget "c/templates/a.yaml" m <> aget "c/templates/a.yaml" m'.
Proof. exact exec_map_order_refuted. Qed.
Print Assumptions C05_exec_map_order_refuted.

(* The theorem does not depend on Go's sorting algorithm: whatever sort.Sort / sort.Slice /
   sort.Strings return, if it is a sorted permutation of distinct keys it is the list the
   model computes. *)
Theorem C05_sort_algorithm_irrelevant :
  forall (keys s : list string), NoDup keys -> Permutation s keys ->
    (StronglySorted (fun a c => tpl_before a c = true) s -> s = sort_templates keys) /\
    (StronglySorted (fun a c => notes_before a c = true) s -> s = sort_notes_keys keys) /\
    (StronglySorted (fun a c => str_ltb a c = true) s -> s = sort_strings keys).
Proof. exact sort_algorithm_irrelevant. Qed.
Print Assumptions C05_sort_algorithm_irrelevant.

(* F7 (repaired by 43ed85f): the code that collected the notes while ranging over the map *)
Lemma C05_notes_order_refuted :
  exists f f' : list (string * string), NoDup (map fst f) /\ Permutation f f' /\
    fst (extract_notes_prefix true "p" f) <> fst (extract_notes_prefix true "p" f').
Proof. exact notes_order_prefix_refuted. Qed.
Print Assumptions C05_notes_order_refuted.

(* F12 (repaired by 9782149): the debug blob of a failed render written in map order *)
Lemma C05_error_blob_order_refuted :
  exists f f' : list (string * string), NoDup (map fst f) /\ Permutation f f' /\
    error_blob_prefix f <> error_blob_prefix f'.
Proof. exact error_blob_prefix_refuted. Qed.
Print Assumptions C05_error_blob_order_refuted.

(* The regenerated function table contains no function that reads the process environment,
   and the names the engine overrides (the DNS stub among them) are names of the table. *)
Theorem C05_funcmap_hermetic :
  (forall f, In f ["env"; "expandenv"] -> ~ In f func_names) /\
  (forall f, In f ["include"; "tpl"; "required"; "fail"; "lookup"; "getHostByName"; "toYaml"; "fromYaml"; "toJson"] -> In f func_names) /\
  NoDup func_names /\ Nat.leb 100 (List.length func_names) = true.
Proof. exact funcmap_hermetic_all. Qed.
Print Assumptions C05_funcmap_hermetic.

(* .Files is a function of the chart's in-memory file map alone, whatever order that map is
   iterated in (glob matching, YAML encoding and base64 are arbitrary functions). *)
Theorem C05_files_closed :
  forall (gmatch : string -> string -> bool) (to_yaml : list (string * string) -> string) (b64 : string -> string)
         (f f' : list (string * string)),
    NoDup (map fst f) -> Permutation f f' ->
    (forall n, files_get n f = files_get n f') /\
    (forall n, files_lines n f = files_lines n f') /\
    (forall p, Permutation (files_glob gmatch p f) (files_glob gmatch p f')) /\
    (forall p, as_config to_yaml (files_glob gmatch p f) = as_config to_yaml (files_glob gmatch p f')) /\
    (forall p, as_secrets to_yaml b64 (files_glob gmatch p f) = as_secrets to_yaml b64 (files_glob gmatch p f')) /\
    (forall p n, files_get n (files_glob gmatch p f) = files_get n (files_glob gmatch p f')).
Proof. exact files_closed. Qed.
Print Assumptions C05_files_closed.

(* F11 (repaired by 8d6e67f): AsConfig/AsSecrets filled in map order with colliding base names *)
Lemma C05_as_config_order_refuted :
  exists f f' : list (string * string), NoDup (map fst f) /\ Permutation f f' /\
    base_map_prefix (fun s => s) f <> base_map_prefix (fun s => s) f'.
Proof. exact base_map_prefix_refuted. Qed.
Print Assumptions C05_as_config_order_refuted.

Example C05_as_config_fixed_witness :
  base_map (fun s => s) [("conf/a/x.txt", "A"); ("conf/b/x.txt", "B")] = [("x.txt", "B")] /\
  base_map (fun s => s) [("conf/b/x.txt", "B"); ("conf/a/x.txt", "A")] = [("x.txt", "B")].
Proof. exact base_map_fixed_witness. Qed.
Print Assumptions C05_as_config_fixed_witness.

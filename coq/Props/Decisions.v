(* Decision translator: the DATA conditions of the release operations (status tests,
   IsPending, revision and length comparisons, the max-history arithmetic, hook event / delete
   policy / resource-policy tests) are read out of pkg/action, pkg/storage and pkg/release with
   go/ast on every check run (Gen/ActionDecisions.v) and proved EQUIVALENT, for all
   environments, to the conditions on which the model programs of Engine/Ops.v branch.
   Property theorems only.  This file is Required by Props/C01.v, C03.v, C09.v and C13.v, so a
   change of meaning of one of those conditions breaks their proof obligations on every run,
   whatever the generator reaches; a behaviour-preserving rewrite does not.
   See notes/DEC.md. *)
From Coq Require Import List String Bool Arith ZArith.
From Helm Require Import Common.Assoc Engine.Types Engine.Eff Engine.Ops Engine.OpsFix
                         Engine.Decisions Engine.DecisionsModel Engine.DecisionsOps Engine.DecisionsProofs
                         Gen.ActionDecisions.
From Helm Require Values.Reuse Values.ReuseDecisions.
Import ListNotations.
Local Open Scope string_scope.

(* 1. Structure.  The functions the translator tracks are the functions of the model's table,
      in the same order, and each has as many data conditions as the table lists (a new
      condition on release data in one of them, or a removed one, shows here). *)
Theorem decisions_same_shape :
  map (fun fl => (fst fl, List.length (snd fl))) sites
  = map (fun fl => (fst fl, List.length (snd fl))) decisions.
Proof. exact decisions_shape. Qed.
Print Assumptions decisions_same_shape.

(* 2. Meaning.  For every site that the table ties to a condition c of the model (43 of 61;
      the others are listed with the reason why they lie outside the model): the Go source
      has a condition at that position of that function, and FOR ALL environments m -- every
      status, event, policy, boolean, every integer (no window; [env_wf]: only the values of
      Go's builtin len are taken to be non-negative), every string -- the
      interpreter evaluates the extracted expression, and to exactly c m.  [deval] has no
      default: an ill-typed expression, an unknown constant or a fragment the translator
      could not read ([DUnknown]) evaluates to None and fails this. *)
Theorem decision_site_agrees :
  forall (f : string) (n : nat) (lbl : string) (c : menv -> bool),
    nth_error (sites_of sites f) n = Some (Modelled lbl c) ->
    exists (kind : string) (g : dexp),
      nth_error (sites_of decisions f) n = Some (kind, g) /\
      forall m : menv, env_wf m -> deval m g = Some (VB (c m)).
Proof. exact decision_site_agrees_lemma. Qed.
Print Assumptions decision_site_agrees.

(* the same, as one statement over the table (what the per-function lemmas of
   Engine/DecisionsProofs.v prove, one lemma per Go function) *)
Theorem decisions_match_model :
  map fst sites = map fst decisions /\
  Forall (fun f => sites_ok (sites_of sites f) (map snd (sites_of decisions f))) (map fst sites).
Proof. exact decisions_table_ok. Qed.
Print Assumptions decisions_match_model.

(* 3. The named conditions are the conditions of Engine/Ops.v.  Every program of Ops.v that
      contains a site equals -- effect for effect, for every answer of storage and cluster;
      [peq_run]: hence under every handler -- its twin of Engine/DecisionsModel.v, whose text
      is the text of Ops.v with each data condition replaced by `if c (environment of that
      program point)`.  So a condition of the table cannot drift away from Ops.v. *)
Theorem peq_is_observational :
  forall (S A : Type) (hd : forall e : eff, S -> resp e * S) (p q : prog A),
    peqR eq p q -> forall s : S, run hd p s = run hd q s.
Proof. intros S A. exact (@peq_run S A). Qed.
Print Assumptions peq_is_observational.

Theorem install_branches_on_sites :
  forall rn ns fl cid vid mani hks,
    peqR eq (install rn ns fl cid vid mani hks) (install_gen rn ns false fl cid vid mani hks) /\
    peqR eq (install_fx rn ns fl cid vid mani hks) (install_gen rn ns true fl cid vid mani hks).
Proof. intros. split; [apply install_is | apply install_fx_is]. Qed.
Print Assumptions install_branches_on_sites.

Theorem upgrade_branches_on_sites :
  forall rn ns fl cid vid mani hks up created,
    peqR eq (upgrade rn ns fl cid vid mani hks) (upgrade_d rn ns fl cid vid mani hks) /\
    peqR eq (upgrade_fail rn ns fl up created) (upgrade_fail_d rn ns fl up created).
Proof. intros. split; [apply upgrade_is | apply upgrade_fail_is]. Qed.
Print Assumptions upgrade_branches_on_sites.

Theorem rollback_branches_on_sites :
  forall rn ns fl, peqR eq (rollback rn ns fl) (rollback_d rn ns fl).
Proof. exact rollback_is. Qed.
Print Assumptions rollback_branches_on_sites.

Theorem uninstall_branches_on_sites :
  forall fl, peqR eq (uninstall fl) (uninstall_d fl).
Proof. exact uninstall_is. Qed.
Print Assumptions uninstall_branches_on_sites.

Theorem storage_create_branches_on_sites :
  forall r max_history maxkeep,
    peqR eq (storage_create r max_history) (storage_create_d r max_history) /\
    peqR eq (remove_least_recent maxkeep) (remove_least_recent_d maxkeep).
Proof. intros. split; [apply storage_create_is | apply remove_least_recent_is]. Qed.
Print Assumptions storage_create_branches_on_sites.

(* the toDelete loop of removeLeastRecent: the model computes in nat (truncated subtraction),
   Go in int; they agree because the loop never picks more than the history holds *)
Theorem prune_loop_branches_on_sites :
  forall h dep total maxkeep picked,
    picked + List.length h <= total ->
    prune_pick h dep total maxkeep picked = prune_pick_d h dep total maxkeep picked.
Proof. exact prune_pick_is. Qed.
Print Assumptions prune_loop_branches_on_sites.

Theorem hooks_branch_on_sites :
  forall h p ev hs a b,
    peqR eq (delete_hook_by_policy h p) (delete_hook_by_policy_d h p) /\
    has_policy h p = has_policy_d h p /\
    effective_policies h = effective_policies_d h /\
    hooks_for ev hs = hooks_for_d ev hs /\
    hook_less a b = hook_less_d a b.
Proof.
  intros. exact (conj (delete_hook_by_policy_is h p) (conj (has_policy_is h p) (conj (effective_policies_is h)
                (conj (hooks_for_is ev hs) (hook_less_is a b))))).
Qed.
Print Assumptions hooks_branch_on_sites.

(* ByRevision.Less is the order of the model's sort (insert_by_rev) and of its "newest
   revision" (max_rev_of); the keep filter of uninstall is filterManifestsToKeep's test; the
   ownership check (Types.owned_by) is validate.go's three requireValue *)
Theorem orders_and_filters_on_sites :
  forall (r x m : release) (rs : res) (rel_name rel_ns : string) (f : fields),
    Nat.leb (rev r) (rev x) = negb (rev_less x r) /\
    Nat.ltb (rev m) (rev r) = rev_less m r /\
    manifest_keep rs = manifest_keep_d rs /\
    owned_by rel_name rel_ns f
    = require_value_d managed_by_key "Helm" f && require_value_d rel_name_key rel_name f
      && require_value_d rel_ns_key rel_ns f.
Proof.
  intros. exact (conj (insert_by_rev_less r x) (conj (max_rev_of_less m r) (conj (manifest_keep_is rs)
                (owned_by_is rel_name rel_ns f)))).
Qed.
Print Assumptions orders_and_filters_on_sites.

(* C13's model of "which revision an upgrade carries values forward from"
   (Values.Reuse.current_idx, over the statuses deployed / superseded / failed) decides by the
   same named conditions of Upgrade.prepareUpgrade as Engine/Ops.upgrade does *)
Theorem reuse_current_branches_on_sites :
  forall (sts : list Values.Reuse.rstat) (lastst : Values.Reuse.rstat),
    nth_error sts (List.length sts - 1) = Some lastst ->
    Values.Reuse.current_idx sts =
      if c_up_pending (Values.ReuseDecisions.env_last lastst) then None
      else if c_up_last_deployed (Values.ReuseDecisions.env_last lastst) then Some (List.length sts)
      else match Values.Reuse.deployed_idx_from 1 sts with
           | Some i => Some i
           | None =>
               if c_up_fallback (set_err "Deployed is Is driver.ErrNoDeployedReleases" true
                                         (Values.ReuseDecisions.env_last lastst))
               then Some (List.length sts) else None
           end.
Proof. exact Values.ReuseDecisions.current_idx_on_sites. Qed.
Print Assumptions reuse_current_branches_on_sites.

(* 4. Not vacuous, not syntactic. *)
Example decisions_site_counts :
  List.length (List.concat (map snd sites)) = 61 /\
  List.length (filter modelled (List.concat (map snd sites))) = 43 /\ List.length sites = 32.
Proof. exact site_counts. Qed.
Print Assumptions decisions_site_counts.

(* widening `lastRelease.Info.Status == release.StatusDeployed` (prepareUpgrade) by
   `|| … == release.StatusFailed` is told apart by an environment *)
Example decisions_reject_widened :
  exists m, deval m (DOr (DEq (DVar TS "Last.status") (DStatus "deployed"))
                         (DEq (DVar TS "Last.status") (DStatus "failed")))
            <> Some (VB (c_up_last_deployed m)).
Proof. exact rejects_widened_lemma. Qed.
Print Assumptions decisions_reject_widened.

(* `len(h) <= maximum` (removeLeastRecent) off by one *)
Example decisions_reject_off_by_one :
  exists m, deval m (DLt (DVar TN "len(History)") (DVar TN "arg2")) <> Some (VB (c_rlr_fits m)).
Proof. exact rejects_off_by_one_lemma. Qed.
Print Assumptions decisions_reject_off_by_one.

Example decisions_reject_unknown :
  forall c txt, ~ (forall m : menv, env_wf m -> deval m (DUnknown txt) = Some (VB (c m))).
Proof. intros c txt. exact (rejects_unknown_lemma c txt). Qed.
Print Assumptions decisions_reject_unknown.

(* IsPending as a switch with the cases in another order; `len(h) <= maximum` as
   `!(maximum < len(h))`: both accepted (the second for all integers) *)
Example decisions_accept_rewritten :
  (forall m : menv, env_wf m ->
     deval m (DIf (DIn (DVar TS "recv") [DStatus "pending-rollback"; DStatus "pending-install"; DStatus "pending-upgrade"])
                  (DBool true) (DBool false)) = Some (VB (c_is_pending m))) /\
  (forall m : menv, env_wf m ->
     deval m (DNot (DLt (DVar TN "arg2") (DVar TN "len(History)"))) = Some (VB (c_rlr_fits m))).
Proof. exact (conj accepts_switch_lemma accepts_de_morgan_lemma). Qed.
Print Assumptions decisions_accept_rewritten.

(* Decision translator: the DATA decisions of the release operations (status tests,
   IsPending, revision and length comparisons, the max-history arithmetic, hook event / delete
   policy / resource-policy tests) are read out of pkg/action, pkg/storage and pkg/release with
   go/ast on every check run (Gen/ActionDecisions.v) -- as the PATH CONDITION under which each
   guarded thing happens (a return with a given error, a call, an append, an assignment) --
   and proved EQUIVALENT, for all environments, to the path conditions of the corresponding
   branches of the model programs of Engine/Ops.v.
   Property theorems only.  This file is Required by Props/C01.v, C03.v, C09.v and C13.v, so a
   change of meaning of one of those conditions breaks their proof obligations on every run,
   whatever the generator reaches; a behaviour-preserving rewrite does not.
   See notes/DEC.md. *)
From Coq Require Import List String Bool Arith ZArith.
From Helm Require Import Common.Assoc Engine.Types Engine.Eff Engine.Ops Engine.OpsFix
                         Engine.Decisions Engine.DecisionsModel Engine.DecisionsOps Engine.DecisionsProofs
                         Gen.ActionDecisions.
From Helm Require Values.Reuse Values.ReuseDecisions.
Import ListNotations.
Local Open Scope string_scope.

(* 1. Meaning.  For every GUARDED ITEM that the model lists for a tracked Go function -- a
      return identified by the error it returns, a call identified by its callee, an append
      to a collection, an assignment to a field, a `break`, a predicate (filter closure, search
      loop / slices.Contains[Func], boolean function), the value of an integer local -- the
      generated table has an item with that key, and its PATH CONDITION (the conjunction of the
      enclosing conditions, negated for else-branches and for the guards of preceding early
      exits; disjunction over the occurrences of the item) evaluates, FOR ALL environments m --
      every status, event, policy, boolean, every integer (no window; [env_wf]: only the
      values of Go's builtin len are taken to be non-negative), every string -- that meet the
      function's stated assumptions, to exactly the model's path condition at m.  So the number,
      nesting, order and polarity of the syntactic conditions are free, their meaning is not.
      An item is found by its KIND and source -- `ret new` (a freshly built error), `ret err(src)`
      (the error of call src, wrapped or not), a sentinel by its identifier, a call by its callee
      -- not by the text of an error message: among the Go items of that class
      ([go_items]: key k or "k:<text>") one must have the equivalent path condition.
      [env_wf] holds the facts of the Go language the fragment uses: len >= 0, len(nil) = 0, a
      lookup in an empty or nil map finds nothing and yields the zero value.
      [deval] has no default: an ill-typed expression, an unknown constant or a fragment the
      translator could not read ([DUnknown], also for a missing item) evaluates to None and
      fails this; an unreadable boolean ([DOpaque]) is an unconstrained atom. *)
Theorem decision_item_agrees :
  forall (fm : fmodel) (k : string) (it : mitem),
    In fm model -> In (k, it) (fn_items fm) ->
    exists g : dexp,
      In g (go_items decisions (fn_name fm) k) /\
      forall m : menv, env_wf m -> all_hold m (map fst (fn_pre fm)) -> deval m g = Some (mvalue it m).
Proof. exact decision_item_agrees_lemma. Qed.
Print Assumptions decision_item_agrees.

(* the same, as one statement over the table (what the per-function lemmas of
   Engine/DecisionsProofs.v prove, one lemma per Go function) *)
Theorem decisions_match_model :
  Forall (fun fm => items_ok decisions (fn_name fm) (map fst (fn_pre fm)) (fn_items fm)) model.
Proof. exact decisions_table_ok. Qed.
Print Assumptions decisions_match_model.

(* 2. The assumptions (the part of a Go function's environment the model does not have: calls
      that do not fail in the model, options and validations outside it, integers it keeps in
      nat; each listed with its reason in Engine/DecisionsModel.v) are satisfiable: the
      all-default environment meets those of every function. *)
Theorem decision_assumptions_satisfiable :
  env_wf env0 /\ Forall (fun fm => all_hold env0 (map fst (fn_pre fm))) model.
Proof. exact (conj env0_wf assumptions_satisfiable_lemma). Qed.
Print Assumptions decision_assumptions_satisfiable.

(* 3. The named conditions are the conditions of Engine/Ops.v.  Every program of Ops.v that
      contains a site equals -- effect for effect, for every answer of storage and cluster;
      [peq_run]: hence under every handler -- its twin of Engine/DecisionsModel.v, whose text
      is the text of Ops.v with each data condition replaced by `if c (environment of that
      program point)`.  So a condition of the table cannot drift away from Ops.v. *)
Theorem peq_is_observational :
  forall (S A : Type) (hd : forall e : eff, S -> resp e * S) (p q : prog A),
    peqR eq p q -> forall s : S, run hd p s = run hd q s.
Proof. intros S A. exact (@peq_run S A). Qed.
Print Assumptions peq_is_observational.

Theorem install_branches_on_sites :
  forall rn ns fl cid vid mani hks,
    peqR eq (install rn ns fl cid vid mani hks) (install_gen rn ns false fl cid vid mani hks) /\
    peqR eq (install_fx rn ns fl cid vid mani hks) (install_gen rn ns true fl cid vid mani hks).
Proof. intros. split; [apply install_is | apply install_fx_is]. Qed.
Print Assumptions install_branches_on_sites.

Theorem upgrade_branches_on_sites :
  forall rn ns fl cid vid mani hks up created,
    peqR eq (upgrade rn ns fl cid vid mani hks) (upgrade_d rn ns fl cid vid mani hks) /\
    peqR eq (upgrade_fail rn ns fl up created) (upgrade_fail_d rn ns fl up created).
Proof. intros. split; [apply upgrade_is | apply upgrade_fail_is]. Qed.
Print Assumptions upgrade_branches_on_sites.

Theorem rollback_branches_on_sites :
  forall rn ns fl, peqR eq (rollback rn ns fl) (rollback_d rn ns fl).
Proof. exact rollback_is. Qed.
Print Assumptions rollback_branches_on_sites.

(* the revision rollback goes to: the model computes it in nat, Go in int ("val
   previousVersion"); they agree for every stored revision number (>= 1) *)
Theorem rollback_target_on_sites :
  forall v cur : nat, 1 <= cur ->
    Z.of_nat (match v with 0 => cur - 1 | _ => v end)
    = v_rb_prev (set_n "opt.Version" (Z.of_nat v) (set_n "Last.version" (Z.of_nat cur) env0)).
Proof. exact rollback_prev_is. Qed.
Print Assumptions rollback_target_on_sites.

Theorem uninstall_branches_on_sites :
  forall fl, peqR eq (uninstall fl) (uninstall_d fl).
Proof. exact uninstall_is. Qed.
Print Assumptions uninstall_branches_on_sites.

Theorem storage_create_branches_on_sites :
  forall r max_history maxkeep,
    peqR eq (storage_create r max_history) (storage_create_d r max_history) /\
    peqR eq (remove_least_recent maxkeep) (remove_least_recent_d maxkeep).
Proof. intros. split; [apply storage_create_is | apply remove_least_recent_is]. Qed.
Print Assumptions storage_create_branches_on_sites.

(* the toDelete loop of removeLeastRecent: the model computes in nat (truncated subtraction),
   Go in int; they agree because the loop never picks more than the history holds *)
Theorem prune_loop_branches_on_sites :
  forall h dep total maxkeep picked,
    picked + List.length h <= total ->
    prune_pick h dep total maxkeep picked = prune_pick_d h dep total maxkeep picked.
Proof. exact prune_pick_is. Qed.
Print Assumptions prune_loop_branches_on_sites.

Theorem hooks_branch_on_sites :
  forall h p ev hs a b,
    peqR eq (delete_hook_by_policy h p) (delete_hook_by_policy_d h p) /\
    has_policy h p = has_policy_d h p /\
    effective_policies h = effective_policies_d h /\
    hooks_for ev hs = hooks_for_d ev hs /\
    hook_less a b = hook_less_d a b.
Proof.
  intros. exact (conj (delete_hook_by_policy_is h p) (conj (has_policy_is h p) (conj (effective_policies_is h)
                (conj (hooks_for_is ev hs) (hook_less_is a b))))).
Qed.
Print Assumptions hooks_branch_on_sites.

(* ByRevision.Less is the order of the model's sort (insert_by_rev) and of its "newest
   revision" (max_rev_of); the keep filter of uninstall is filterManifestsToKeep's test; the
   ownership check (Types.owned_by) is validate.go's three requireValue *)
Theorem orders_and_filters_on_sites :
  forall (r x m : release) (rs : res) (rel_name rel_ns : string) (f : fields),
    Nat.leb (rev r) (rev x) = negb (rev_less x r) /\
    Nat.ltb (rev m) (rev r) = rev_less m r /\
    manifest_keep rs = manifest_keep_d rs /\
    manifest_keep rs =
      p_keep (set_n "len(each(arg1).head.metadata.annotations)" (match aget policy_key (r_fields rs) with Some _ => 1%Z | None => 0%Z end)
             (set_b "has(each(arg1).head.metadata.annotations[helm.sh/resource-policy])"
                    (match aget policy_key (r_fields rs) with Some _ => true | None => false end)
             (set_str "each(arg1).head.metadata.annotations[helm.sh/resource-policy]"
                    (match aget policy_key (r_fields rs) with Some v => v | None => "" end) env0))) /\
    owned_by rel_name rel_ns f
    = require_value_d managed_by_key "Helm" f && require_value_d rel_name_key rel_name f
      && require_value_d rel_ns_key rel_ns f.
Proof.
  intros. exact (conj (insert_by_rev_less r x) (conj (max_rev_of_less m r) (conj (manifest_keep_is rs)
                (conj (manifest_keep_is_item rs) (owned_by_is rel_name rel_ns f))))).
Qed.
Print Assumptions orders_and_filters_on_sites.

(* C13's model of "which revision an upgrade carries values forward from"
   (Values.Reuse.current_idx, over the statuses deployed / superseded / failed) decides by the
   same named conditions of Upgrade.prepareUpgrade as Engine/Ops.upgrade does *)
Theorem reuse_current_branches_on_sites :
  forall (sts : list Values.Reuse.rstat) (lastst : Values.Reuse.rstat),
    nth_error sts (List.length sts - 1) = Some lastst ->
    Values.Reuse.current_idx sts =
      if c_up_pending (Values.ReuseDecisions.env_last lastst) then None
      else if c_up_last_deployed (Values.ReuseDecisions.env_last lastst) then Some (List.length sts)
      else match Values.Reuse.deployed_idx_from 1 sts with
           | Some i => Some i
           | None =>
               if c_up_fallback (set_err "Deployed is Is driver.ErrNoDeployedReleases" true
                                         (Values.ReuseDecisions.env_last lastst))
               then Some (List.length sts) else None
           end.
Proof. exact Values.ReuseDecisions.current_idx_on_sites. Qed.
Print Assumptions reuse_current_branches_on_sites.

(* 4. Not vacuous, not syntactic. *)
Example decisions_model_counts :
  List.length model = 22 /\ List.length (List.concat (map fn_items model)) = 52 /\
  List.length (List.concat (map fn_pre model)) = 36.
Proof. exact model_counts. Qed.
Print Assumptions decisions_model_counts.

(* prepareUpgrade: "ask the storage for the deployed revision" with the test
   `lastRelease.Info.Status == release.StatusDeployed` widened by `|| … == release.StatusFailed`
   is told apart by an environment *)
Example decisions_reject_widened :
  exists m, env_wf m /\
    deval m (DAnd (DNot (DIsPending (DVar TS "Last.status")))
                  (DNot (DOr (DEq (DVar TS "Last.status") (DStatus "deployed"))
                             (DEq (DVar TS "Last.status") (DStatus "failed")))))
    <> Some (VB (p_up_ask_deployed m)).
Proof. exact rejects_widened_lemma. Qed.
Print Assumptions decisions_reject_widened.

(* `len(h) <= maximum` (removeLeastRecent) off by one *)
Example decisions_reject_off_by_one :
  exists m, env_wf m /\
    deval m (DNot (DLt (DVar TN "len(History)") (DVar TN "arg2"))) <> Some (VB (p_rlr_prune m)).
Proof. exact rejects_off_by_one_lemma. Qed.
Print Assumptions decisions_reject_off_by_one.

(* what the translator cannot read is never accepted: neither an unreadable expression nor a
   condition with an unreadable boolean operand the model does not name *)
Example decisions_reject_unknown :
  (forall it txt, ~ (forall m : menv, env_wf m -> all_hold m [] -> deval m (DUnknown txt) = Some (mvalue it m))) /\
  ~ (forall m : menv, env_wf m -> all_hold m [] ->
       deval m (DOr (DIsPending (DVar TS "Last.status")) (DOpaque "somethingElse(rel)")) = Some (VB (c_up_pending m))).
Proof. exact (conj rejects_unknown_lemma rejects_opaque_lemma). Qed.
Print Assumptions decisions_reject_unknown.

(* accepted: the nested selection of removeLeastRecent flattened into one inverted guard with
   `continue` (harmless/C01-H1); IsPending as a switch with the cases in another order;
   `len(h) <= maximum` negated as `maximum < len(h)` -- for all integers *)
Example decisions_accept_rewritten :
  (forall m : menv, env_wf m -> all_hold m [ANonNeg "arg2"] ->
     deval m (DAnd (DAnd (DNot (DLe (DVar TN "len(History)") (DVar TN "arg2")))
                         (DNot (DEq (DSub (DVar TN "len(sorted(History))") (DVar TN "len(new([]Release))")) (DVar TN "arg2"))))
                   (DNot (DAnd (DNot (DNil "Deployed"))
                               (DEq (DVar TN "each(sorted(History)).version") (DVar TN "Deployed.version")))))
     = Some (VB (p_rlr_pick m))) /\
  (forall m : menv, env_wf m -> all_hold m [] ->
     deval m (DIn (DVar TS "recv") [DStatus "pending-rollback"; DStatus "pending-install"; DStatus "pending-upgrade"])
     = Some (VB (c_is_pending m))) /\
  (forall m : menv, env_wf m -> all_hold m [] ->
     deval m (DLt (DVar TN "arg2") (DVar TN "len(History)")) = Some (VB (p_rlr_prune m))).
Proof. exact (conj accepts_flattened_lemma (conj accepts_switch_lemma accepts_de_morgan_lemma)). Qed.
Print Assumptions decisions_accept_rewritten.

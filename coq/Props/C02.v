(* C02 — after a successful operation the cluster matches the recorded manifest.
   Property theorems only: each closed by [exact] of a lemma proved in Engine/Match*.v. *)
From Coq Require Import List String Bool.
From Helm Require Import Common.Assoc Engine.Types Engine.Eff Engine.Ops Engine.Cluster Engine.Seq.
From Helm Require Import Engine.MatchDefs Engine.MatchUpdate Engine.MatchExamples Engine.MatchRun Engine.MatchOps Engine.MatchSuccess.
From Helm Require Import Engine.Obj2 Engine.Update2 Engine.Merge3Proofs Engine.MergeJsonProofs Engine.MergeJson3Proofs Engine.Update2Proofs Engine.Update2Spec Engine.MergeExamples.
From Helm Require Import Gen.C02Patch Engine.PatchTable.
Import ListNotations.

(* kube.Client.update against an API server that rejects nothing ([kfault = None]), for every
   original manifest [cur], every target manifest [tgt] with distinct keys, and EVERY content
   of the object store (arbitrary out-of-band edits, deletions, foreign objects). *)
Theorem C02_update_matches :
  forall (k : kstate) (cur tgt : list res) (k' : kstate) (created : list res) (muts : list (verb * string)),
    kfault k = None ->
    NoDup (map rkey tgt) ->
    (forall t, In t tgt -> NoDup (akeys (r_fields t))) ->
    k_update k cur tgt = (k', (true, created), muts) ->
    (* (i) every target exists and carries every field the new manifest names, whatever the
           live object held; it was either created with exactly the posted fields or merged *)
    (forall t, In t tgt ->
       exists live', aget (rkey t) (objs k') = Some live' /\
         fields_sub (r_fields t) live' = true /\
         match aget (rkey t) (objs k) with
         | None => live' = r_fields t
         | Some live =>
             exists old, find_res (rkey t) cur = Some old /\
               (* fields named by neither manifest stay as they were *)
               (forall f, aget f (r_fields t) = None -> aget f (r_fields old) = None -> aget f live' = aget f live) /\
               (* fields named by the old manifest only are removed *)
               (forall f, aget f (r_fields t) = None -> aget f (r_fields old) <> None -> aget f live' = None)
         end) /\
    (* (ii) resources dropped by the new manifest are gone, unless the LIVE object carries
            the keep policy, in which case it is unchanged *)
    (forall o, In o cur -> in_keys (rkey o) tgt = false ->
       match aget (rkey o) (objs k) with
       | Some live => if live_keep live then aget (rkey o) (objs k') = Some live
                      else aget (rkey o) (objs k') = None
       | None => aget (rkey o) (objs k') = None
       end) /\
    (* (iii) nothing else changes *)
    (forall key, in_keys key cur = false -> in_keys key tgt = false ->
       aget key (objs k') = aget key (objs k)).
Proof. exact update_matches. Qed.
Print Assumptions C02_update_matches.

(* ... and it fails (without a rejected request) exactly when some target exists in the cluster
   but is not in the original manifest: "no <Kind> with the name <n> found" *)
Theorem C02_update_fails_iff_unknown_live_target :
  forall (k : kstate) (cur tgt : list res),
    kfault k = None ->
    NoDup (map rkey tgt) ->
    (fst (snd (fst (k_update k cur tgt))) = false <->
     exists t, In t tgt /\ aget (rkey t) (objs k) <> None /\ find_res (rkey t) cur = None).
Proof. exact update_fails_iff. Qed.
Print Assumptions C02_update_fails_iff_unknown_live_target.

(* the field-level reading of the merge used above, for all three inputs *)
Theorem C02_three_way_fieldwise :
  forall (old new live : fields) (f : string),
    NoDup (akeys new) ->
    aget f (three_way old new live) =
      match aget f new with
      | Some v => Some v
      | None => if amem f old then None else aget f live
      end.
Proof. exact three_way_get. Qed.
Print Assumptions C02_three_way_fieldwise.

Theorem C02_create_matches :
  forall (k : kstate) (rs : list res) (k' : kstate) (muts : list (verb * string)),
    kfault k = None ->
    NoDup (map rkey rs) ->
    k_create k rs true [] = (k', true, muts) ->
    (forall r, In r rs -> aget (rkey r) (objs k) = None /\ aget (rkey r) (objs k') = Some (r_fields r)) /\
    (forall key, in_keys key rs = false -> aget key (objs k') = aget key (objs k)).
Proof. exact create_matches. Qed.
Print Assumptions C02_create_matches.

Theorem C02_delete_matches :
  forall (k : kstate) (rs : list res) (k' : kstate) (ok : bool) (muts : list (verb * string)),
    kfault k = None ->
    k_delete k rs true [] = (k', ok, muts) ->
    ok = true /\
    (forall r, In r rs -> aget (rkey r) (objs k') = None) /\
    (forall key, in_keys key rs = false -> aget key (objs k') = aget key (objs k)).
Proof. exact delete_matches. Qed.
Print Assumptions C02_delete_matches.

(* ---- non-vacuity and a record of what the code does ---- *)

(* the drift case: an out-of-band edit of a specified field is overwritten, the foreign field
   stays, the field dropped by the new manifest goes, the bystander is untouched *)
Example C02_drift_corrected :
  let '(k', r, _) := k_update (k_of drift_live) drift_cur drift_tgt in
  fst r = true /\
  objs k' = [("ConfigMap/a", [("d:k", "v1"); ("d:foreign", "f"); ("d:y", "2")]); ("ConfigMap/z", [("d:k", "bystander")])]%string.
Proof. exact drift_corrected. Qed.
Print Assumptions C02_drift_corrected.

Example C02_update_hypotheses_met :
  kfault (k_of drift_live) = None /\ NoDup (map rkey drift_tgt) /\
  (forall t, In t drift_tgt -> NoDup (akeys (r_fields t))) /\
  fst (snd (fst (k_update (k_of drift_live) drift_cur drift_tgt))) = true.
Proof. exact drift_meets_hypotheses. Qed.
Print Assumptions C02_update_hypotheses_met.

(* keep toggles: the decision follows the LIVE object, not the manifest.  a (manifest: keep,
   live: annotation lost) is deleted; b (manifest silent, live: keep) stays *)
Example C02_keep_follows_live_object :
  let '(k', r, _) := k_update (k_of keep_live) keep_cur keep_tgt in
  fst r = true /\
  objs k' = [("ConfigMap/b", [("d:k", "v1"); (policy_key, "keep")]); ("ConfigMap/c", [("d:k", "v2")])]%string.
Proof. exact keep_follows_live_object. Qed.
Print Assumptions C02_keep_follows_live_object.

Example C02_unknown_live_target_fails :
  fst (snd (fst (k_update (k_of [("ConfigMap/a", [("d:k", "v1")]); ("ConfigMap/b", [("d:k", "v0")])]%string)
                          [cm "a" [("d:k", "v1")]]%string
                          [cm "a" [("d:k", "v2")]; cm "b" [("d:k", "v2")]]%string))) = false.
Proof. exact unknown_live_target_fails. Qed.
Print Assumptions C02_unknown_live_target_fails.

(* ---- uninstall ---- *)

(* A successful uninstall (hooks disabled, or hooks that succeed and whose objects are not
   manifest resources; no request fault, no storage fault, no crash) of a release whose latest
   revision [last] is not already uninstalled: every manifest resource whose policy annotation
   does not say keep (case-insensitive, trimmed) is absent; the others — exactly
   [filter manifest_keep (manifest last)], the list the response reports — are untouched; so is
   every object outside the manifest and the hooks.  For EVERY content of the cluster. *)
Theorem C02_uninstall_matches :
  forall (rn ns : string) (fl : flags) (hf : option (string * nat)) (wf : bool)
         (w w' : world) (tr : list tev) (last : release),
    f_dry_run fl = false ->
    max_rev_of (w_led w) = Some last -> st last <> SUninstalled ->
    NoDup (map rkey (manifest last)) ->
    (f_no_hooks fl = true \/
     forall h, In h (hooks last) -> in_keys (rkey (h_res h)) (manifest last) = false) ->
    run_store_op rn ns (mkOp (OpUninstall fl) (mkSF None None) (mkCF None hf wf)) w = (w', OOk, tr) ->
    (forall r, In r (manifest last) -> manifest_keep r = false -> aget (rkey r) (w_objs w') = None) /\
    (forall r, In r (filter manifest_keep (manifest last)) ->
       aget (rkey r) (w_objs w') = aget (rkey r) (w_objs w)) /\
    (forall key, in_keys key (manifest last) = false ->
       (f_no_hooks fl = true \/ forall h, In h (hooks last) -> rkey (h_res h) <> key) ->
       aget key (w_objs w') = aget key (w_objs w)).
Proof. exact uninstall_matches. Qed.
Print Assumptions C02_uninstall_matches.

(* F6, repaired in /repo by 18ab676.  With the filter as it was (an entry whose resource-policy
   annotation is present but not "keep" went on neither list) uninstall succeeds, purges the
   history, and the ConfigMap annotated "helm.sh/resource-policy: foo" is still there and is not
   among the kept ones.  [uninstall_with] is Ops.uninstall with the filter as a parameter
   ([uninstall_with uninstall_deleted fl = uninstall fl] by reflexivity, MatchOps.v). *)
Theorem C02_uninstall_leaks_refuted :
  exists (w : world) (last : release) (r : res),
    max_rev_of (w_led w) = Some last /\ In r (manifest last) /\ manifest_keep r = false /\
    let '(w', out) := run_prog_store "rel" "default" (uninstall_with prefix_deleted no_flags) w in
    out = OOk /\ w_led w' = [] /\ aget (rkey r) (w_objs w') <> None /\
    ~ In r (filter manifest_keep (manifest last)).
Proof. exact uninstall_leaks_refuted. Qed.
Print Assumptions C02_uninstall_leaks_refuted.

Theorem C02_uninstall_with_is_uninstall :
  forall fl, uninstall_with uninstall_deleted fl = uninstall fl.
Proof. exact uninstall_with_current. Qed.
Print Assumptions C02_uninstall_with_is_uninstall.

Example C02_uninstall_f6_repaired :
  let '(w', out) := run_prog_store "rel" "default" (uninstall no_flags) f6_world in
  out = OOk /\ w_objs w' = [].
Proof. exact uninstall_f6_repaired. Qed.
Print Assumptions C02_uninstall_f6_repaired.

(* the hypotheses of C02_uninstall_matches on a release with keep / "Keep " / delete / no
   annotation, a pre+post-delete hook and a bystander *)
Example C02_uninstall_hypotheses_met :
  f_dry_run no_flags = false /\ max_rev_of (w_led un_world) = Some un_last /\ st un_last <> SUninstalled /\
  NoDup (map rkey (manifest un_last)) /\
  (forall h, In h (hooks un_last) -> in_keys (rkey (h_res h)) (manifest un_last) = false) /\
  let '(w', out, _) := run_store_op "rel" "default" (mkOp (OpUninstall no_flags) (mkSF None None) (mkCF None None false)) un_world in
  out = OOk /\ map fst (w_objs w') = ["ConfigMap/a"; "ConfigMap/b"; "ConfigMap/z"]%string /\
  model_kept un_world = ["[ConfigMap] a"; "[ConfigMap] b"]%string.
Proof. exact uninstall_example. Qed.
Print Assumptions C02_uninstall_hypotheses_met.

(* ---- (B) lifted to the operations of Engine/Ops.v run by the interpreter ----
   [not_hook fl hks key]: hooks are disabled, or no hook object has this key.
   The world [w] before the operation is ARBITRARY (any ledger, any cluster content): this
   covers every history of operations, failed or not, interleaved with out-of-band edits and
   deletions (made explicit in C02_op_success_matches below).  Hooks may run (and succeed):
   the statements speak about the objects that are not hook objects. *)

Theorem C02_install_success_matches :
  forall (rn ns : string) (fl : flags) (cid vid : nat) (mani : list res) (hks : list hook)
         (hf : option (string * nat)) (wf : bool) (w w' : world) (tr : list tev),
    f_dry_run fl = false ->
    NoDup (map rkey mani) ->
    (forall r, In r mani -> NoDup (akeys (r_fields r))) ->
    (forall r, In r mani -> not_hook fl hks (rkey r)) ->
    run_store_op rn ns (mkOp (OpInstall fl cid vid mani hks) (mkSF None None) (mkCF None hf wf)) w = (w', OOk, tr) ->
    (forall r, In r mani ->
       exists live', aget (rkey r) (w_objs w') = Some live' /\
                     fields_sub (r_fields (stamp rn ns r)) live' = true) /\
    (forall key, in_keys key mani = false -> not_hook fl hks key ->
       aget key (w_objs w') = aget key (w_objs w)).
Proof. exact install_matches. Qed.
Print Assumptions C02_install_success_matches.

(* [upgrade_current]: the revision upgrade.go diffs against (MatchDefs.v) *)
Theorem C02_upgrade_success_matches :
  forall (rn ns : string) (fl : flags) (cid vid : nat) (mani : list res) (hks : list hook)
         (hf : option (string * nat)) (wf : bool) (w w' : world) (tr : list tev),
    f_dry_run fl = false ->
    NoDup (map rkey mani) ->
    (forall r, In r mani -> NoDup (akeys (r_fields r))) ->
    (forall r, In r mani -> not_hook fl hks (rkey r)) ->
    run_store_op rn ns (mkOp (OpUpgrade fl cid vid mani hks) (mkSF None None) (mkCF None hf wf)) w = (w', OOk, tr) ->
    exists current : release,
      upgrade_current (w_led w) = Some current /\
      (forall r, In r mani ->
         exists live', aget (rkey r) (w_objs w') = Some live' /\
                       fields_sub (r_fields (stamp rn ns r)) live' = true) /\
      (forall o, In o (manifest current) -> in_keys (rkey o) mani = false -> not_hook fl hks (rkey o) ->
         match aget (rkey o) (w_objs w) with
         | Some live => if live_keep live then aget (rkey o) (w_objs w') = Some live
                        else aget (rkey o) (w_objs w') = None
         | None => aget (rkey o) (w_objs w') = None
         end) /\
      (forall key, in_keys key (manifest current) = false -> in_keys key mani = false -> not_hook fl hks key ->
         aget key (w_objs w') = aget key (w_objs w)).
Proof. exact upgrade_matches. Qed.
Print Assumptions C02_upgrade_success_matches.

(* [rollback_target]: (latest revision, revision rolled back to) as rollback.go picks them *)
Theorem C02_rollback_success_matches :
  forall (rn ns : string) (fl : flags) (hf : option (string * nat)) (wf : bool) (w w' : world) (tr : list tev),
    f_dry_run fl = false ->
    run_store_op rn ns (mkOp (OpRollback fl) (mkSF None None) (mkCF None hf wf)) w = (w', OOk, tr) ->
    exists cur pr : release,
      rollback_target fl (w_led w) = Some (cur, pr) /\
      (NoDup (map rkey (manifest pr)) ->
       (forall r, In r (manifest pr) -> NoDup (akeys (r_fields r))) ->
       (forall r, In r (manifest pr) -> not_hook fl (hooks pr) (rkey r)) ->
       (forall r, In r (manifest pr) ->
          exists live', aget (rkey r) (w_objs w') = Some live' /\
                        fields_sub (r_fields (stamp rn ns r)) live' = true) /\
       (forall o, In o (manifest cur) -> in_keys (rkey o) (manifest pr) = false -> not_hook fl (hooks pr) (rkey o) ->
          match aget (rkey o) (w_objs w) with
          | Some live => if live_keep live then aget (rkey o) (w_objs w') = Some live
                         else aget (rkey o) (w_objs w') = None
          | None => aget (rkey o) (w_objs w') = None
          end) /\
       (forall key, in_keys key (manifest cur) = false -> in_keys key (manifest pr) = false ->
          not_hook fl (hooks pr) key -> aget key (w_objs w') = aget key (w_objs w))).
Proof. exact rollback_matches. Qed.
Print Assumptions C02_rollback_success_matches.

(* ... for all histories: whatever steps [h] (operations with or without faults, out-of-band
   [HEdit] steps) lead from ANY initial world [w0] to the world the operation starts in
   ([world_after] = the last world of [run_history], lemma below), a fault-free install or
   upgrade of a well-formed chart that returns OOk leaves the cluster as stated above
   (rollback: C02_rollback_success_matches, uninstall: C02_uninstall_matches, likewise for every world) *)
Theorem C02_op_success_matches :
  forall (rn ns : string) (h : list hstep) (w0 : world) (c : opcase) (w' : world) (tr : list tev),
    oc_sf c = mkSF None None /\ cf_k (oc_cf c) = None ->
    run_store_op rn ns c (world_after rn ns h w0) = (w', OOk, tr) ->
    let w := world_after rn ns h w0 in
    match oc_op c with
    | OpInstall fl _ _ mani hks =>
        (f_dry_run fl = false /\ NoDup (map rkey mani) /\
         (forall r, In r mani -> NoDup (akeys (r_fields r))) /\
         (forall r, In r mani -> not_hook fl hks (rkey r))) ->
        (forall r, In r mani ->
           exists live', aget (rkey r) (w_objs w') = Some live' /\ fields_sub (r_fields (stamp rn ns r)) live' = true) /\
        (forall key, in_keys key mani = false -> not_hook fl hks key -> aget key (w_objs w') = aget key (w_objs w))
    | OpUpgrade fl _ _ mani hks =>
        (f_dry_run fl = false /\ NoDup (map rkey mani) /\
         (forall r, In r mani -> NoDup (akeys (r_fields r))) /\
         (forall r, In r mani -> not_hook fl hks (rkey r))) ->
        exists current, upgrade_current (w_led w) = Some current /\
        (forall r, In r mani ->
           exists live', aget (rkey r) (w_objs w') = Some live' /\ fields_sub (r_fields (stamp rn ns r)) live' = true) /\
        (forall o, In o (manifest current) -> in_keys (rkey o) mani = false -> not_hook fl hks (rkey o) ->
           match aget (rkey o) (w_objs w) with
           | Some live => if live_keep live then aget (rkey o) (w_objs w') = Some live
                          else aget (rkey o) (w_objs w') = None
           | None => aget (rkey o) (w_objs w') = None
           end) /\
        (forall key, in_keys key (manifest current) = false -> in_keys key mani = false -> not_hook fl hks key ->
           aget key (w_objs w') = aget key (w_objs w))
    | OpRollback fl =>
        f_dry_run fl = false ->
        exists cur pr, rollback_target fl (w_led w) = Some (cur, pr) /\
        (NoDup (map rkey (manifest pr)) ->
         (forall r, In r (manifest pr) -> NoDup (akeys (r_fields r))) ->
         (forall r, In r (manifest pr) -> not_hook fl (hooks pr) (rkey r)) ->
         (forall r, In r (manifest pr) ->
            exists live', aget (rkey r) (w_objs w') = Some live' /\ fields_sub (r_fields (stamp rn ns r)) live' = true) /\
         (forall o, In o (manifest cur) -> in_keys (rkey o) (manifest pr) = false -> not_hook fl (hooks pr) (rkey o) ->
            match aget (rkey o) (w_objs w) with
            | Some live => if live_keep live then aget (rkey o) (w_objs w') = Some live
                           else aget (rkey o) (w_objs w') = None
            | None => aget (rkey o) (w_objs w') = None
            end) /\
         (forall key, in_keys key (manifest cur) = false -> in_keys key (manifest pr) = false ->
            not_hook fl (hooks pr) key -> aget key (w_objs w') = aget key (w_objs w)))
    | OpUninstall _ => True
    end.
Proof. exact op_success_matches_after. Qed.
Print Assumptions C02_op_success_matches.

Theorem C02_world_after_is_run_history :
  forall rn ns h w,
    world_after rn ns h w = last (map (fun x => fst (fst x)) (run_history rn ns h w)) w.
Proof. exact world_after_run_history. Qed.
Print Assumptions C02_world_after_is_run_history.

(* non-vacuity: install {a,b}; out-of-band edit of a (specified field changed, foreign field
   added); a bystander appears; upgrade to {a'} with a pre-upgrade hook: a is corrected and keeps
   the foreign field, b is deleted, the bystander stays *)
Example C02_success_hypotheses_met :
  fault_free ex_install /\ well_formed_chart no_flags ex_mani1 [] /\
  fault_free ex_upgrade /\ well_formed_chart no_flags ex_mani2 [ex_hook] /\
  snd (fst (run_store_op "rel" "default" ex_install (mkW [] []))) = OOk /\
  let w := world_after "rel" "default" ex_history (mkW [] []) in
  let '(w', out, _) := run_store_op "rel" "default" ex_upgrade w in
  out = OOk /\
  w_objs w' =
    [("ConfigMap/a", [("d:k", "v2"); ("d:foreign", "f"); (managed_by_key, "Helm"); (rel_name_key, "rel"); (rel_ns_key, "default")]);
     ("ConfigMap/z", [("d:k", "bystander")]);
     ("ConfigMap/hk", [("d:h", "0")])]%string.
Proof. exact success_example. Qed.
Print Assumptions C02_success_hypotheses_met.

(* Known finding K1-C02 (consequence of K1 of C01, reproduced on the real code, witness in the
   harness corpus): install --replace while a revision is still deployed succeeds and leaves a
   resource of the deployed revision that the new manifest does not name — there is no
   "removed resources are gone" clause for install, and this is why. *)
Theorem C02_install_replace_over_deployed_leaks_refuted :
  exists (w : world) (c : opcase) (d : release) (r : res),
    fault_free c /\ In d (w_led w) /\ st d = SDeployed /\ In r (manifest d) /\
    let '(w', out, _) := run_store_op "rel" "default" c w in
    out = OOk /\
    (exists fl cid vid mani hks, oc_op c = OpInstall fl cid vid mani hks /\ in_keys (rkey r) mani = false) /\
    (exists live, aget (rkey r) (w_objs w) = Some live /\ live_keep live = false) /\
    aget (rkey r) (w_objs w') <> None.
Proof. exact install_replace_over_deployed_leaks. Qed.
Print Assumptions C02_install_replace_over_deployed_leaks_refuted.

(* Known finding K6-C02 (same root cause as K6 of C03; reproduced on the real code without any
   injected fault, witness in the harness corpus): rollback diffs the target against the LATEST
   revision even when that one failed and was never applied, not against the deployed one; a
   resource that only the deployed revision has survives a successful rollback to an older
   revision.  C02_rollback_success_matches is accordingly stated for [cur] = the latest revision. *)
Theorem C02_rollback_over_failed_revision_leaks_refuted :
  exists (w : world) (c : opcase) (d : release) (r : res),
    fault_free c /\ In d (w_led w) /\ st d = SDeployed /\ In r (manifest d) /\
    let '(w', out, _) := run_store_op "rel" "default" c w in
    out = OOk /\
    (exists fl cur pr, oc_op c = OpRollback fl /\ rollback_target fl (w_led w) = Some (cur, pr) /\
                       st cur = SFailed /\ in_keys (rkey r) (manifest pr) = false) /\
    (exists live, aget (rkey r) (w_objs w) = Some live /\ live_keep live = false) /\
    aget (rkey r) (w_objs w') <> None.
Proof. exact rollback_over_failed_revision_leaks. Qed.
Print Assumptions C02_rollback_over_failed_revision_leaks_refuted.

(* ================================================================================================ *)
(* Round 4 — whole objects: nested maps, scalars, atomic lists and KEYED lists (containers by name,
   ports by containerPort, env by name), custom kinds patched as JSON, --force.
   Engine/Obj2.v: [tree], the four ways kube.Client.updateResource/createPatch update one live object
   ([merge_by]: strategic three-way [s3], two-way JSON merge patch [j2], three-way JSON merge patch
   [j3], replace); Engine/Update2.v: Client.update over a store of trees ([k2_update]).
   [tget p x]: the value at path p (map member names and keyed-list element keys). *)

(* Strategic three-way merge (built-in kinds), for ALL original / target / live: every path the target
   manifest specifies holds the target's value in the result — scalars and atomic lists as they are, maps
   and keyed lists as maps and keyed lists — also inside keyed-list elements, whatever the live object held. *)
Theorem C02_obj_strategic_specified :
  forall (p : list string) (o : option tree) (t : tree) (l : option tree) (v : tree),
    tget p t = Some v ->
    match v with
    | TS _ | TA _ => tget p (s3 o t l) = Some v
    | TM _ => exists m, tget p (s3 o t l) = Some (TM m)
    | TK _ => exists m, tget p (s3 o t l) = Some (TK m)
    end.
Proof. exact s3_specified. Qed.
Print Assumptions C02_obj_strategic_specified.

(* one level of the result, entry by entry.  Maps: *)
Theorem C02_obj_strategic_map_level :
  forall (o : option tree) (tm lm : list (string * tree)),
    exists rm, s3 o (TM tm) (Some (TM lm)) = TM rm /\
      forall k, aget k rm =
        match aget k tm with
        | Some tv => Some (s3 (aget k (kidsM o)) tv (aget k lm))        (* specified: merged below *)
        | None => if amem k (kidsM o) then None                          (* dropped by the target: removed *)
                  else aget k lm                                         (* foreign: kept *)
        end.
Proof. exact s3_map_level. Qed.
Print Assumptions C02_obj_strategic_map_level.

(* ... keyed lists, element by element (the merge key in the role of the member name).  An element the
   live list lacks is appended as the patch holds it, ghosts included ([ghost], Engine/Obj2.v) *)
Theorem C02_obj_strategic_klist_level :
  forall (o : option tree) (tk lk : list (string * tree)),
    exists rk, s3 o (TK tk) (Some (TK lk)) = TK rk /\
      forall k, aget k rk =
        match aget k tk with
        | Some tv => Some (match aget k lk with
                           | Some lv => s3 (aget k (kidsK o)) tv (Some lv)
                           | None => ghost (aget k (kidsK o)) tv
                           end)
        | None => if amem k (kidsK o) then None else aget k lk
        end.
Proof. exact s3_klist_level. Qed.
Print Assumptions C02_obj_strategic_klist_level.

(* foreign entries / elements (only in live) are kept, with everything below them, wherever target and live
   are containers of the same kind down to the place ([merges q t l]) *)
Theorem C02_obj_strategic_foreign_kept :
  forall (q : list string) (o : option tree) (t l : tree) (k : string) (r : list string),
    merges q t l ->
    tget (q ++ [k]) t = None ->
    otget (q ++ [k]) o = None ->
    tget (q ++ k :: r) (s3 o t (Some l)) = tget (q ++ k :: r) l.
Proof. exact s3_foreign. Qed.
Print Assumptions C02_obj_strategic_foreign_kept.

(* entries / elements the target dropped (in original, not in target) are removed, wherever all three are
   containers of the same kind down to the place *)
Theorem C02_obj_strategic_dropped_removed :
  forall (q : list string) (o t l : tree) (k : string) (r : list string),
    merges3 q o t l ->
    tget (q ++ [k]) t = None ->
    tget (q ++ [k]) o <> None ->
    tget (q ++ k :: r) (s3 (Some o) t (Some l)) = None.
Proof. exact s3_dropped. Qed.
Print Assumptions C02_obj_strategic_dropped_removed.

(* keyed-list order: the elements the target names stand in the target's order; the live-only elements the
   original does not name follow in live order.  (The real library interleaves the two groups; the
   correspondence run compares each of the two subsequences with the real result.) *)
Theorem C02_obj_klist_order :
  forall (o : option tree) (tk lk : list (string * tree)),
    exists rk, s3 o (TK tk) (Some (TK lk)) = TK rk /\
      akeys rk = (akeys tk ++ filter (fun k => negb (amem k tk) && negb (amem k (kidsK o))) (akeys lk))%list /\
      filter (fun k => amem k tk) (akeys rk) = akeys tk /\
      filter (fun k => negb (amem k tk)) (akeys rk)
        = filter (fun k => negb (amem k tk) && negb (amem k (kidsK o))) (akeys lk).
Proof. exact s3_klist_order. Qed.
Print Assumptions C02_obj_klist_order.

(* --force: exactly the target object *)
Theorem C02_obj_force_exact :
  forall (o t l : tree), merge_by UForce o t l = t.
Proof. exact force_is_target. Qed.
Print Assumptions C02_obj_force_exact.

(* Custom kinds through Client.Update (upgrade, rollback): the TWO-way JSON merge patch
   CreateMergePatch(old manifest, new manifest) applied to the live object.  [mget]: member paths
   (through maps; a list is a value).  A value that is not a map, specified by the target at p, is in the
   result PROVIDED the target changed it with respect to the original, or the live object already held it. *)
Theorem C02_obj_json2_specified :
  forall (p : list string) (om tm lm : list (string * tree)) (v : tree),
    wf_tree (TM om) = true -> wf_tree (TM tm) = true ->
    mget p (TM tm) = Some v -> nonmap v = true ->
    (same_at p (TM om) v = false \/ mget p (TM lm) = Some v) ->
    mget p (j2 (TM om) (TM tm) (TM lm)) = Some v.
Proof. exact j2_specified. Qed.
Print Assumptions C02_obj_json2_specified.

(* ... and the proviso is needed: known finding K8-C02.  Both manifests give p the value v, the live object
   lost it, the successful update does not bring it back.  Witness replayed on the real code (corpus). *)
Theorem C02_obj_json2_unchanged_drift_refuted :
  exists (om tm lm : list (string * tree)) (p : list string) (v : tree),
    wf_tree (TM om) = true /\ wf_tree (TM tm) = true /\ wf_tree (TM lm) = true /\
    mget p (TM tm) = Some v /\ nonmap v = true /\
    same_at p (TM om) v = true /\
    mget p (TM lm) <> Some v /\
    mget p (j2 (TM om) (TM tm) (TM lm)) <> Some v.
Proof. exact j2_unchanged_drift_refuted. Qed.
Print Assumptions C02_obj_json2_unchanged_drift_refuted.

(* Custom kinds through Client.UpdateThreeWayMerge (install --take-ownership): the THREE-way JSON merge patch
   MergePatch(keepNulls(diff(old, new)), dropNulls(diff(live, new))) applied to the live object.  No proviso:
   every member path of the target whose value is not a map holds the target's value in the result, or a value
   DeepEqual to it that the live object already held — whatever the live object and the original say. *)
Theorem C02_obj_json3_specified :
  forall (p : list string) (om tm lm : list (string * tree)) (v : tree),
    wf_tree (TM om) = true -> wf_tree (TM tm) = true -> wf_tree (TM lm) = true ->
    mget p (TM tm) = Some v -> nonmap v = true ->
    exists v', mget p (j3 (TM om) (TM tm) (TM lm)) = Some v' /\ (v' = v \/ teqv v' v = true).
Proof. exact j3_specified. Qed.
Print Assumptions C02_obj_json3_specified.

(* Known finding K9-C02 (found by the thorough tier; witness replayed on the real actions, corpus): an existing
   custom resource owned by the release and named by no manifest of the deployed revision (kept by its keep policy when
   an earlier revision dropped it, then named again) is adopted by handing kube.Client.Update the TARGET entry as its
   own original; the two-way patch of (target, target) is empty and the successful upgrade applies nothing of the new
   manifest entry. *)
Theorem C02_obj_json2_adopted_noop_refuted :
  exists (tm lm : list (string * tree)) (p : list string) (v : tree),
    wf_tree (TM tm) = true /\ wf_tree (TM lm) = true /\
    mget p (TM tm) = Some v /\ nonmap v = true /\
    mget p (TM lm) <> Some v /\
    j2 (TM tm) (TM tm) (TM lm) = TM lm /\
    mget p (j2 (TM tm) (TM tm) (TM lm)) <> Some v.
Proof. exact j2_adopted_noop_refuted. Qed.
Print Assumptions C02_obj_json2_adopted_noop_refuted.

(* one level of the result of the two-way patch, member by member ([entry]: what the patch says about a
   member of the target: nothing when both manifests agree) *)
Theorem C02_obj_json2_level :
  forall (a b lm : list (string * tree)) (k : string),
    NoDup (akeys a) -> NoDup (akeys b) ->
    aget k (japply_level (jdiff a b) lm) =
      match aget k b with
      | Some bv => match entry a k bv with
                   | Some pv => japply (aget k lm) pv
                   | None => aget k lm
                   end
      | None => if amem k a then None else aget k lm
      end.
Proof. exact j2_level_get. Qed.
Print Assumptions C02_obj_json2_level.

Theorem C02_obj_json2_foreign_kept :
  forall (q : list string) (om tm lm : list (string * tree)) (k : string) (r : list string),
    wf_tree (TM om) = true -> wf_tree (TM tm) = true ->
    maps3 q (TM om) (TM tm) (TM lm) ->
    mget (q ++ [k]) (TM tm) = None -> mget (q ++ [k]) (TM om) = None ->
    mget (q ++ k :: r) (j2 (TM om) (TM tm) (TM lm)) = mget (q ++ k :: r) (TM lm).
Proof. exact j2_foreign. Qed.
Print Assumptions C02_obj_json2_foreign_kept.

Theorem C02_obj_json2_dropped_removed :
  forall (q : list string) (om tm lm : list (string * tree)) (k : string) (r : list string),
    wf_tree (TM om) = true -> wf_tree (TM tm) = true ->
    maps3 q (TM om) (TM tm) (TM lm) ->
    mget (q ++ [k]) (TM tm) = None -> mget (q ++ [k]) (TM om) <> None ->
    mget (q ++ k :: r) (j2 (TM om) (TM tm) (TM lm)) = None.
Proof. exact j2_dropped. Qed.
Print Assumptions C02_obj_json2_dropped_removed.

(* ---- kube.Client.update over a store of whole objects, an API server that accepts every request ----
   A resource is identified by (namespace, API group, kind, name) — [r2_key]; the version part of its
   apiVersion ([r2_ver]) is not part of the identity.  For every original manifest, every target manifest with
   distinct identities and EVERY content of the store: *)
Theorem C02_obj_update_matches :
  forall (force tw : bool) (o : store2) (cur tgt : list res2) (o' : store2) (created : list string)
         (muts : list (verb * string)),
    NoDup (map r2_key tgt) ->
    k2_update force tw o cur tgt = (o', (true, created), muts) ->
    (* (i) every target exists: created as posted, or the merge of (its old manifest entry, itself, live) in
           the way its kind and the flags select *)
    (forall t, In t tgt ->
       match aget (r2_key t) o with
       | None => aget (r2_key t) o' = Some (r2_obj t)
       | Some live =>
           exists old, find_res2 (r2_key t) cur = Some old /\
                       aget (r2_key t) o' = Some (merge_by (mode_of force tw t) (r2_obj old) (r2_obj t) live)
       end) /\
    (* (ii) resources dropped by the new manifest are gone, unless the LIVE object carries the keep policy *)
    (forall x, In x cur -> in_keys2 (r2_key x) tgt = false ->
       match aget (r2_key x) o with
       | Some live => if live_keep2 live then aget (r2_key x) o' = Some live
                      else aget (r2_key x) o' = None
       | None => aget (r2_key x) o' = None
       end) /\
    (* (iii) nothing else changes *)
    (forall key, in_keys2 key cur = false -> in_keys2 key tgt = false -> aget key o' = aget key o).
Proof. exact update2_matches. Qed.
Print Assumptions C02_obj_update_matches.

(* ... end to end for built-in kinds and --force: every path a target entry specifies holds its value *)
Theorem C02_obj_update_specified :
  forall (force tw : bool) (o : store2) (cur tgt : list res2) (o' : store2) (created : list string)
         (muts : list (verb * string)),
    NoDup (map r2_key tgt) ->
    k2_update force tw o cur tgt = (o', (true, created), muts) ->
    forall t, In t tgt -> (force = true \/ r2_unstr t = false) ->
    forall p v, tget p (r2_obj t) = Some v ->
    exists live', aget (r2_key t) o' = Some live' /\
      match v with
      | TS _ | TA _ => tget p live' = Some v
      | TM _ => exists m, tget p live' = Some (TM m)
      | TK _ => exists m, tget p live' = Some (TK m)
      end.
Proof. exact update2_specified. Qed.
Print Assumptions C02_obj_update_specified.

(* ... and for custom kinds through Client.Update, with the proviso of C02_obj_json2_specified *)
Theorem C02_obj_update_specified_json2 :
  forall (o : store2) (cur tgt : list res2) (o' : store2) (created : list string) (muts : list (verb * string)),
    NoDup (map r2_key tgt) ->
    k2_update false false o cur tgt = (o', (true, created), muts) ->
    forall t tm, In t tgt -> r2_unstr t = true -> r2_obj t = TM tm -> wf_tree (TM tm) = true ->
    forall p v, mget p (TM tm) = Some v -> nonmap v = true ->
    (forall live old, aget (r2_key t) o = Some live -> find_res2 (r2_key t) cur = Some old ->
       exists lm om, live = TM lm /\ r2_obj old = TM om /\ wf_tree (TM om) = true /\
                     (same_at p (TM om) v = false \/ mget p (TM lm) = Some v)) ->
    exists live', aget (r2_key t) o' = Some live' /\ mget p live' = Some v.
Proof. exact update2_specified_json2. Qed.
Print Assumptions C02_obj_update_specified_json2.

(* ... and for custom kinds through Client.UpdateThreeWayMerge, without proviso *)
Theorem C02_obj_update_specified_json3 :
  forall (o : store2) (cur tgt : list res2) (o' : store2) (created : list string) (muts : list (verb * string)),
    NoDup (map r2_key tgt) ->
    k2_update false true o cur tgt = (o', (true, created), muts) ->
    forall t tm, In t tgt -> r2_unstr t = true -> r2_obj t = TM tm -> wf_tree (TM tm) = true ->
    forall p v, mget p (TM tm) = Some v -> nonmap v = true ->
    (forall live old, aget (r2_key t) o = Some live -> find_res2 (r2_key t) cur = Some old ->
       exists lm om, live = TM lm /\ r2_obj old = TM om /\ wf_tree (TM om) = true /\ wf_tree (TM lm) = true) ->
    exists live' v', aget (r2_key t) o' = Some live' /\ mget p live' = Some v' /\ (v' = v \/ teqv v' v = true).
Proof. exact update2_specified_json3. Qed.
Print Assumptions C02_obj_update_specified_json3.

Theorem C02_obj_update_fails_iff_unknown_live_target :
  forall (force tw : bool) (o : store2) (cur tgt : list res2),
    NoDup (map r2_key tgt) ->
    (fst (snd (fst (k2_update force tw o cur tgt))) = false <->
     exists t, In t tgt /\ aget (r2_key t) o <> None /\ find_res2 (r2_key t) cur = None).
Proof. exact update2_fails_iff. Qed.
Print Assumptions C02_obj_update_fails_iff_unknown_live_target.

(* the version is not part of the identity: the same two manifests with every entry at ANY version of its
   API group ([same_but_ver a b]: b is a with another r2_ver) give the same store, the same result, the
   same created keys, the same mutations — in particular an entry that moves from apps/v1beta2 to apps/v1 is
   patched from its old entry and is not deleted as "removed from the manifest" (seeded C02-7) *)
Theorem C02_obj_update_ignores_version :
  forall (force tw : bool) (o : store2) (cur cur' tgt tgt' : list res2),
    Forall2 (fun a b => b = with_ver (r2_ver b) a) cur cur' ->
    Forall2 (fun a b => b = with_ver (r2_ver b) a) tgt tgt' ->
    k2_update force tw o cur' tgt' = k2_update force tw o cur tgt.
Proof. exact update2_ignores_version. Qed.
Print Assumptions C02_obj_update_ignores_version.

(* ---- non-vacuity and a record of what the merges do (same triples in the harness corpus) ---- *)
Example C02_obj_strategic_drift_corrected :
  s3 (Some ex_o) ex_t (Some ex_l) =
  dep [("web", TM [("args", TA [js "-v"; js "--debug"]);
                   ("env", TK [("C", envv "3"); ("A", envv "1"); ("X", envv "foreign")]);
                   ("image", js "nginx:1.25")]);
       ("istio", TM [("image", js "proxy:1")])]%string "2"%string [("foreign", js "f")]%string.
Proof. exact strategic_drift_corrected. Qed.
Print Assumptions C02_obj_strategic_drift_corrected.

Example C02_obj_strategic_hypotheses_met :
  (* p_env: spec.template.spec.containers[web].env; p_envA: ...env[A].value *)
  tget p_envA ex_t = Some (js "1") /\
  tget p_envA ex_l = Some (js "EDITED") /\
  merges p_env ex_t ex_l /\ merges3 p_env ex_o ex_t ex_l /\
  tget (p_env ++ ["X"%string]) ex_t = None /\ tget (p_env ++ ["X"%string]) ex_o = None /\
  tget (p_env ++ ["X"%string]) ex_l <> None /\
  tget (p_env ++ ["B"%string]) ex_t = None /\ tget (p_env ++ ["B"%string]) ex_o <> None /\
  tget (p_env ++ ["B"%string]) ex_l <> None.
Proof. exact strategic_hypotheses_met. Qed.
Print Assumptions C02_obj_strategic_hypotheses_met.

(* the library's ghost: container web deleted out of band comes back with a bare element for the env var B that
   the new manifest dropped *)
Example C02_obj_strategic_ghost_element :
  tget p_env (s3 (Some ex_o) ex_t (Some ex_l_noweb))
  = Some (TK [("C", envv "3"); ("A", envv "1"); ("B", TM [])]%string).
Proof. exact strategic_ghost_element. Qed.
Print Assumptions C02_obj_strategic_ghost_element.

(* whole-map removal, formerly outside the model: the foreign entry goes with the map *)
Example C02_obj_strategic_whole_map_removed :
  s3 (Some (TM [("data", TM [("k", js "v1")]); ("metadata", TM [])]%string))
     (TM [("metadata", TM [])]%string)
     (Some (TM [("data", TM [("k", js "v1"); ("foreign", js "f")]); ("metadata", TM [])]%string))
  = TM [("metadata", TM [])]%string.
Proof. exact strategic_whole_map_removed. Qed.
Print Assumptions C02_obj_strategic_whole_map_removed.

Example C02_obj_json2_result :
  j2 w_o w_t w_l = wid "2" "DRIFT" [("cpu", js "DRIFT"); ("foreign", js "f")]%string [js "web"; js "DRIFT"].
Proof. exact json2_result. Qed.
Print Assumptions C02_obj_json2_result.

(* the three-way JSON patch of UpdateThreeWayMerge (install --take-ownership) corrects the same drift *)
Example C02_obj_json3_result :
  teqv (j3 w_o w_t w_l) (wid "2" "web" [("cpu", js "v1"); ("foreign", js "f"); ("memory", js "v1")]%string [js "web"]) = true.
Proof. exact json3_result. Qed.
Print Assumptions C02_obj_json3_result.

Example C02_obj_json3_hypotheses_met :
  wf_tree w_o = true /\ wf_tree w_t = true /\ wf_tree w_l = true /\
  mget ["spec"; "color"]%string w_t = Some (js "web") /\ nonmap (js "web") = true /\
  mget ["spec"; "color"]%string w_l = Some (js "DRIFT") /\
  mget ["spec"; "color"]%string (j3 w_o w_t w_l) = Some (js "web").
Proof. exact json3_hypotheses_met. Qed.
Print Assumptions C02_obj_json3_hypotheses_met.

Example C02_obj_json2_hypotheses_met :
  wf_tree w_o = true /\ wf_tree w_t = true /\
  mget ["spec"; "size"]%string w_t = Some (TS "2") /\ nonmap (TS "2") = true /\
  same_at ["spec"; "size"]%string w_o (TS "2") = false /\
  maps3 ["spec"; "limits"]%string w_o w_t w_l /\
  mget (["spec"; "limits"] ++ ["foreign"])%list%string w_t = None /\ mget (["spec"; "limits"] ++ ["foreign"])%list%string w_o = None /\
  mget (["spec"; "limits"] ++ ["foreign"])%list%string w_l <> None.
Proof. exact json2_hypotheses_met. Qed.
Print Assumptions C02_obj_json2_hypotheses_met.

Example C02_obj_update_example :
  let '(o', r, muts) := k2_update false false ex_store
                          [r_dep "v1beta2" ex_o; r_wid "w1" w_o; r_wid "w2" w_o]
                          [r_dep "v1" ex_t; r_wid "w1" w_t; r_wid "w3" w_t] in
  r = (true, [r2_key (r_wid "w3" w_t)]) /\
  map fst o' = [r2_key (r_dep "v1" ex_o); r2_key (r_wid "w1" w_o); r2_key (r_wid "w2" w_o);
                "default//ConfigMap/bystander"%string; r2_key (r_wid "w3" w_t)] /\
  aget (r2_key (r_wid "w2" w_o)) o' = Some keepw /\
  aget (r2_key (r_wid "w3" w_t)) o' = Some w_t /\
  NoDup (map r2_key [r_dep "v1" ex_t; r_wid "w1" w_t; r_wid "w3" w_t]).
Proof. exact update2_example. Qed.
Print Assumptions C02_obj_update_example.

(* ---- translator: the decision structure of updateResource / createPatch, read from pkg/kube/client.go on
   every run (Gen/C02Patch.v) and interpreted by Engine/PatchTable.v.  For every entry point (Update /
   UpdateThreeWayMerge), --force or not, built-in or unstructured target: the source text selects the library
   call, with the old manifest entry / new manifest entry / live object in the argument positions, that the
   model's [mode_of] and [merge_by] stand for. *)
Theorem C02_patch_table_agrees_with_model :
  forall (three_way_entry force unstr : bool),
    match table_way three_way_entry force unstr with
    | Some w => way_eqb w (model_way (mode_of force three_way_entry (mkRes2 "" "" "" "" "" unstr (TM [])))) = true
    | None => False
    end.
Proof. exact patch_table_agrees. Qed.
Print Assumptions C02_patch_table_agrees_with_model.

(* ---- round 5: --recreate-pods (action.recreate after the update of an upgrade / rollback) over the object store.
   [k2_recreate o updated]: for every updated resource whose stored object has a pod selector
   (kube.SelectorsForObject: a Deployment by spec.selector, a Service by a NON-EMPTY spec.selector) the pods of ITS
   namespace carrying the selector's labels are deleted.  For every store with distinct keys: whatever differs
   afterwards is a pod, of the namespace of an updated resource, selected by that resource's own selector, and it is
   gone; everything else is as it was. *)
Theorem C02_recreate_touches_only_selected_pods :
  forall (o : store2) (rs : list res2) (key : string),
    NoDup (akeys o) ->
    aget key (fst (k2_recreate o rs)) <> aget key o ->
    aget key (fst (k2_recreate o rs)) = None /\
    exists r obj sel pod,
      In r rs /\ aget (r2_key r) o = Some obj /\ selector_of r obj = Some sel /\
      aget key o = Some pod /\ pod_key_in (r2_ns r) key = true /\ sel_match sel (labels_of pod) = true.
Proof. exact recreate_touches_only_selected_pods. Qed.
Print Assumptions C02_recreate_touches_only_selected_pods.

(* a Service without pod selector (ExternalName, manually managed Endpoints) selects nothing (seeded C02-10) *)
Theorem C02_recreate_service_without_selector_selects_nothing :
  forall (r : res2) (obj : tree),
    r2_kind r = "Service"%string -> r2_group r = ""%string ->
    (tget ["spec"; "selector"]%string obj = None \/ tget ["spec"; "selector"]%string obj = Some (TM [])) ->
    selector_of r obj = None.
Proof. exact service_without_selector_selects_nothing. Qed.
Print Assumptions C02_recreate_service_without_selector_selects_nothing.

Example C02_recreate_example :
  NoDup (akeys rc_store) /\
  map fst (fst (k2_recreate rc_store [r_dep "v1" dep_sel; r_svc "web" svc_sel; r_svc "ext" svc_nosel])) =
    ["default/apps/Deployment/web"; "default//Service/web"; "default//Service/ext";
     "default//Pod/stranger"; "default//Pod/bare"; "other//Pod/web-elsewhere"]%string /\
  selector_of (r_svc "ext" svc_nosel) svc_nosel = None.
Proof. exact recreate_example. Qed.
Print Assumptions C02_recreate_example.

(* C02 — after a successful operation the cluster matches the recorded manifest.
   Property theorems only: each closed by [exact] of a lemma proved in Engine/Match*.v. *)
From Coq Require Import List String Bool.
From Helm Require Import Common.Assoc Engine.Types Engine.Eff Engine.Ops Engine.Cluster Engine.Seq.
From Helm Require Import Engine.MatchDefs Engine.MatchUpdate Engine.MatchExamples Engine.MatchRun Engine.MatchOps Engine.MatchSuccess.
Import ListNotations.

(* kube.Client.update against an API server that rejects nothing ([kfault = None]), for every
   original manifest [cur], every target manifest [tgt] with distinct keys, and EVERY content
   of the object store (arbitrary out-of-band edits, deletions, foreign objects). *)
Theorem C02_update_matches :
  forall (k : kstate) (cur tgt : list res) (k' : kstate) (created : list res) (muts : list (verb * string)),
    kfault k = None ->
    NoDup (map rkey tgt) ->
    (forall t, In t tgt -> NoDup (akeys (r_fields t))) ->
    k_update k cur tgt = (k', (true, created), muts) ->
    (* (i) every target exists and carries every field the new manifest names, whatever the
           live object held; it was either created with exactly the posted fields or merged *)
    (forall t, In t tgt ->
       exists live', aget (rkey t) (objs k') = Some live' /\
         fields_sub (r_fields t) live' = true /\
         match aget (rkey t) (objs k) with
         | None => live' = r_fields t
         | Some live =>
             exists old, find_res (rkey t) cur = Some old /\
               (* fields named by neither manifest stay as they were *)
               (forall f, aget f (r_fields t) = None -> aget f (r_fields old) = None -> aget f live' = aget f live) /\
               (* fields named by the old manifest only are removed *)
               (forall f, aget f (r_fields t) = None -> aget f (r_fields old) <> None -> aget f live' = None)
         end) /\
    (* (ii) resources dropped by the new manifest are gone, unless the LIVE object carries
            the keep policy, in which case it is unchanged *)
    (forall o, In o cur -> in_keys (rkey o) tgt = false ->
       match aget (rkey o) (objs k) with
       | Some live => if live_keep live then aget (rkey o) (objs k') = Some live
                      else aget (rkey o) (objs k') = None
       | None => aget (rkey o) (objs k') = None
       end) /\
    (* (iii) nothing else changes *)
    (forall key, in_keys key cur = false -> in_keys key tgt = false ->
       aget key (objs k') = aget key (objs k)).
Proof. exact update_matches. Qed.
Print Assumptions C02_update_matches.

(* ... and it fails (without a rejected request) exactly when some target exists in the cluster
   but is not in the original manifest: "no <Kind> with the name <n> found" *)
Theorem C02_update_fails_iff_unknown_live_target :
  forall (k : kstate) (cur tgt : list res),
    kfault k = None ->
    NoDup (map rkey tgt) ->
    (fst (snd (fst (k_update k cur tgt))) = false <->
     exists t, In t tgt /\ aget (rkey t) (objs k) <> None /\ find_res (rkey t) cur = None).
Proof. exact update_fails_iff. Qed.
Print Assumptions C02_update_fails_iff_unknown_live_target.

(* the field-level reading of the merge used above, for all three inputs *)
Theorem C02_three_way_fieldwise :
  forall (old new live : fields) (f : string),
    NoDup (akeys new) ->
    aget f (three_way old new live) =
      match aget f new with
      | Some v => Some v
      | None => if amem f old then None else aget f live
      end.
Proof. exact three_way_get. Qed.
Print Assumptions C02_three_way_fieldwise.

Theorem C02_create_matches :
  forall (k : kstate) (rs : list res) (k' : kstate) (muts : list (verb * string)),
    kfault k = None ->
    NoDup (map rkey rs) ->
    k_create k rs true [] = (k', true, muts) ->
    (forall r, In r rs -> aget (rkey r) (objs k) = None /\ aget (rkey r) (objs k') = Some (r_fields r)) /\
    (forall key, in_keys key rs = false -> aget key (objs k') = aget key (objs k)).
Proof. exact create_matches. Qed.
Print Assumptions C02_create_matches.

Theorem C02_delete_matches :
  forall (k : kstate) (rs : list res) (k' : kstate) (ok : bool) (muts : list (verb * string)),
    kfault k = None ->
    k_delete k rs true [] = (k', ok, muts) ->
    ok = true /\
    (forall r, In r rs -> aget (rkey r) (objs k') = None) /\
    (forall key, in_keys key rs = false -> aget key (objs k') = aget key (objs k)).
Proof. exact delete_matches. Qed.
Print Assumptions C02_delete_matches.

(* ---- non-vacuity and a record of what the code does ---- *)

(* the drift case: an out-of-band edit of a specified field is overwritten, the foreign field
   stays, the field dropped by the new manifest goes, the bystander is untouched *)
Example C02_drift_corrected :
  let '(k', r, _) := k_update (k_of drift_live) drift_cur drift_tgt in
  fst r = true /\
  objs k' = [("ConfigMap/a", [("d:k", "v1"); ("d:foreign", "f"); ("d:y", "2")]); ("ConfigMap/z", [("d:k", "bystander")])]%string.
Proof. exact drift_corrected. Qed.
Print Assumptions C02_drift_corrected.

Example C02_update_hypotheses_met :
  kfault (k_of drift_live) = None /\ NoDup (map rkey drift_tgt) /\
  (forall t, In t drift_tgt -> NoDup (akeys (r_fields t))) /\
  fst (snd (fst (k_update (k_of drift_live) drift_cur drift_tgt))) = true.
Proof. exact drift_meets_hypotheses. Qed.
Print Assumptions C02_update_hypotheses_met.

(* keep toggles: the decision follows the LIVE object, not the manifest.  a (manifest: keep,
   live: annotation lost) is deleted; b (manifest silent, live: keep) stays *)
Example C02_keep_follows_live_object :
  let '(k', r, _) := k_update (k_of keep_live) keep_cur keep_tgt in
  fst r = true /\
  objs k' = [("ConfigMap/b", [("d:k", "v1"); (policy_key, "keep")]); ("ConfigMap/c", [("d:k", "v2")])]%string.
Proof. exact keep_follows_live_object. Qed.
Print Assumptions C02_keep_follows_live_object.

Example C02_unknown_live_target_fails :
  fst (snd (fst (k_update (k_of [("ConfigMap/a", [("d:k", "v1")]); ("ConfigMap/b", [("d:k", "v0")])]%string)
                          [cm "a" [("d:k", "v1")]]%string
                          [cm "a" [("d:k", "v2")]; cm "b" [("d:k", "v2")]]%string))) = false.
Proof. exact unknown_live_target_fails. Qed.
Print Assumptions C02_unknown_live_target_fails.

(* ---- uninstall ---- *)

(* A successful uninstall (hooks disabled, or hooks that succeed and whose objects are not
   manifest resources; no request fault, no storage fault, no crash) of a release whose latest
   revision [last] is not already uninstalled: every manifest resource whose policy annotation
   does not say keep (case-insensitive, trimmed) is absent; the others — exactly
   [filter manifest_keep (manifest last)], the list the response reports — are untouched; so is
   every object outside the manifest and the hooks.  For EVERY content of the cluster. *)
Theorem C02_uninstall_matches :
  forall (rn ns : string) (fl : flags) (hf : option (string * nat)) (wf : bool)
         (w w' : world) (tr : list tev) (last : release),
    f_dry_run fl = false ->
    max_rev_of (w_led w) = Some last -> st last <> SUninstalled ->
    NoDup (map rkey (manifest last)) ->
    (f_no_hooks fl = true \/
     forall h, In h (hooks last) -> in_keys (rkey (h_res h)) (manifest last) = false) ->
    run_store_op rn ns (mkOp (OpUninstall fl) (mkSF None None) (mkCF None hf wf)) w = (w', OOk, tr) ->
    (forall r, In r (manifest last) -> manifest_keep r = false -> aget (rkey r) (w_objs w') = None) /\
    (forall r, In r (filter manifest_keep (manifest last)) ->
       aget (rkey r) (w_objs w') = aget (rkey r) (w_objs w)) /\
    (forall key, in_keys key (manifest last) = false ->
       (f_no_hooks fl = true \/ forall h, In h (hooks last) -> rkey (h_res h) <> key) ->
       aget key (w_objs w') = aget key (w_objs w)).
Proof. exact uninstall_matches. Qed.
Print Assumptions C02_uninstall_matches.

(* F6, repaired in /repo by 18ab676.  With the filter as it was (an entry whose resource-policy
   annotation is present but not "keep" went on neither list) uninstall succeeds, purges the
   history, and the ConfigMap annotated "helm.sh/resource-policy: foo" is still there and is not
   among the kept ones.  [uninstall_with] is Ops.uninstall with the filter as a parameter
   ([uninstall_with uninstall_deleted fl = uninstall fl] by reflexivity, MatchOps.v). *)
Theorem C02_uninstall_leaks_refuted :
  exists (w : world) (last : release) (r : res),
    max_rev_of (w_led w) = Some last /\ In r (manifest last) /\ manifest_keep r = false /\
    let '(w', out) := run_prog_store "rel" "default" (uninstall_with prefix_deleted no_flags) w in
    out = OOk /\ w_led w' = [] /\ aget (rkey r) (w_objs w') <> None /\
    ~ In r (filter manifest_keep (manifest last)).
Proof. exact uninstall_leaks_refuted. Qed.
Print Assumptions C02_uninstall_leaks_refuted.

Theorem C02_uninstall_with_is_uninstall :
  forall fl, uninstall_with uninstall_deleted fl = uninstall fl.
Proof. exact uninstall_with_current. Qed.
Print Assumptions C02_uninstall_with_is_uninstall.

Example C02_uninstall_f6_repaired :
  let '(w', out) := run_prog_store "rel" "default" (uninstall no_flags) f6_world in
  out = OOk /\ w_objs w' = [].
Proof. exact uninstall_f6_repaired. Qed.
Print Assumptions C02_uninstall_f6_repaired.

(* the hypotheses of C02_uninstall_matches on a release with keep / "Keep " / delete / no
   annotation, a pre+post-delete hook and a bystander *)
Example C02_uninstall_hypotheses_met :
  f_dry_run no_flags = false /\ max_rev_of (w_led un_world) = Some un_last /\ st un_last <> SUninstalled /\
  NoDup (map rkey (manifest un_last)) /\
  (forall h, In h (hooks un_last) -> in_keys (rkey (h_res h)) (manifest un_last) = false) /\
  let '(w', out, _) := run_store_op "rel" "default" (mkOp (OpUninstall no_flags) (mkSF None None) (mkCF None None false)) un_world in
  out = OOk /\ map fst (w_objs w') = ["ConfigMap/a"; "ConfigMap/b"; "ConfigMap/z"]%string /\
  model_kept un_world = ["[ConfigMap] a"; "[ConfigMap] b"]%string.
Proof. exact uninstall_example. Qed.
Print Assumptions C02_uninstall_hypotheses_met.

(* ---- (B) lifted to the operations of Engine/Ops.v run by the interpreter ----
   [not_hook fl hks key]: hooks are disabled, or no hook object has this key.
   The world [w] before the operation is ARBITRARY (any ledger, any cluster content): this
   covers every history of operations, failed or not, interleaved with out-of-band edits and
   deletions (made explicit in C02_op_success_matches below).  Hooks may run (and succeed):
   the statements speak about the objects that are not hook objects. *)

Theorem C02_install_success_matches :
  forall (rn ns : string) (fl : flags) (cid vid : nat) (mani : list res) (hks : list hook)
         (hf : option (string * nat)) (wf : bool) (w w' : world) (tr : list tev),
    f_dry_run fl = false ->
    NoDup (map rkey mani) ->
    (forall r, In r mani -> NoDup (akeys (r_fields r))) ->
    (forall r, In r mani -> not_hook fl hks (rkey r)) ->
    run_store_op rn ns (mkOp (OpInstall fl cid vid mani hks) (mkSF None None) (mkCF None hf wf)) w = (w', OOk, tr) ->
    (forall r, In r mani ->
       exists live', aget (rkey r) (w_objs w') = Some live' /\
                     fields_sub (r_fields (stamp rn ns r)) live' = true) /\
    (forall key, in_keys key mani = false -> not_hook fl hks key ->
       aget key (w_objs w') = aget key (w_objs w)).
Proof. exact install_matches. Qed.
Print Assumptions C02_install_success_matches.

(* [upgrade_current]: the revision upgrade.go diffs against (MatchDefs.v) *)
Theorem C02_upgrade_success_matches :
  forall (rn ns : string) (fl : flags) (cid vid : nat) (mani : list res) (hks : list hook)
         (hf : option (string * nat)) (wf : bool) (w w' : world) (tr : list tev),
    f_dry_run fl = false ->
    NoDup (map rkey mani) ->
    (forall r, In r mani -> NoDup (akeys (r_fields r))) ->
    (forall r, In r mani -> not_hook fl hks (rkey r)) ->
    run_store_op rn ns (mkOp (OpUpgrade fl cid vid mani hks) (mkSF None None) (mkCF None hf wf)) w = (w', OOk, tr) ->
    exists current : release,
      upgrade_current (w_led w) = Some current /\
      (forall r, In r mani ->
         exists live', aget (rkey r) (w_objs w') = Some live' /\
                       fields_sub (r_fields (stamp rn ns r)) live' = true) /\
      (forall o, In o (manifest current) -> in_keys (rkey o) mani = false -> not_hook fl hks (rkey o) ->
         match aget (rkey o) (w_objs w) with
         | Some live => if live_keep live then aget (rkey o) (w_objs w') = Some live
                        else aget (rkey o) (w_objs w') = None
         | None => aget (rkey o) (w_objs w') = None
         end) /\
      (forall key, in_keys key (manifest current) = false -> in_keys key mani = false -> not_hook fl hks key ->
         aget key (w_objs w') = aget key (w_objs w)).
Proof. exact upgrade_matches. Qed.
Print Assumptions C02_upgrade_success_matches.

(* [rollback_target]: (latest revision, revision rolled back to) as rollback.go picks them *)
Theorem C02_rollback_success_matches :
  forall (rn ns : string) (fl : flags) (hf : option (string * nat)) (wf : bool) (w w' : world) (tr : list tev),
    f_dry_run fl = false ->
    run_store_op rn ns (mkOp (OpRollback fl) (mkSF None None) (mkCF None hf wf)) w = (w', OOk, tr) ->
    exists cur pr : release,
      rollback_target fl (w_led w) = Some (cur, pr) /\
      (NoDup (map rkey (manifest pr)) ->
       (forall r, In r (manifest pr) -> NoDup (akeys (r_fields r))) ->
       (forall r, In r (manifest pr) -> not_hook fl (hooks pr) (rkey r)) ->
       (forall r, In r (manifest pr) ->
          exists live', aget (rkey r) (w_objs w') = Some live' /\
                        fields_sub (r_fields (stamp rn ns r)) live' = true) /\
       (forall o, In o (manifest cur) -> in_keys (rkey o) (manifest pr) = false -> not_hook fl (hooks pr) (rkey o) ->
          match aget (rkey o) (w_objs w) with
          | Some live => if live_keep live then aget (rkey o) (w_objs w') = Some live
                         else aget (rkey o) (w_objs w') = None
          | None => aget (rkey o) (w_objs w') = None
          end) /\
       (forall key, in_keys key (manifest cur) = false -> in_keys key (manifest pr) = false ->
          not_hook fl (hooks pr) key -> aget key (w_objs w') = aget key (w_objs w))).
Proof. exact rollback_matches. Qed.
Print Assumptions C02_rollback_success_matches.

(* ... for all histories: whatever steps [h] (operations with or without faults, out-of-band
   [HEdit] steps) lead from ANY initial world [w0] to the world the operation starts in
   ([world_after] = the last world of [run_history], lemma below), a fault-free install or
   upgrade of a well-formed chart that returns OOk leaves the cluster as stated above
   (rollback: C02_rollback_success_matches, uninstall: C02_uninstall_matches, likewise for every world) *)
Theorem C02_op_success_matches :
  forall (rn ns : string) (h : list hstep) (w0 : world) (c : opcase) (w' : world) (tr : list tev),
    oc_sf c = mkSF None None /\ cf_k (oc_cf c) = None ->
    run_store_op rn ns c (world_after rn ns h w0) = (w', OOk, tr) ->
    let w := world_after rn ns h w0 in
    match oc_op c with
    | OpInstall fl _ _ mani hks =>
        (f_dry_run fl = false /\ NoDup (map rkey mani) /\
         (forall r, In r mani -> NoDup (akeys (r_fields r))) /\
         (forall r, In r mani -> not_hook fl hks (rkey r))) ->
        (forall r, In r mani ->
           exists live', aget (rkey r) (w_objs w') = Some live' /\ fields_sub (r_fields (stamp rn ns r)) live' = true) /\
        (forall key, in_keys key mani = false -> not_hook fl hks key -> aget key (w_objs w') = aget key (w_objs w))
    | OpUpgrade fl _ _ mani hks =>
        (f_dry_run fl = false /\ NoDup (map rkey mani) /\
         (forall r, In r mani -> NoDup (akeys (r_fields r))) /\
         (forall r, In r mani -> not_hook fl hks (rkey r))) ->
        exists current, upgrade_current (w_led w) = Some current /\
        (forall r, In r mani ->
           exists live', aget (rkey r) (w_objs w') = Some live' /\ fields_sub (r_fields (stamp rn ns r)) live' = true) /\
        (forall o, In o (manifest current) -> in_keys (rkey o) mani = false -> not_hook fl hks (rkey o) ->
           match aget (rkey o) (w_objs w) with
           | Some live => if live_keep live then aget (rkey o) (w_objs w') = Some live
                          else aget (rkey o) (w_objs w') = None
           | None => aget (rkey o) (w_objs w') = None
           end) /\
        (forall key, in_keys key (manifest current) = false -> in_keys key mani = false -> not_hook fl hks key ->
           aget key (w_objs w') = aget key (w_objs w))
    | OpRollback fl =>
        f_dry_run fl = false ->
        exists cur pr, rollback_target fl (w_led w) = Some (cur, pr) /\
        (NoDup (map rkey (manifest pr)) ->
         (forall r, In r (manifest pr) -> NoDup (akeys (r_fields r))) ->
         (forall r, In r (manifest pr) -> not_hook fl (hooks pr) (rkey r)) ->
         (forall r, In r (manifest pr) ->
            exists live', aget (rkey r) (w_objs w') = Some live' /\ fields_sub (r_fields (stamp rn ns r)) live' = true) /\
         (forall o, In o (manifest cur) -> in_keys (rkey o) (manifest pr) = false -> not_hook fl (hooks pr) (rkey o) ->
            match aget (rkey o) (w_objs w) with
            | Some live => if live_keep live then aget (rkey o) (w_objs w') = Some live
                           else aget (rkey o) (w_objs w') = None
            | None => aget (rkey o) (w_objs w') = None
            end) /\
         (forall key, in_keys key (manifest cur) = false -> in_keys key (manifest pr) = false ->
            not_hook fl (hooks pr) key -> aget key (w_objs w') = aget key (w_objs w)))
    | OpUninstall _ => True
    end.
Proof. exact op_success_matches_after. Qed.
Print Assumptions C02_op_success_matches.

Theorem C02_world_after_is_run_history :
  forall rn ns h w,
    world_after rn ns h w = last (map (fun x => fst (fst x)) (run_history rn ns h w)) w.
Proof. exact world_after_run_history. Qed.
Print Assumptions C02_world_after_is_run_history.

(* non-vacuity: install {a,b}; out-of-band edit of a (specified field changed, foreign field
   added); a bystander appears; upgrade to {a'} with a pre-upgrade hook: a is corrected and keeps
   the foreign field, b is deleted, the bystander stays *)
Example C02_success_hypotheses_met :
  fault_free ex_install /\ well_formed_chart no_flags ex_mani1 [] /\
  fault_free ex_upgrade /\ well_formed_chart no_flags ex_mani2 [ex_hook] /\
  snd (fst (run_store_op "rel" "default" ex_install (mkW [] []))) = OOk /\
  let w := world_after "rel" "default" ex_history (mkW [] []) in
  let '(w', out, _) := run_store_op "rel" "default" ex_upgrade w in
  out = OOk /\
  w_objs w' =
    [("ConfigMap/a", [("d:k", "v2"); ("d:foreign", "f"); (managed_by_key, "Helm"); (rel_name_key, "rel"); (rel_ns_key, "default")]);
     ("ConfigMap/z", [("d:k", "bystander")]);
     ("ConfigMap/hk", [("d:h", "0")])]%string.
Proof. exact success_example. Qed.
Print Assumptions C02_success_hypotheses_met.

(* Known finding K1-C02 (consequence of K1 of C01, reproduced on the real code, witness in the
   harness corpus): install --replace while a revision is still deployed succeeds and leaves a
   resource of the deployed revision that the new manifest does not name — there is no
   "removed resources are gone" clause for install, and this is why. *)
Theorem C02_install_replace_over_deployed_leaks_refuted :
  exists (w : world) (c : opcase) (d : release) (r : res),
    fault_free c /\ In d (w_led w) /\ st d = SDeployed /\ In r (manifest d) /\
    let '(w', out, _) := run_store_op "rel" "default" c w in
    out = OOk /\
    (exists fl cid vid mani hks, oc_op c = OpInstall fl cid vid mani hks /\ in_keys (rkey r) mani = false) /\
    (exists live, aget (rkey r) (w_objs w) = Some live /\ live_keep live = false) /\
    aget (rkey r) (w_objs w') <> None.
Proof. exact install_replace_over_deployed_leaks. Qed.
Print Assumptions C02_install_replace_over_deployed_leaks_refuted.

(* Known finding K6-C02 (same root cause as K6 of C03; reproduced on the real code without any
   injected fault, witness in the harness corpus): rollback diffs the target against the LATEST
   revision even when that one failed and was never applied, not against the deployed one; a
   resource that only the deployed revision has survives a successful rollback to an older
   revision.  C02_rollback_success_matches is accordingly stated for [cur] = the latest revision. *)
Theorem C02_rollback_over_failed_revision_leaks_refuted :
  exists (w : world) (c : opcase) (d : release) (r : res),
    fault_free c /\ In d (w_led w) /\ st d = SDeployed /\ In r (manifest d) /\
    let '(w', out, _) := run_store_op "rel" "default" c w in
    out = OOk /\
    (exists fl cur pr, oc_op c = OpRollback fl /\ rollback_target fl (w_led w) = Some (cur, pr) /\
                       st cur = SFailed /\ in_keys (rkey r) (manifest pr) = false) /\
    (exists live, aget (rkey r) (w_objs w) = Some live /\ live_keep live = false) /\
    aget (rkey r) (w_objs w') <> None.
Proof. exact rollback_over_failed_revision_leaks. Qed.
Print Assumptions C02_rollback_over_failed_revision_leaks_refuted.

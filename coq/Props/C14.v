(* C14 — property theorems only: each closed by [exact] of a lemma proved in Values/GateProofs.v. *)
From Coq Require Import List String Bool Arith ZArith.
From Helm Require Import Common.Strs Values.Tree Values.Schema2 Values.Schema2Proofs Values.Schema2Total Values.Schema Values.Scope Values.Deps
  Values.Gate Values.GateProofs Gen.C14Compiler.
Import ListNotations.
Local Open Scope string_scope.

(* ValidateAgainstSchema reports exactly the charts of the tree whose schema rejects their slice
   of the values ([Rejects]: the chart itself; or a kept subchart, on the table found under its
   name; or a subchart whose section is not a table). *)
Theorem C14_validate_tree_spec : forall c v n, In n (validate_tree c v) <-> Rejects c v n.
Proof. exact validate_tree_spec. Qed.
Print Assumptions C14_validate_tree_spec.

(* The gate of ToRenderValuesWithSchemaValidation fails with the schema error iff validation is
   not skipped and some chart of the (processed) tree has a schema rejecting its slice of the
   coalesced values. *)
Theorem C14_gate : forall c vals skip,
  (exists names, to_render_values c vals skip = RVSchemaErr names)
  <-> (skip = false /\ exists v n, CoalesceValues c vals = Ok v /\ Rejects c v n).
Proof. exact gate. Qed.
Print Assumptions C14_gate.

(* ... and the error names exactly those charts. *)
Theorem C14_gate_names : forall c vals skip names,
  to_render_values c vals skip = RVSchemaErr names ->
  skip = false /\ names <> [] /\
  exists v, CoalesceValues c vals = Ok v /\ forall n, In n names <-> Rejects c v n.
Proof. exact gate_names. Qed.
Print Assumptions C14_gate_names.

(* If every schema accepts, the schema step does not reject. *)
Theorem C14_no_false_reject : forall c vals skip v,
  CoalesceValues c vals = Ok v -> (forall n, ~ Rejects c v n) ->
  to_render_values c vals skip = RVOk v.
Proof. exact no_false_reject. Qed.
Print Assumptions C14_no_false_reject.

(* Skipping happens only through the explicit option: with skip the schema error is impossible
   (and by C14_gate, without it every violation is an error). *)
Theorem C14_skip_only_by_option : forall c vals names, to_render_values c vals true <> RVSchemaErr names.
Proof. exact skip_never_rejects. Qed.
Print Assumptions C14_skip_only_by_option.

(* Install: when the gate fails on the processed tree, the operation fails with that error and
   its effect trace holds no storage write and no mutating cluster call — for charts without
   crds/ (after disabling), or with skip-crds, client-only (template) or dry-run. *)
Theorem C14_nothing_sent_install : forall compat fl c vals c' names,
  process_dependencies compat c vals = Ok c' ->
  to_render_values c' vals (skip_schema fl) = RVSchemaErr names ->
  (has_crds c' = false \/ skip_crds fl = true \/ client_only fl = true \/ dry_run fl = true) ->
  exists tr, install_trace compat fl c vals = (tr, FailSchema names)
             /\ forallb (fun e => negb (mutating e)) tr = true.
Proof. exact install_nothing_sent. Qed.
Print Assumptions C14_nothing_sent_install.

Theorem C14_nothing_sent_upgrade : forall compat fl c vals c' names,
  process_dependencies compat c vals = Ok c' ->
  to_render_values c' vals (skip_schema fl) = RVSchemaErr names ->
  exists tr, upgrade_trace compat fl c vals = (tr, FailSchema names)
             /\ forallb (fun e => negb (mutating e)) tr = true.
Proof. exact upgrade_nothing_sent. Qed.
Print Assumptions C14_nothing_sent_upgrade.

(* Non-vacuity: a subchart required under the alias "web" whose schema (port: integer 1..65535,
   required) is violated through the parent's section; accepted with the defaults. *)
Example C14_gate_example :
  match process_dependencies (fun _ _ => true) (ex_top []) ex_vals with
  | Ok c' => to_render_values c' ex_vals false = RVSchemaErr ["web"]
             /\ to_render_values c' [] false
                = RVOk [("web", VMap [("global", VMap []); ("port", VNum 80)])]
             /\ (has_crds c' = false)
  | Err _ => False
  end.
Proof. exact gate_example. Qed.
Print Assumptions C14_gate_example.

(* The caveat outside the theorem's domain: CRDs from crds/ are sent to the cluster BEFORE the
   values are validated, so a real install of a chart with crds/ and violating values has
   already created the CRDs when it fails. *)
Example C14_crd_caveat :
  install_trace (fun _ _ => true) ex_flags (ex_top ["crds/crd.yaml"]) ex_vals
  = ([KIsReachable; SRead; KCreateCRDs; KGetCapabilities], FailSchema ["web"]).
Proof. exact crd_caveat. Qed.
Print Assumptions C14_crd_caveat.

Example C14_install_ok_example :
  install_trace (fun _ _ => true) ex_flags (ex_top []) []
  = ([KIsReachable; SRead; KGetCapabilities; KBuild; KBuild; KCreateNamespace; SCreate; KWait; SUpdate], Done).
Proof. exact install_ok_example. Qed.
Print Assumptions C14_install_ok_example.

(* ====================================================================================== *)
(* Round 4: schemas given as JSON documents ([SDoc d], Values/Schema2.v) - the larger keyword
   family and the dialect.  Every theorem above is stated for any [schema], so it covers them;
   below: what they say for a document, the default dialect, and what each keyword means.    *)

(* A document accepts values exactly when the model of ValidateAgainstSingleSchema says VOk
   (a violated constraint, a schema that does not compile, a document outside the model's
   keyword family and exhausted fuel all count as "rejected"). *)
Theorem C14_valid_doc : forall d v, valid (SDoc d) v = true <-> doc_verdict d v = VOk.
Proof. exact valid_doc. Qed.
Print Assumptions C14_valid_doc.

(* The chart's own document does not accept the coalesced values: the gate fails naming it. *)
Theorem C14_doc_rejected_here : forall c vals v d,
  cschema c = Some (SDoc d) -> CoalesceValues c vals = Ok v -> doc_verdict d (VMap v) <> VOk ->
  exists names, to_render_values c vals false = RVSchemaErr names /\ In (cname c) names.
Proof. exact doc_rejected_here. Qed.
Print Assumptions C14_doc_rejected_here.

(* ... a kept subchart's document, on the table stored under its name / alias. *)
Theorem C14_doc_rejected_below : forall c vals v sub sv d,
  In sub (cdeps c) -> cschema sub = Some (SDoc d) -> CoalesceValues c vals = Ok v ->
  mget (cname sub) v = Some (VMap sv) -> doc_verdict d (VMap sv) <> VOk ->
  exists names, to_render_values c vals false = RVSchemaErr names /\ In (cname sub) names.
Proof. exact doc_rejected_below. Qed.
Print Assumptions C14_doc_rejected_below.

(* End to end: the document of the processed chart rejects the final values => install fails
   naming the chart, nothing stored, no mutating cluster call (same CRD side condition). *)
Theorem C14_doc_nothing_sent_install : forall compat fl c vals c' v d,
  process_dependencies compat c vals = Ok c' -> skip_schema fl = false ->
  CoalesceValues c' vals = Ok v -> cschema c' = Some (SDoc d) -> doc_verdict d (VMap v) <> VOk ->
  (has_crds c' = false \/ skip_crds fl = true \/ client_only fl = true \/ dry_run fl = true) ->
  exists tr names, install_trace compat fl c vals = (tr, FailSchema names)
                   /\ In (cname c') names /\ forallb (fun e => negb (mutating e)) tr = true.
Proof. exact doc_install_nothing_sent. Qed.
Print Assumptions C14_doc_nothing_sent_install.

Theorem C14_doc_nothing_sent_upgrade : forall compat fl c vals c' v d,
  process_dependencies compat c vals = Ok c' -> skip_schema fl = false ->
  CoalesceValues c' vals = Ok v -> cschema c' = Some (SDoc d) -> doc_verdict d (VMap v) <> VOk ->
  exists tr names, upgrade_trace compat fl c vals = (tr, FailSchema names)
                   /\ In (cname c') names /\ forallb (fun e => negb (mutating e)) tr = true.
Proof. exact doc_upgrade_nothing_sent. Qed.
Print Assumptions C14_doc_nothing_sent_upgrade.

(* Non-vacuity with a keyword of 2019-09/2020-12 and NO "$schema": subchart aliased "web", document
   {type: object, dependentRequired: {tlsKey: [tlsCert]}}; user web.tlsKey without web.tlsCert. *)
Example C14_doc_gate_example :
  install_trace (fun _ _ => true) ex_flags ex_tls_top ex_tls_vals
  = ([KIsReachable; SRead; KGetCapabilities], FailSchema ["web"])
  /\ upgrade_trace (fun _ _ => true) ex_flags ex_tls_top ex_tls_vals
     = ([KIsReachable; SRead; KGetCapabilities], FailSchema ["web"])
  /\ snd (install_trace (fun _ _ => true) ex_flags ex_tls_top
                        [("web", VMap [("tlsKey", VStr "k"); ("tlsCert", VStr "c")])]) = Done.
Proof. exact doc_gate_example. Qed.
Print Assumptions C14_doc_gate_example.

(* ---------- the dialect ---------- *)

(* A values.schema.json without "$schema" is compiled as draft 2020-12 ... *)
Theorem C14_default_dialect_is_2020_12 : forall m v,
  mget "$schema" m = None ->
  dialect_of helm_default_draft (VMap m) = DialOk D2020
  /\ doc_verdict (VMap m) v = run_with (DialOk D2020) (VMap m) v.
Proof. exact default_dialect. Qed.
Print Assumptions C14_default_dialect_is_2020_12.

(* ... under which every modelled keyword is read (the full vocabulary) ... *)
Theorem C14_full_vocabulary_2020 :
  forallb (kw_active D2020)
          (later_keywords ++ ["prefixItems"; "items"; "contains"; "const"; "enum"; "type"; "allOf"; "anyOf"; "oneOf"; "not";
             "if"; "then"; "else"; "properties"; "additionalProperties"; "propertyNames"; "required"; "dependencies";
             "minProperties"; "maxProperties"; "minItems"; "maxItems"; "uniqueItems"; "minimum"; "maximum";
             "exclusiveMinimum"; "exclusiveMaximum"; "multipleOf"; "minLength"; "maxLength"; "$ref"])%list = true.
Proof. exact full_vocabulary_2020. Qed.
Print Assumptions C14_full_vocabulary_2020.

(* ... while a draft-07 document has none of dependentRequired, dependentSchemas, minContains,
   maxContains, $defs (as a keyword), prefixItems: the library does not read them. *)
Theorem C14_draft7_ignores_later_keywords :
  forallb (fun k => negb (kw_active D7 k)) (later_keywords ++ ["prefixItems"])%list = true.
Proof. exact draft7_ignores_later_keywords. Qed.
Print Assumptions C14_draft7_ignores_later_keywords.

(* The default matters: {dependentRequired: {tlsKey: [tlsCert]}} without "$schema" rejects
   {tlsKey: k}; the same bytes under a draft-07 default, or declaring draft-07, accept it. *)
Example C14_default_draft_matters :
  doc_verdict ex_dep_doc ex_dep_bad = VViolation /\ doc_verdict ex_dep_doc ex_dep_good = VOk
  /\ run D7 ex_dep_doc ex_dep_bad = VOk
  /\ doc_verdict (VMap [("$schema", VStr "http://json-schema.org/draft-07/schema#");
                        ("dependentRequired", VMap [("tlsKey", VList [VStr "tlsCert"])])]) ex_dep_bad = VOk.
Proof. exact default_draft_matters. Qed.
Print Assumptions C14_default_draft_matters.

Example C14_dialect_urls :
  classify_schema_url "http://json-schema.org/draft-07/schema#" = DialOk D7
  /\ classify_schema_url "http://json-schema.org/draft-07/schema" = DialOk D7
  /\ classify_schema_url "https://json-schema.org/draft-07/schema#" = DialOk D7
  /\ classify_schema_url "https://json-schema.org/draft/2019-09/schema" = DialOk D2019
  /\ classify_schema_url "https://json-schema.org/draft/2020-12/schema" = DialOk D2020
  /\ classify_schema_url "http://json-schema.org/draft/2020-12/schema#" = DialOk D2020
  /\ classify_schema_url "https://json-schema.org/schema" = DialOk D2020
  /\ classify_schema_url "http://json-schema.org/draft-04/schema#" = DialUnsupported
  /\ classify_schema_url "http://example.com/my-dialect" = DialError.
Proof. exact dialect_urls. Qed.
Print Assumptions C14_dialect_urls.

(* Translator table (Gen/C14Compiler.v, regenerated from /repo and the pinned library on every
   run): the draft a schema without "$schema" is compiled with - the argument of a DefaultDraft
   call in ValidateAgainstSingleSchema if there is one, else the library's newRoots() default -
   is the model's. *)
Theorem C14_default_draft_table :
  effective_default C14Compiler.default_draft_call C14Compiler.library_roots_default C14Compiler.library_draft_latest
  = Some helm_default_draft.
Proof. reflexivity. Qed.
Print Assumptions C14_default_draft_table.

(* ... and Helm switches on no compiler option the model does not know (format / content /
   vocabulary assertion, custom loaders or regexp engines). *)
Theorem C14_compiler_options_table :
  forallb (fun m => existsb (String.eqb m) known_compiler_methods) C14Compiler.compiler_methods = true
  /\ C14Compiler.compiler_escapes = false.
Proof. split; reflexivity. Qed.
Print Assumptions C14_compiler_options_table.

(* ---------- what the keywords mean (to be held against the JSON-Schema drafts) ---------- *)

(* One schema object (2019-09 and later, or without "$ref"): valid iff every keyword group is. *)
Theorem C14_schema_object : forall dr m here self follow child names v,
  (ge2019 dr = true \/ forall r, kw dr m "$ref" <> Some (VStr r)) ->
  (step dr m here self follow child names v = Some true <->
   p_type dr m v = true /\ p_const dr m v = true /\ p_enum dr m v = true
   /\ a_ref dr m follow = Some true
   /\ by_kind dr m here self child names v = Some true
   /\ a_not dr m here self = Some true /\ a_all_of dr m here self = Some true
   /\ a_any_of dr m here self = Some true /\ a_one_of dr m here self = Some true
   /\ a_if dr m here self = Some true).
Proof. exact step_true_iff. Qed.
Print Assumptions C14_schema_object.

(* draft-07: next to "$ref" only "const" is looked at (the library's behaviour; the draft says
   all other properties are ignored). *)
Theorem C14_ref_siblings_draft7 : forall m here self follow child names v r,
  kw D7 m "$ref" = Some (VStr r) ->
  step D7 m here self follow child names v = oand (Some (p_const D7 m v)) (a_ref D7 m follow).
Proof. exact step_draft7_ref. Qed.
Print Assumptions C14_ref_siblings_draft7.

Theorem C14_object_keywords : forall dr m here self child names o,
  by_kind dr m here self child names (VMap o) = Some true <->
  p_prop_count dr m o = true /\ p_required dr m o = true /\ p_dependencies_lists dr m o = true
  /\ a_dep_schemas dr m here self "dependencies" o = Some true
  /\ a_properties dr m here child o = Some true
  /\ a_property_names dr m here names o = Some true
  /\ a_dep_schemas dr m here self "dependentSchemas" o = Some true
  /\ p_dependent_required dr m o = true.
Proof. exact by_kind_object_true_iff. Qed.
Print Assumptions C14_object_keywords.

Theorem C14_array_keywords : forall dr m here self child names a,
  by_kind dr m here self child names (VList a) = Some true <->
  p_item_count dr m a = true /\ p_unique dr m a = true
  /\ a_items dr m here child a = Some true /\ a_contains dr m here child a = Some true.
Proof. exact by_kind_array_true_iff. Qed.
Print Assumptions C14_array_keywords.

(* dependentRequired: valid iff for every listed key present in the object all its dependents
   are present; not read under draft-07. *)
Theorem C14_kw_dependentRequired : forall dr m o deps,
  kw dr m "dependentRequired" = Some (VMap deps) ->
  (p_dependent_required dr m o = true <->
   forall k ds, In (k, VList ds) deps -> mhas k o = true -> forall n, In (VStr n) ds -> mhas n o = true).
Proof. exact p_dependent_required_spec. Qed.
Print Assumptions C14_kw_dependentRequired.

Theorem C14_kw_dependentRequired_draft7 : forall m o, p_dependent_required D7 m o = true.
Proof. exact p_dependent_required_draft7. Qed.
Print Assumptions C14_kw_dependentRequired_draft7.

(* dependentSchemas (k = "dependentSchemas"; also the schema entries of "dependencies"): the
   subschema of every key present in the object applies to the whole object. *)
Theorem C14_kw_dependentSchemas : forall dr m here self k o deps,
  kw dr m k = Some (VMap deps) ->
  (a_dep_schemas dr m here self k o = Some true <->
   forall p s, In (p, s) deps -> (forall l, s <> VList l) -> mhas p o = true ->
               self (at_kw2 here k p) s = Some true).
Proof. exact a_dep_schemas_true_iff. Qed.
Print Assumptions C14_kw_dependentSchemas.

Theorem C14_kw_dependentSchemas_draft7 : forall m here self o,
  a_dep_schemas D7 m here self "dependentSchemas" o = Some true.
Proof. exact a_dep_schemas_draft7. Qed.
Print Assumptions C14_kw_dependentSchemas_draft7.

Theorem C14_kw_required : forall dr m o l,
  kw dr m "required" = Some (VList l) ->
  (p_required dr m o = true <-> forall n, In (VStr n) l -> mhas n o = true).
Proof. exact p_required_spec. Qed.
Print Assumptions C14_kw_required.

(* properties / additionalProperties *)
Theorem C14_kw_properties : forall dr m here child o,
  a_properties dr m here child o = Some true <->
  forall k x, In (k, x) o -> a_member dr m here child k x = Some true.
Proof. exact a_properties_true_iff. Qed.
Print Assumptions C14_kw_properties.

Theorem C14_kw_properties_declared : forall dr m here child ps k x sp,
  kw dr m "properties" = Some (VMap ps) -> mget k ps = Some sp ->
  a_member dr m here child k x = child (at_kw2 here "properties" k) sp x.
Proof. exact a_member_declared. Qed.
Print Assumptions C14_kw_properties_declared.

Theorem C14_kw_additionalProperties : forall dr m here child k x,
  (forall ps, kw dr m "properties" = Some (VMap ps) -> mget k ps = None) ->
  a_member dr m here child k x =
  match kw dr m "additionalProperties" with
  | Some sa => child (at_kw here "additionalProperties") sa x
  | None => Some true
  end.
Proof. exact a_member_additional. Qed.
Print Assumptions C14_kw_additionalProperties.

Theorem C14_kw_propertyNames : forall dr m here names o sn,
  kw dr m "propertyNames" = Some sn ->
  (a_property_names dr m here names o = Some true <->
   forall k x, In (k, x) o -> names (at_kw here "propertyNames") sn k = Some true).
Proof. exact a_property_names_true_iff. Qed.
Print Assumptions C14_kw_propertyNames.

Theorem C14_kw_property_count : forall dr m o,
  p_prop_count dr m o = true <->
  (forall n, int_kw dr m "minProperties" = Some n -> (n <= Z.of_nat (List.length o))%Z)
  /\ (forall n, int_kw dr m "maxProperties" = Some n -> (Z.of_nat (List.length o) <= n)%Z).
Proof. exact p_prop_count_spec. Qed.
Print Assumptions C14_kw_property_count.

(* prefixItems + items (2020-12): element i against prefixItems[i] if there is one, else "items" *)
Theorem C14_kw_prefixItems : forall m here child a,
  a_items D2020 m here child a = Some true <->
  forall i x, nth_error a i = Some x ->
    match nth_error (match kw D2020 m "prefixItems" with Some (VList ps) => ps | _ => [] end) i with
    | Some sp => child (at_idx here "prefixItems" i) sp x
    | None => match kw D2020 m "items" with
              | Some si => child (at_kw here "items") si x
              | None => Some true
              end
    end = Some true.
Proof. exact a_items_2020_true_iff. Qed.
Print Assumptions C14_kw_prefixItems.

(* before 2020-12: prefixItems is not read, "items" (schema form) applies to every element *)
Theorem C14_kw_items_before_2020 : forall dr m here child a si,
  ge2020 dr = false -> kw dr m "items" = Some si -> (forall l, si <> VList l) ->
  (a_items dr m here child a = Some true <-> forall x, In x a -> child (at_kw here "items") si x = Some true).
Proof. exact a_items_before_2020_true_iff. Qed.
Print Assumptions C14_kw_items_before_2020.

Theorem C14_kw_prefixItems_before_2020 : forall dr m, ge2020 dr = false -> kw dr m "prefixItems" = None.
Proof. exact prefix_items_ignored_before_2020. Qed.
Print Assumptions C14_kw_prefixItems_before_2020.

(* contains / minContains / maxContains: c = number of elements the subschema accepts;
   minContains (1 when absent) <= c <= maxContains; draft-07 reads neither bound. *)
Theorem C14_kw_contains : forall dr m here child a sc b,
  kw dr m "contains" = Some sc ->
  a_contains dr m here child a = Some b ->
  b = p_contains_count dr m (count_true (map (fun x => child (at_kw here "contains") sc x) a)).
Proof. exact a_contains_spec. Qed.
Print Assumptions C14_kw_contains.

Theorem C14_kw_contains_bounds : forall dr m c,
  p_contains_count dr m c = true <->
  match int_kw dr m "minContains" with Some n => (n <= Z.of_nat c)%Z | None => (1 <= c)%nat end
  /\ match int_kw dr m "maxContains" with Some n => (Z.of_nat c <= n)%Z | None => True end.
Proof. exact p_contains_count_spec. Qed.
Print Assumptions C14_kw_contains_bounds.

Theorem C14_kw_contains_draft7 : forall m c, p_contains_count D7 m c = (1 <=? c)%nat.
Proof. exact p_contains_count_draft7. Qed.
Print Assumptions C14_kw_contains_draft7.

Theorem C14_kw_item_count : forall dr m a,
  p_item_count dr m a = true <->
  (forall n, int_kw dr m "minItems" = Some n -> (n <= Z.of_nat (List.length a))%Z)
  /\ (forall n, int_kw dr m "maxItems" = Some n -> (Z.of_nat (List.length a) <= n)%Z).
Proof. exact p_item_count_spec. Qed.
Print Assumptions C14_kw_item_count.

(* uniqueItems fails iff two elements at different positions are equal as JSON values *)
Theorem C14_kw_uniqueItems : forall l,
  has_dup l = true <->
  exists i j x y, (i < j)%nat /\ nth_error l i = Some x /\ nth_error l j = Some y /\ json_eq x y = true.
Proof. exact has_dup_spec. Qed.
Print Assumptions C14_kw_uniqueItems.

(* allOf / anyOf / oneOf / not / if-then-else *)
Theorem C14_kw_allOf : forall dr m here self l,
  kw dr m "allOf" = Some (VList l) ->
  (a_all_of dr m here self = Some true <->
   forall i s, nth_error l i = Some s -> self (at_idx here "allOf" i) s = Some true).
Proof. exact a_all_of_true_iff. Qed.
Print Assumptions C14_kw_allOf.

Theorem C14_kw_anyOf : forall dr m here self s0 l b,
  kw dr m "anyOf" = Some (VList (s0 :: l)) ->
  a_any_of dr m here self = Some b ->
  (b = true <-> exists i s, nth_error (s0 :: l) i = Some s /\ self (at_idx here "anyOf" i) s = Some true).
Proof. exact a_any_of_spec. Qed.
Print Assumptions C14_kw_anyOf.

Theorem C14_kw_oneOf : forall dr m here self s0 l b,
  kw dr m "oneOf" = Some (VList (s0 :: l)) ->
  a_one_of dr m here self = Some b ->
  b = (count_true (mapi_from 0 (fun i s => self (at_idx here "oneOf" i) s) (s0 :: l)) =? 1)%nat.
Proof. exact a_one_of_spec. Qed.
Print Assumptions C14_kw_oneOf.

Theorem C14_kw_not : forall dr m here self s,
  kw dr m "not" = Some s -> a_not dr m here self = option_map negb (self (at_kw here "not") s).
Proof. exact a_not_spec. Qed.
Print Assumptions C14_kw_not.

Theorem C14_kw_if : forall dr m here self s,
  kw dr m "if" = Some s ->
  a_if dr m here self =
  match self (at_kw here "if") s with
  | Some true => a_self_kw dr m here self "then"
  | Some false => a_self_kw dr m here self "else"
  | None => None
  end.
Proof. exact a_if_spec. Qed.
Print Assumptions C14_kw_if.

(* the recursion: boolean and empty schemas, the cycle check, one unfolding step *)
Theorem C14_ev_unfold : forall root dr f seen p k x m v,
  ptr_mem p seen = false ->
  ev root dr (S f) seen p (VMap ((k, x) :: m)) v =
  step dr ((k, x) :: m) p
       (fun q s' => ev root dr f (p :: seen) q s' v)
       (fun q => match lookup_ptr root q with Some t => ev root dr f (p :: seen) q t v | None => None end)
       (fun q s' y => ev root dr f [] q s' y)
       (fun q s' n => ev root dr f [] q s' (VStr n))
       v.
Proof. exact ev_unfold. Qed.
Print Assumptions C14_ev_unfold.

Theorem C14_ev_cycle : forall root dr f seen p k x m v,
  ptr_mem p seen = true -> ev root dr (S f) seen p (VMap ((k, x) :: m)) v = Some false.
Proof. exact ev_cycle. Qed.
Print Assumptions C14_ev_cycle.

(* numbers as rationals, "integer" for 1.0, equality across spellings, code points *)
Theorem C14_number_order : forall ma ea mb eb e,
  (e <= ea)%Z -> (e <= eb)%Z ->
  dec_cmp (ma, ea) (mb, eb) = Z.compare (ma * 10 ^ (ea - e))%Z (mb * 10 ^ (eb - e))%Z.
Proof. exact dec_cmp_scale. Qed.
Print Assumptions C14_number_order.

Example C14_number_examples :
  type_matches "integer" (VFlt "1.0") = true /\ type_matches "integer" (VFlt "1e+21") = true
  /\ type_matches "integer" (VFlt "1.5") = false /\ type_matches "number" (VFlt "1.5") = true
  /\ json_eq (VNum 1) (VFlt "1.0") = true /\ json_eq (VFlt "1.50") (VFlt "15e-1") = true
  /\ json_eq (VNum 1) (VStr "1") = false
  /\ dec_multiple (15, -1)%Z (5, -1)%Z = true /\ dec_multiple (17, -1)%Z (5, -1)%Z = false.
Proof. exact number_examples. Qed.
Print Assumptions C14_number_examples.

Example C14_code_points :
  rune_count (bs [104; 195; 169; 195; 169]) = 3%nat /\ rune_count (bs [230; 151; 165; 230; 156; 172]) = 2%nat
  /\ rune_count "abc" = 3%nat /\ rune_count "" = 0%nat.
Proof. exact rune_count_examples. Qed.
Print Assumptions C14_code_points.

(* The document evaluator always reaches a verdict: the fuel it starts with ((size of the document
   + 2) * (depth of the values + 3)) is never exhausted - on one value every schema location is
   entered at most once (the library's cycle check), and a step to a member shrinks the value.
   So [valid (SDoc d) v = false] means: a constraint is violated, the schema does not compile, or
   the document is outside the modelled keyword family. *)
Theorem C14_never_out_of_fuel : forall doc v, doc_verdict doc v <> VFuel.
Proof. exact doc_verdict_never_out_of_fuel. Qed.
Print Assumptions C14_never_out_of_fuel.

Theorem C14_run_never_out_of_fuel : forall dl doc v, run_with dl doc v <> VFuel.
Proof. exact run_never_out_of_fuel. Qed.
Print Assumptions C14_run_never_out_of_fuel.

(* ---------- round 5: numbers are compared exactly ---------- *)

(* For integers n, m of any size and whatever the compiler's default draft, on the document
   {properties: {k: {<keyword>: m}}} and the values {k: n}: no rounding - n violates maximum m iff
   n > m, minimum m iff n < m, exclusiveMaximum m iff n >= m, exclusiveMinimum m iff n <= m,
   const m and enum [m] iff n <> m, enum [m; m'] iff n is neither. *)
Theorem C14_numeric_bounds_exact : forall dflt n m m',
  let v := VMap [("k", VNum n)] in
  run dflt (bound_doc "maximum" (VNum m)) v = (if (n <=? m)%Z then VOk else VViolation)
  /\ run dflt (bound_doc "minimum" (VNum m)) v = (if (m <=? n)%Z then VOk else VViolation)
  /\ run dflt (bound_doc "exclusiveMaximum" (VNum m)) v = (if (n <? m)%Z then VOk else VViolation)
  /\ run dflt (bound_doc "exclusiveMinimum" (VNum m)) v = (if (m <? n)%Z then VOk else VViolation)
  /\ run dflt (bound_doc "const" (VNum m)) v = (if (n =? m)%Z then VOk else VViolation)
  /\ run dflt (bound_doc "enum" (VList [VNum m])) v = (if (n =? m)%Z then VOk else VViolation)
  /\ (m <> m' ->
      run dflt (bound_doc "enum" (VList [VNum m; VNum m'])) v = (if (n =? m)%Z || (n =? m')%Z then VOk else VViolation)).
Proof. exact numeric_bounds_exact. Qed.
Print Assumptions C14_numeric_bounds_exact.

Theorem C14_multipleOf_exact : forall dflt n m, (0 < m)%Z ->
  run dflt (bound_doc "multipleOf" (VNum m)) (VMap [("k", VNum n)])
  = (if (n mod m =? 0)%Z then VOk else VViolation).
Proof. exact multiple_of_exact. Qed.
Print Assumptions C14_multipleOf_exact.

(* beyond int64, long decimals, exponent spellings (numbers the harness prints by their spelling) *)
Example C14_big_number_examples :
  let k v := VMap [("k", v)] in
  doc_verdict (bound_doc "maximum" (VFlt "18446744073709551615")) (k (VFlt "18446744073709551616")) = VViolation
  /\ doc_verdict (bound_doc "maximum" (VFlt "18446744073709551615")) (k (VFlt "18446744073709551615")) = VOk
  /\ doc_verdict (bound_doc "maximum" (VNum 9007199254740992)) (k (VNum 9007199254740993)) = VViolation
  /\ doc_verdict (bound_doc "maximum" (VFlt "1000000000000000000000")) (k (VFlt "1000000000000000000001")) = VViolation
  /\ doc_verdict (bound_doc "maximum" (VFlt "1000000000000000000000")) (k (VFlt "1.0e+21")) = VOk
  /\ doc_verdict (bound_doc "maximum" (VFlt "0.1234567890123456789")) (k (VFlt "0.1234567890123456790")) = VViolation
  /\ doc_verdict (bound_doc "maximum" (VFlt "0.1234567890123456789")) (k (VFlt "0.12345678901234567890")) = VOk
  /\ doc_verdict (bound_doc "const" (VNum 1)) (k (VFlt "1.0")) = VOk
  /\ doc_verdict (bound_doc "const" (VNum 1)) (k (VFlt "1.0000000000000000001")) = VViolation
  /\ doc_verdict (bound_doc "type" (VStr "integer")) (k (VFlt "12300e-2")) = VOk
  /\ doc_verdict (bound_doc "type" (VStr "integer")) (k (VFlt "123e-1")) = VViolation
  /\ doc_verdict (bound_doc "multipleOf" (VFlt "0.01")) (k (VFlt "123456789012345678.915")) = VViolation
  /\ doc_verdict (bound_doc "multipleOf" (VNum 3)) (k (VNum 9007199254740993)) = VOk.
Proof. exact big_number_examples. Qed.
Print Assumptions C14_big_number_examples.

(* C14 — property theorems only: each closed by [exact] of a lemma proved in Values/GateProofs.v. *)
From Coq Require Import List String Bool ZArith.
From Helm Require Import Values.Tree Values.Schema Values.Scope Values.Deps Values.Gate Values.GateProofs.
Import ListNotations.
Local Open Scope string_scope.

(* ValidateAgainstSchema reports exactly the charts of the tree whose schema rejects their slice
   of the values ([Rejects]: the chart itself; or a kept subchart, on the table found under its
   name; or a subchart whose section is not a table). *)
Theorem C14_validate_tree_spec : forall c v n, In n (validate_tree c v) <-> Rejects c v n.
Proof. exact validate_tree_spec. Qed.
Print Assumptions C14_validate_tree_spec.

(* The gate of ToRenderValuesWithSchemaValidation fails with the schema error iff validation is
   not skipped and some chart of the (processed) tree has a schema rejecting its slice of the
   coalesced values. *)
Theorem C14_gate : forall c vals skip,
  (exists names, to_render_values c vals skip = RVSchemaErr names)
  <-> (skip = false /\ exists v n, CoalesceValues c vals = Ok v /\ Rejects c v n).
Proof. exact gate. Qed.
Print Assumptions C14_gate.

(* ... and the error names exactly those charts. *)
Theorem C14_gate_names : forall c vals skip names,
  to_render_values c vals skip = RVSchemaErr names ->
  skip = false /\ names <> [] /\
  exists v, CoalesceValues c vals = Ok v /\ forall n, In n names <-> Rejects c v n.
Proof. exact gate_names. Qed.
Print Assumptions C14_gate_names.

(* If every schema accepts, the schema step does not reject. *)
Theorem C14_no_false_reject : forall c vals skip v,
  CoalesceValues c vals = Ok v -> (forall n, ~ Rejects c v n) ->
  to_render_values c vals skip = RVOk v.
Proof. exact no_false_reject. Qed.
Print Assumptions C14_no_false_reject.

(* Skipping happens only through the explicit option: with skip the schema error is impossible
   (and by C14_gate, without it every violation is an error). *)
Theorem C14_skip_only_by_option : forall c vals names, to_render_values c vals true <> RVSchemaErr names.
Proof. exact skip_never_rejects. Qed.
Print Assumptions C14_skip_only_by_option.

(* Install: when the gate fails on the processed tree, the operation fails with that error and
   its effect trace holds no storage write and no mutating cluster call — for charts without
   crds/ (after disabling), or with skip-crds, client-only (template) or dry-run. *)
Theorem C14_nothing_sent_install : forall compat fl c vals c' names,
  process_dependencies compat c vals = Ok c' ->
  to_render_values c' vals (skip_schema fl) = RVSchemaErr names ->
  (has_crds c' = false \/ skip_crds fl = true \/ client_only fl = true \/ dry_run fl = true) ->
  exists tr, install_trace compat fl c vals = (tr, FailSchema names)
             /\ forallb (fun e => negb (mutating e)) tr = true.
Proof. exact install_nothing_sent. Qed.
Print Assumptions C14_nothing_sent_install.

Theorem C14_nothing_sent_upgrade : forall compat fl c vals c' names,
  process_dependencies compat c vals = Ok c' ->
  to_render_values c' vals (skip_schema fl) = RVSchemaErr names ->
  exists tr, upgrade_trace compat fl c vals = (tr, FailSchema names)
             /\ forallb (fun e => negb (mutating e)) tr = true.
Proof. exact upgrade_nothing_sent. Qed.
Print Assumptions C14_nothing_sent_upgrade.

(* Non-vacuity: a subchart required under the alias "web" whose schema (port: integer 1..65535,
   required) is violated through the parent's section; accepted with the defaults. *)
Example C14_gate_example :
  match process_dependencies (fun _ _ => true) (ex_top []) ex_vals with
  | Ok c' => to_render_values c' ex_vals false = RVSchemaErr ["web"]
             /\ to_render_values c' [] false
                = RVOk [("web", VMap [("global", VMap []); ("port", VNum 80)])]
             /\ (has_crds c' = false)
  | Err _ => False
  end.
Proof. exact gate_example. Qed.
Print Assumptions C14_gate_example.

(* The caveat outside the theorem's domain: CRDs from crds/ are sent to the cluster BEFORE the
   values are validated, so a real install of a chart with crds/ and violating values has
   already created the CRDs when it fails. *)
Example C14_crd_caveat :
  install_trace (fun _ _ => true) ex_flags (ex_top ["crds/crd.yaml"]) ex_vals
  = ([KIsReachable; SRead; KCreateCRDs; KGetCapabilities], FailSchema ["web"]).
Proof. exact crd_caveat. Qed.
Print Assumptions C14_crd_caveat.

Example C14_install_ok_example :
  install_trace (fun _ _ => true) ex_flags (ex_top []) []
  = ([KIsReachable; SRead; KGetCapabilities; KBuild; KBuild; KCreateNamespace; SCreate; KWait; SUpdate], Done).
Proof. exact install_ok_example. Qed.
Print Assumptions C14_install_ok_example.

(* C19 — property theorems only: each closed by [exact] of a lemma proved elsewhere. *)
From Coq Require Import List String Bool.
From Helm Require Import Misc.Creds Misc.CredsProofs.
Import ListNotations.
Local Open Scope string_scope.

(* HTTPGetter.get calls SetBasicAuth exactly when the pass-credentials flag is on or scheme
   and host(:port) of the configured URL and of the requested URL are equal as net/url
   reports them — and user name and password are both non-empty. *)
Theorem C19_getter_same_origin :
  forall (parse : string -> option url) (o : gopts) (href : string) (c : cred),
    getter_get parse o href = GReq (Some c) <->
    exists u1 u2, parse (g_url o) = Some u1 /\ parse href = Some u2 /\
      (g_pass_all o = true \/ (u_scheme u1 = u_scheme u2 /\ u_host u1 = u_host u2)) /\
      g_user o <> "" /\ g_pass o <> "" /\ c = Cred (g_user o) (g_pass o) (g_src o).
Proof. exact getter_get_auth_iff. Qed.
Print Assumptions C19_getter_same_origin.

(* no configured URL: url.Parse("") is the empty URL, so nothing is attached to a request
   that has a scheme unless pass-credentials is on *)
Theorem C19_getter_no_url :
  forall (parse : string -> option url) o href u2 c,
    parse (g_url o) = Some (mkUrl "" "" "" None "") -> parse href = Some u2 ->
    u_scheme u2 <> "" ->
    getter_get parse o href = GReq (Some c) -> g_pass_all o = true.
Proof. exact getter_get_no_url. Qed.
Print Assumptions C19_getter_no_url.

(* ------------------------------------------------------------------ the call paths
   [so parse a b]: a and b parse to URLs of equal scheme and host(:port).
   A credential may reach a URL if it is a repository entry's own pair and that entry has
   pass-credentials on or its URL is same-origin with the request (repo_cred_ok), or it is the
   caller's / command-line pair and the caller's pass-credentials is on or the URL is same-
   origin with the repository the pair was configured for (caller_cred_ok; the ghost tag).
   Hypotheses (all about library code, each checked by the harness on every case):
   URL.String() re-parses to the same scheme and host; so does String()+".prov" for a URL
   with a path; urlutil.Equal implies same scheme and host; FindChartInRepoURL and
   normalizeURL return absolute URLs with host and path. *)
Theorem C19_paths_scope :
  forall (parse : string -> option url) (url_equal : string -> string -> bool)
         (lookup : entry -> string -> string -> option string) (index_url : string -> option string)
         (find_in : string -> string -> string -> option string)
         (dep_url : entry -> string -> string -> string -> option string),
    (forall s u, parse s = Some u -> so parse s (u_str u)) ->
    (forall s u, parse s = Some u -> nonempty (u_path u) = true -> so parse s (u_str u ++ ".prov")) ->
    (forall r n v cu u, find_in r n v = Some cu -> parse cu = Some u -> abs3 u = true) ->
    (forall cr d n v cu u, dep_url cr d n v = Some cu -> parse cu = Some u -> abs3 u = true) ->
    (forall a b ua, url_equal a b = true -> parse a = Some ua -> so parse a b) ->
    (* ChartRepository.DownloadIndexFile *)
    (forall e href c, In (href, GReq (Some c)) (download_index parse index_url e) ->
       c = Cred (e_user e) (e_pass e) (e_url e) /\ has_creds e = true /\ (e_pass_all e = true \/ so parse (e_url e) href))
    (* ChartDownloader.DownloadTo / ResolveChartVersion, all three branches *)
    /\ (forall copts ref ver repos wp ok href c,
          (has_c (apply_opts gopts0 copts) = true -> g_pass_all (apply_opts gopts0 copts) = false ->
           forall u0, parse ref = Some u0 ->
             if abs3 u0 then so parse (g_src (apply_opts gopts0 copts)) ref
             else forall rn cn rc, split_slash (u_path u0) = Some (rn, cn) -> pick_by_name rn repos = Some rc ->
                                   g_src (apply_opts gopts0 copts) = e_url rc) ->
          In (href, GReq (Some c)) (download_to parse url_equal lookup copts ref ver repos wp ok) ->
          caller_cred_ok parse (apply_opts gopts0 copts) c href \/ repo_cred_ok parse repos c href)
    (* ChartPathOptions.LocateChart, with and without --repo *)
    /\ (forall c name repos ok href cr,
          In (href, GReq (Some cr)) (locate_chart parse url_equal lookup index_url find_in c name repos ok) ->
          caller_cred_ok parse (cli_opts parse c name repos) cr href \/ repo_cred_ok parse repos cr href)
    (* Pull.Run (after repair 6d7787e) *)
    /\ (forall c name repos wp ok href cr,
          In (href, GReq (Some cr)) (pull parse url_equal lookup index_url find_in c name repos wp ok) ->
          caller_cred_ok parse (cli_opts parse c name repos) cr href \/ repo_cred_ok parse repos cr href)
    (* Manager.findChartURL -> DownloadTo (after repair 0ca3ebf) *)
    /\ (forall dep_repo name ver repos wp ok href cr,
          In (href, GReq (Some cr)) (manager_dep parse url_equal lookup index_url find_in dep_url dep_repo name ver repos wp ok) ->
          repo_cred_ok parse repos cr href).
Proof. exact paths_scope. Qed.
Print Assumptions C19_paths_scope.

(* the two repaired call paths did violate the statement: witnesses on the unrepaired models *)
Theorem C19_pull_unrepaired_refuted :
  In ("https://cdn.other.test/a-1.0.0.tgz", GReq (Some (Cred "user-cli" "pw-cli" "https://private.corp.test/charts")))
     (pull_unrepaired ex_parse String.eqb (fun _ _ _ => None) ex_index_url (fun _ _ _ => Some "https://cdn.other.test/a-1.0.0.tgz")
        ex_cpo "a" [] false true).
Proof. exact pull_unrepaired_refuted. Qed.
Print Assumptions C19_pull_unrepaired_refuted.

Theorem C19_manager_unrepaired_refuted :
  In ("https://public.example/charts/a-1.0.0.tgz", GReq (Some (Cred "user-private" "pw-private" "https://private.corp.test/charts")))
     (manager_dep_unrepaired ex_parse String.eqb (fun _ _ _ => None) ex_index_url (fun _ _ _ => None)
        (fun _ _ _ _ => Some "https://public.example/charts/a-1.0.0.tgz")
        "https://private.corp.test/charts" "a" "1.0.0" [ex_public; ex_private] false true).
Proof. exact manager_unrepaired_refuted. Qed.
Print Assumptions C19_manager_unrepaired_refuted.

(* non-vacuity: with the example parser (which meets the URL hypotheses) a named reference
   to the private repository does carry its credentials to its own host and to no other *)
Example C19_paths_example :
  download_to ex_parse String.eqb (fun _ _ _ => Some "https://private.corp.test/charts/a-1.0.0.tgz") [] "private/a" "" [ex_public; ex_private] false true
  = [("https://private.corp.test/charts/a-1.0.0.tgz", GReq (Some (Cred "user-private" "pw-private" "https://private.corp.test/charts")))]
  /\ download_to ex_parse String.eqb (fun _ _ _ => Some "https://cdn.other.test/a-1.0.0.tgz") [] "private/a" "" [ex_public; ex_private] false true
  = [("https://cdn.other.test/a-1.0.0.tgz", GReq None)].
Proof. exact paths_example. Qed.
Print Assumptions C19_paths_example.

Example C19_hypotheses_example :
  (forall s u, ex_parse s = Some u -> so ex_parse s (u_str u)) /\
  (forall a b ua, String.eqb a b = true -> ex_parse a = Some ua -> so ex_parse a b).
Proof. exact ex_hypotheses. Qed.
Print Assumptions C19_hypotheses_example.

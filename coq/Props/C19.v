(* C19 — property theorems only: each closed by [exact] of a lemma proved elsewhere. *)
From Coq Require Import List String Bool.
From Helm Require Import Misc.Creds Misc.CredsProofs.
Import ListNotations.
Local Open Scope string_scope.

(* HTTPGetter.get calls SetBasicAuth exactly when the pass-credentials flag is on or scheme
   and host(:port) of the configured URL and of the requested URL are equal as net/url
   reports them — and user name and password are both non-empty. *)
Theorem C19_getter_same_origin :
  forall (parse : string -> option url) (o : gopts) (href : string) (c : cred),
    getter_get parse o href = GReq (Some c) <->
    exists u1 u2, parse (g_url o) = Some u1 /\ parse href = Some u2 /\
      (g_pass_all o = true \/ (u_scheme u1 = u_scheme u2 /\ u_host u1 = u_host u2)) /\
      g_user o <> "" /\ g_pass o <> "" /\ c = Cred (g_user o) (g_pass o) (g_src o).
Proof. exact getter_get_auth_iff. Qed.
Print Assumptions C19_getter_same_origin.

(* no configured URL: url.Parse("") is the empty URL, so nothing is attached to a request
   that has a scheme unless pass-credentials is on *)
Theorem C19_getter_no_url :
  forall (parse : string -> option url) o href u2 c,
    parse (g_url o) = Some (mkUrl "" "" "" None "") -> parse href = Some u2 ->
    u_scheme u2 <> "" ->
    getter_get parse o href = GReq (Some c) -> g_pass_all o = true.
Proof. exact getter_get_no_url. Qed.
Print Assumptions C19_getter_no_url.

(* C19 — property theorems only: each closed by [exact] of a lemma proved elsewhere. *)
From Coq Require Import List String Ascii Bool.
From Helm Require Import Misc.Creds Misc.CredsProofs Misc.CredsUrl Misc.CredsUrlProofs Misc.CredsRedirect Misc.CredsRedirectProofs
  Misc.CredsSrc Gen.C19Origin Misc.CredsSrcProofs Misc.CredsEndToEnd.
Import ListNotations.
Local Open Scope string_scope.

(* HTTPGetter.get calls SetBasicAuth exactly when the pass-credentials flag is on or scheme
   and host(:port) of the configured URL and of the requested URL are equal as net/url
   reports them — and user name and password are both non-empty. *)
Theorem C19_getter_same_origin :
  forall (parse : string -> option url) (o : gopts) (href : string) (c : cred),
    getter_get parse o href = GReq (Some c) <->
    exists u1 u2, parse (g_url o) = Some u1 /\ parse href = Some u2 /\
      (g_pass_all o = true \/ (u_scheme u1 = u_scheme u2 /\ u_host u1 = u_host u2)) /\
      g_user o <> "" /\ g_pass o <> "" /\ c = Cred (g_user o) (g_pass o) (g_src o).
Proof. exact getter_get_auth_iff. Qed.
Print Assumptions C19_getter_same_origin.

(* no configured URL: url.Parse("") is the empty URL, so nothing is attached to a request
   that has a scheme unless pass-credentials is on *)
Theorem C19_getter_no_url :
  forall (parse : string -> option url) o href u2 c,
    parse (g_url o) = Some (mkUrl "" "" "" None "") -> parse href = Some u2 ->
    u_scheme u2 <> "" ->
    getter_get parse o href = GReq (Some c) -> g_pass_all o = true.
Proof. exact getter_get_no_url. Qed.
Print Assumptions C19_getter_no_url.

(* ------------------------------------------------------------------ the call paths
   [so parse a b]: a and b parse to URLs of equal scheme and host(:port).
   A credential may reach a URL if it is a repository entry's own pair and that entry has
   pass-credentials on or its URL is same-origin with the request (repo_cred_ok), or it is the
   caller's / command-line pair and the caller's pass-credentials is on or the URL is same-
   origin with the repository the pair was configured for (caller_cred_ok; the ghost tag).
   Hypotheses (all about library code, each checked by the harness on every case):
   URL.String() re-parses to the same scheme and host; so does String()+".prov" for a URL
   with a path; urlutil.Equal implies same scheme and host; FindChartInRepoURL and
   normalizeURL return absolute URLs with host and path. *)
Theorem C19_paths_scope :
  forall (parse : string -> option url) (url_equal : string -> string -> bool)
         (lookup : entry -> string -> string -> option string) (index_url : string -> option string)
         (find_in : string -> string -> string -> option string)
         (dep_url : entry -> string -> string -> string -> option string),
    (forall s u, parse s = Some u -> so parse s (u_str u)) ->
    (forall s u, parse s = Some u -> nonempty (u_path u) = true -> so parse s (u_str u ++ ".prov")) ->
    (forall r n v cu u, find_in r n v = Some cu -> parse cu = Some u -> abs3 u = true) ->
    (forall cr d n v cu u, dep_url cr d n v = Some cu -> parse cu = Some u -> abs3 u = true) ->
    (forall a b ua, url_equal a b = true -> parse a = Some ua -> so parse a b) ->
    (* ChartRepository.DownloadIndexFile *)
    (forall e href c, In (href, GReq (Some c)) (download_index parse index_url e) ->
       c = Cred (e_user e) (e_pass e) (e_url e) /\ has_creds e = true /\ (e_pass_all e = true \/ so parse (e_url e) href))
    (* ChartDownloader.DownloadTo / ResolveChartVersion, all three branches *)
    /\ (forall copts ref ver repos wp ok href c,
          (has_c (apply_opts gopts0 copts) = true -> g_pass_all (apply_opts gopts0 copts) = false ->
           forall u0, parse ref = Some u0 ->
             if abs3 u0 then so parse (g_src (apply_opts gopts0 copts)) ref
             else forall rn cn rc, split_slash (u_path u0) = Some (rn, cn) -> pick_by_name rn repos = Some rc ->
                                   g_src (apply_opts gopts0 copts) = e_url rc) ->
          In (href, GReq (Some c)) (download_to parse url_equal lookup copts ref ver repos wp ok) ->
          caller_cred_ok parse (apply_opts gopts0 copts) c href \/ repo_cred_ok parse repos c href)
    (* ChartPathOptions.LocateChart, with and without --repo *)
    /\ (forall c name repos ok href cr,
          In (href, GReq (Some cr)) (locate_chart parse url_equal lookup index_url find_in c name repos ok) ->
          caller_cred_ok parse (cli_opts parse c name repos) cr href \/ repo_cred_ok parse repos cr href)
    (* Pull.Run (after repair 6d7787e) *)
    /\ (forall c name repos wp ok href cr,
          In (href, GReq (Some cr)) (pull parse url_equal lookup index_url find_in c name repos wp ok) ->
          caller_cred_ok parse (cli_opts parse c name repos) cr href \/ repo_cred_ok parse repos cr href)
    (* Manager.findChartURL -> DownloadTo (after repair 0ca3ebf) *)
    /\ (forall dep_repo name ver repos wp ok href cr,
          In (href, GReq (Some cr)) (manager_dep parse url_equal lookup index_url find_in dep_url dep_repo name ver repos wp ok) ->
          repo_cred_ok parse repos cr href).
Proof. exact paths_scope. Qed.
Print Assumptions C19_paths_scope.

(* the two repaired call paths did violate the statement: witnesses on the unrepaired models *)
Theorem C19_pull_unrepaired_refuted :
  In ("https://cdn.other.test/a-1.0.0.tgz", GReq (Some (Cred "user-cli" "pw-cli" "https://private.corp.test/charts")))
     (pull_unrepaired ex_parse String.eqb (fun _ _ _ => None) ex_index_url (fun _ _ _ => Some "https://cdn.other.test/a-1.0.0.tgz")
        ex_cpo "a" [] false true).
Proof. exact pull_unrepaired_refuted. Qed.
Print Assumptions C19_pull_unrepaired_refuted.

Theorem C19_manager_unrepaired_refuted :
  In ("https://public.example/charts/a-1.0.0.tgz", GReq (Some (Cred "user-private" "pw-private" "https://private.corp.test/charts")))
     (manager_dep_unrepaired ex_parse String.eqb (fun _ _ _ => None) ex_index_url (fun _ _ _ => None)
        (fun _ _ _ _ => Some "https://public.example/charts/a-1.0.0.tgz")
        "https://private.corp.test/charts" "a" "1.0.0" [ex_public; ex_private] false true).
Proof. exact manager_unrepaired_refuted. Qed.
Print Assumptions C19_manager_unrepaired_refuted.

(* non-vacuity: with the example parser (which meets the URL hypotheses) a named reference
   to the private repository does carry its credentials to its own host and to no other *)
Example C19_paths_example :
  download_to ex_parse String.eqb (fun _ _ _ => Some "https://private.corp.test/charts/a-1.0.0.tgz") [] "private/a" "" [ex_public; ex_private] false true
  = [("https://private.corp.test/charts/a-1.0.0.tgz", GReq (Some (Cred "user-private" "pw-private" "https://private.corp.test/charts")))]
  /\ download_to ex_parse String.eqb (fun _ _ _ => Some "https://cdn.other.test/a-1.0.0.tgz") [] "private/a" "" [ex_public; ex_private] false true
  = [("https://cdn.other.test/a-1.0.0.tgz", GReq None)].
Proof. exact paths_example. Qed.
Print Assumptions C19_paths_example.

Example C19_hypotheses_example :
  (forall s u, ex_parse s = Some u -> so ex_parse s (u_str u)) /\
  (forall a b ua, String.eqb a b = true -> ex_parse a = Some ua -> so ex_parse a b).
Proof. exact ex_hypotheses. Qed.
Print Assumptions C19_hypotheses_example.

(* ================================================================== round 4 ==================
   (1) the origin comparison on URL STRINGS: net/url.Parse transcribed (Misc/CredsUrl.v, exact
       on every string without '%', compared with net/url on every run) *)

(* For EVERY string: the host url.Parse reports is made of host bytes only - no '/', '?', '#',
   '@', '\', blank or control byte - so it cannot hide a second authority. *)
Theorem C19_parsed_host_clean :
  forall s sc us h p, go_split s = SOk sc us h p ->
    mem_byte "/" h = false /\ mem_byte "?" h = false /\ mem_byte "#" h = false /\
    mem_byte "@" h = false /\ mem_byte "\" h = false /\ mem_byte " " h = false.
Proof. exact go_split_host_clean. Qed.
Print Assumptions C19_parsed_host_clean.

(* The URL grammar, generatively: scheme "://" [userinfo "@"] host rest.  For ALL components
   url.Parse accepts (any case in scheme and host, userinfo that may itself contain '@' and
   ':', IPv6 literal in brackets, trailing dot, empty port, any path / query / fragment after
   the authority) the parser recovers exactly: lower-cased scheme, userinfo, host AS SPELLED,
   path. *)
Theorem C19_url_grammar_split :
  forall sch ui h rest,
    valid_scheme sch = true -> valid_userinfo ui = true -> valid_host h = true -> valid_rest rest = true ->
    go_split (build_url sch ui h rest) = SOk (lower sch) ui h (path_of_rest rest)
    /\ in_grammar (build_url sch ui h rest) = true.
Proof. exact go_split_build. Qed.
Print Assumptions C19_url_grammar_split.

(* For ALL pairs of URL strings of that grammar (configured URL, requested URL): a request is
   made, and the configured pair is attached IFF pass-credentials is on or the schemes are
   equal up to case and the host[:port] parts are equal BYTE FOR BYTE - and user name and
   password are both non-empty.  (str_of = URL.String(), which plays no part here.) *)
Theorem C19_getter_on_url_strings :
  forall (str_of : string -> string) o sch1 ui1 h1 r1 sch2 ui2 h2 r2,
    valid_scheme sch1 = true -> valid_userinfo ui1 = true -> valid_host h1 = true -> valid_rest r1 = true ->
    valid_scheme sch2 = true -> valid_userinfo ui2 = true -> valid_host h2 = true -> valid_rest r2 = true ->
    g_url o = build_url sch1 ui1 h1 r1 ->
    (exists a, getter_get (go_parse str_of) o (build_url sch2 ui2 h2 r2) = GReq a) /\
    forall c,
    getter_get (go_parse str_of) o (build_url sch2 ui2 h2 r2) = GReq (Some c) <->
    ((g_pass_all o = true \/ (lower sch1 = lower sch2 /\ h1 = h2)) /\
     g_user o <> "" /\ g_pass o <> "" /\ c = Cred (g_user o) (g_pass o) (g_src o)).
Proof. exact getter_strings_iff. Qed.
Print Assumptions C19_getter_on_url_strings.

(* The property's direction at full strength (any parser): a pair is attached ONLY when
   pass-credentials is on or scheme, host name (case-insensitively) and effective port (default
   port filled in, as a number) of the two URLs are equal. *)
Theorem C19_attached_only_same_origin :
  forall (parse : string -> option url) o href c,
    getter_get parse o href = GReq (Some c) ->
    g_pass_all o = true \/
    exists u1 u2, parse (g_url o) = Some u1 /\ parse href = Some u2 /\ origin_of u1 = origin_of u2.
Proof. exact getter_attached_property_origin. Qed.
Print Assumptions C19_attached_only_same_origin.

(* The converse does NOT hold, in the safe direction: the code is stricter than the property.
   It compares url.Host byte for byte and so withholds the pair from requests to the
   repository's own origin spelled differently - one witness per normalisation it does not do
   (default port spelled out, on either side; host-name case; empty port; leading zero;
   bracketed IPv6 with default port): same origin, both URLs parse, credentials set,
   pass-credentials off, and the request goes out WITHOUT the pair. *)
Theorem C19_same_origin_not_always_attached_refuted :
  forallb converse_witness_ok
    [ ("http://h.test/charts", "http://h.test:80/charts/a.tgz");
      ("https://h.test:443/charts", "https://h.test/charts/a.tgz");
      ("http://h.test/charts", "http://H.test/charts/a.tgz");
      ("http://h.test/charts", "http://h.test:/charts/a.tgz");
      ("http://h.test:80/charts", "http://h.test:080/charts/a.tgz");
      ("http://[::1]/charts", "http://[::1]:80/charts/a.tgz") ] = true.
Proof. exact origin_converse_refuted. Qed.
Print Assumptions C19_same_origin_not_always_attached_refuted.

(* ... and it holds once both hosts are spelled in NORMAL FORM (nf_host name port: lower-case
   name, brackets exactly around a name that contains ':', and no port or a port without
   leading zero that is not the scheme's default): then equal origin means equal Host string,
   and a request to the repository's origin does get the pair. *)
Theorem C19_same_origin_attached_on_normal_forms :
  forall (parse : string -> option url) o href sc1 sc2 n1 p1 n2 p2 path1 path2 us1 us2 s1 s2,
    parse (g_url o) = Some (mkUrl sc1 (nf_host n1 p1) path1 us1 s1) ->
    parse href = Some (mkUrl sc2 (nf_host n2 p2) path2 us2 s2) ->
    nf_ok sc1 n1 p1 = true -> nf_ok sc2 n2 p2 = true ->
    origin_of (mkUrl sc1 (nf_host n1 p1) path1 us1 s1) = origin_of (mkUrl sc2 (nf_host n2 p2) path2 us2 s2) ->
    g_user o <> "" -> g_pass o <> "" ->
    getter_get parse o href = GReq (Some (Cred (g_user o) (g_pass o) (g_src o))).
Proof. exact getter_same_origin_attached_nf. Qed.
Print Assumptions C19_same_origin_attached_on_normal_forms.

Example C19_normal_form_examples :
  nf_ok "https" "repo.example" "8443" = true /\ nf_ok "http" "repo.example" "" = true /\ nf_ok "http" "::1" "8080" = true /\
  nf_ok "http" "repo.example" "80" = false /\ nf_ok "http" "Repo.example" "" = false /\ nf_ok "http" "repo.example" "080" = false /\
  valid_host (nf_host "repo.example" "8443") = true /\ valid_host (nf_host "::1" "8080") = true /\
  nf_host "::1" "8080" = "[::1]:8080".
Proof. exact nf_examples. Qed.
Print Assumptions C19_normal_form_examples.

(* the origin of the property tells the default port of the OTHER protocol apart: http://h:443
   is not http://h, https://h:80 is not https://h (what seeded change C19-7 conflated), while
   http://h:80 is http://H *)
Example C19_origin_other_default_port :
  origin_eqb (origin_of (mkUrl "http" "h.test:443" "" None "")) (origin_of (mkUrl "http" "h.test" "" None "")) = false /\
  origin_eqb (origin_of (mkUrl "https" "h.test:80" "" None "")) (origin_of (mkUrl "https" "h.test" "" None "")) = false /\
  origin_eqb (origin_of (mkUrl "http" "h.test:80" "" None "")) (origin_of (mkUrl "http" "H.TEST" "" None "")) = true.
Proof. exact origin_other_default_port_differs. Qed.
Print Assumptions C19_origin_other_default_port.

(* The provenance request: for EVERY URL string with a non-empty path, appending ".prov"
   leaves scheme, userinfo and host as they are (and "http://host" + ".prov" is the reason
   for the non-empty path: that would be the host "host.prov"). *)
Theorem C19_prov_suffix_same_origin :
  forall s sc us h p, go_split s = SOk sc us h p -> p <> "" ->
    exists p', go_split (s ++ ".prov") = SOk sc us h p' /\ p' <> "".
Proof. exact go_split_prov. Qed.
Print Assumptions C19_prov_suffix_same_origin.

Example C19_prov_suffix_needs_path :
  go_split "http://host" = SOk "http" None "host" "" /\ go_split ("http://host" ++ ".prov") = SOk "http" None "host.prov" "".
Proof. exact go_split_prov_needs_path. Qed.
Print Assumptions C19_prov_suffix_needs_path.

(* (2) every entry point, in terms of the property's origin (same hypotheses about library
   code as C19_paths_scope): a request carries a repository entry's own pair only if that
   entry has pass-credentials on or the request is on the origin of the entry's URL; the
   command-line pair only if the flag is on or the request is on the origin of the repository
   it was given for.  The .prov request is one of the requests; a chart URL that several
   repositories list is covered (fix 0ca3ebf). *)
Theorem C19_paths_origin :
  forall (parse : string -> option url) (url_equal : string -> string -> bool)
         (lookup : entry -> string -> string -> option string) (index_url : string -> option string)
         (find_in : string -> string -> string -> option string)
         (dep_url : entry -> string -> string -> string -> option string),
    (forall s u, parse s = Some u -> so parse s (u_str u)) ->
    (forall s u, parse s = Some u -> nonempty (u_path u) = true -> so parse s (u_str u ++ ".prov")) ->
    (forall r n v cu u, find_in r n v = Some cu -> parse cu = Some u -> abs3 u = true) ->
    (forall cr d n v cu u, dep_url cr d n v = Some cu -> parse cu = Some u -> abs3 u = true) ->
    (forall a b ua, url_equal a b = true -> parse a = Some ua -> so parse a b) ->
    (forall e href c, In (href, GReq (Some c)) (download_index parse index_url e) ->
       c = Cred (e_user e) (e_pass e) (e_url e) /\ has_creds e = true /\
       (e_pass_all e = true \/ same_prop_origin parse (e_url e) href))
    /\ (forall c name repos ok href cr,
          In (href, GReq (Some cr)) (locate_chart parse url_equal lookup index_url find_in c name repos ok) ->
          caller_cred_origin_ok parse (cli_opts parse c name repos) cr href \/ repo_cred_origin_ok parse repos cr href)
    /\ (forall c name repos wp ok href cr,
          In (href, GReq (Some cr)) (pull parse url_equal lookup index_url find_in c name repos wp ok) ->
          caller_cred_origin_ok parse (cli_opts parse c name repos) cr href \/ repo_cred_origin_ok parse repos cr href)
    /\ (forall dep_repo name ver repos wp ok href cr,
          In (href, GReq (Some cr)) (manager_dep parse url_equal lookup index_url find_in dep_url dep_repo name ver repos wp ok) ->
          repo_cred_origin_ok parse repos cr href).
Proof. exact paths_origin. Qed.
Print Assumptions C19_paths_origin.

(* The translator tie (Gen/C19Origin.v is read from /repo with go/ast on every run): the
   credential decision of each function, as the SOURCE computes it, equals the model's
   decision for EVERY assignment of the atoms (pass flag, scheme / host equality, user /
   password set, --repo given, parse errors, one more boolean for any other condition). *)
Theorem C19_source_decisions :
  (forall r, eval_c r getter_attach_src = getter_attach r) /\
  (forall r args, In args getter_attach_args_src -> map (eval_s r) args = [TUser; TPass]) /\
  (forall r, apply_slist (eval_l r locate_chart_options_src) = caller_sopts (locate_keep r) r) /\
  (forall r, apply_slist (eval_l r pull_run_options_src) = caller_sopts (pull_keep r) r) /\
  (forall r, apply_slist (eval_l r manager_download_all_options_src) = caller_sopts (manager_keep r) r) /\
  (forall r, map (fun l => apply_slist (eval_l r l)) resolve_returns_src =
             [sopts0; mkSO (Some TRef) None None; entry_sopts r; entry_sopts r]) /\
  download_to_gets_src = [("u.String()", 0, "c.Options"); ("u.String() + lit:.prov", 0, "")] /\
  (forall r, apply_slist (eval_l r download_index_options_src) = mkSO (Some TRepoUrl) (Some (TUser, TPass)) (Some (v_pass_all r))).
Proof.
  exact (conj getter_attach_source (conj getter_attach_args_source (conj locate_chart_source (conj pull_run_source
        (conj manager_download_all_source (conj resolve_returns_source (conj download_to_gets_source download_index_source))))))).
Qed.
Print Assumptions C19_source_decisions.

(* ... and the model's decisions are the model's definitions: the getter (so the condition
   read from the source decides getter_get), the dependency manager's scoped_creds, the tail
   ResolveChartVersion appends for a repository entry *)
Theorem C19_decisions_are_the_model :
  (forall parse o href u1 u2, parse (g_url o) = Some u1 -> parse href = Some u2 ->
     getter_get parse o href =
     if eval_c (getter_assignment o u1 u2) getter_attach_src
     then GReq (Some (Cred (g_user o) (g_pass o) (g_src o))) else GReq None) /\
  (forall parse dep_repo churl user pass pa,
     scoped_creds parse dep_repo churl user pass pa =
     if manager_keep (manager_assignment user pass pa (parse dep_repo) (parse churl)) then (user, pass) else ("", "")) /\
  (forall o rc,
     apply_opts o ((OUrl (e_url rc) :: OOther :: entry_cred_opts rc) ++ [OOther]) =
     overlay_entry o rc (entry_sopts (entry_assignment rc))).
Proof. exact (conj getter_get_source (conj scoped_creds_decision resolve_entry_decision)). Qed.
Print Assumptions C19_decisions_are_the_model.

(* LocateChart and Pull.Run after a --repo lookup: the option list handed to the downloader
   ends with the pair kept by locate_keep resp. with a blanking option unless pull_keep *)
Theorem C19_cli_decisions_are_the_model :
  (forall parse url_equal lookup index_url find_in c name repos ok chart_url u1 u2,
     nonempty (c_repo_url c) = true -> find_in (c_repo_url c) name (c_version c) = Some chart_url ->
     parse (c_repo_url c) = Some u1 -> parse chart_url = Some u2 ->
     locate_chart parse url_equal lookup index_url find_in c name repos ok =
     (download_index parse index_url (adhoc_entry (c_repo_url c) (c_user c) (c_pass c) (c_pass_all c)) ++
      download_to parse url_equal lookup
        ([OPassAll (c_pass_all c); OOther; OOther; OOther; OBasicAuth (c_user c) (c_pass c) (cmdline_src parse c name repos)]
         ++ [cli_pair c (cmdline_src parse c name repos) (locate_keep (cli_assignment c u1 u2))])
        chart_url (c_version c) repos (c_verify c) ok)%list) /\
  (forall parse url_equal lookup index_url find_in c name repos wp ok chart_url u1 u2,
     nonempty (c_repo_url c) = true -> find_in (c_repo_url c) name (c_version c) = Some chart_url ->
     parse (c_repo_url c) = Some u1 -> parse chart_url = Some u2 ->
     pull parse url_equal lookup index_url find_in c name repos wp ok =
     (download_index parse index_url (adhoc_entry (c_repo_url c) (c_user c) (c_pass c) (c_pass_all c)) ++
      download_to parse url_equal lookup
        ([OBasicAuth (c_user c) (c_pass c) (cmdline_src parse c name repos); OPassAll (c_pass_all c); OOther; OOther; OOther]
         ++ (if pull_keep (cli_assignment c u1 u2) then [] else [OBasicAuth "" "" ""]))
        chart_url (c_version c) repos wp ok)%list).
Proof. exact (conj locate_chart_decision pull_decision). Qed.
Print Assumptions C19_cli_decisions_are_the_model.

(* (3) redirects.  Helm installs no CheckRedirect; net/http's policy (Misc/CredsRedirect.v,
   compared with the real client on every run) composed with the getter's decision: every
   request of one Get - first hop and follow-ups - that carries the pair Helm attached is
   covered by pass-credentials, or the first hop is on the configured URL's scheme and
   host:port and the request is that first hop or has the configured host NAME or a
   sub-domain of it as its host name. *)
Theorem C19_redirects_scope :
  forall (parse : string -> option url) o href c u hops d,
    getter_get parse o href = GReq (Some c) -> parse href = Some u ->
    In (d, Some c) (combine (u :: hops) (Some c :: hop_auths u (Some c) hops)) ->
    g_pass_all o = true \/
    exists u1, parse (g_url o) = Some u1 /\ same_origin u1 u = true /\
               (d = u \/ is_domain_or_subdomain (hostname (u_host d)) (hostname (req_host (u_host u1))) = true).
Proof. exact get_with_redirects_scope. Qed.
Print Assumptions C19_redirects_scope.

(* isDomainOrSubdomain, readably: equal, or label "." parent (and no ':' / '%' in it) *)
Theorem C19_subdomain_spec :
  forall sub parent,
    is_domain_or_subdomain sub parent = true <->
    sub = parent \/ (mem_byte ":" sub = false /\ mem_byte "%" sub = false /\ exists label, sub = label ++ "." ++ parent).
Proof. exact is_domain_or_subdomain_spec. Qed.
Print Assumptions C19_subdomain_spec.

(* the clause the property text spells out - a redirect to an unrelated domain carries no
   Authorization header Helm attached, and neither does any later hop of that chain *)
Theorem C19_redirect_unrelated_stripped :
  forall initial a pre d post,
    should_copy (req_host (u_host initial)) d = false ->
    forall x c, In (x, Some c) (combine (pre ++ d :: post)%list (hop_auths initial a (pre ++ d :: post)%list)) -> In x pre.
Proof. exact redirect_unrelated_stripped. Qed.
Print Assumptions C19_redirect_unrelated_stripped.

(* What does NOT hold (known findings K-C19-1a/b/c, replayed on the real code on every run):
   a repository at https://repo.example with a pair and pass-credentials off; a redirect to
   another port, to plain http, or to a sub-domain is followed WITH the pair although the
   target's origin is not the repository's. *)
Theorem C19_redirect_related_refuted :
  k1_witness "https://repo.example:8443/_landed/a-1.0.0.tgz" = true /\
  k1_witness "http://repo.example:8080/_landed/a-1.0.0.tgz" = true /\
  k1_witness "https://cdn.repo.example/_landed/a-1.0.0.tgz" = true.
Proof. exact redirect_related_refuted. Qed.
Print Assumptions C19_redirect_related_refuted.

(* Several remote dependencies in one chart (Manager.downloadAll as a fold, the option list of
   each iteration built afresh): the requests made for dependency i - and the credentials on
   them - are manager_dep of ITS repository, name and version alone; they do not depend on
   the dependencies before it (all downloaded) or after it. *)
Theorem C19_dependency_credentials_independent :
  forall (parse : string -> option url) (url_equal : string -> string -> bool)
         (lookup : entry -> string -> string -> option string) (index_url : string -> option string)
         (find_in : string -> string -> string -> option string)
         (dep_url : entry -> string -> string -> string -> option string)
         pre dr n v ok post repos wp,
    forallb dep_ok pre = true ->
    download_all parse url_equal lookup index_url find_in dep_url (pre ++ (dr, n, v, ok) :: post)%list repos wp =
    (download_all parse url_equal lookup index_url find_in dep_url pre repos wp
     ++ manager_dep parse url_equal lookup index_url find_in dep_url dr n v repos wp ok
     ++ (if ok then download_all parse url_equal lookup index_url find_in dep_url post repos wp else []))%list.
Proof. exact download_all_independent. Qed.
Print Assumptions C19_dependency_credentials_independent.

(* ... so with any number of dependencies in any order every request that carries a pair
   carries a repository entry's own pair within that entry's scope *)
Theorem C19_dependencies_scope :
  forall (parse : string -> option url) (url_equal : string -> string -> bool)
         (lookup : entry -> string -> string -> option string) (index_url : string -> option string)
         (find_in : string -> string -> string -> option string)
         (dep_url : entry -> string -> string -> string -> option string),
    (forall s u, parse s = Some u -> so parse s (u_str u)) ->
    (forall s u, parse s = Some u -> nonempty (u_path u) = true -> so parse s (u_str u ++ ".prov")) ->
    (forall cr d n v cu u, dep_url cr d n v = Some cu -> parse cu = Some u -> abs3 u = true) ->
    (forall a b ua, url_equal a b = true -> parse a = Some ua -> so parse a b) ->
    forall deps repos wp href cr,
      In (href, GReq (Some cr)) (download_all parse url_equal lookup index_url find_in dep_url deps repos wp) ->
      repo_cred_ok parse repos cr href.
Proof. exact download_all_scope. Qed.
Print Assumptions C19_dependencies_scope.

(* the structural fact on the source side: the option list handed to DownloadTo is
   constructed on the way to the call (in downloadAll: inside the loop iteration), not
   appended to a slice that outlives it *)
Theorem C19_options_built_fresh_source :
  fresh_list manager_download_all_options_src = true /\
  fresh_list locate_chart_options_src = true /\ fresh_list pull_run_options_src = true.
Proof. exact options_fresh_source. Qed.
Print Assumptions C19_options_built_fresh_source.

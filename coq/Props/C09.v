(* C09 — property theorems only: each closed by [exact] of a lemma proved elsewhere.
   Subject: Engine/Conc.v [run] — any number of threads (the SAME program terms [install] /
   [upgrade] of Engine/Ops.v), EVERY schedule at single-effect granularity, EVERY cluster
   behaviour [kh] (so cluster faults are included), atomic storage calls.  [op_prog_fx] runs
   install as [OpsFix.install_fx] = Ops.install with the repaired replaceRelease (identical when
   --replace is off, [install_fx_eq]); upgrade is Ops.upgrade. *)
From Helm Require Props.Decisions. (* data conditions of the release operations tied to /repo by the translator: notes/DEC.md *)
From Coq Require Import List String Bool Arith.
From Helm Require Import Engine.Types Engine.Eff Engine.Ops Engine.OpsFix Engine.Cluster Engine.Seq Engine.SeqProofs
                         Engine.Conc Engine.ConcProofs Engine.ConcLocal Engine.ConcProofsB
                         Engine.ConcRG Engine.ConcRGProgs Engine.ConcPrune Engine.ConcC09 Engine.ConcGenC09
                         Engine.ConcStart Engine.ConcMix Engine.ConcPruneB.
From Helm Require Import Engine.DryRun Engine.DryOps Engine.ConcCrds.
From Helm Require Import Gen.PendingC09.
Import ListNotations.

(* Translator obligation: the set of statuses for which Helm's Status.IsPending (status.go,
   extracted with go/ast on every run into Gen/PendingC09.v) answers true is exactly the
   model's [is_pending] — pending-install, pending-upgrade AND pending-rollback: the lock of the
   protocol the theorems below rely on. *)
Theorem C09_pending_table :
  forall s : status, is_pending s = existsb (String.eqb (status_str s)) c09_pending_values.
Proof. exact pending_table_ok. Qed.
Print Assumptions C09_pending_table.

(* Totality: when [run] ends every thread has returned (the statements below are about
   quiescent states), and the gate-granularity runner that the harness replays is an
   instance of [run]. *)
Theorem C09_all_returned :
  forall (K : Type) (kh : forall e : eff, K -> K * resp e * list kev) (dresp : forall e, resp e) (A : Type)
         (ts : list (prog A)) (sch : list nat) (s : cstate K),
    Forall (is_ret A) (fst (run K kh dresp A ts sch s)).
Proof. exact run_all_ret. Qed.
Print Assumptions C09_all_returned.

Theorem C09_gated_schedules_are_schedules :
  forall (K : Type) (kh : forall e : eff, K -> K * resp e * list kev) (dresp : forall e, resp e) (A : Type)
         (ts : list (prog A)) (sch : list nat) (s : cstate K),
    exists sch', run_gated K kh dresp A ts sch s = run K kh dresp A ts sch' s.
Proof. exact run_gated_is_run. Qed.
Print Assumptions C09_gated_schedules_are_schedules.

(* Each revision is created by exactly one operation: for any number of concurrent installs
   (without --atomic, whose failure path purges the history) and upgrades (without history
   pruning), every schedule, every cluster behaviour, from any history with distinct revisions:
   at most one create per revision ever succeeded, every revision of the final ledger that was
   not there initially has exactly one creating thread, and created revisions are new and present. *)
Theorem C09_unique_creator :
  forall (K : Type) (kh : forall e : eff, K -> K * resp e * list kev) (dresp : forall e, resp e)
         (rn ns : string) (ops : list op) (sch : list nat) (l0 : list release) (k : K),
    Forall (fun o => match o with
                     | OpInstall fl _ _ _ _ => f_atomic fl = false
                     | OpUpgrade fl _ _ _ _ => f_max_history fl = 0
                     | _ => False
                     end) ops ->
    NoDup (revs l0) ->
    let res := run K kh dresp outcome (map (op_prog_fx rn ns) ops) sch (mkC l0 k []) in
    let tr := c_tr (snd res) in
    NoDup (created_revs tr)
    /\ (forall v, In v (revs (c_led (snd res))) -> ~ In v (revs l0) -> exists i, creators_of v tr = [i])
    /\ (forall v, In v (created_revs tr) -> ~ In v (revs l0) /\ In v (revs (c_led (snd res)))).
Proof. exact unique_creator. Qed.
Print Assumptions C09_unique_creator.

(* Losers are inert: an install or upgrade (ANY flags, manifest, hooks) running among ANY other
   threads performs every mutating cluster effect (create / update / delete of release
   resources) only after a create of ITS OWN that succeeded; hence a thread that created no
   revision made no cluster mutation, and if its create was answered "exists" it returns the
   already-exists error. *)
Theorem C09_losers_are_inert :
  forall (K : Type) (kh : forall e : eff, K -> K * resp e * list kev) (dresp : forall e, resp e)
         (rn ns : string) (ts : list (prog outcome)) (sch : list nat) (l : list release) (k : K)
         (i : nat) (o : op),
    nth_error ts i = Some (op_prog_fx rn ns o) ->
    match o with OpInstall _ _ _ _ _ | OpUpgrade _ _ _ _ _ => True | _ => False end ->
    let res := run K kh dresp outcome ts sch (mkC l k []) in
    let tr := c_tr (snd res) in
    mutations_guarded false (thread_events i tr) = true
    /\ (thread_created i tr = false ->
        thread_mutated i tr = false
        /\ (thread_refused i tr = true ->
            nth_error (outcomes outcome (fst res)) i = Some (Some (OErr EExistsRev)))).
Proof. exact losers_are_inert. Qed.
Print Assumptions C09_losers_are_inert.

(* ... an upgrade whose history read shows a pending last revision returns "another operation
   is in progress" having performed nothing but that read (on an empty history: "has no
   deployed releases") ... *)
Theorem C09_loser_sees_pending :
  forall (K : Type) (kh : forall e : eff, K -> K * resp e * list kev) (dresp : forall e, resp e)
         (rn ns : string) (ts : list (prog outcome)) (sch : list nat) (l : list release) (k : K)
         (i : nat) fl cid vid mani hks,
    nth_error ts i = Some (upgrade rn ns fl cid vid mani hks) ->
    let res := run K kh dresp outcome ts sch (mkC l k []) in
    let evs := thread_events i (c_tr (snd res)) in
    exists h, first_history evs = Some h
      /\ (forall last, max_rev_of h = Some last -> is_pending (st last) = true ->
            nth_error (outcomes outcome (fst res)) i = Some (Some (OErr EPending)) /\ List.length evs = 1)
      /\ (max_rev_of h = None ->
            nth_error (outcomes outcome (fst res)) i = Some (Some (OErr ENoDeployed)) /\ List.length evs = 1).
Proof. exact upgrade_loser_class. Qed.
Print Assumptions C09_loser_sees_pending.

(* ... and an install whose name check finds the name in use returns "cannot reuse a name
   that is still in use" having performed nothing but that read. *)
Theorem C09_loser_name_in_use :
  forall (K : Type) (kh : forall e : eff, K -> K * resp e * list kev) (dresp : forall e, resp e)
         (rn ns : string) (ts : list (prog outcome)) (sch : list nat) (l : list release) (k : K)
         (i : nat) fl cid vid mani hks,
    f_dry_run fl = false ->
    nth_error ts i = Some (install_fx rn ns fl cid vid mani hks) ->
    let res := run K kh dresp outcome ts sch (mkC l k []) in
    let evs := thread_events i (c_tr (snd res)) in
    exists h, first_history evs = Some h
      /\ (forall last, max_rev_of h = Some last ->
            f_replace fl && (status_eqb (st last) SUninstalled || status_eqb (st last) SFailed) = false ->
            nth_error (outcomes outcome (fst res)) i = Some (Some (OErr ENameInUse)) /\ List.length evs = 1).
Proof. exact install_loser_class. Qed.
Print Assumptions C09_loser_name_in_use.

(* Quiescent well-formedness — proved for ANY number of operations (not only two), over the
   FULL programs (no storage-skeleton fallback): installs without --replace and --atomic,
   upgrades without --atomic and history pruning, every schedule, every cluster behaviour,
   from any history with distinct revisions, at most one deployed, whose last revision is not
   pending (this covers the empty and every deployed history): at the end revisions are
   distinct and at most one is deployed. *)
Theorem C09_quiescent_wf :
  forall (K : Type) (kh : forall e : eff, K -> K * resp e * list kev) (dresp : forall e, resp e)
         (rn ns : string) (ops : list op) (sch : list nat) (l0 : list release) (k : K),
    Forall (fun o => match o with
                     | OpInstall fl _ _ _ _ => f_replace fl = false /\ f_atomic fl = false
                     | OpUpgrade fl _ _ _ _ => f_atomic fl = false /\ f_max_history fl = 0
                     | _ => False
                     end) ops ->
    NoDup (revs l0) -> count_deployed l0 <= 1 -> lock_free l0 = true ->
    let res := run K kh dresp outcome (map (op_prog_fx rn ns) ops) sch (mkC l0 k []) in
    NoDup (revs (c_led (snd res))) /\ count_deployed (c_led (snd res)) <= 1.
Proof. exact quiescent_wf. Qed.
Print Assumptions C09_quiescent_wf.

(* The excluded flags are excluded for a reason.  --replace: K1 of C01, which is sequential — ONE
   install --replace on a history whose last revision is failed and an older one is deployed
   (hypotheses met: distinct revisions, one deployed, last not pending) leaves two deployed. *)
Theorem C09_quiescent_wf_replace_refuted :
  exists (o : op) (l0 : list release),
    match o with OpInstall fl _ _ _ _ => f_atomic fl = false | _ => False end
    /\ NoDup (revs l0) /\ count_deployed l0 <= 1 /\ lock_free l0 = true
    /\ let res := run kstate (kube_handle "rel" "default") dead_resp outcome
                       [op_prog_fx "rel" "default" o] [] (mkC l0 (k0 x_objs) []) in
       outcomes outcome (fst res) = [Some OOk] /\ count_deployed (c_led (snd res)) = 2.
Proof.
  exists (OpInstall x_flR 4 4 [x_cm "a" "v4"] []), x_k1_led.
  split; [reflexivity|]. split; [repeat constructor; simpl; intuition discriminate|].
  split; [vm_compute; auto|]. split; [reflexivity|exact quiescent_wf_replace_refuted].
Qed.
Print Assumptions C09_quiescent_wf_replace_refuted.

(* K-C09-1, found here and repaired in /repo: with the program BEFORE the repair, install
   --replace racing a plain install of a fresh name makes both succeed with two deployed; with
   the repaired program the same schedule gives "another operation is in progress", no mutation. *)
Example C09_replace_race_before_fix :
  let res := run kstate (kube_handle "rel" "default") dead_resp outcome
                 (map (op_prog "rel" "default") x_replace_ops) x_replace_sched (mkC [] (k0 []) []) in
  outcomes outcome (fst res) = [Some OOk; Some OOk] /\ count_deployed (c_led (snd res)) = 2.
Proof. exact replace_race_before_fix. Qed.
Print Assumptions C09_replace_race_before_fix.

Example C09_replace_race_after_fix :
  let res := x_run x_replace_ops x_replace_sched [] (k0 []) in
  outcomes outcome (fst res) = [Some (OErr EPending); Some OOk] /\ count_deployed (c_led (snd res)) = 1
  /\ thread_mutated 0 (c_tr (snd res)) = false.
Proof. exact replace_race_after_fix. Qed.
Print Assumptions C09_replace_race_after_fix.

(* --atomic on upgrade: when the cluster rejects one request of the atomic upgrade, its
   automatic rollback (which does not check for a pending revision) races the other upgrade. *)
Theorem C09_quiescent_wf_atomic_refuted :
  exists (ops : list op) (sch : list nat) (l0 : list release) (k : kstate),
    Forall (fun o => match o with OpUpgrade fl _ _ _ _ => f_max_history fl = 0 | _ => False end) ops
    /\ NoDup (revs l0) /\ count_deployed l0 <= 1 /\ lock_free l0 = true
    /\ count_deployed (c_led (snd (run kstate (kube_handle "rel" "default") dead_resp outcome
                                     (map (op_prog_fx "rel" "default") ops) sch (mkC l0 k [])))) = 2.
Proof.
  exists x_atomic_ops, x_atomic_sched, x_dep, (mkK x_objs (Some (VCreate, "ConfigMap/c"%string)) None false).
  split; [repeat constructor|]. destruct x_ok_hyps as [_ [_ [H1 [H2 H3]]]].
  split; [exact H1|]. split; [exact H2|]. split; [exact H3|exact quiescent_wf_atomic_refuted].
Qed.
Print Assumptions C09_quiescent_wf_atomic_refuted.

(* Non-vacuity: concrete operations on a deployed history meet all hypotheses; interleaved in
   the window between reading the last revision and creating the next record, one wins and
   the other gets "already exists" without having touched the cluster; read while the
   winner's record is pending: "another operation is in progress"; install: name in use. *)
Example C09_hypotheses_met :
  Forall protocol_op x_ok_ops /\ Forall no_delete_op x_ok_ops
  /\ NoDup (revs x_dep) /\ count_deployed x_dep <= 1 /\ lock_free x_dep = true.
Proof. exact x_ok_hyps. Qed.
Print Assumptions C09_hypotheses_met.

Example C09_window_example :
  let res := x_run x_ok_ops x_ok_sched x_dep (k0 x_objs) in
  outcomes outcome (fst res) = [Some (OErr EExistsRev); Some OOk]
  /\ map (fun r => (rev r, st r)) (c_led (snd res)) = [(1, SSuperseded); (2, SSuperseded); (3, SDeployed)]
  /\ creations (c_tr (snd res)) = [(1, 3)]
  /\ thread_mutated 0 (c_tr (snd res)) = false /\ thread_refused 0 (c_tr (snd res)) = true.
Proof. exact x_ok_run. Qed.
Print Assumptions C09_window_example.

Example C09_pending_example :
  let res := x_run x_ok_ops [1; 1; 1; 0] x_dep (k0 x_objs) in
  outcomes outcome (fst res) = [Some (OErr EPending); Some OOk]
  /\ List.length (thread_events 0 (c_tr (snd res))) = 1.
Proof. exact x_pending_run. Qed.
Print Assumptions C09_pending_example.

Example C09_name_in_use_example :
  let res := x_run [OpInstall x_fl0 9 9 [x_cm "a" "v9"] []; OpUpgrade x_fl0 5 5 [x_cm "a" "v5"] []] [1; 0] x_dep (k0 x_objs) in
  outcomes outcome (fst res) = [Some (OErr ENameInUse); Some OOk]
  /\ List.length (thread_events 0 (c_tr (snd res))) = 1.
Proof. exact x_name_in_use_run. Qed.
Print Assumptions C09_name_in_use_example.

(* Three concurrent operations (the quiescence theorem is for any number): upgrade | install |
   upgrade meet the hypotheses; one wins, one gets "exists", the install "name in use". *)
Example C09_three_operations_example :
  (Forall protocol_op x_three_ops /\ Forall no_delete_op x_three_ops)
  /\ let res := x_run x_three_ops x_three_sched x_dep (k0 x_objs) in
     outcomes outcome (fst res) = [Some (OErr EExistsRev); Some (OErr ENameInUse); Some OOk]
     /\ map (fun r => (rev r, st r)) (c_led (snd res)) = [(1, SSuperseded); (2, SSuperseded); (3, SDeployed)]
     /\ creations (c_tr (snd res)) = [(2, 3)].
Proof. exact (conj x_three_hyps x_three_run). Qed.
Print Assumptions C09_three_operations_example.

(* Unique creator when deletes are possible (install --atomic purges its own history on failure;
   history pruning): for ANY programs, every schedule, every cluster: creations that are still
   live (not retired by a successful delete of the revision) have distinct revisions, are in the
   ledger, and every revision of the ledger is initial or has one — a revision is never created
   twice without a successful delete in between. *)
Theorem C09_live_creator_unique :
  forall (K : Type) (kh : forall e : eff, K -> K * resp e * list kev) (dresp : forall e, resp e)
         (ts : list (prog outcome)) (sch : list nat) (l0 : list release) (k : K),
    let res := run K kh dresp outcome ts sch (mkC l0 k []) in
    let live := map snd (live_creations (c_tr (snd res))) in
    NoDup live
    /\ (forall v, In v live -> In v (revs (c_led (snd res))))
    /\ (forall v, In v (revs (c_led (snd res))) -> In v (revs l0) \/ In v live).
Proof. exact live_creator_unique. Qed.
Print Assumptions C09_live_creator_unique.

(* ... and the trace-level form of C09_unique_creator is false for install --atomic: a failed
   atomic install (one rejected cluster request) purges its record, a later install creates
   revision 1 again (replayed on the real code: corpus case "atomic install purges"). *)
Theorem C09_unique_creator_atomic_install_refuted :
  exists (ops : list op) (sch : list nat) (k : kstate),
    let res := run kstate (kube_handle "rel" "default") dead_resp outcome
                   (map (op_prog_fx "rel" "default") ops) sch (mkC [] k []) in
    creations (c_tr (snd res)) = [(0, 1); (1, 1)] /\ live_creations (c_tr (snd res)) = [(1, 1)].
Proof.
  exists x_atomic_install_ops, [0; 0; 0; 0; 0; 0; 0; 0; 0; 0; 0; 0], (mkK [] (Some (VCreate, "ConfigMap/a"%string)) None false).
  destruct unique_creator_atomic_install_refuted as [H1 [H2 _]]. split; assumption.
Qed.
Print Assumptions C09_unique_creator_atomic_install_refuted.

(* Pruning window, true form: whatever an upgrade --max-history N thread deletes (among any
   threads, every schedule, every cluster) is a revision v such that the thread's own latest
   history read contains at least N-1 revisions numbered >= v. *)
Theorem C09_pruning_window :
  forall (K : Type) (kh : forall e : eff, K -> K * resp e * list kev) (dresp : forall e, resp e)
         (rn ns : string) (ts : list (prog outcome)) (sch : list nat) (l : list release) (k : K)
         (i : nat) fl cid vid mani hks,
    nth_error ts i = Some (upgrade rn ns fl cid vid mani hks) ->
    deletes_justified (f_max_history fl - 1) None
      (thread_events i (c_tr (snd (run K kh dresp outcome ts sch (mkC l k []))))).
Proof. exact upgrade_prunes_old. Qed.
Print Assumptions C09_pruning_window.

(* ... the form stated in DESIGN.md ("at least N intervening COMPLETED operations") is false:
   max-history 2, no operation completes in between — the stale upgrade prunes the other
   upgrade's pending revision 3 and creates revision 3 itself (seen on the real code). *)
Theorem C09_pruning_window_refuted :
  let res := run_gated kstate (kube_handle "rel" "default") dead_resp outcome
                 (map (op_prog_fx "rel" "default") x_prune_ops) x_prune_sched (mkC x_prune_led (k0 x_objs) []) in
  creations (c_tr (snd res)) = [(1, 3); (0, 3)]
  /\ live_creations (c_tr (snd res)) = [(0, 3)]
  /\ nth_error (outcomes outcome (fst res)) 1 = Some (Some (OErr EOtherErr)).
Proof. exact pruning_window_refuted. Qed.
Print Assumptions C09_pruning_window_refuted.

(* ================================================================== *)
(* Round 4 *)

(* The harness launches every operation up to its first gate (in index order) before the gate
   schedule starts ([run_started], what Run/RunC09.v evaluates; an operation without any gate —
   install --dry-run — has returned by then): still [run] on an expanded schedule. *)
Theorem C09_started_schedules_are_schedules :
  forall (K : Type) (kh : forall e : eff, K -> K * resp e * list kev) (dresp : forall e, resp e) (A : Type)
         (ts : list (prog A)) (sch : list nat) (s : cstate K),
    exists sch', run_started K kh dresp A ts sch s = run K kh dresp A ts sch' s.
Proof. exact run_started_is_run. Qed.
Print Assumptions C09_started_schedules_are_schedules.

(* The lock path does not depend on any flag: for ALL flag records the first effect of upgrade is
   the history read and a pending last revision ends it at once with "another operation is in
   progress" (there is nothing like --force in the model that could switch the check off; the Go
   condition is tied to [is_pending (st last)] for all values of all option fields by the decision
   translator, notes/DEC.md); for install only --dry-run and --replace matter to the name check. *)
Theorem C09_pending_check_all_flags :
  forall rn ns fl cid vid mani hks,
    exists k, upgrade rn ns fl cid vid mani hks = Eff SHistory k
      /\ forall h last, max_rev_of h = Some last -> is_pending (st last) = true -> k h = Ret (OErr EPending).
Proof. exact upgrade_pending_check_all_flags. Qed.
Print Assumptions C09_pending_check_all_flags.

Theorem C09_name_check_all_flags :
  forall rn ns fl cid vid mani hks,
    f_dry_run fl = false ->
    exists k, install_fx rn ns fl cid vid mani hks = Eff SHistory k
      /\ forall h last, max_rev_of h = Some last ->
           f_replace fl && (status_eqb (st last) SUninstalled || status_eqb (st last) SFailed) = false ->
           k h = Ret (OErr ENameInUse).
Proof. exact install_name_check_all_flags. Qed.
Print Assumptions C09_name_check_all_flags.

(* MIXES: a rollback or an uninstall running beside the install / upgrade operations (outside the
   property text, which speaks of "several install or upgrade operations").  What still holds for
   every schedule, every cluster behaviour and any number of operations: *)

(* ... each revision has exactly one creator, also when rollbacks (without history pruning) and
   uninstalls --keep-history take part (for ANY programs, deletes included: C09_live_creator_unique) *)
Theorem C09_mix_unique_creator :
  forall (K : Type) (kh : forall e : eff, K -> K * resp e * list kev) (dresp : forall e, resp e)
         (rn ns : string) (ops : list op) (sch : list nat) (l0 : list release) (k : K),
    Forall (fun o => match o with
                     | OpInstall fl _ _ _ _ => f_atomic fl = false
                     | OpUpgrade fl _ _ _ _ => f_max_history fl = 0
                     | OpRollback fl => f_max_history fl = 0
                     | OpUninstall fl => f_keep_history fl = true \/ f_dry_run fl = true
                     end) ops ->
    NoDup (revs l0) ->
    let res := run K kh dresp outcome (map (op_prog_fx rn ns) ops) sch (mkC l0 k []) in
    let tr := c_tr (snd res) in
    NoDup (created_revs tr)
    /\ (forall v, In v (revs (c_led (snd res))) -> ~ In v (revs l0) -> exists i, creators_of v tr = [i])
    /\ (forall v, In v (created_revs tr) -> ~ In v (revs l0) /\ In v (revs (c_led (snd res)))).
Proof. exact mix_unique_creator. Qed.
Print Assumptions C09_mix_unique_creator.

(* ... the stored revisions are distinct at the end — for ANY programs whatsoever *)
Theorem C09_mix_revisions_distinct :
  forall (K : Type) (kh : forall e : eff, K -> K * resp e * list kev) (dresp : forall e, resp e) (A : Type)
         (ts : list (prog A)) (sch : list nat) (s : cstate K),
    NoDup (revs (c_led s)) -> NoDup (revs (c_led (snd (run K kh dresp A ts sch s)))).
Proof. exact run_revisions_unique. Qed.
Print Assumptions C09_mix_revisions_distinct.

(* ... an install, an upgrade AND a rollback (any flags) among ANY other threads mutate the cluster
   only after a create of their own that succeeded; refused create => already-exists *)
Theorem C09_mix_losers_are_inert :
  forall (K : Type) (kh : forall e : eff, K -> K * resp e * list kev) (dresp : forall e, resp e)
         (rn ns : string) (ts : list (prog outcome)) (sch : list nat) (l : list release) (k : K)
         (i : nat) (o : op),
    nth_error ts i = Some (op_prog_fx rn ns o) ->
    match o with OpUninstall _ => False | _ => True end ->
    let res := run K kh dresp outcome ts sch (mkC l k []) in
    let tr := c_tr (snd res) in
    mutations_guarded false (thread_events i tr) = true
    /\ (thread_created i tr = false ->
        thread_mutated i tr = false
        /\ (thread_refused i tr = true ->
            nth_error (outcomes outcome (fst res)) i = Some (Some (OErr EExistsRev)))).
Proof. exact mix_losers_are_inert. Qed.
Print Assumptions C09_mix_losers_are_inert.

(* What does NOT survive a mix: "at most one deployed revision".  An explicit rollback racing an
   upgrade, NO cluster fault (Rollback never looks at the pending status: the mechanism of K-C09-2
   without --atomic): both succeed, revisions 3 and 4 deployed.  Replayed on the real code (corpus). *)
Theorem C09_mix_rollback_refuted :
  let res := x_run x_rb_ops x_rb_sched x_dep (k0 x_objs) in
  outcomes outcome (fst res) = [Some OOk; Some OOk]
  /\ map (fun r => (rev r, st r)) (c_led (snd res)) = [(1, SSuperseded); (2, SSuperseded); (3, SDeployed); (4, SDeployed)]
  /\ creations (c_tr (snd res)) = [(1, 3); (0, 4)].
Proof. exact mix_rollback_refuted. Qed.
Print Assumptions C09_mix_rollback_refuted.

(* Two upgrades and an uninstall --keep-history: the uninstall overwrites the first upgrade's pending
   record with "uninstalling" — NOT a pending status — so the second upgrade passes the pending check:
   revisions 3 and 4 deployed.  Replayed on the real code (corpus). *)
Theorem C09_mix_uninstall_refuted :
  let res := x_run x_un_ops x_un_sched x_dep (k0 x_objs) in
  outcomes outcome (fst res) = [Some OOk; Some OOk; Some OOk]
  /\ map (fun r => (rev r, st r)) (c_led (snd res)) = [(1, SSuperseded); (2, SSuperseded); (3, SDeployed); (4, SDeployed)]
  /\ creations (c_tr (snd res)) = [(0, 3); (1, 4)].
Proof. exact mix_uninstall_refuted. Qed.
Print Assumptions C09_mix_uninstall_refuted.

Example C09_mix_uninstalling_not_pending :
  is_pending SUninstalling = false
  /\ let res := x_run [OpUninstall x_flK; OpUpgrade x_fl0 6 6 [x_cm "b" "v6"] []] [0; 0; 1; 1; 1] x_dep (k0 x_objs) in
     outcomes outcome (fst res) = [Some OOk; Some (OErr ENoDeployed)]
     /\ thread_created 1 (c_tr (snd res)) = false /\ thread_mutated 1 (c_tr (snd res)) = false.
Proof. exact mix_uninstalling_not_pending. Qed.
Print Assumptions C09_mix_uninstalling_not_pending.

Example C09_mix_hypotheses_met :
  Forall (no_delete_mix) x_rb_ops /\ Forall (no_delete_mix) x_un_ops.
Proof. exact x_mix_hyps. Qed.
Print Assumptions C09_mix_hypotheses_met.

(* PRUNING under concurrency (upgrade --max-history N among ANY other threads, every schedule, every
   cluster behaviour).  Thread-local, all flags: whatever the thread deletes is not the revision that
   its OWN latest deployed-read named as the deployed one ... *)
Theorem C09_pruning_spares_own_deployed :
  forall (K : Type) (kh : forall e : eff, K -> K * resp e * list kev) (dresp : forall e, resp e)
         (rn ns : string) (ts : list (prog outcome)) (sch : list nat) (l : list release) (k : K)
         (i : nat) fl cid vid mani hks,
    nth_error ts i = Some (upgrade rn ns fl cid vid mani hks) ->
    deletes_spare None (thread_events i (c_tr (snd (run K kh dresp outcome ts sch (mkC l k []))))).
Proof. exact run_upgrade_spares_deployed. Qed.
Print Assumptions C09_pruning_spares_own_deployed.

(* ... and with a limit of at least 3 it is never the newest revision of its own latest history read
   — so it is never another operation's pending record (the lock), which is the highest revision. *)
Theorem C09_pruning_spares_newest :
  forall (K : Type) (kh : forall e : eff, K -> K * resp e * list kev) (dresp : forall e, resp e)
         (rn ns : string) (ts : list (prog outcome)) (sch : list nat) (l : list release) (k : K)
         (i : nat) fl cid vid mani hks,
    nth_error ts i = Some (upgrade rn ns fl cid vid mani hks) -> 3 <= f_max_history fl ->
    deletes_spare_newest None (thread_events i (c_tr (snd (run K kh dresp outcome ts sch (mkC l k []))))).
Proof. exact run_upgrade_spares_newest. Qed.
Print Assumptions C09_pruning_spares_newest.

(* Global: ANY number k of concurrent upgrades with limits 1 <= N_i <= N (any other flags except
   --atomic, whose automatic rollback creates without pruning), every schedule, every cluster
   behaviour, from any history with distinct revisions: the history never grows beyond
   max (|initial|, max (N-1, 1) + #successful creates), and every operation creates at most once —
   hence at most max (N-1, 1) + k records (sequentially, k = 1: N for N >= 2). *)
Theorem C09_pruning_bound :
  forall (K : Type) (kh : forall e : eff, K -> K * resp e * list kev) (dresp : forall e, resp e)
         (rn ns : string) (N : nat) (ops : list op) (sch : list nat) (l0 : list release) (k : K),
    Forall (fun o => match o with
                     | OpUpgrade fl _ _ _ _ => f_atomic fl = false /\ 1 <= f_max_history fl <= N
                     | _ => False
                     end) ops ->
    NoDup (revs l0) ->
    let res := run K kh dresp outcome (map (op_prog_fx rn ns) ops) sch (mkC l0 k []) in
    List.length (c_led (snd res)) <= Nat.max (List.length l0) (Nat.max (N - 1) 1 + List.length (creations (c_tr (snd res))))
    /\ List.length (creations (c_tr (snd res))) <= List.length ops.
Proof. exact pruning_bound. Qed.
Print Assumptions C09_pruning_bound.

(* K-C09-3: the quiescence theorem needs "no pruning": two upgrades --max-history 1 on 1:deployed
   2:failed meet the hypotheses of the bound, reach it (3 = max (N-1, 1) + k records) and end with
   TWO deployed revisions — the pruner deletes the failed LAST revision 2 inside Create and the
   other upgrade, reading in between, creates revision 2 again.  Replayed on the real code (corpus). *)
Theorem C09_quiescent_wf_pruning_refuted :
  (Forall (pruning_op 1) x_k3_ops /\ NoDup (revs x_prune_led))
  /\ let res := run_gated kstate (kube_handle "rel" "default") dead_resp outcome
                    (map (op_prog_fx "rel" "default") x_k3_ops) x_k3_sched (mkC x_prune_led (k0 x_objs) []) in
     outcomes outcome (fst res) = [Some OOk; Some OOk]
     /\ map (fun r => (rev r, st r)) (c_led (snd res)) = [(1, SSuperseded); (3, SDeployed); (2, SDeployed)]
     /\ creations (c_tr (snd res)) = [(1, 3); (0, 2)]
     /\ List.length (c_led (snd res)) = Nat.max (1 - 1) 1 + List.length x_k3_ops.
Proof. exact (conj x_k3_hyps pruning_two_deployed_refuted). Qed.
Print Assumptions C09_quiescent_wf_pruning_refuted.

(* "never the deployed revision" is false globally: the pruner computes its picks while the other
   upgrade's revision 3 is pending, the other finishes (3: deployed), the pruner deletes the DEPLOYED
   revision 3 and creates its own revision 3; both report success.  Replayed on the real code. *)
Theorem C09_pruning_deletes_deployed_refuted :
  let res := x_run x_k3_ops x_dd_sched x_prune_led (k0 x_objs) in
  deleted_deployed x_prune_led (c_tr (snd res)) = true
  /\ outcomes outcome (fst res) = [Some OOk; Some OOk]
  /\ creations (c_tr (snd res)) = [(1, 3); (0, 3)]
  /\ map (fun r => (rev r, st r)) (c_led (snd res)) = [(1, SSuperseded); (3, SDeployed)].
Proof. exact pruning_deletes_deployed_refuted. Qed.
Print Assumptions C09_pruning_deletes_deployed_refuted.

(* ================================================================== *)
(* Round 5: the name check precedes the CRD pre-install step and the namespace creation.  Over the
   richer model of install ([DryOps.x_install], C06's transcription of Install.RunWithContext with
   crds/ creation + wait + cache invalidation and --create-namespace in it): for every configuration,
   every option set that is not a dry run and every chart, install is
   [IsReachable unless ClientOnly] ; History ; ... and a history that refuses the name ends it at
   once with "cannot reuse a name that is still in use" — a refused install has sent nothing. *)
Theorem C09_name_check_precedes_crds :
  forall rn ns g fl c,
    is_dry_run (fb fl "DryRun") (xf_opt fl) = false -> fb fl "HideSecret" = false ->
    exists k : list release -> xprog xoutcome,
      x_install rn ns g fl c
      = (if fb fl "ClientOnly" then XEff (XE TReal SHistory) k
         else XEff XReach (fun r => if negb r then XRet xerr else XEff (XE TReal SHistory) k))
      /\ forall h,
           (exists last, max_rev_of h = Some last
              /\ fb fl "Replace" && (status_eqb (st last) SUninstalled || status_eqb (st last) SFailed) = false) ->
           k h = XRet (XO (OErr ENameInUse)).
Proof. exact x_install_name_check_first. Qed.
Print Assumptions C09_name_check_precedes_crds.

(* ... whereas an install that PASSES the name check creates the CRDs and the namespace before its
   revision record exists (two mutating requests before the first SCreate): the loser of the create
   race may have sent them — counted by the harness as "pre-calls", an observation. *)
Example C09_crds_precede_the_create :
  let pre := before_create 60 happy (x_install "rel" "default" (mkXG true true) x_crd_flags x_crd_chart) in
  existsb is_crd_create pre = true /\ existsb is_ns_create pre = true
  /\ List.length (filter x_cluster_mut pre) = 2
  /\ name_refused x_crd_flags [mkRelease 1 SDeployed 1 1 [] []].
Proof. exact x_install_crds_before_create. Qed.
Print Assumptions C09_crds_precede_the_create.

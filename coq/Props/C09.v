(* C09 — property theorems only: each closed by [exact] of a lemma proved elsewhere. *)
From Coq Require Import List String.
From Helm Require Import Engine.Types Engine.Eff Engine.Ops Engine.Cluster Engine.Seq Engine.SeqProofs
                         Engine.Conc Engine.ConcProofs.

(* Every thread has returned when [run] ends: the interleaving interpreter is total and the
   statements below are about quiescent states. *)
Theorem C09_all_returned :
  forall (K : Type) (kh : forall e : eff, K -> K * resp e * list kev) (dresp : forall e, resp e) (A : Type)
         (ts : list (prog A)) (sch : list nat) (s : cstate K),
    Forall (is_ret A) (fst (run K kh dresp A ts sch s)).
Proof. exact run_all_ret. Qed.
Print Assumptions C09_all_returned.

(* Revisions stay pairwise distinct under EVERY interleaving of ANY programs. *)
Theorem C09_revisions_unique_any_schedule :
  forall (K : Type) (kh : forall e : eff, K -> K * resp e * list kev) (dresp : forall e, resp e) (A : Type)
         (ts : list (prog A)) (sch : list nat) (s : cstate K),
    NoDup (revs (c_led s)) -> NoDup (revs (c_led (snd (run K kh dresp A ts sch s)))).
Proof. exact run_revisions_unique. Qed.
Print Assumptions C09_revisions_unique_any_schedule.

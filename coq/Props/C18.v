(* C18 — property theorems only: each closed by [exact] of a lemma proved elsewhere.

   Vocabulary (Misc/Index.v): [valid_entries cvs] = the decoded elements of a chart's list that
   are non-null and pass Metadata.Validate after the loader's defaults; [ege a b] / [tge a b] =
   both versions parse and a's precedence is not below b's; [best_entry p l r] = r is an
   element of l accepted by p and at least as new as every accepted element of l;
   [none_entry p l] = no parsable element of l is accepted (same for tags).
   [sort] stands for sort.Sort, [cvalid]/[sat] for semver.NewConstraint / Constraints.Check:
   parameters of the first group of theorems, and from C18_star_is_stable on the concrete
   functions of Misc/Constraint.v (the library's parser and checker transcribed).
   [new_constraint c] = Some cs: the string parses to the OR-list cs of AND-lists of single
   constraints; [constraints_check cs v] / [ccheck v k]: Constraints.Check / constraint.check;
   [plain f con] = the constraint with function f on the full version con (no wildcard);
   [release M m p] = the version M.m.p without pre-release and metadata. *)
From Coq Require Import List String Bool NArith Sorting.Permutation Sorting.Sorted.
From Helm Require Import Misc.Semver Misc.SemverProofs Misc.Index Misc.IndexProofs.
From Helm Require Import Misc.Constraint Misc.ConstraintProofs Misc.Tags Misc.TagsProofs.
From Helm Require Gen.C18Semver.
Import ListNotations.
Local Open Scope string_scope.

(* Semantic-version precedence (the model of Version.Compare) is a total preorder on ALL
   versions: reflexive, transitive, total; antisymmetric up to build metadata / spelling. *)
Theorem C18_precedence_total_preorder :
  (forall a, vcompare a a = Eq) /\
  (forall a b c, vcompare a b <> Gt -> vcompare b c <> Gt -> vcompare a c <> Gt) /\
  (forall a b, vcompare a b <> Gt \/ vcompare b a <> Gt) /\
  (forall a b, vcompare b a = CompOpp (vcompare a b)) /\
  (forall a b, vcompare a b = Eq <-> vkey a = vkey b).
Proof. exact vcompare_total_preorder. Qed.
Print Assumptions C18_precedence_total_preorder.

(* the precedence chain of section 11 of the specification, and coercion *)
Example C18_precedence_spec_chain : chain_lt spec11_chain = true.
Proof. exact spec11_chain_ok. Qed.
Print Assumptions C18_precedence_spec_chain.

Example C18_precedence_coercion :
  match parse_version "v1.1", parse_version "1.1.0+b1", parse_version "1.1.0" with
  | Some a, Some b, Some c => vcompare a b = Eq /\ vcompare b c = Eq /\ vorig a <> vorig c
  | _, _, _ => False
  end.
Proof. exact coerced_same_class. Qed.
Print Assumptions C18_precedence_coercion.

(* Loading: whatever the order, validity or nullness of the elements, every chart's loaded
   list is a permutation of exactly its valid entries, newest first, and the loader does not
   panic; the only remaining failure is a missing apiVersion. *)
Theorem C18_load_wf :
  forall sort : list entry -> list entry,
    (forall l, Permutation l (sort l)) ->
    (forall l, Forall (fun e => parse_version (eversion e) <> None) l ->
               StronglySorted (fun a b => go_less a b = false) (sort l)) ->
    forall (api : string) (es : list (string * list cv)),
    exists idx,
      load_index sort (IFParsed api es) = (if String.eqb api "" then LErr ENoAPI else LOk idx) /\
      Forall2 (fun x y => fst x = fst y /\
                          Permutation (snd y) (valid_entries (snd x)) /\
                          StronglySorted ege (snd y) /\
                          Forall (fun e => validate e = Some e) (snd y)) es idx.
Proof. exact load_wf_thm. Qed.
Print Assumptions C18_load_wf.

(* the two hypotheses on [sort] are met by a concrete sorting function *)
Example C18_sort_hypotheses_satisfiable :
  (forall l, Permutation l (isort l)) /\
  (forall l, Forall (fun e => parse_version (eversion e) <> None) l ->
             StronglySorted (fun a b => go_less a b = false) (isort l)).
Proof. exact sort_hypotheses_satisfiable. Qed.
Print Assumptions C18_sort_hypotheses_satisfiable.

Example C18_load_example : load_index isort ex_file = LOk ex_idx.
Proof. exact example_load. Qed.
Print Assumptions C18_load_example.

(* Get on a loaded index: unknown name / no valid version are reported; an empty version
   yields a highest stable entry (an error when there are only pre-releases); otherwise an
   entry whose version string is identical if there is one, else a highest entry satisfying
   the constraint, else an error. *)
Theorem C18_get_best :
  forall sort : list entry -> list entry,
    (forall l, Permutation l (sort l)) ->
    (forall l, Forall (fun e => parse_version (eversion e) <> None) l ->
               StronglySorted (fun a b => go_less a b = false) (sort l)) ->
    forall (cvalid : string -> bool) (sat : string -> version -> bool),
    (forall v, sat "*" v = is_stable v) ->
    forall api es idx, load_index sort (IFParsed api es) = LOk idx ->
    forall name ver,
      match assoc name idx with
      | None => get cvalid sat idx name ver = GErrNoName
      | Some vs =>
          (vs = [] -> get cvalid sat idx name ver = GErrNoVersion) /\
          (vs <> [] ->
             (ver = "" ->
                (exists e, get cvalid sat idx name ver = GOk e /\ best_entry is_stable vs e) \/
                (get cvalid sat idx name ver = GErrNotFound /\ none_entry is_stable vs)) /\
             (ver <> "" -> cvalid ver = false -> get cvalid sat idx name ver = GErrConstraint) /\
             (ver <> "" -> cvalid ver = true ->
                (forall e0, In e0 vs -> eversion e0 = ver ->
                   exists e, get cvalid sat idx name ver = GOk e /\ In e vs /\ eversion e = ver) /\
                ((forall e0, In e0 vs -> eversion e0 <> ver) ->
                   (exists e, get cvalid sat idx name ver = GOk e /\ best_entry (sat ver) vs e) \/
                   (get cvalid sat idx name ver = GErrNotFound /\ none_entry (sat ver) vs))))
      end.
Proof. exact get_best_thm. Qed.
Print Assumptions C18_get_best.

Example C18_star_hypothesis_satisfiable : forall v, ex_sat "*" v = is_stable v.
Proof. exact example_star. Qed.
Print Assumptions C18_star_hypothesis_satisfiable.

Example C18_get_example :
  get (fun _ => true) ex_sat ex_idx "app" "" = GOk (ex_entry "v1.2" "d5" []) /\
  get (fun _ => true) ex_sat ex_idx "app" "1.1.0+b1" = GOk (ex_entry "1.1.0+b1" "d6" ["u6"]) /\
  get (fun _ => true) ex_sat ex_idx "app" "^1" = GOk (ex_entry "v1.2" "d5" []) /\
  get (fun _ => true) ex_sat ex_idx "pre" "" = GErrNotFound /\
  get (fun _ => true) ex_sat ex_idx "none" "" = GErrNoName /\
  resolve (fun _ => true) ex_sat (LOk ex_idx) [mkDep "app" "^1"] = Some ["1.1.0+b1"] /\
  resolve (fun _ => true) ex_sat (LOk ex_idx) [mkDep "app" "^1"; mkDep "pre" "*"] = None.
Proof. exact example_queries. Qed.
Print Assumptions C18_get_example.

(* GetTagMatchingVersionOrConstraint on a tag list whose parsable tags are in descending
   order: the identical tag if present (even when the string is no constraint), else a
   highest tag satisfying the constraint / a highest stable tag for the empty string. *)
Theorem C18_tag_match :
  forall (cvalid : string -> bool) (sat : string -> version -> bool),
    (forall v, sat "*" v = is_stable v) ->
    forall tags ver,
      StronglySorted tge (filter is_valid_version tags) ->
      (ver = "" ->
         (exists t, tag_match cvalid sat tags ver = TOk t /\ best_tag is_stable tags t) \/
         (tag_match cvalid sat tags ver = TErrNotFound /\ none_tag is_stable tags)) /\
      (ver <> "" -> In ver tags -> tag_match cvalid sat tags ver = TOk ver) /\
      (ver <> "" -> ~ In ver tags -> cvalid ver = false ->
         tag_match cvalid sat tags ver = TErrConstraint) /\
      (ver <> "" -> ~ In ver tags -> cvalid ver = true ->
         (exists t, tag_match cvalid sat tags ver = TOk t /\ best_tag (sat ver) tags t) \/
         (tag_match cvalid sat tags ver = TErrNotFound /\ none_tag (sat ver) tags)).
Proof. exact tag_match_thm. Qed.
Print Assumptions C18_tag_match.

Example C18_tag_hypothesis_satisfiable : StronglySorted tge (filter is_valid_version ex_tags).
Proof. exact example_tags_sorted. Qed.
Print Assumptions C18_tag_hypothesis_satisfiable.

Example C18_tag_example :
  tag_match (fun _ => true) ex_sat ex_tags "" = TOk "v1.2" /\
  tag_match (fun _ => false) ex_sat ex_tags "nightly" = TOk "nightly" /\
  tag_match (fun _ => false) ex_sat ex_tags "weekly" = TErrConstraint.
Proof. exact example_tag_match. Qed.
Print Assumptions C18_tag_example.

(* Resolve against a loaded (cached) index: a lock is produced exactly when every dependency
   has a valid range, is in the index and has an entry with a URL in range; each dependency
   is then locked to the version string of a highest such entry. *)
Theorem C18_resolve :
  forall sort : list entry -> list entry,
    (forall l, Permutation l (sort l)) ->
    (forall l, Forall (fun e => parse_version (eversion e) <> None) l ->
               StronglySorted (fun a b => go_less a b = false) (sort l)) ->
    forall (cvalid : string -> bool) (sat : string -> version -> bool),
    forall api es idx, load_index sort (IFParsed api es) = LOk idx ->
    forall ds,
      match resolve cvalid sat (LOk idx) ds with
      | Some locks =>
          Forall2 (fun d v =>
                     cvalid (dconstraint d) = true /\
                     exists vs e, assoc (dname d) idx = Some vs /\ eversion e = v /\
                                  best_entry (sat (dconstraint d)) (filter has_urls vs) e)
                  ds locks
      | None =>
          exists d, In d ds /\
                    (cvalid (dconstraint d) = false \/ assoc (dname d) idx = None \/
                     exists vs, assoc (dname d) idx = Some vs /\
                                none_entry (sat (dconstraint d)) (filter has_urls vs))
      end.
Proof. exact resolve_thm. Qed.
Print Assumptions C18_resolve.

(* F3 (fixed by 161cdc1): with the old nil branch (`continue` without removal) a null element
   stays in the list and the sort's Less dereferences it — a panic; the repaired loop loads
   the same file. *)
Theorem C18_nil_entry_refuted :
  exists cvs, load_versions_prefix isort cvs = None /\
              exists vs, load_versions isort cvs = Some vs /\ List.length vs = 2.
Proof. exact nil_entry_refuted. Qed.
Print Assumptions C18_nil_entry_refuted.

(* ======================================================================================
   The constraint language inside the model (Misc/Constraint.v = semver v3.3.0 constraints.go)
   ====================================================================================== *)

(* what was transcribed is what /repo/go.mod pins: release and SHA-256 of constraints.go *)
Example C18_semver_source_pinned :
  C18Semver.semver_version = "v3.3.0" /\
  C18Semver.semver_constraints_sha256 = "ff4f338bd640d8fe0d3d1a12f5805b62bfedf7fd3824f8c88c160133f512db8a".
Proof. exact transcription_source. Qed.
Print Assumptions C18_semver_source_pinned.

(* the four regular expressions of the model print to the source texts built in the library's
   init() (read by the translator on every run), with Go's group numbering *)
Example C18_constraint_regexes_transcribed :
  [ ("constraintRegex", show_re constraint_re); ("constraintRangeRegex", show_re range_re);
    ("findConstraintRegex", show_re find_re); ("validConstraintRegex", show_re valid_re) ]
  = C18Semver.semver_regexes /\
  numbered constraint_re 1 = Some 12 /\ numbered range_re 1 = Some 21 /\
  numbered find_re 1 = Some 12 /\ numbered valid_re 1 = Some 25.
Proof. exact regexes_transcribed. Qed.
Print Assumptions C18_constraint_regexes_transcribed.

(* the operator table is the library's map constraintOps *)
Example C18_constraint_ops_transcribed :
  map (fun p => (fst p, cfunc_name (snd p))) constraint_ops = C18Semver.semver_constraint_ops.
Proof. exact ops_transcribed. Qed.
Print Assumptions C18_constraint_ops_transcribed.

(* the hypothesis of C18_get_best / C18_tag_match, now a fact about the concrete checker *)
Theorem C18_star_is_stable : forall v, sat "*" v = is_stable v.
Proof. exact sat_star. Qed.
Print Assumptions C18_star_is_stable.

(* Get, closed: no hypothesis about the constraint semantics is left.  For a version string
   the parser refuses: an error; otherwise the entry with the identical string if there is
   one, else a highest entry accepted by the parsed constraint, else not found. *)
Theorem C18_get_constraint_concrete :
  forall sort : list entry -> list entry,
    (forall l, Permutation l (sort l)) ->
    (forall l, Forall (fun e => parse_version (eversion e) <> None) l ->
               StronglySorted (fun a b => go_less a b = false) (sort l)) ->
    forall api es idx, load_index sort (IFParsed api es) = LOk idx ->
    forall name ver,
      match assoc name idx with
      | None => get cvalid sat idx name ver = GErrNoName
      | Some vs =>
          (vs = [] -> get cvalid sat idx name ver = GErrNoVersion) /\
          (vs <> [] ->
             (ver = "" ->
                (exists e, get cvalid sat idx name ver = GOk e /\ best_entry is_stable vs e) \/
                (get cvalid sat idx name ver = GErrNotFound /\ none_entry is_stable vs)) /\
             (ver <> "" ->
                match new_constraint ver with
                | None => get cvalid sat idx name ver = GErrConstraint
                | Some cs =>
                    (forall e0, In e0 vs -> eversion e0 = ver ->
                       exists e, get cvalid sat idx name ver = GOk e /\ In e vs /\ eversion e = ver) /\
                    ((forall e0, In e0 vs -> eversion e0 <> ver) ->
                       (exists e, get cvalid sat idx name ver = GOk e /\
                                  best_entry (constraints_check cs) vs e) \/
                       (get cvalid sat idx name ver = GErrNotFound /\
                        none_entry (constraints_check cs) vs))
                end))
      end.
Proof. exact get_constraint_concrete_thm. Qed.
Print Assumptions C18_get_constraint_concrete.

Theorem C18_tag_match_concrete :
  forall tags ver,
    StronglySorted tge (filter is_valid_version tags) ->
    (ver = "" ->
       (exists t, tag_match cvalid sat tags ver = TOk t /\ best_tag is_stable tags t) \/
       (tag_match cvalid sat tags ver = TErrNotFound /\ none_tag is_stable tags)) /\
    (ver <> "" -> In ver tags -> tag_match cvalid sat tags ver = TOk ver) /\
    (ver <> "" -> ~ In ver tags ->
       match new_constraint ver with
       | None => tag_match cvalid sat tags ver = TErrConstraint
       | Some cs =>
           (exists t, tag_match cvalid sat tags ver = TOk t /\ best_tag (constraints_check cs) tags t) \/
           (tag_match cvalid sat tags ver = TErrNotFound /\ none_tag (constraints_check cs) tags)
       end).
Proof. exact tag_match_concrete_thm. Qed.
Print Assumptions C18_tag_match_concrete.

Theorem C18_resolve_concrete :
  forall sort : list entry -> list entry,
    (forall l, Permutation l (sort l)) ->
    (forall l, Forall (fun e => parse_version (eversion e) <> None) l ->
               StronglySorted (fun a b => go_less a b = false) (sort l)) ->
    forall api es idx, load_index sort (IFParsed api es) = LOk idx ->
    forall ds,
      match resolve cvalid sat (LOk idx) ds with
      | Some locks =>
          Forall2 (fun d v =>
                     exists cs vs e, new_constraint (dconstraint d) = Some cs /\
                                     assoc (dname d) idx = Some vs /\ eversion e = v /\
                                     best_entry (constraints_check cs) (filter has_urls vs) e)
                  ds locks
      | None =>
          exists d, In d ds /\
                    (new_constraint (dconstraint d) = None \/ assoc (dname d) idx = None \/
                     exists cs vs, new_constraint (dconstraint d) = Some cs /\
                                   assoc (dname d) idx = Some vs /\
                                   none_entry (constraints_check cs) (filter has_urls vs))
      end.
Proof. exact resolve_concrete_thm. Qed.
Print Assumptions C18_resolve_concrete.

(* real constraint strings through the whole chain (parser, checker, Get / tag match / Resolve) *)
Example C18_concrete_example :
  get cvalid sat ex_idx "app" "" = GOk (ex_entry "v1.2" "d5" []) /\
  get cvalid sat ex_idx "app" "^1" = GOk (ex_entry "v1.2" "d5" []) /\
  get cvalid sat ex_idx "app" "~1.1" = GOk (ex_entry "1.1.0+b1" "d6" ["u6"]) /\
  get cvalid sat ex_idx "app" ">=1.0.0 <1.1.0 || 3.x" = GOk (ex_entry "1.0.0" "d1" ["u1"]) /\
  get cvalid sat ex_idx "app" "latest" = GErrConstraint /\
  get cvalid sat ex_idx "pre" "" = GErrNotFound /\
  get cvalid sat ex_idx "pre" ">0.0.0-0" <> GErrNotFound /\
  tag_match cvalid sat ex_tags "" = TOk "v1.2" /\
  tag_match cvalid sat ex_tags "1.0 - 1.1" = TOk "1.1.0+b1" /\
  tag_match cvalid sat ex_tags "weekly" = TErrConstraint /\
  resolve cvalid sat (LOk ex_idx) [mkDep "app" "^1"] = Some ["1.1.0+b1"] /\
  resolve cvalid sat (LOk ex_idx) [mkDep "app" "^1"; mkDep "pre" "*"] = None.
Proof. exact example_concrete_queries. Qed.
Print Assumptions C18_concrete_example.

(* ---- what "satisfies" means ---- *)

(* an OR-list is the disjunction of its groups, an AND-list the conjunction of its members *)
Theorem C18_check_is_or_of_ands :
  forall c v,
    sat c v = true <->
    exists cs g, new_constraint c = Some cs /\ In g cs /\ forall k, In k g -> ccheck v k = true.
Proof. exact sat_spec. Qed.
Print Assumptions C18_check_is_or_of_ands.

(* a string that parses has an OR-group and no empty AND-group: never true for lack of constraints *)
Theorem C18_constraint_nonempty :
  forall c cs, new_constraint c = Some cs -> cs <> [] /\ Forall (fun g => g <> []) cs.
Proof. exact new_constraint_nonempty. Qed.
Print Assumptions C18_constraint_nonempty.

(* the checker sees the version written in a constraint only through its precedence key *)
Theorem C18_constraint_key_only :
  forall v c c',
    k_fn c = k_fn c' -> vkey (k_con c) = vkey (k_con c') ->
    k_minor_dirty c = k_minor_dirty c' -> k_dirty c = k_dirty c' -> k_patch_dirty c = k_patch_dirty c' ->
    ccheck v c = ccheck v c'.
Proof. exact ccheck_key. Qed.
Print Assumptions C18_constraint_key_only.

(* the pre-release rule, exactly: a pre-release version is refused by every single constraint
   whose own version is a release — except by "!=" on a full version, which accepts it *)
Theorem C18_prerelease_rule :
  forall v c,
    is_stable v = false -> is_stable (k_con c) = true ->
    (k_fn c = FNotEqual -> k_dirty c = true) ->
    ccheck v c = false.
Proof. exact pre_release_rule. Qed.
Print Assumptions C18_prerelease_rule.

(* the same rule on constraint STRINGS, per AND-group as the library applies it: a pre-release
   version satisfies a string only through a non-empty OR-group every member of which names a
   pre-release version itself or is "!=" with a full version *)
Theorem C18_prerelease_needs_prerelease_group :
  forall c v,
    sat c v = true -> is_stable v = false ->
    exists cs g, new_constraint c = Some cs /\ In g cs /\ g <> [] /\
                 (forall k, In k g ->
                    ccheck v k = true /\
                    negb (is_stable (k_con k)) ||
                    (match k_fn k with FNotEqual => true | _ => false end && negb (k_dirty k)) = true).
Proof. exact prerelease_needs_prerelease_group. Qed.
Print Assumptions C18_prerelease_needs_prerelease_group.

Theorem C18_not_equal_admits_prerelease :
  forall v con, is_stable v = false -> is_stable con = true -> ccheck v (plain FNotEqual con) = true.
Proof. exact not_equal_admits_prerelease. Qed.
Print Assumptions C18_not_equal_admits_prerelease.

(* comparison operators on full versions: plain precedence, plus "release only" when the
   constraint's version is a release *)
Theorem C18_compare_ops_release :
  forall v con,
    is_stable con = true ->
    ccheck v (plain FGreaterThan con) = is_stable v && vgt v con /\
    ccheck v (plain FGreaterThanEqual con) = is_stable v && vgeb v con /\
    ccheck v (plain FLessThan con) = is_stable v && vless v con /\
    ccheck v (plain FLessThanEqual con) = is_stable v && vle v con /\
    ccheck v (plain FTildeOrEqual con) = is_stable v && veqb v con.
Proof. exact compare_ops_release. Qed.
Print Assumptions C18_compare_ops_release.

Theorem C18_compare_ops_with_prerelease :
  forall v con,
    is_stable con = false ->
    ccheck v (plain FGreaterThan con) = vgt v con /\
    ccheck v (plain FGreaterThanEqual con) = vgeb v con /\
    ccheck v (plain FLessThan con) = vless v con /\
    ccheck v (plain FLessThanEqual con) = vle v con /\
    ccheck v (plain FTildeOrEqual con) = veqb v con.
Proof. exact compare_ops_with_prerelease. Qed.
Print Assumptions C18_compare_ops_with_prerelease.

(* ^M.m.p = >=M.m.p <(M+1).0.0;  ^0.m.p = >=0.m.p <0.(m+1).0;  ^0.0.p = >=0.0.p <0.0.(p+1);
   ^M / ^M.x = >=M.0.0 <(M+1).0.0 (also M = 0);  ^0.m / ^0.m.x = >=0.m.0 <0.(m+1).0 *)
Theorem C18_caret_ranges :
  forall v,
    (forall M m p, (0 < M)%N ->
       ccheck v (plain FCaret (release M m p)) =
       ccheck v (plain FGreaterThanEqual (release M m p)) && ccheck v (plain FLessThan (release (M + 1) 0 0))) /\
    (forall m p, (0 < m)%N ->
       ccheck v (plain FCaret (release 0 m p)) =
       ccheck v (plain FGreaterThanEqual (release 0 m p)) && ccheck v (plain FLessThan (release 0 (m + 1) 0))) /\
    (forall p,
       ccheck v (plain FCaret (release 0 0 p)) =
       ccheck v (plain FGreaterThanEqual (release 0 0 p)) && ccheck v (plain FLessThan (release 0 0 (p + 1)))) /\
    (forall M,
       ccheck v (mkConstr FCaret (release M 0 0) true true false) =
       ccheck v (plain FGreaterThanEqual (release M 0 0)) && ccheck v (plain FLessThan (release (M + 1) 0 0))) /\
    (forall m,
       ccheck v (mkConstr FCaret (release 0 m 0) false true true) =
       ccheck v (plain FGreaterThanEqual (release 0 m 0)) && ccheck v (plain FLessThan (release 0 (m + 1) 0))).
Proof. exact caret_ranges. Qed.
Print Assumptions C18_caret_ranges.

(* ~M.m.p = >=M.m.p <M.(m+1).0 — except ~0.0.0, which accepts every release *)
Theorem C18_tilde_ranges :
  forall v,
    (forall M m p, (M, m, p) <> (0, 0, 0)%N ->
       ccheck v (plain FTilde (release M m p)) =
       ccheck v (plain FGreaterThanEqual (release M m p)) && ccheck v (plain FLessThan (release M (m + 1) 0))) /\
    ccheck v (plain FTilde (release 0 0 0)) = is_stable v.
Proof. exact tilde_ranges. Qed.
Print Assumptions C18_tilde_ranges.

(* M, M.x, =M, ~M = >=M.0.0 <(M+1).0.0;  M.m, M.m.x, =M.m, ~M.m = >=M.m.0 <M.(m+1).0;
   "*" = every release *)
Theorem C18_wildcard_ranges :
  forall v,
    (forall M,
       ccheck v (mkConstr FTildeOrEqual (release M 0 0) true true false) =
       ccheck v (plain FGreaterThanEqual (release M 0 0)) && ccheck v (plain FLessThan (release (M + 1) 0 0)) /\
       ccheck v (mkConstr FTilde (release M 0 0) true true false) =
       ccheck v (mkConstr FTildeOrEqual (release M 0 0) true true false)) /\
    (forall M m,
       ccheck v (mkConstr FTildeOrEqual (release M m 0) false true true) =
       ccheck v (plain FGreaterThanEqual (release M m 0)) && ccheck v (plain FLessThan (release M (m + 1) 0)) /\
       ccheck v (mkConstr FTilde (release M m 0) false true true) =
       ccheck v (mkConstr FTildeOrEqual (release M m 0) false true true)) /\
    ccheck v (mkConstr FTildeOrEqual (release 0 0 0) false true false) = is_stable v.
Proof. exact wildcard_ranges. Qed.
Print Assumptions C18_wildcard_ranges.

(* >M = >=(M+1).0.0;  >M.m = >=M.(m+1).0;  <=M = <(M+1).0.0;  <=M.m = <M.(m+1).0;
   >=M.m and <M.m compare with M.m.0 *)
Theorem C18_partial_comparisons :
  forall M m v,
    ccheck v (mkConstr FGreaterThan (release M 0 0) true true false) =
    ccheck v (plain FGreaterThanEqual (release (M + 1) 0 0)) /\
    ccheck v (mkConstr FGreaterThan (release M m 0) false true true) =
    ccheck v (plain FGreaterThanEqual (release M (m + 1) 0)) /\
    ccheck v (mkConstr FLessThanEqual (release M 0 0) true true false) =
    ccheck v (plain FLessThan (release (M + 1) 0 0)) /\
    ccheck v (mkConstr FLessThanEqual (release M m 0) false true true) =
    ccheck v (plain FLessThan (release M (m + 1) 0)) /\
    ccheck v (mkConstr FGreaterThanEqual (release M m 0) false true true) =
    ccheck v (plain FGreaterThanEqual (release M m 0)) /\
    ccheck v (mkConstr FLessThan (release M m 0) false true true) =
    ccheck v (plain FLessThan (release M m 0)).
Proof. exact partial_comparisons. Qed.
Print Assumptions C18_partial_comparisons.

(* code against intuition: an operator in front of "*" (the wildcard becomes 0.0.0 with the
   dirty flag only).  On releases: <=* accepts 0.0.z only, !=* and >* everything but 0.0.0,
   ^* only 0.0.0, <* nothing; >=* and ~* every release *)
Theorem C18_star_major_quirks :
  forall v,
    is_stable v = true ->
    ccheck v (star_con FLessThanEqual) = ((vmajor v =? 0) && (vminor v =? 0))%N /\
    ccheck v (star_con FNotEqual) = negb ((vmajor v =? 0) && (vminor v =? 0) && (vpatch v =? 0))%N /\
    ccheck v (star_con FGreaterThan) = negb ((vmajor v =? 0) && (vminor v =? 0) && (vpatch v =? 0))%N /\
    ccheck v (star_con FGreaterThanEqual) = true /\
    ccheck v (star_con FLessThan) = false /\
    ccheck v (star_con FTilde) = true /\
    ccheck v (star_con FCaret) = ((vmajor v =? 0) && (vminor v =? 0) && (vpatch v =? 0))%N.
Proof. exact star_quirks. Qed.
Print Assumptions C18_star_major_quirks.

(* the equivalences of the library's documentation on its own examples, from the STRINGS,
   for all versions (pre-releases included) *)
Theorem C18_documented_equivalences :
  forall v,
    sat "^1.2.3" v = sat ">=1.2.3 <2.0.0" v /\
    sat "~1.2.3" v = sat ">=1.2.3, <1.3.0" v /\
    sat "1.x" v = sat ">=1.0.0 <2.0.0" v /\
    sat "^0.2.3" v = sat ">=0.2.3 <0.3.0" v /\
    sat "^0.0.3" v = sat ">=0.0.3 <0.0.4" v /\
    sat ">=1.2.3, <2 || 3.x" v = (sat ">=1.2.3" v && sat "<2" v) || sat "3.x" v.
Proof. exact documented_equivalences. Qed.
Print Assumptions C18_documented_equivalences.

Theorem C18_hyphen_range_example :
  forall v,
    rewrite_range "1.2 - 1.4.5" = ">= 1.2, <= 1.4.5 " /\
    sat "1.2 - 1.4.5" v = (ccheck v (plain FGreaterThanEqual (release 1 2 0)) &&
                           ccheck v (plain FLessThanEqual (release 1 4 5))).
Proof. exact hyphen_range_example. Qed.
Print Assumptions C18_hyphen_range_example.

(* hyphen ranges are rewritten textually before the split at "||", and "|" is a character
   of the segment class: "1||2 - 3" means >=1 || 2 <=3, not 1 || >=2 <=3 *)
Example C18_hyphen_range_quirk :
  rewrite_range "1||2 - 3" = ">= 1||2, <= 3 " /\
  new_constraint "1||2 - 3" = new_constraint ">=1 || 2 <=3" /\
  new_constraint "1 || 2 - 3" = new_constraint "1 || >=2 <=3" /\
  (exists v, parse_version "5.0.0" = Some v /\ sat "1||2 - 3" v = true /\ sat "1 || 2 - 3" v = false) /\
  cvalid "1|2" = false /\ cvalid "==1.2.3" = false /\ cvalid "" = false /\ cvalid "1x" = false.
Proof. exact hyphen_range_quirk. Qed.
Print Assumptions C18_hyphen_range_quirk.

(* ======================================================================================
   OCI tag lists: Client.Tags (all pages collected, one sort) + the tag match on top of it
   (Misc/Tags.v).  [strict_parse] = semver.StrictNewVersion, [sstring] = Version.String(),
   [scompare] = Version.Compare on strict versions (on keys), [go_scompare] = the same as the
   library writes it, [client_tags sort pages] = Client.Tags on a listing served in [pages],
   [all_tags pages] = the semver tags of the concatenation of all pages as Tags renders them,
   [sregular s] = s has no empty pre-release / metadata identifier.
   ====================================================================================== *)

(* what tag matching (NewVersion) makes of a tag rendered by Client.Tags: the same version
   when the strict version has no empty identifier, a parse error otherwise *)
Theorem C18_strict_render_roundtrip :
  forall t s,
    strict_parse t = Some s ->
    parse_version (sstring s) = if sregular s then Some (to_version s) else None.
Proof. exact strict_render_parse. Qed.
Print Assumptions C18_strict_render_roundtrip.

(* Compare on strict versions (empty identifiers included) is a total preorder: sort.Sort's
   Less is a strict weak order on every tag list *)
Theorem C18_strict_compare_total_preorder :
  (forall a, scompare a a = Eq) /\
  (forall a b c, scompare a b <> Gt -> scompare b c <> Gt -> scompare a c <> Gt) /\
  (forall a b, scompare a b <> Gt \/ scompare b a <> Gt) /\
  (forall a b, scompare b a = CompOpp (scompare a b)) /\
  (forall a b, scompare a b = Eq <-> skey a = skey b).
Proof. exact scompare_total_preorder. Qed.
Print Assumptions C18_strict_compare_total_preorder.

(* the key order is Version.Compare as the library writes it (comparePrerelease's padded loop,
   comparePrePart), on everything StrictNewVersion accepts *)
Theorem C18_strict_compare_is_go_compare :
  forall ta tb a b,
    strict_parse ta = Some a -> strict_parse tb = Some b -> go_scompare a b = scompare a b.
Proof. exact go_scompare_key. Qed.
Print Assumptions C18_strict_compare_is_go_compare.

(* ... and it is the precedence of Semver.v on the versions NewVersion reads back *)
Theorem C18_strict_compare_agrees :
  forall a b, sregular a = true -> sregular b = true ->
              scompare a b = vcompare (to_version a) (to_version b).
Proof. exact sregular_compare. Qed.
Print Assumptions C18_strict_compare_agrees.

Example C18_ssort_hypotheses_satisfiable :
  (forall l, Permutation l (sisort l)) /\
  (forall l, StronglySorted (fun a b => sless a b = false) (sisort l)).
Proof. exact ssort_hypotheses_satisfiable. Qed.
Print Assumptions C18_ssort_hypotheses_satisfiable.

(* Composition, for every split into pages: Client.Tags followed by
   GetTagMatchingVersionOrConstraint returns the identical string if some page lists it, else
   a highest tag over the concatenation of ALL pages that satisfies the (concrete) constraint
   / a highest stable one for "", else an error.  [sort] = sort.Sort: any function returning a
   permutation without Less-inversion. *)
Theorem C18_oci_tags_best :
  forall sort : list sversion -> list sversion,
    (forall l, Permutation l (sort l)) ->
    (forall l, StronglySorted (fun a b => sless a b = false) (sort l)) ->
    forall pages ver,
      Permutation (client_tags sort pages) (all_tags pages) /\
      (ver = "" ->
         (exists t, tag_match cvalid sat (client_tags sort pages) ver = TOk t /\
                    best_tag is_stable (all_tags pages) t) \/
         (tag_match cvalid sat (client_tags sort pages) ver = TErrNotFound /\
          none_tag is_stable (all_tags pages))) /\
      (ver <> "" -> In ver (all_tags pages) ->
         tag_match cvalid sat (client_tags sort pages) ver = TOk ver) /\
      (ver <> "" -> ~ In ver (all_tags pages) ->
         match new_constraint ver with
         | None => tag_match cvalid sat (client_tags sort pages) ver = TErrConstraint
         | Some cs =>
             (exists t, tag_match cvalid sat (client_tags sort pages) ver = TOk t /\
                        best_tag (constraints_check cs) (all_tags pages) t) \/
             (tag_match cvalid sat (client_tags sort pages) ver = TErrNotFound /\
              none_tag (constraints_check cs) (all_tags pages))
         end).
Proof. exact oci_tag_match_thm. Qed.
Print Assumptions C18_oci_tags_best.

(* ValidateReference (reference without tag and digest): an explicit version is kept as it is;
   otherwise no semver tag on any page is an error, else the tag match above *)
Theorem C18_oci_validate_reference :
  forall sort : list sversion -> list sversion,
    (forall l, Permutation l (sort l)) ->
    forall pages ver,
      validate_reference cvalid sat sort pages ver =
      if is_valid_version ver then VROk ver
      else match all_tags pages with
           | [] => VRErrNoTags
           | _ => match tag_match cvalid sat (client_tags sort pages) ver with
                  | TOk t => VROk t
                  | TErrConstraint => VRErrConstraint
                  | TErrNotFound => VRErrNotFound
                  end
           end.
Proof. exact validate_reference_thm. Qed.
Print Assumptions C18_oci_validate_reference.

(* Resolve, one dependency kept in an OCI repository: an unparsable range fails; an explicit
   version is locked as it is; otherwise the dependency is locked to a highest tag over ALL
   pages in range, or reported missing when no tag is in range *)
Theorem C18_oci_resolve :
  forall sort : list sversion -> list sversion,
    (forall l, Permutation l (sort l)) ->
    (forall l, StronglySorted (fun a b => sless a b = false) (sort l)) ->
    forall pages ver,
      match new_constraint ver with
      | None => resolve_oci cvalid sat sort pages ver = DFail
      | Some cs =>
          if is_valid_version ver then resolve_oci cvalid sat sort pages ver = DLocked ver
          else
            (exists t, resolve_oci cvalid sat sort pages ver = DLocked t /\
                       best_tag (constraints_check cs) (all_tags pages) t) \/
            (resolve_oci cvalid sat sort pages ver = DMissing /\
             none_tag (constraints_check cs) (all_tags pages))
      end.
Proof. exact resolve_oci_thm. Qed.
Print Assumptions C18_oci_resolve.

(* fixed by ac0e5ef: before it, [found] was never reset in the OCI branch and a dependency whose
   range no tag satisfied was locked to the range text instead of being reported; witness on
   the unrepaired model, and the repaired model on the same input *)
Theorem C18_oci_resolve_unrepaired_refuted :
  exists pages ver cs,
    new_constraint ver = Some cs /\ is_valid_version ver = false /\
    none_tag (constraints_check cs) (all_tags pages) /\
    resolve_oci_unrepaired cvalid sat sisort pages ver = DLocked ver /\
    resolve_oci cvalid sat sisort pages ver = DMissing.
Proof. exact resolve_oci_unrepaired_refuted. Qed.
Print Assumptions C18_oci_resolve_unrepaired_refuted.

(* the answer does not depend on how the tags are split into pages, on the order inside or
   between pages, or on which (correct) sort is used: two listings with the same tags give
   the same error, the same tag, or two tags of one precedence class *)
Theorem C18_oci_page_invariant :
  forall sort sort' : list sversion -> list sversion,
    (forall l, Permutation l (sort l)) ->
    (forall l, StronglySorted (fun a b => sless a b = false) (sort l)) ->
    (forall l, Permutation l (sort' l)) ->
    (forall l, StronglySorted (fun a b => sless a b = false) (sort' l)) ->
    forall pages pages',
      Permutation (List.concat pages) (List.concat pages') ->
      forall ver,
        tag_equiv (tag_match cvalid sat (client_tags sort pages) ver)
                  (tag_match cvalid sat (client_tags sort' pages') ver).
Proof. exact oci_page_invariant_thm. Qed.
Print Assumptions C18_oci_page_invariant.

(* the listing of seeded change C18-7 (three pages in the registry's lexical order) *)
Example C18_oci_example :
  client_tags sisort ex_pages =
    ["2.1.0+b1"; "2.0.0"; "1.10.0"; "1.3.0-rc.1"; "1.2.3-a..b"; "1.2.0"; "1.1.0"; "1.0.0"; "0.9.0"] /\
  validate_reference cvalid sat sisort ex_pages "" = VROk "2.1.0+b1" /\
  validate_reference cvalid sat sisort ex_pages "^1.0.0" = VROk "1.10.0" /\
  validate_reference cvalid sat sisort ex_pages ">=1.0.0 <2.0.0-0" = VROk "1.10.0" /\
  validate_reference cvalid sat sisort ex_pages "1.2.3-a..b" = VROk "1.2.3-a..b" /\
  validate_reference cvalid sat sisort ex_pages ">=1.2.1-0 <1.3.0-0" = VRErrNotFound /\
  validate_reference cvalid sat sisort ex_pages ">=3" = VRErrNotFound /\
  validate_reference cvalid sat sisort ex_pages "7.7.7" = VROk "7.7.7" /\
  validate_reference cvalid sat sisort [["latest"]; []] "" = VRErrNoTags /\
  resolve_oci cvalid sat sisort ex_pages "^1.0.0" = DLocked "1.10.0" /\
  resolve_oci cvalid sat sisort ex_pages "2.x" = DLocked "2.1.0+b1" /\
  resolve_oci cvalid sat sisort ex_pages "1.2.3" = DLocked "1.2.3" /\
  resolve_oci cvalid sat sisort ex_pages ">=3" = DMissing /\
  resolve_oci cvalid sat sisort ex_pages "latest" = DFail.
Proof. exact example_oci. Qed.
Print Assumptions C18_oci_example.

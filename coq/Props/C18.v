(* C18 — property theorems only: each closed by [exact] of a lemma proved elsewhere.

   Vocabulary (Misc/Index.v): [valid_entries cvs] = the decoded elements of a chart's list that
   are non-null and pass Metadata.Validate after the loader's defaults; [ege a b] / [tge a b] =
   both versions parse and a's precedence is not below b's; [best_entry p l r] = r is an
   element of l accepted by p and at least as new as every accepted element of l;
   [none_entry p l] = no parsable element of l is accepted (same for tags).
   [sort] stands for sort.Sort, [cvalid]/[sat] for semver.NewConstraint / Constraints.Check. *)
From Coq Require Import List String NArith Sorting.Permutation Sorting.Sorted.
From Helm Require Import Misc.Semver Misc.SemverProofs Misc.Index Misc.IndexProofs.
Import ListNotations.
Local Open Scope string_scope.

(* Semantic-version precedence (the model of Version.Compare) is a total preorder on ALL
   versions: reflexive, transitive, total; antisymmetric up to build metadata / spelling. *)
Theorem C18_precedence_total_preorder :
  (forall a, vcompare a a = Eq) /\
  (forall a b c, vcompare a b <> Gt -> vcompare b c <> Gt -> vcompare a c <> Gt) /\
  (forall a b, vcompare a b <> Gt \/ vcompare b a <> Gt) /\
  (forall a b, vcompare b a = CompOpp (vcompare a b)) /\
  (forall a b, vcompare a b = Eq <-> vkey a = vkey b).
Proof. exact vcompare_total_preorder. Qed.
Print Assumptions C18_precedence_total_preorder.

(* the precedence chain of section 11 of the specification, and coercion *)
Example C18_precedence_spec_chain : chain_lt spec11_chain = true.
Proof. exact spec11_chain_ok. Qed.
Print Assumptions C18_precedence_spec_chain.

Example C18_precedence_coercion :
  match parse_version "v1.1", parse_version "1.1.0+b1", parse_version "1.1.0" with
  | Some a, Some b, Some c => vcompare a b = Eq /\ vcompare b c = Eq /\ vorig a <> vorig c
  | _, _, _ => False
  end.
Proof. exact coerced_same_class. Qed.
Print Assumptions C18_precedence_coercion.

(* Loading: whatever the order, validity or nullness of the elements, every chart's loaded
   list is a permutation of exactly its valid entries, newest first, and the loader does not
   panic; the only remaining failure is a missing apiVersion. *)
Theorem C18_load_wf :
  forall sort : list entry -> list entry,
    (forall l, Permutation l (sort l)) ->
    (forall l, Forall (fun e => parse_version (eversion e) <> None) l ->
               StronglySorted (fun a b => go_less a b = false) (sort l)) ->
    forall (api : string) (es : list (string * list cv)),
    exists idx,
      load_index sort (IFParsed api es) = (if String.eqb api "" then LErr ENoAPI else LOk idx) /\
      Forall2 (fun x y => fst x = fst y /\
                          Permutation (snd y) (valid_entries (snd x)) /\
                          StronglySorted ege (snd y) /\
                          Forall (fun e => validate e = Some e) (snd y)) es idx.
Proof. exact load_wf_thm. Qed.
Print Assumptions C18_load_wf.

(* the two hypotheses on [sort] are met by a concrete sorting function *)
Example C18_sort_hypotheses_satisfiable :
  (forall l, Permutation l (isort l)) /\
  (forall l, Forall (fun e => parse_version (eversion e) <> None) l ->
             StronglySorted (fun a b => go_less a b = false) (isort l)).
Proof. exact sort_hypotheses_satisfiable. Qed.
Print Assumptions C18_sort_hypotheses_satisfiable.

Example C18_load_example : load_index isort ex_file = LOk ex_idx.
Proof. exact example_load. Qed.
Print Assumptions C18_load_example.

(* Get on a loaded index: unknown name / no valid version are reported; an empty version
   yields a highest stable entry (an error when there are only pre-releases); otherwise an
   entry whose version string is identical if there is one, else a highest entry satisfying
   the constraint, else an error. *)
Theorem C18_get_best :
  forall sort : list entry -> list entry,
    (forall l, Permutation l (sort l)) ->
    (forall l, Forall (fun e => parse_version (eversion e) <> None) l ->
               StronglySorted (fun a b => go_less a b = false) (sort l)) ->
    forall (cvalid : string -> bool) (sat : string -> version -> bool),
    (forall v, sat "*" v = is_stable v) ->
    forall api es idx, load_index sort (IFParsed api es) = LOk idx ->
    forall name ver,
      match assoc name idx with
      | None => get cvalid sat idx name ver = GErrNoName
      | Some vs =>
          (vs = [] -> get cvalid sat idx name ver = GErrNoVersion) /\
          (vs <> [] ->
             (ver = "" ->
                (exists e, get cvalid sat idx name ver = GOk e /\ best_entry is_stable vs e) \/
                (get cvalid sat idx name ver = GErrNotFound /\ none_entry is_stable vs)) /\
             (ver <> "" -> cvalid ver = false -> get cvalid sat idx name ver = GErrConstraint) /\
             (ver <> "" -> cvalid ver = true ->
                (forall e0, In e0 vs -> eversion e0 = ver ->
                   exists e, get cvalid sat idx name ver = GOk e /\ In e vs /\ eversion e = ver) /\
                ((forall e0, In e0 vs -> eversion e0 <> ver) ->
                   (exists e, get cvalid sat idx name ver = GOk e /\ best_entry (sat ver) vs e) \/
                   (get cvalid sat idx name ver = GErrNotFound /\ none_entry (sat ver) vs))))
      end.
Proof. exact get_best_thm. Qed.
Print Assumptions C18_get_best.

Example C18_star_hypothesis_satisfiable : forall v, ex_sat "*" v = is_stable v.
Proof. exact example_star. Qed.
Print Assumptions C18_star_hypothesis_satisfiable.

Example C18_get_example :
  get (fun _ => true) ex_sat ex_idx "app" "" = GOk (ex_entry "v1.2" "d5" []) /\
  get (fun _ => true) ex_sat ex_idx "app" "1.1.0+b1" = GOk (ex_entry "1.1.0+b1" "d6" ["u6"]) /\
  get (fun _ => true) ex_sat ex_idx "app" "^1" = GOk (ex_entry "v1.2" "d5" []) /\
  get (fun _ => true) ex_sat ex_idx "pre" "" = GErrNotFound /\
  get (fun _ => true) ex_sat ex_idx "none" "" = GErrNoName /\
  resolve (fun _ => true) ex_sat (LOk ex_idx) [mkDep "app" "^1"] = Some ["1.1.0+b1"] /\
  resolve (fun _ => true) ex_sat (LOk ex_idx) [mkDep "app" "^1"; mkDep "pre" "*"] = None.
Proof. exact example_queries. Qed.
Print Assumptions C18_get_example.

(* GetTagMatchingVersionOrConstraint on a tag list whose parsable tags are in descending
   order: the identical tag if present (even when the string is no constraint), else a
   highest tag satisfying the constraint / a highest stable tag for the empty string. *)
Theorem C18_tag_match :
  forall (cvalid : string -> bool) (sat : string -> version -> bool),
    (forall v, sat "*" v = is_stable v) ->
    forall tags ver,
      StronglySorted tge (filter is_valid_version tags) ->
      (ver = "" ->
         (exists t, tag_match cvalid sat tags ver = TOk t /\ best_tag is_stable tags t) \/
         (tag_match cvalid sat tags ver = TErrNotFound /\ none_tag is_stable tags)) /\
      (ver <> "" -> In ver tags -> tag_match cvalid sat tags ver = TOk ver) /\
      (ver <> "" -> ~ In ver tags -> cvalid ver = false ->
         tag_match cvalid sat tags ver = TErrConstraint) /\
      (ver <> "" -> ~ In ver tags -> cvalid ver = true ->
         (exists t, tag_match cvalid sat tags ver = TOk t /\ best_tag (sat ver) tags t) \/
         (tag_match cvalid sat tags ver = TErrNotFound /\ none_tag (sat ver) tags)).
Proof. exact tag_match_thm. Qed.
Print Assumptions C18_tag_match.

Example C18_tag_hypothesis_satisfiable : StronglySorted tge (filter is_valid_version ex_tags).
Proof. exact example_tags_sorted. Qed.
Print Assumptions C18_tag_hypothesis_satisfiable.

Example C18_tag_example :
  tag_match (fun _ => true) ex_sat ex_tags "" = TOk "v1.2" /\
  tag_match (fun _ => false) ex_sat ex_tags "nightly" = TOk "nightly" /\
  tag_match (fun _ => false) ex_sat ex_tags "weekly" = TErrConstraint.
Proof. exact example_tag_match. Qed.
Print Assumptions C18_tag_example.

(* Resolve against a loaded (cached) index: a lock is produced exactly when every dependency
   has a valid range, is in the index and has an entry with a URL in range; each dependency
   is then locked to the version string of a highest such entry. *)
Theorem C18_resolve :
  forall sort : list entry -> list entry,
    (forall l, Permutation l (sort l)) ->
    (forall l, Forall (fun e => parse_version (eversion e) <> None) l ->
               StronglySorted (fun a b => go_less a b = false) (sort l)) ->
    forall (cvalid : string -> bool) (sat : string -> version -> bool),
    forall api es idx, load_index sort (IFParsed api es) = LOk idx ->
    forall ds,
      match resolve cvalid sat (LOk idx) ds with
      | Some locks =>
          Forall2 (fun d v =>
                     cvalid (dconstraint d) = true /\
                     exists vs e, assoc (dname d) idx = Some vs /\ eversion e = v /\
                                  best_entry (sat (dconstraint d)) (filter has_urls vs) e)
                  ds locks
      | None =>
          exists d, In d ds /\
                    (cvalid (dconstraint d) = false \/ assoc (dname d) idx = None \/
                     exists vs, assoc (dname d) idx = Some vs /\
                                none_entry (sat (dconstraint d)) (filter has_urls vs))
      end.
Proof. exact resolve_thm. Qed.
Print Assumptions C18_resolve.

(* F3 (fixed by 161cdc1): with the old nil branch (`continue` without removal) a null element
   stays in the list and the sort's Less dereferences it — a panic; the repaired loop loads
   the same file. *)
Theorem C18_nil_entry_refuted :
  exists cvs, load_versions_prefix isort cvs = None /\
              exists vs, load_versions isort cvs = Some vs /\ List.length vs = 2.
Proof. exact nil_entry_refuted. Qed.
Print Assumptions C18_nil_entry_refuted.

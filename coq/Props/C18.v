(* C18 — property theorems only: each closed by [exact] of a lemma proved elsewhere. *)
From Coq Require Import List String NArith.
From Helm Require Import Misc.Semver Misc.SemverProofs.

(* Semantic-version precedence (the model of Version.Compare) is a total preorder on ALL
   versions and is antisymmetric up to build metadata / spelling. *)
Theorem C18_precedence_total_preorder :
  (forall a, vcompare a a = Eq) /\
  (forall a b c, vcompare a b <> Gt -> vcompare b c <> Gt -> vcompare a c <> Gt) /\
  (forall a b, vcompare a b <> Gt \/ vcompare b a <> Gt) /\
  (forall a b, vcompare b a = CompOpp (vcompare a b)) /\
  (forall a b, vcompare a b = Eq <-> vkey a = vkey b).
Proof. exact vcompare_total_preorder. Qed.
Print Assumptions C18_precedence_total_preorder.
